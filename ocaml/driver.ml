(* Correspondence driver: reads one case per line
     <suite> TAB <arg> TAB <arg> ...
   (byte-string arguments hex-encoded, "-" = empty, numbers decimal) and
   prints one canonical result line per case.  All semantics come from the
   extracted Coq model (module Model); this file only converts encodings. *)
open Model
type string = Stdlib.String.t

let rec pos_of_int (i : int) : positive =
  if i = 1 then XH
  else if i land 1 = 0 then XO (pos_of_int (i lsr 1))
  else XI (pos_of_int (i lsr 1))
let n_of_int (i : int) : n = if i = 0 then N0 else Npos (pos_of_int i)
let rec int_of_pos = function
  | XH -> 1
  | XO p -> 2 * int_of_pos p
  | XI p -> 2 * int_of_pos p + 1
let int_of_n = function N0 -> 0 | Npos p -> int_of_pos p
let rec nat_of_int i = if i <= 0 then O else S (nat_of_int (i - 1))
let rec int_of_nat = function O -> 0 | S n -> 1 + int_of_nat n

let byte_tab = Array.init 256 n_of_int

let hexval c =
  match c with
  | '0' .. '9' -> Char.code c - 48
  | 'a' .. 'f' -> Char.code c - 87
  | 'A' .. 'F' -> Char.code c - 55
  | _ -> failwith "bad hex"

(* hex string -> list n, built back to front (tail recursive) *)
let str_of_hex (h : string) : n list =
  if h = "-" then []
  else begin
    let len = String.length h / 2 in
    let acc = ref [] in
    for i = len - 1 downto 0 do
      let b = (hexval h.[2 * i] lsl 4) lor hexval h.[(2 * i) + 1] in
      acc := byte_tab.(b) :: !acc
    done;
    !acc
  end

let hex_of_str (s : n list) : string =
  match s with
  | [] -> "-"
  | _ ->
    let b = Buffer.create 64 in
    List.iter (fun c -> Buffer.add_string b (Printf.sprintf "%02x" (int_of_n c))) s;
    Buffer.contents b

let big_n_of_string (s : string) : n =
  (* decimal string of arbitrary size -> n, via the model's own dec_value *)
  dec_value (List.map (fun c -> byte_tab.(Char.code c)) (List.init (String.length s) (String.get s)))

let string_of_big_n (v : n) : string =
  String.concat "" (List.map (fun c -> String.make 1 (Char.chr (int_of_n c))) (dec v))

let split_tab s = String.split_on_char '\t' s

(* a list of byte strings is encoded as hex,hex,... ("" = empty list) *)
let strs_of_arg (a : string) : n list list =
  if a = "" || a = "." then [] else List.map str_of_hex (String.split_on_char ',' a)
let arg_of_strs (l : n list list) : string =
  match l with [] -> "." | _ -> String.concat "," (List.map hex_of_str l)

let run_case (fields : string list) : string =
  match fields with
  | "rule_id" :: _ :: s :: _ ->
    (match parse_rule_id parse_uint_bits (str_of_hex s) with
     | None -> "ERR"
     | Some r -> String.concat "\t" ["OK"; hex_of_str r.r_id; hex_of_str r.r_file; string_of_big_n r.r_chain])
  | "find_root" :: existing :: start :: _ ->
    (* existing: ';'-separated paths, each a ','-list of hex components *)
    let paths = if existing = "" || existing = "." then [] else
        List.map strs_of_arg (String.split_on_char ';' existing) in
    let has p = List.mem p paths in
    (match find_root has (strs_of_arg start) with
     | None -> "ERR"
     | Some p -> "OK\t" ^ arg_of_strs p)
  | "scan" :: limit :: b :: _ ->
    let (ls, e) = scan (big_n_of_string limit) (str_of_hex b) in
    (if e then "TOOLONG" else "OK") ^ "\t" ^ arg_of_strs ls
  | "renumber" :: _ :: id :: b :: _ ->
    "OK\t" ^ hex_of_str (process_yaml scan_limit_renumber_process_yaml (str_of_hex id) (str_of_hex b))
  | "copyright" :: _ :: v :: y :: b :: _ ->
    "OK\t" ^ hex_of_str (update_rules scan_limit_copyright_update_rules (str_of_hex v) (str_of_hex y) (str_of_hex b))
  | "pat" :: name :: l :: _ ->
    let line = str_of_hex l in
    let some1 = function None -> "NOMATCH" | Some a -> "MATCH\t" ^ hex_of_str a in
    let some2 = function None -> "NOMATCH" | Some (a, b) -> "MATCH\t" ^ hex_of_str a ^ "\t" ^ hex_of_str b in
    let some3 = function None -> "NOMATCH" | Some ((a, b), c) -> "MATCH\t" ^ hex_of_str a ^ "\t" ^ hex_of_str b ^ "\t" ^ hex_of_str c in
    let b0 = function false -> "NOMATCH" | true -> "MATCH" in
    (match name with
     | "include" -> some2 (m_include line)
     | "include_except" -> some3 (m_include_except line)
     | "definition" -> some3 (m_definition line)
     | "comment" -> b0 (m_comment line)
     | "flags" -> some1 (m_flags line)
     | "prefix" -> some1 (m_prefix line)
     | "suffix" -> some1 (m_suffix line)
     | "block_start" -> some2 (m_block_start line)
     | "block_end" -> b0 (m_block_end line)
     | "processor_start" -> some2 (m_processor_start line)
     | "assemble_input" -> some1 (m_assemble_input line)
     | "assemble_output" -> some1 (m_assemble_output line)
     | _ -> "UNKNOWN-PATTERN")
  | "process_line" :: l :: indent :: _ ->
    (match process_line (str_of_hex l) (nat_of_int (int_of_string indent)) with
     | (Some o, i) -> "OK\t" ^ hex_of_str o ^ "\t" ^ string_of_int (int_of_nat i)
     | (None, i) -> "ERR\t" ^ string_of_int (int_of_nat i))
  | "format_bytes" :: b :: _ ->
    let fwd = all_pnames and bwd = List.rev all_pnames in
    let run o = format_bytes2 (fun _ -> o) scan_limit_parser_parse scan_limit_format_process_file (str_of_hex b) in
    let show = function Ok o -> "OK\t" ^ hex_of_str o | Err _ -> "ERR" | Crash _ -> "CRASH" in
    let a = show (run fwd) and c = show (run bwd) in
    if a = c then a else "ORDER-DEPENDENT\t" ^ a ^ "\x1f" ^ c
  | "update" :: c :: id :: k :: nw :: _ ->
    (match update_contents (str_of_hex c) (str_of_hex id) (n_of_int (int_of_string k)) (str_of_hex nw) with
     | Ok o -> "OK\t" ^ hex_of_str o | Err _ -> "ERR" | Crash _ -> "CRASH")
  | "read_current" :: c :: id :: k :: gen :: _ ->
    (match read_current (str_of_hex c) (str_of_hex id) (n_of_int (int_of_string k)) with
     | Ok o -> if unchanged o (str_of_hex gen) then "UNCHANGED" else "CHANGED"
     | Err _ -> "ERR" | Crash _ -> "CRASH")
  | s :: _ -> "UNKNOWN-SUITE " ^ s
  | [] -> "EMPTY"

let () =
  let ic = if Array.length Sys.argv > 1 then open_in Sys.argv.(1) else stdin in
  (try
     while true do
       let line = input_line ic in
       let out = (try run_case (split_tab line) with
           | Stack_overflow -> "MODEL-STACK-OVERFLOW"
           | Failure m -> "MODEL-FAILURE " ^ m) in
       print_string out; print_char '\n'
     done
   with End_of_file -> ());
  flush stdout
