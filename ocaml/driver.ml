(* Correspondence driver: reads one case per line
     <suite> TAB <arg> TAB <arg> ...
   (byte-string arguments hex-encoded, "-" = empty, numbers decimal) and
   prints one canonical result line per case.  All semantics come from the
   extracted Coq model (module Model); this file only converts encodings. *)
open Model
type string = Stdlib.String.t

let rec pos_of_int (i : int) : positive =
  if i = 1 then XH
  else if i land 1 = 0 then XO (pos_of_int (i lsr 1))
  else XI (pos_of_int (i lsr 1))
let n_of_int (i : int) : n = if i = 0 then N0 else Npos (pos_of_int i)
let rec int_of_pos = function
  | XH -> 1
  | XO p -> 2 * int_of_pos p
  | XI p -> 2 * int_of_pos p + 1
let int_of_n = function N0 -> 0 | Npos p -> int_of_pos p
let rec nat_of_int i = if i <= 0 then O else S (nat_of_int (i - 1))
let rec int_of_nat = function O -> 0 | S n -> 1 + int_of_nat n

let byte_tab = Array.init 256 n_of_int

let hexval c =
  match c with
  | '0' .. '9' -> Char.code c - 48
  | 'a' .. 'f' -> Char.code c - 87
  | 'A' .. 'F' -> Char.code c - 55
  | _ -> failwith "bad hex"

(* hex string -> list n, built back to front (tail recursive) *)
let str_of_hex (h : string) : n list =
  if h = "-" then []
  else begin
    let len = String.length h / 2 in
    let acc = ref [] in
    for i = len - 1 downto 0 do
      let b = (hexval h.[2 * i] lsl 4) lor hexval h.[(2 * i) + 1] in
      acc := byte_tab.(b) :: !acc
    done;
    !acc
  end

let hex_of_str (s : n list) : string =
  match s with
  | [] -> "-"
  | _ ->
    let b = Buffer.create 64 in
    List.iter (fun c -> Buffer.add_string b (Printf.sprintf "%02x" (int_of_n c))) s;
    Buffer.contents b

let big_n_of_string (s : string) : n =
  (* decimal string of arbitrary size -> n, via the model's own dec_value *)
  dec_value (List.map (fun c -> byte_tab.(Char.code c)) (List.init (String.length s) (String.get s)))

let string_of_big_n (v : n) : string =
  String.concat "" (List.map (fun c -> String.make 1 (Char.chr (int_of_n c))) (dec v))

let split_tab s = String.split_on_char '\t' s

(* a list of byte strings is encoded as hex,hex,... ("" = empty list) *)
let strs_of_arg (a : string) : n list list =
  if a = "" || a = "." then [] else List.map str_of_hex (String.split_on_char ',' a)
let arg_of_strs (l : n list list) : string =
  match l with [] -> "." | _ -> String.concat "," (List.map hex_of_str l)


(* ---------- rassemble.Join oracle: a long-lived helper process (vh joinsrv) ---------- *)
let join_proc = lazy (
  let cmd = (try Sys.getenv "VERIF_JOINSRV" with Not_found -> "/verif/build/vh") ^ " joinsrv" in
  Unix.open_process cmd)
let join_memo : (string, n list option) Hashtbl.t = Hashtbl.create 1024
let join_calls = ref 0
let join (ls : n list list) : n list option =
  let key = arg_of_strs ls in
  match Hashtbl.find_opt join_memo key with
  | Some r -> r
  | None ->
    incr join_calls;
    let (ic, oc) = Lazy.force join_proc in
    output_string oc key; output_char oc '\n'; flush oc;
    let l = input_line ic in
    let r = if String.length l >= 3 && String.sub l 0 3 = "OK\t" then Some (str_of_hex (String.sub l 3 (String.length l - 3))) else None in
    Hashtbl.replace join_memo key r; r

(* ---------- encodings of the larger arguments ---------- *)
(* association list: k=v,k=v (hex); "." = empty *)
let smap_of_arg (a : string) : (n list * n list) list =
  if a = "" || a = "." then [] else
    List.map (fun kv -> match String.split_on_char '=' kv with
        | [k; v] -> (str_of_hex k, str_of_hex v)
        | _ -> failwith "bad smap") (String.split_on_char ',' a)
let arg_of_smap (m : (n list * n list) list) : string =
  match m with [] -> "." | _ -> String.concat "," (List.map (fun (k, v) -> hex_of_str k ^ "=" ^ hex_of_str v) m)

(* files: d:name:content;...  with d in i/e/a *)
let fsys_of_arg (a : string) : fsys =
  let entries = if a = "" || a = "." then [] else String.split_on_char ';' a in
  let pick d = List.filter_map (fun e -> match String.split_on_char ':' e with
      | [d'; nm; c] when d' = d -> Some (str_of_hex nm, str_of_hex c)
      | _ -> None) entries in
  { fs_include = pick "i"; fs_exclude = pick "e"; fs_abs = pick "a" }

let config_of_args evu evw sfu sfw nsu nsw : config =
  trim_config { cf_ev_unix = str_of_hex evu; cf_ev_windows = str_of_hex evw; cf_suf_unix = str_of_hex sfu;
                cf_suf_windows = str_of_hex sfw; cf_ns_unix = str_of_hex nsu; cf_ns_windows = str_of_hex nsw }

let rec permutations = function
  | [] -> [[]]
  | l -> List.concat (List.mapi (fun i x ->
      let rest = List.filteri (fun j _ -> j <> i) l in
      List.map (fun p -> x :: p) (permutations rest)) l)

let distinct (l : string list) : string list =
  List.fold_left (fun acc x -> if List.mem x acc then acc else acc @ [x]) [] l
let alternatives (l : string list) : string =
  match distinct l with
  | [x] -> x
  | xs -> "ORDER-DEPENDENT\t" ^ String.concat "\x1f" xs

let show_outcome_str = function Ok o -> "OK\t" ^ hex_of_str o | Err c -> "ERR\t" ^ string_of_int (int_of_n c) | Crash _ -> "CRASH"
let show_outcome_class = function Ok o -> "OK\t" ^ hex_of_str o | Err _ -> "ERR" | Crash _ -> "CRASH"

(* the four iteration-order strategies tried for whole-pipeline cases *)
let strategies =
  let idf x = x and revf x = List.rev x in
  [ (all_pnames, idf, idf, idf); (List.rev all_pnames, revf, revf, revf); (all_pnames, revf, idf, idf); (List.rev all_pnames, idf, revf, revf);
    (all_pnames, idf, revf, idf); (all_pnames, revf, revf, idf) ]

(* ---------- regular expressions for the equivalence oracle ---------- *)
(* prefix form, space separated: e v b z | c K lo hi ... | k A B | a A B | s A *)
let re_of_arg (a : string) : re =
  let toks = ref (List.filter (fun t -> t <> "") (String.split_on_char ' ' a)) in
  let next () = match !toks with t :: r -> toks := r; t | [] -> failwith "re: truncated" in
  let rec go () =
    match next () with
    | "e" -> Eps | "v" -> Void | "b" -> Bol | "z" -> Eol
    | "c" ->
      let k = int_of_string (next ()) in
      let rs = List.init k (fun _ -> let lo = n_of_int (int_of_string (next ())) in let hi = n_of_int (int_of_string (next ())) in (lo, hi)) in
      Cls rs
    | "k" -> let x = go () in let y = go () in Cat (x, y)
    | "a" -> let x = go () in let y = go () in Alt (x, y)
    | "s" -> Star (go ())
    | t -> failwith ("re: bad token " ^ t) in
  go ()
let show_word (w : n list) = match w with [] -> "-" | _ -> String.concat "," (List.map (fun c -> string_of_int (int_of_n c)) w)
let show_verdict = function
  | Holds v -> "HOLDS\t" ^ string_of_int (List.length v)
  | Differs (s, w) -> "DIFFERS\t" ^ (if s then "start" else "mid") ^ "\t" ^ show_word w
  | OutOfFuel -> "FUEL"


(* trees: comp/comp=content;...  (hex), in WalkDir order *)
let tree_of_arg (a : string) : (n list list * n list) list =
  if a = "" || a = "." then [] else
    List.map (fun e -> match String.split_on_char '=' e with
        | [p; c] -> (List.map str_of_hex (String.split_on_char '/' p), str_of_hex c)
        | _ -> failwith "bad tree entry") (String.split_on_char ';' a)
let show_path (p : n list list) = String.concat "/" (List.map hex_of_str p)
(* the files whose contents differ from the original tree *)
let tree_changes (t0 : (n list list * n list) list) (t1 : (n list list * n list) list) : string =
  let ch = List.filter_map (fun (p, c) ->
      match List.assoc_opt p t0 with
      | Some c0 when c0 = c -> None
      | _ -> Some (show_path p ^ "=" ^ hex_of_str c)) t1 in
  let created = List.length t1 - List.length t0 in
  (match ch with [] -> "." | _ -> String.concat ";" ch) ^ (if created <> 0 then "\tKEYS-CHANGED" else "")
let show_status = function Success -> "SUCCESS" | Fail -> "FAIL"

let run_case (fields : string list) : string =
  match fields with
  | "rule_id" :: _ :: s :: _ ->
    (match parse_rule_id parse_uint_bits (str_of_hex s) with
     | None -> "ERR"
     | Some r -> String.concat "\t" ["OK"; hex_of_str r.r_id; hex_of_str r.r_file; string_of_big_n r.r_chain])
  | "find_root" :: existing :: start :: _ ->
    (* existing: ';'-separated paths, each a ','-list of hex components *)
    let paths = if existing = "" || existing = "." then [] else
        List.map strs_of_arg (String.split_on_char ';' existing) in
    let has p = List.mem p paths in
    (match find_root has (strs_of_arg start) with
     | None -> "ERR"
     | Some p -> "OK\t" ^ arg_of_strs p)
  | "scan" :: limit :: b :: _ ->
    let (ls, e) = scan (big_n_of_string limit) (str_of_hex b) in
    (if e then "TOOLONG" else "OK") ^ "\t" ^ arg_of_strs ls
  | "renumber" :: _ :: id :: b :: _ ->
    "OK\t" ^ hex_of_str (process_yaml scan_limit_renumber_process_yaml (str_of_hex id) (str_of_hex b))
  | "copyright" :: _ :: v :: y :: b :: _ ->
    "OK\t" ^ hex_of_str (update_rules scan_limit_copyright_update_rules (str_of_hex v) (str_of_hex y) (str_of_hex b))
  | "pat" :: name :: l :: _ ->
    let line = str_of_hex l in
    let some1 = function None -> "NOMATCH" | Some a -> "MATCH\t" ^ hex_of_str a in
    let some2 = function None -> "NOMATCH" | Some (a, b) -> "MATCH\t" ^ hex_of_str a ^ "\t" ^ hex_of_str b in
    let some3 = function None -> "NOMATCH" | Some ((a, b), c) -> "MATCH\t" ^ hex_of_str a ^ "\t" ^ hex_of_str b ^ "\t" ^ hex_of_str c in
    let b0 = function false -> "NOMATCH" | true -> "MATCH" in
    (match name with
     | "include" -> some2 (m_include line)
     | "include_except" -> some3 (m_include_except line)
     | "definition" -> some3 (m_definition line)
     | "comment" -> b0 (m_comment line)
     | "flags" -> some1 (m_flags line)
     | "prefix" -> some1 (m_prefix line)
     | "suffix" -> some1 (m_suffix line)
     | "block_start" -> some2 (m_block_start line)
     | "block_end" -> b0 (m_block_end line)
     | "processor_start" -> some2 (m_processor_start line)
     | "assemble_input" -> some1 (m_assemble_input line)
     | "assemble_output" -> some1 (m_assemble_output line)
     | _ -> "UNKNOWN-PATTERN")
  | "process_line" :: l :: indent :: _ ->
    (match process_line (str_of_hex l) (nat_of_int (int_of_string indent)) with
     | (Some o, i) -> "OK\t" ^ hex_of_str o ^ "\t" ^ string_of_int (int_of_nat i)
     | (None, i) -> "ERR\t" ^ string_of_int (int_of_nat i))
  | "format_bytes" :: b :: _ ->
    let fwd = all_pnames and bwd = List.rev all_pnames in
    let run o = format_bytes2 (fun _ -> o) scan_limit_parser_parse scan_limit_format_process_file (str_of_hex b) in
    let show = function Ok o -> "OK\t" ^ hex_of_str o | Err _ -> "ERR" | Crash _ -> "CRASH" in
    let a = show (run fwd) and c = show (run bwd) in
    if a = c then a else "ORDER-DEPENDENT\t" ^ a ^ "\x1f" ^ c
  | "update" :: c :: id :: k :: nw :: _ ->
    (match update_contents (str_of_hex c) (str_of_hex id) (n_of_int (int_of_string k)) (str_of_hex nw) with
     | Ok o -> "OK\t" ^ hex_of_str o | Err _ -> "ERR" | Crash _ -> "CRASH")
  | "read_current" :: c :: id :: k :: gen :: _ ->
    (match read_current (str_of_hex c) (str_of_hex id) (n_of_int (int_of_string k)) with
     | Ok o -> if unchanged o (str_of_hex gen) then "UNCHANGED" else "CHANGED"
     | Err _ -> "ERR" | Crash _ -> "CRASH")
  | "pass" :: name :: inp :: rest ->
    let i = str_of_hex inp in
    let nat k = nat_of_int (int_of_string (List.nth rest k)) in
    (match name with
     | "escape_dq" -> "OK\t" ^ hex_of_str (escape_doublequotes i)
     | "hex_bs" -> "OK\t" ^ hex_of_str (use_hex_backslashes i)
     | "include_vt" -> "OK\t" ^ hex_of_str (include_vt i)
     | "hex_escapes" -> "OK\t" ^ hex_of_str (use_hex_escapes i)
     | "dont_use_flags" -> show_outcome_class (dont_use_flags i)
     | "remove_outermost" -> show_outcome_class (remove_outermost i)
     | "final_passes" -> show_outcome_class (final_passes i)
     | "is_escaped" -> if is_escaped i (nat 0) then "true" else "false"
     | "find_group_body_end" ->
       (match find_group_body_end i (nat 0) with
        | Ok (idx, a) -> "OK\t" ^ string_of_int (int_of_nat idx - 2) ^ "\t" ^ (if a then "true" else "false")
        | Err _ -> "ERR" | Crash _ -> "CRASH")
     | "remove_group" -> show_outcome_class (remove_group i (nat 0) (nat 1) (List.nth rest 2 = "true"))
     | _ -> "UNKNOWN-PASS")
  | "regexp_str" :: ev :: sf :: ns :: inp :: _ ->
    let e = { ev_pattern = str_of_hex ev; ev_suffix = str_of_hex sf; ev_nospace_suffix = str_of_hex ns } in
    "OK\t" ^ hex_of_str (regexp_str e (str_of_hex inp))
  | "compute_suffix" :: ev :: sf :: ns :: inp :: _ ->
    let e = { ev_pattern = str_of_hex ev; ev_suffix = str_of_hex sf; ev_nospace_suffix = str_of_hex ns } in
    let (a, b) = compute_suffix e (str_of_hex inp) in
    "OK\t" ^ hex_of_str a ^ "\t" ^ hex_of_str b
  | "expand_defs" :: vars :: src :: rest ->
    let m = smap_of_arg vars and s = str_of_hex src in
    let keys = List.map fst m in
    let orders = if List.length keys <= 4 then permutations keys else [keys; List.rev keys] in
    let res = alternatives (List.concat_map (fun o1 -> List.map (fun o2 ->
        "OK\t" ^ hex_of_str (fst (expand_definitions o1 o2 m s))) orders) orders) in
    (* bridge to the token model (the theorem C07_expansion_is_full_substitution is about it): on
       inputs the generator built acyclic and brace-safe, text model and token model must agree *)
    (match rest with
     | "safe" :: _ ->
       let names = List.map fst m in
       let tk = detok (tok_expand keys keys (tokdefs m) (tokenize names s)) in
       if res = "OK\t" ^ hex_of_str tk then res else "TOKEN-MODEL-DISAGREES\t" ^ hex_of_str tk ^ "\t" ^ res
     | _ -> res)
  | "replace_suffixes" :: pairs :: content :: _ ->
    let c = str_of_hex content in
    if pairs = "nil" then "OK\t" ^ hex_of_str (replace_suffixes (fun x -> x) scan_limit_replace_suffixes c None)
    else begin
      let m = smap_of_arg pairs in
      let perms = if List.length m <= 4 then permutations m else [m; List.rev m] in
      alternatives (List.map (fun p -> "OK\t" ^ hex_of_str (replace_suffixes (fun _ -> p) scan_limit_replace_suffixes c (Some m))) perms)
    end
  | "parse" :: fs :: contents :: _ ->
    let f = fsys_of_arg fs and c = str_of_hex contents in
    alternatives (List.map (fun (op, os, os2, oi) ->
        match parse_only op os os2 oi scan_limit_parser_parse f c with
        | Ok r -> String.concat "\t" ["OK"; hex_of_str r.r_dest; (if r.r_flag_i then "i" else "") ^ (if r.r_flag_s then "s" else "") ^ "."; arg_of_strs r.r_prefixes; arg_of_strs r.r_suffixes]
        | Err _ -> "ERR" | Crash _ -> "CRASH") strategies)
  | "generate" :: evu :: evw :: sfu :: sfw :: nsu :: nsw :: fs :: contents :: _ ->
    let cfg = config_of_args evu evw sfu sfw nsu nsw in
    let f = fsys_of_arg fs and c = str_of_hex contents in
    alternatives (List.map (fun (op, os, os2, oi) ->
        show_outcome_class (generate join cfg op os os2 oi scan_limit_parser_parse scan_limit_assembler_assemble f c)) strategies)
  | "plain_tree" :: evu :: evw :: sfu :: sfw :: nsu :: nsw :: nonseq :: buffer :: _ ->
    let cfg = config_of_args evu evw sfu sfw nsu nsw in
    let rec show (t : ptree) : string =
      match t with
      | PT_line l -> "L" ^ hex_of_str l
      | PT_word (ev, l) -> "W" ^ hex_of_str ev.ev_pattern ^ ":" ^ hex_of_str l
      | PT_alt xs -> "A" ^ string_of_int (List.length xs) ^ "(" ^ String.concat "," (List.map show xs) ^ ")"
      | PT_cat (a, b) -> "K(" ^ show a ^ "," ^ show b ^ ")" in
    (match plain_tree (strs_of_arg nonseq) cfg scan_limit_assembler_assemble (str_of_hex buffer) with
     | None -> "UNDEF"
     | Some None -> "NOTHING"
     | Some (Some t) -> show t)
  | "equiv" :: excl :: fuel :: r1 :: r2 :: _ ->
    let ex = if excl = "." then [] else List.map (fun t -> n_of_int (int_of_string t)) (String.split_on_char ',' excl) in
    show_verdict (equivalent ex (nat_of_int (int_of_string fuel)) (re_of_arg r1) (re_of_arg r2))
  | "incl" :: excl :: fuel :: r1 :: r2 :: _ ->
    let ex = if excl = "." then [] else List.map (fun t -> n_of_int (int_of_string t)) (String.split_on_char ',' excl) in
    show_verdict (included ex (nat_of_int (int_of_string fuel)) (re_of_arg r1) (re_of_arg r2))
  | "cli" :: cmd :: evu :: evw :: sfu :: sfw :: nsu :: nsw :: a1 :: a2 :: tr :: _ ->
    let cfg = config_of_args evu evw sfu sfw nsu nsw in
    let t = tree_of_arg tr in
    (match cmd with
     | "update_all" -> let (t', st) = cli_update_all join cfg t in show_status st ^ "\t" ^ tree_changes t t'
     | "update_one" -> let (t', st) = cli_update_one join cfg t (str_of_hex a1) in show_status st ^ "\t" ^ tree_changes t t'
     | "format_all" -> let (t', st) = cli_format_all t in show_status st ^ "\t" ^ tree_changes t t'
     | "format_one" -> let (t', st) = cli_format_one t (str_of_hex a1) in show_status st ^ "\t" ^ tree_changes t t'
     | "format_check_all" -> show_status (cli_format_check_all t) ^ "\t."
     | "renumber_all" -> let t' = cli_renumber_all t in "SUCCESS\t" ^ tree_changes t t'
     | "renumber_check_all" -> show_status (cli_renumber_check_all t) ^ "\t."
     | "copyright" -> let t' = cli_copyright_all (str_of_hex a1) (str_of_hex a2) t in "SUCCESS\t" ^ tree_changes t t'
     | "compare_all" ->
       let v = cli_compare_all join cfg t in
       show_status (compare_all_status (a1 = "github") v) ^ "\t" ^
       (match v with Ok vs -> String.concat "" (List.map (fun b -> if b then "u" else "c") vs) ^ "." | _ -> "ERR")
     | "format_target" -> "OK\t" ^ show_path (format_target parse_uint_bits (str_of_hex a1))
     | _ -> "UNKNOWN-CLI")
  | "self_update" :: cur :: rels :: hashes :: payloads :: _ ->
    let optn s = if s = "-" then None else Some (n_of_int (int_of_string s)) in
    let rel_of e = match String.split_on_char '|' e with
      | [v; d; p; an; ab; sums] ->
        { r_ver = optn v; r_draft = (d = "1"); r_pre = (p = "1");
          r_asset = (if an = "-" then None else Some (str_of_hex an, (if ab = "FAIL" then None else Some (str_of_hex ab))));
          r_sums = (if sums = "-" then None else Some (if sums = "FAIL" then None else Some (str_of_hex sums))) }
      | _ -> failwith "bad release" in
    let rl = if rels = "LISTFAIL" then None else Some (if rels = "." then [] else List.map rel_of (String.split_on_char ';' rels)) in
    let exe = str_of_hex "4f4c44" in
    (match self_update_ranked self_update_validates (smap_of_arg hashes) (smap_of_arg payloads) (optn cur) exe rl with
     | (Installed _, e) -> "INSTALLED\t" ^ hex_of_str e
     | (_, e) -> if e = exe then "UNTOUCHED" else "MODEL-INCONSISTENT")
  | s :: _ -> "UNKNOWN-SUITE " ^ s
  | [] -> "EMPTY"

let () =
  let ic = if Array.length Sys.argv > 1 then open_in Sys.argv.(1) else stdin in
  (try
     while true do
       let line = input_line ic in
       let out = (try run_case (split_tab line) with
           | Stack_overflow -> "MODEL-STACK-OVERFLOW"
           | Failure m -> "MODEL-FAILURE " ^ m) in
       print_string out; print_char '\n'
     done
   with End_of_file -> ());
  flush stdout
