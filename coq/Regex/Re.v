(* Regular expressions over code points with begin/end-of-text assertions,
   their declarative semantics with one bit of context on either side, and
   Brzozowski derivatives.  Used as the language-equivalence oracle
   (C01, C04-C07): Regex/Equiv.v decides, Proofs/EquivSound.v proves the
   decision sound for all subject strings. *)
From Verif Require Import Base.Str.
Open Scope N_scope.

Inductive re :=
| Eps | Void
| Bol                      (* \A, and ^ without the m flag *)
| Eol                      (* \z, and $ without the m flag *)
| Cls (rs : list (N * N))  (* union of inclusive ranges *)
| Cat (a b : re)
| Alt (a b : re)
| Star (a : re).

Definition in_range (c : N) (r : N * N) : bool := (fst r <=? c) && (c <=? snd r).
Definition in_cls (c : N) (rs : list (N * N)) : bool := existsb (in_range c) rs.

Definition is_nil {A} (l : list A) : bool := match l with [] => true | _ => false end.

(* M r s w e: r matches exactly w, where s = "w starts at the start of the
   text" and e = "w ends at the end of the text" *)
Inductive M : re -> bool -> list N -> bool -> Prop :=
| MEps s e : M Eps s [] e
| MBol e : M Bol true [] e
| MEol s : M Eol s [] true
| MCls rs c s e : in_cls c rs = true -> M (Cls rs) s [c] e
| MCat a b s w1 w2 e :
    M a s w1 (e && is_nil w2) -> M b (s && is_nil w1) w2 e -> M (Cat a b) s (w1 ++ w2) e
| MAltL a b s w e : M a s w e -> M (Alt a b) s w e
| MAltR a b s w e : M b s w e -> M (Alt a b) s w e
| MStar0 a s e : M (Star a) s [] e
| MStarS a s w1 w2 e :
    w1 <> [] -> M a s w1 (e && is_nil w2) -> M (Star a) false w2 e -> M (Star a) s (w1 ++ w2) e.

(* matches the empty string in context (s, e) *)
Fixpoint null (r : re) (s e : bool) : bool :=
  match r with
  | Eps => true
  | Void => false
  | Bol => s
  | Eol => e
  | Cls _ => false
  | Cat a b => null a s e && null b s e
  | Alt a b => null a s e || null b s e
  | Star _ => true
  end.

(* derivative by c when the left context is s (afterwards it is false) *)
Fixpoint deriv (c : N) (r : re) (s : bool) : re :=
  match r with
  | Eps | Void | Bol | Eol => Void
  | Cls rs => if in_cls c rs then Eps else Void
  | Cat a b => Alt (Cat (deriv c a s) b) (if null a s false then deriv c b s else Void)
  | Alt a b => Alt (deriv c a s) (deriv c b s)
  | Star a => Cat (deriv c a s) (Star a)
  end.

(* ---------- syntactic equality ---------- *)
Fixpoint ranges_eqb (a b : list (N * N)) : bool :=
  match a, b with
  | [], [] => true
  | (l1, h1) :: a', (l2, h2) :: b' => (l1 =? l2) && (h1 =? h2) && ranges_eqb a' b'
  | _, _ => false
  end.

Fixpoint re_eqb (x y : re) : bool :=
  match x, y with
  | Eps, Eps | Void, Void | Bol, Bol | Eol, Eol => true
  | Cls r1, Cls r2 => ranges_eqb r1 r2
  | Cat a b, Cat c d => re_eqb a c && re_eqb b d
  | Alt a b, Alt c d => re_eqb a c && re_eqb b d
  | Star a, Star b => re_eqb a b
  | _, _ => false
  end.

(* ---------- similarity normalisation (keeps the set of derivatives finite) ---------- *)
(* alternatives as a duplicate-free list without Void *)
Fixpoint alts (r : re) : list re :=
  match r with
  | Alt a b => alts a ++ alts b
  | Void => []
  | _ => [r]
  end.
Fixpoint mem_re (x : re) (l : list re) : bool :=
  match l with [] => false | y :: l' => re_eqb x y || mem_re x l' end.
Fixpoint dedup (l : list re) (seen : list re) : list re :=
  match l with
  | [] => []
  | x :: l' => if mem_re x seen then dedup l' seen else x :: dedup l' (x :: seen)
  end.
Fixpoint alt_of (l : list re) : re :=
  match l with
  | [] => Void
  | [x] => x
  | x :: l' => Alt x (alt_of l')
  end.
Definition mk_cat (a b : re) : re :=
  match a, b with
  | Void, _ => Void
  | _, Void => Void
  | Eps, _ => b
  | _, Eps => a
  | _, _ => Cat a b
  end.
Fixpoint norm (r : re) : re :=
  match r with
  | Cat a b => mk_cat (norm a) (norm b)
  | Alt a b => alt_of (dedup (alts (Alt (norm a) (norm b))) [])
  | Star a => match norm a with Void => Eps | Eps => Eps | a' => Star a' end
  | _ => r
  end.
Definition nderiv (c : N) (r : re) (s : bool) : re := norm (deriv c r s).
