(* Decision procedure for language equivalence / inclusion of two [re]:
   an untrusted exploration builds a candidate bisimulation, a small boolean
   function [closed] verifies it; only [closed] is proved (EquivSound.v). *)
From Verif Require Import Base.Str Regex.Re.
Open Scope N_scope.

(* all ranges of a regex *)
Fixpoint ranges_of (r : re) : list (N * N) :=
  match r with
  | Cls rs => rs
  | Cat a b | Alt a b => ranges_of a ++ ranges_of b
  | Star a => ranges_of a
  | _ => []
  end.

(* boundary points: 0, every lo and hi+1, and x, x+1 for every excluded x.
   Two characters between the same consecutive boundaries are in exactly the
   same ranges, so one representative per boundary suffices. *)
Definition boundaries (rs : list (N * N)) (excluded : list N) : list N :=
  0 :: flat_map (fun r => [fst r; snd r + 1]) rs ++ flat_map (fun x => [x; x + 1]) excluded.

Definition memN (x : N) (l : list N) : bool := existsb (N.eqb x) l.

Definition reps (rs : list (N * N)) (excluded : list N) : list N :=
  nodup N.eq_dec (filter (fun c => negb (memN c excluded)) (boundaries rs excluded)).

(* a state: left context, and the two regexes *)
Definition state := (bool * re * re)%type.
Definition state_eqb (x y : state) : bool :=
  let '(s1, a1, b1) := x in let '(s2, a2, b2) := y in
  Bool.eqb s1 s2 && re_eqb a1 a2 && re_eqb b1 b2.
Definition mem_state (x : state) (l : list state) : bool := existsb (state_eqb x) l.

(* the acceptance condition relating the two sides: eqb for equivalence,
   implb for inclusion of the first in the second *)
Definition accept_ok (P : bool -> bool -> bool) (st : state) : bool :=
  let '(s, a, b) := st in
  P (null a s true) (null b s true) && P (null a s false) (null b s false).

Definition successors (rp : list N) (st : state) : list state :=
  let '(s, a, b) := st in map (fun c => (false, nderiv c a s, nderiv c b s)) rp.

(* every range of r occurs in rs (derivatives never create ranges, so this holds for
   everything the exploration reaches; checked, not assumed) *)
Definition range_eqb (x y : N * N) : bool := (fst x =? fst y) && (snd x =? snd y).
Definition ranges_within (rs : list (N * N)) (r : re) : bool :=
  forallb (fun x => existsb (range_eqb x) rs) (ranges_of r).

(* the verified part: V is closed under successors, accepting everywhere, and mentions
   only ranges of rs (so that [reps rs excluded] has a representative of every class) *)
Definition closed (P : bool -> bool -> bool) (rs : list (N * N)) (excluded : list N) (V : list state) : bool :=
  let rp := reps rs excluded in
  forallb (fun st =>
    let '(s, a, b) := st in
    ranges_within rs a && ranges_within rs b && accept_ok P st &&
    forallb (fun st' => mem_state st' V) (successors rp st)) V.

(* ---------- untrusted exploration with witness paths ---------- *)
Inductive verdict :=
| Holds (V : list state)
| Differs (at_start : bool) (w : list N)     (* distinguishing string (reversed path) *)
| OutOfFuel.

(* successor states of st that are new (not in V, not repeated) with their witness paths *)
Fixpoint new_successors (rp : list N) (s : bool) (a b : re) (st0 : bool) (path : list N)
         (V : list state) (acc : list (state * (bool * list N))) : list (state * (bool * list N)) :=
  match rp with
  | [] => acc
  | c :: rp' =>
    let st' := (false, nderiv c a s, nderiv c b s) in
    if mem_state st' V || existsb (fun x => state_eqb st' (fst x)) acc
    then new_successors rp' s a b st0 path V acc
    else new_successors rp' s a b st0 path V ((st', (st0, c :: path)) :: acc)
  end.

Fixpoint explore (P : bool -> bool -> bool) (rp : list N) (fuel : nat)
         (todo : list (state * (bool * list N))) (V : list state) : verdict :=
  match fuel with
  | O => match todo with [] => Holds V | _ => OutOfFuel end
  | S f =>
    match todo with
    | [] => Holds V
    | (st, (st0, path)) :: todo' =>
      if mem_state st V then explore P rp f todo' V
      else if negb (accept_ok P st) then Differs st0 (rv path)
      else
        let '(s, a, b) := st in
        explore P rp f (new_successors rp s a b st0 path (st :: V) [] ++ todo') (st :: V)
    end
  end.

Definition check (P : bool -> bool -> bool) (excluded : list N) (fuel : nat) (r1 r2 : re) : verdict :=
  let a := norm r1 in
  let b := norm r2 in
  let rs := ranges_of a ++ ranges_of b in
  let rp := reps rs excluded in
  match explore P rp fuel [((true, a, b), (true, [])); ((false, a, b), (false, []))] [] with
  | Holds V =>
    if closed P rs excluded V && mem_state (true, a, b) V && mem_state (false, a, b) V then Holds V else OutOfFuel
  | v => v
  end.

Definition equivalent (excluded : list N) (fuel : nat) (r1 r2 : re) : verdict := check Bool.eqb excluded fuel r1 r2.
Definition included (excluded : list N) (fuel : nat) (r1 r2 : re) : verdict := check implb excluded fuel r1 r2.
