(* Extraction of the executable models for the correspondence driver.
   Only ExtrOcamlBasic: bool/option/list/prod/unit/sumbool map to OCaml's,
   [N], [positive], [nat] stay Coq datatypes.  No Extract Constant /
   Extract Inductive of our own. *)
Require Extraction.
Require Import ExtrOcamlBasic.
From Verif Require Import Base.Str Base.Lines Base.Outcome.
From Verif Require Import Model.RuleId Model.Root Model.Renumber Model.Copyright.
From Verif Require Import Gen.Consts.
Extraction Language OCaml.
Extraction "model.ml"
  Str.dec Str.hex Str.dec_value
  Lines.scan Lines.unlines
  RuleId.parse_rule_id RuleId.match_rule_id_file_name
  Root.find_root
  Renumber.process_yaml Renumber.renumber_file
  Copyright.update_rules
  Consts.parse_uint_bits Consts.max_scan_token_size Consts.standard_header.
