(* Extraction of the executable models for the correspondence driver.
   Only ExtrOcamlBasic: bool/option/list/prod/unit/sumbool map to OCaml's,
   [N], [positive], [nat] stay Coq datatypes.  No Extract Constant /
   Extract Inductive of our own. *)
Require Extraction.
Require Import ExtrOcamlBasic.
From Verif Require Import Base.Str Base.Lines Base.Outcome.
From Verif Require Import Model.RuleId Model.Root Model.Renumber Model.Copyright Model.Patterns Model.ParseLine Model.Format Model.Update.
From Verif Require Import Model.Passes Model.CmdLine Model.Parser Model.Assembler Model.Generate Model.PlainReading Model.PlainTree Model.Cli Model.CliInst Model.SelfUpdate Model.DefsTok Regex.Re Regex.Equiv.
From Verif Require Import Gen.Consts.
Extraction Language OCaml.
Extraction "model.ml"
  Str.dec Str.hex Str.dec_value
  Lines.scan Lines.unlines
  RuleId.parse_rule_id RuleId.match_rule_id_file_name
  Root.find_root
  Renumber.process_yaml Renumber.renumber_file
  Copyright.update_rules
  Patterns.m_include Patterns.m_include_except Patterns.m_definition Patterns.m_comment Patterns.m_flags Patterns.m_prefix Patterns.m_suffix
  Patterns.m_block_start Patterns.m_block_end Patterns.m_processor_start Patterns.m_assemble_input Patterns.m_assemble_output Patterns.ref_here
  ParseLine.parse_line ParseLine.all_pnames ParseLine.build_pair_map ParseLine.split_args
  Format.process_line Format.format_bytes Format.format_bytes2 Format.layout Format.format_eof Format.check_header
  Update.update_contents Update.read_current Update.unchanged Update.rx_match Update.locate
  Passes.is_escaped Passes.escape_doublequotes Passes.use_hex_backslashes Passes.include_vt Passes.use_hex_escapes
  Passes.find_group_body_end Passes.remove_group Passes.dont_use_flags Passes.remove_outermost Passes.final_passes
  CmdLine.regexp_str CmdLine.compute_suffix CmdLine.trim_config CmdLine.evasion_for CmdLine.cmdtype_of
  Parser.expand_definitions Parser.replace_suffixes Parser.string_from_lines Parser.lookup_file Parser.parse
  Assembler.assemble Assembler.pre_simplify
  Generate.generate Generate.parse_only Generate.to_parsed
  PlainTree.plain_tree
  CliInst.cli_update_all CliInst.cli_update_one CliInst.cli_compare_all CliInst.cli_format_all CliInst.cli_format_one CliInst.cli_format_check_all
  CliInst.cli_renumber_all CliInst.cli_renumber_check_all CliInst.cli_copyright_all Cli.compare_all_status Cli.format_target
  DefsTok.tok_expand DefsTok.tokenize DefsTok.tokdefs DefsTok.detok
  SelfUpdate.self_update_ranked Consts.self_update_validates
  Equiv.equivalent Equiv.included
  Consts.parse_uint_bits Consts.max_scan_token_size Consts.scan_limit_parser_parse Consts.scan_limit_assembler_assemble Consts.scan_limit_format_process_file Consts.scan_limit_renumber_process_yaml Consts.scan_limit_copyright_update_rules Consts.scan_limit_replace_suffixes Consts.scan_limit_remove_exclusions Consts.scan_limit_build_inclusion_line_map Consts.standard_header.
