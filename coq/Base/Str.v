(* Byte strings as [list N] and the string functions of Go's [strings]/[bytes]
   packages that the toolchain uses.  Definitions only; lemmas are in
   Proofs/StrLemmas.v so that the models still run when a proof breaks. *)
From Coq Require Import String Ascii.
From Coq Require Export List NArith Bool Arith Lia.
Export ListNotations.
Open Scope N_scope.

Definition str := list N.

Definition s2l (s : String.string) : str :=
  map N_of_ascii (list_ascii_of_string s).

Notation "$ s" := (s2l s%string) (at level 1, s at level 0, format "$ s").

(* ---------- character classes ---------- *)
Definition is_digit (c : N) : bool := (48 <=? c) && (c <=? 57).
Definition is_lower (c : N) : bool := (97 <=? c) && (c <=? 122).
Definition is_upper (c : N) : bool := (65 <=? c) && (c <=? 90).
(* RE2 [\s] = [\t\n\f\r ] (no vertical tab) *)
Definition is_rxspace (c : N) : bool :=
  (c =? 9) || (c =? 10) || (c =? 12) || (c =? 13) || (c =? 32).
(* ASCII part of unicode.IsSpace, used by strings.TrimSpace / bytes.TrimSpace *)
Definition is_gospace (c : N) : bool :=
  (c =? 9) || (c =? 10) || (c =? 11) || (c =? 12) || (c =? 13) || (c =? 32).
Definition is_blank (c : N) : bool := (c =? 32) || (c =? 9).   (* " \t" cutset *)

(* linear-time reverse (Coq's [rev] is quadratic once extracted);
   [rv l = rev l] is Proofs/StrLemmas.rv_rev *)
Definition rv {A} (l : list A) : list A := rev_append l [].

(* ---------- equality ---------- *)
Fixpoint str_eqb (a b : str) : bool :=
  match a, b with
  | [], [] => true
  | x :: a', y :: b' => (x =? y) && str_eqb a' b'
  | _, _ => false
  end.

(* ---------- prefixes / suffixes ---------- *)
Fixpoint prefixb (p s : str) : bool :=
  match p, s with
  | [], _ => true
  | x :: p', y :: s' => (x =? y) && prefixb p' s'
  | _ :: _, [] => false
  end.

Definition suffixb (p s : str) : bool := prefixb (rv p) (rv s).

Fixpoint drop_while (f : N -> bool) (s : str) : str :=
  match s with
  | [] => []
  | c :: s' => if f c then drop_while f s' else s
  end.

Fixpoint take_while (f : N -> bool) (s : str) : str :=
  match s with
  | [] => []
  | c :: s' => if f c then c :: take_while f s' else []
  end.

Fixpoint drop_while_l {A} (f : A -> bool) (s : list A) : list A :=
  match s with
  | [] => []
  | c :: s' => if f c then drop_while_l f s' else s
  end.

Definition trim_left (f : N -> bool) (s : str) : str := drop_while f s.
Definition trim_right (f : N -> bool) (s : str) : str := rv (drop_while f (rv s)).
Definition trim (f : N -> bool) (s : str) : str := trim_right f (trim_left f s).
(* strings.TrimSpace restricted to ASCII white space (see DESIGN, trusted base) *)
Definition trim_space (s : str) : str := trim is_gospace s.
Definition all_b (f : N -> bool) (s : str) : bool := forallb f s.

(* strings.CutSuffix *)
Definition cut_suffix (s suf : str) : option str :=
  if suffixb suf s then Some (firstn (length s - length suf) s) else None.

(* ---------- searching ---------- *)
(* strings.Index: first position of needle *)
Fixpoint index_from (needle s : str) (i : nat) : option nat :=
  if prefixb needle s then Some i else
  match s with
  | [] => None
  | _ :: s' => index_from needle s' (S i)
  end.
Definition index_of (needle s : str) : option nat := index_from needle s 0.
Definition contains (needle s : str) : bool :=
  match index_of needle s with Some _ => true | None => false end.

(* strings.ReplaceAll for a non-empty needle: leftmost, non-overlapping.
   [k] counts characters still covered by the occurrence being skipped. *)
Fixpoint replace_all_aux (needle repl : str) (s : str) (skip : nat) : str :=
  match s with
  | [] => []
  | c :: s' =>
    match skip with
    | S k => replace_all_aux needle repl s' k
    | O => if prefixb needle s
           then repl ++ replace_all_aux needle repl s' (length needle - 1)
           else c :: replace_all_aux needle repl s' 0
    end
  end.
Definition replace_all (needle repl s : str) : str :=
  match needle with
  | [] => s       (* never used with an empty needle in the modelled code *)
  | _ => replace_all_aux needle repl s 0
  end.

(* ---------- split / join ---------- *)
(* bytes.Split(s, sep) for a one-byte separator: always at least one piece *)
Fixpoint split_on (sep : N) (s : str) : list str :=
  match s with
  | [] => [[]]
  | c :: s' =>
    if c =? sep then [] :: split_on sep s'
    else match split_on sep s' with
         | [] => [[c]]                      (* unreachable *)
         | p :: ps => (c :: p) :: ps
         end
  end.

Fixpoint join (sep : str) (l : list str) : str :=
  match l with
  | [] => []
  | [x] => x
  | x :: l' => x ++ sep ++ join sep l'
  end.

(* ---------- numbers ---------- *)
(* decimal printing of a natural number, fmt.Sprint(int) for n >= 0 *)
Definition digit_of (n : N) : N := 48 + n.
Fixpoint dec_aux (fuel : nat) (n : N) (acc : str) : str :=
  match fuel with
  | O => acc
  | S f =>
    let acc' := digit_of (n mod 10) :: acc in
    if n / 10 =? 0 then acc' else dec_aux f (n / 10) acc'
  end.
Definition dec (n : N) : str := dec_aux (S (N.to_nat (N.log2 n))) n [].

(* value of a string of decimal digits (arbitrary precision) *)
Definition dec_value (s : str) : N :=
  fold_left (fun acc c => acc * 10 + (c - 48)) s 0.

(* lower-case hex without leading zeros, fmt.Sprintf("%x") *)
Definition hexdigit (n : N) : N := if n <? 10 then 48 + n else 87 + n.
Fixpoint hex_aux (fuel : nat) (n : N) (acc : str) : str :=
  match fuel with
  | O => acc
  | S f =>
    let acc' := hexdigit (n mod 16) :: acc in
    if n / 16 =? 0 then acc' else hex_aux f (n / 16) acc'
  end.
Definition hex (n : N) : str := hex_aux (S (N.to_nat (N.log2 n))) n [].

Fixpoint repeat_str (s : str) (n : nat) : str :=
  match n with O => [] | S k => s ++ repeat_str s k end.

(* last element *)
Definition last_opt {A} (l : list A) : option A :=
  match rv l with [] => None | x :: _ => Some x end.
