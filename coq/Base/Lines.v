(* bufio.Scanner with bufio.ScanLines as used by the toolchain (nine call
   sites, none of which reads scanner.Err()).  [limit] is
   bufio.MaxScanTokenSize; the translator instantiates it from the Go
   toolchain's constant (Gen/Consts.v). *)
From Verif Require Import Base.Str.

Definition drop_cr (l : str) : str :=
  match rv l with
  | 13 :: r => rv r
  | _ => l
  end.

(* pieces between '\n'; a trailing empty piece (text ends in '\n', or text
   empty) is not a line *)
Definition raw_lines (b : str) : list str :=
  let ps := split_on 10 b in
  match rv ps with
  | [] :: r => rv r
  | _ => ps
  end.

(* deliver lines until the first whose raw length reaches the limit *)
Fixpoint scan_raw (limit : N) (ls : list str) : list str * bool :=
  match ls with
  | [] => ([], false)
  | l :: ls' =>
    if limit <=? N.of_nat (length l) then ([], true)
    else let (r, e) := scan_raw limit ls' in (drop_cr l :: r, e)
  end.

(* result: delivered lines, and whether the scanner stopped with ErrTooLong *)
Definition scan (limit : N) (b : str) : list str * bool :=
  scan_raw limit (raw_lines b).

Definition scan_lines (limit : N) (b : str) : list str := fst (scan limit b).

(* "line\n" for every line: what the rewriting commands write back *)
Definition unlines (ls : list str) : str := concat (map (fun l => l ++ [10]) ls).
