(* Outcomes of modelled Go code.  [Err] = the code returns an error / calls
   logger.Fatal / logger.Panic (a deliberate, loud failure); [Crash] = an
   unchecked index, slice or map access the Go code performs would fault. *)
From Verif Require Import Base.Str.

Inductive outcome (A : Type) :=
| Ok (a : A)
| Err (code : N)
| Crash (site : N).
Arguments Ok {A} a.
Arguments Err {A} code.
Arguments Crash {A} site.

Definition bind {A B} (o : outcome A) (f : A -> outcome B) : outcome B :=
  match o with
  | Ok a => f a
  | Err c => Err c
  | Crash s => Crash s
  end.
Notation "'do' x <- o ; k" := (bind o (fun x => k)) (at level 200, x pattern, o at level 100, k at level 200).
