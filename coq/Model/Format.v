(* cmd/regex_format.go: processLine, formatEndOfFile, checkStandardHeader and
   the byte-level function computed by processFile (parser in format-only
   mode -> processLine per line -> header -> end of file -> join). *)
From Coq Require Import String.
From Verif Require Import Base.Str Base.Lines Base.Outcome Model.Patterns Model.ParseLine.
From Verif Require Import Gen.Consts.

Definition spaces (n : nat) : str := repeat 32 n.

(* processLine: (Some new line | None = "unbalanced processor block" error, next indent) *)
Definition process_line (line : str) (indent : nat) : option str * nat :=
  let trimmed := trim_left is_blank line in
  match trimmed with
  | [] => (Some [], indent)
  | _ =>
    match m_block_start line with
    | Some (name, arg) =>
      let nl := $"##!> " ++ name ++ (match arg with [] => [] | _ => [32] ++ arg end) in
      (Some (spaces (indent * 2) ++ nl), S indent)
    | None =>
      if m_block_end line then
        match indent with
        | O => (None, O)
        | S i => (Some (spaces (i * 2) ++ trimmed), i)
        end
      else
      match m_flags line with
      | Some v => (Some ($"##!+ " ++ v), indent)
      | None =>
      match m_prefix line with
      | Some v => (Some ($"##!^ " ++ v), indent)
      | None =>
      match m_suffix line with
      | Some v => (Some ($"##!$ " ++ v), indent)
      | None =>
      match m_definition line with
      | Some (_, name, value) => (Some (spaces (indent * 2) ++ $"##!> define " ++ name ++ [32] ++ value), indent)
      | None =>
      match m_include line with
      | Some (f, pairs) =>
        (Some (spaces (indent * 2) ++ $"##!> include " ++ f ++
               (match pairs with [] => [] | _ => $" -- " ++ pairs end)), indent)
      | None =>
      match m_include_except line with
      | Some (f, ex, pairs) =>
        (Some (spaces (indent * 2) ++ $"##!> include-except " ++ f ++ [32] ++ ex ++
               (match pairs with [] => [] | _ => $" -- " ++ pairs end)), indent)
      | None => (Some (spaces (indent * 2) ++ trimmed), indent)
      end end end end end end
    end
  end.

(* the loop of processFile: an error line becomes "" and resets the indent *)
Fixpoint process_lines (ls : list str) (indent : nat) : list str :=
  match ls with
  | [] => []
  | l :: ls' =>
    match process_line l indent with
    | (Some l', i') => l' :: process_lines ls' i'
    | (None, i') => [] :: process_lines ls' i'
    end
  end.

(* formatEndOfFile (len(lines) = 0 gives two empty lines) *)
Definition is_empty_line (l : str) : bool := match l with [] => true | _ => false end.
Definition format_eof (lines : list str) : list str :=
  match lines with
  | [] => [[]; []]
  | _ => rv (drop_while_l is_empty_line (rv lines)) ++ [[]]
  end.

(* checkStandardHeader *)
Definition check_header (lines : list str) : bool :=
  match lines with
  | a :: b :: c :: _ => str_eqb (a ++ [10] ++ b ++ [10] ++ c) standard_header
  | _ => false
  end.

(* the format-only parse: every line left-trimmed of " \t"; parseLine still
   runs, so an unsupported flag or an uneven pair list fails (logger.Panic) *)
Definition format_parse_line (order : list pname) (line : str) : outcome str :=
  let t := trim_left is_blank line in
  do pl <- parse_line order t;
  match pl_type pl with
  | LFlags => if flags_allowed (pl_value pl) then Ok t else Err err_flag
  | _ => Ok t
  end.

Fixpoint format_parse (orders : nat -> list pname) (i : nat) (ls : list str) : outcome (list str) :=
  match ls with
  | [] => Ok []
  | l :: ls' =>
    do t <- format_parse_line (orders i) l;
    do ts <- format_parse orders (S i) ls';
    Ok (t :: ts)
  end.

Definition layout (lines : list str) : str :=
  let ls := process_lines lines 0 in
  let ls := if check_header ls then ls else standard_header :: ls in
  join [10] (format_eof ls).

(* [limit1]: the parser's scanner, [limit2]: processFile's scanner *)
Definition format_bytes2 (orders : nat -> list pname) (limit1 limit2 : N) (contents : str) : outcome str :=
  do ts <- format_parse orders 0 (scan_lines limit1 contents);
  Ok (layout (scan_lines limit2 (unlines ts))).
Definition format_bytes (orders : nat -> list pname) (limit : N) (contents : str) : outcome str :=
  format_bytes2 orders limit limit contents.

(* lines other than definition / include / include-except directives (C09 idempotence, partial) *)
Definition not_a_file_directive (line : str) : Prop :=
  m_definition line = None /\ m_include line = None /\ m_include_except line = None.

(* the eight directive patterns give the same answers on two lines (C10) *)
Record same_reading (a b : str) : Prop := {
  sr_start : m_block_start a = m_block_start b;
  sr_end : m_block_end a = m_block_end b;
  sr_flags : m_flags a = m_flags b;
  sr_prefix : m_prefix a = m_prefix b;
  sr_suffix : m_suffix a = m_suffix b;
  sr_def : m_definition a = m_definition b;
  sr_inc : m_include a = m_include b;
  sr_exc : m_include_except a = m_include_except b
}.
