(* regex/parser/parser.go: Parse (compile mode), parseFile, mergePrefixesSuffixes,
   expandDefinitions; regex/parser/include_except_builder.go (all of it).

   Go map iteration is an explicit order: [ordp] for the directive-pattern map
   of parseLine, [ords] for every map[string]string that is ranged over
   (definitions, suffix replacements), [ordi] for the inclusion-line map. *)
From Coq Require Import String.
From Verif Require Import Base.Str Base.Lines Base.Outcome Model.Patterns Model.ParseLine.
Open Scope N_scope.

(* ---------- files ---------- *)
Record fsys := {
  fs_include : list (str * str);     (* regex-assembly/include/<name> *)
  fs_exclude : list (str * str);     (* regex-assembly/exclude/<name> *)
  fs_abs : list (str * str)          (* absolute names *)
}.
Definition no_files : fsys := {| fs_include := []; fs_exclude := []; fs_abs := [] |}.

(* path.Ext *)
Fixpoint ext_aux (r : str) (acc : str) : str :=
  match r with
  | [] => []
  | c :: r' => if c =? 47 then [] else if c =? 46 then 46 :: acc else ext_aux r' (c :: acc)
  end.
Definition path_ext (name : str) : str := ext_aux (rv name) [].

Definition ra_name (name : str) : str :=
  if str_eqb (path_ext name) $".ra" then name else name ++ $".ra".

(* parseFile's lookup: include directory first, then exclude directory; absolute names as is *)
Definition lookup_file (fs : fsys) (name : str) : option str :=
  let n := ra_name name in
  match n with
  | 47 :: _ => smap_get (fs_abs fs) n
  | _ => match smap_get (fs_include fs) n with
         | Some c => Some c
         | None => smap_get (fs_exclude fs) n
         end
  end.

(* ---------- expandDefinitions ---------- *)
Definition needle (n : str) : str := $"{{" ++ n ++ $"}}".

(* first loop: for each name (in the iteration order), its CURRENT value is
   substituted into every value of the map *)
Fixpoint expand_defs_in_defs (o1 : list str) (vars : smap) : smap :=
  match o1 with
  | [] => vars
  | n :: o1' =>
    match smap_get vars n with
    | None => expand_defs_in_defs o1' vars
    | Some repl =>
      expand_defs_in_defs o1' (map (fun kv => (fst kv, replace_all (needle n) repl (snd kv))) vars)
    end
  end.
(* second loop *)
Fixpoint expand_defs_in_src (o2 : list str) (vars : smap) (src : str) : str :=
  match o2 with
  | [] => src
  | n :: o2' =>
    match smap_get vars n with
    | None => expand_defs_in_src o2' vars src
    | Some repl => expand_defs_in_src o2' vars (replace_all (needle n) repl src)
    end
  end.
(* (new source, the map as the Go code leaves it) *)
Definition expand_definitions (o1 o2 : list str) (vars : smap) (src : str) : str * smap :=
  let vars' := expand_defs_in_defs o1 vars in
  (expand_defs_in_src o2 vars' src, vars').

(* mergo.Merge(&dst, src) for one definition: insert if absent *)
Definition merge_def (vars : smap) (k v : str) : smap :=
  match smap_get vars k with
  | Some _ => vars
  | None => vars ++ [(k, v)]
  end.

(* ---------- replaceSuffixes ---------- *)
(* skipRegex ^(?:##!|\s*$) *)
Definition skip_entry (e : str) : bool := prefixb $"##!" e || all_ws e.
Definition empty_marker : str := [34; 34].       (* the two-byte text "" *)

Fixpoint apply_pairs (pairs : smap) (entry : str) : str :=
  match pairs with
  | [] => entry
  | (m, r) :: ps =>
    match cut_suffix entry m with
    | Some e' => apply_pairs ps (if str_eqb r empty_marker then e' else e' ++ r)
    | None => apply_pairs ps entry
    end
  end.

Section Orders.
Variable ordp : list pname.             (* parseLine's pattern order *)
Variable ords : smap -> smap.           (* iteration order of a map[string]string *)
Variable ords2 : smap -> smap.          (* ... of the second loop of expandDefinitions (an independent iteration) *)
Variable ordi : list (str * nat) -> list (str * nat).   (* iteration order of the inclusion-line map *)
Variable limit : N.                     (* scanner limit of utils.NewLineScanner *)

Definition replace_suffixes (content : str) (pairs : option smap) : str :=
  match pairs with
  | None => content
  | Some ps =>
    unlines (map (fun e => if skip_entry e then e else apply_pairs (ords ps) e) (scan_lines limit content))
  end.

(* ---------- include-except: the map of lines with their index ---------- *)
Fixpoint imap_set (m : list (str * nat)) (k : str) (i : nat) : list (str * nat) :=
  match m with
  | [] => [(k, i)]
  | (k', i') :: m' => if str_eqb k k' then (k, i) :: m' else (k', i') :: imap_set m' k i
  end.
Fixpoint imap_del (m : list (str * nat)) (k : str) : list (str * nat) :=
  match m with
  | [] => []
  | (k', i') :: m' => if str_eqb k k' then m' else (k', i') :: imap_del m' k
  end.
Fixpoint build_imap (ls : list str) (i : nat) (m : list (str * nat)) : list (str * nat) :=
  match ls with
  | [] => m
  | l :: ls' => build_imap ls' (S i) (imap_set m l i)
  end.
(* sort.Sort by the (unique) index: insertion sort *)
Fixpoint insert_by_index (x : str * nat) (l : list (str * nat)) : list (str * nat) :=
  match l with
  | [] => [x]
  | y :: l' => if Nat.leb (snd x) (snd y) then x :: l else y :: insert_by_index x l'
  end.
Definition sort_by_index (l : list (str * nat)) : list (str * nat) := fold_right insert_by_index [] l.
(* stringFromInclusionLines *)
Definition string_from_lines (l : list (str * nat)) : str :=
  match l with
  | [] => []
  | _ => unlines (map fst (sort_by_index l))
  end.

(* ---------- the parser ---------- *)
Record presult := {
  r_dest : str;
  r_vars : smap;
  r_flag_i : bool; r_flag_s : bool;
  r_prefixes : list str;
  r_suffixes : list str
}.

Definition err_no_file : N := 20.
Definition err_include_flags : N := 21.
Definition err_depth : N := 22.          (* include recursion ran out of fuel (a cycle) *)

(* mergePrefixesSuffixes (the UnreadByte branch can never fire: WriteTo resets the buffer) *)
Definition merge_prefixes_suffixes (src : presult) : outcome str :=
  if r_flag_i src || r_flag_s src then Err err_include_flags
  else
    match r_prefixes src, r_suffixes src with
    | [], [] => Ok (r_dest src)
    | pfx, sfx =>
      Ok ($"##!> assemble" ++ [10] ++
          concat (map (fun p => p ++ [10] ++ $"##!=>" ++ [10]) pfx) ++
          r_dest src ++
          (match sfx with [] => [] | _ => $"##!=>" ++ [10] end) ++
          concat (map (fun s => s ++ [10] ++ $"##!=>" ++ [10]) sfx) ++
          $"##!<" ++ [10])
    end.

Definition set_flags (v : str) (r : presult) : presult :=
  {| r_dest := r_dest r; r_vars := r_vars r;
     r_flag_i := r_flag_i r || existsb (N.eqb 105) v;
     r_flag_s := r_flag_s r || existsb (N.eqb 115) v;
     r_prefixes := r_prefixes r; r_suffixes := r_suffixes r |}.
Definition add_text (t : str) (r : presult) : presult :=
  {| r_dest := r_dest r ++ t; r_vars := r_vars r; r_flag_i := r_flag_i r; r_flag_s := r_flag_s r;
     r_prefixes := r_prefixes r; r_suffixes := r_suffixes r |}.
Definition with_vars (v : smap) (r : presult) : presult :=
  {| r_dest := r_dest r; r_vars := v; r_flag_i := r_flag_i r; r_flag_s := r_flag_s r;
     r_prefixes := r_prefixes r; r_suffixes := r_suffixes r |}.
Definition with_dest (d : str) (r : presult) : presult :=
  {| r_dest := d; r_vars := r_vars r; r_flag_i := r_flag_i r; r_flag_s := r_flag_s r;
     r_prefixes := r_prefixes r; r_suffixes := r_suffixes r |}.
Definition add_prefix (p : str) (r : presult) : presult :=
  {| r_dest := r_dest r; r_vars := r_vars r; r_flag_i := r_flag_i r; r_flag_s := r_flag_s r;
     r_prefixes := r_prefixes r ++ [p]; r_suffixes := r_suffixes r |}.
Definition add_suffix (s : str) (r : presult) : presult :=
  {| r_dest := r_dest r; r_vars := r_vars r; r_flag_i := r_flag_i r; r_flag_s := r_flag_s r;
     r_prefixes := r_prefixes r; r_suffixes := r_suffixes r ++ [s] |}.
Definition presult0 (vars : smap) : presult :=
  {| r_dest := []; r_vars := vars; r_flag_i := false; r_flag_s := false; r_prefixes := []; r_suffixes := [] |}.

Variable fs : fsys.

(* Parse(false) on [contents] with initial variables [vars0]; [fuel] bounds the include depth *)
Fixpoint parse (fuel : nat) (vars0 : smap) (contents : str) {struct fuel} : outcome presult :=
  (* parseFile: (text handed to the includer, the included parser's variables) *)
  let parse_file (name : str) (defs : option smap) : outcome (str * smap) :=
    match fuel with
    | O => Err err_depth
    | S f =>
      match lookup_file fs name with
      | None => Err err_no_file
      | Some c =>
        do r <- parse f (match defs with Some d => d | None => [] end) c;
        do out <- merge_prefixes_suffixes r;
        Ok (out, r_vars r)
      end
    end in
  let remove_exclusions :=
    fix go (names : list str) (m : list (str * nat)) (defs : smap) : outcome (list (str * nat)) :=
      match names with
      | [] => Ok m
      | n :: ns =>
        do r <- parse_file n (Some defs);
        let '(content, defs') := r in
        go ns (fold_left imap_del (scan_lines limit content) m) defs'
      end in
  let step (r : presult) (raw : str) : outcome presult :=
    let line := trim_left is_blank raw in
    do pl <- parse_line ordp line;
    match pl_type pl with
    | LRegular => Ok (add_text (line ++ [10]) r)
    | LEmpty | LComment => Ok r
    | LDefinition => Ok (with_vars (merge_def (r_vars r) (fst (pl_def pl)) (snd (pl_def pl))) r)
    | LInclude =>
      do c <- parse_file (pl_file pl) None;
      Ok (add_text (replace_suffixes (fst c) (pl_pairs pl)) r)
    | LIncludeExcept =>
      do c <- parse_file (pl_file pl) None;
      let '(content, defs) := c in
      let m := build_imap (scan_lines limit content) 0 [] in
      do m' <- remove_exclusions (pl_excludes pl) m defs;
      Ok (add_text (replace_suffixes (string_from_lines (ordi m')) (pl_pairs pl)) r)
    | LFlags => if flags_allowed (pl_value pl) then Ok (set_flags (pl_value pl) r) else Err err_flag
    | LPrefix => Ok (add_prefix (pl_value pl) r)
    | LSuffix => Ok (add_suffix (pl_value pl) r)
    end in
  let loop :=
    fix go (r : presult) (ls : list str) : outcome presult :=
      match ls with
      | [] => Ok r
      | l :: ls' => do r' <- step r l; go r' ls'
      end in
  do r <- loop (presult0 vars0) (scan_lines limit contents);
  match r_vars r with
  | [] => Ok r
  | vars =>
    let o := map fst (ords vars) in
    let (d, v) := expand_definitions o (map fst (ords2 vars)) vars (r_dest r) in
    (* prefix and suffix lines live outside the buffer: each is expanded by a further call
       (which runs the definitions-in-definitions loop again on the same map) *)
    let expand_list :=
      fix go (l : list str) (v : smap) : list str * smap :=
        match l with
        | [] => ([], v)
        | x :: l' =>
          let (x', v') := expand_definitions (map fst (ords v)) (map fst (ords2 v)) v x in
          let (rest, v'') := go l' v' in (x' :: rest, v'')
        end in
    let (pfx, v1) := expand_list (r_prefixes r) v in
    let (sfx, v2) := expand_list (r_suffixes r) v1 in
    Ok {| r_dest := d; r_vars := v2; r_flag_i := r_flag_i r; r_flag_s := r_flag_s r;
          r_prefixes := pfx; r_suffixes := sfx |}
  end.

End Orders.

(* an entry, a comment or a blank line (C05: word-list include files) *)
Definition simple_line (ordp : list pname) (l : str) : Prop :=
  exists pl, parse_line ordp (trim_left is_blank l) = Ok pl /\
             (pl_type pl = LRegular \/ pl_type pl = LEmpty \/ pl_type pl = LComment).

(* what a word-list file hands over (C06, whole parser): its entries, left-trimmed *)
Definition is_regular (ordp : list pname) (l : str) : bool :=
  match parse_line ordp (trim_left is_blank l) with
  | Ok pl => match pl_type pl with LRegular => true | _ => false end
  | _ => false
  end.
Definition text_lines (ordp : list pname) (ls : list str) : list str :=
  map (trim_left is_blank) (filter (is_regular ordp) ls).
(* a line the scanner gives back unchanged: no newline inside, no carriage return at the end,
   shorter than the scanner's limit *)
Definition clean_line (limit : N) (l : str) : Prop :=
  ~ In 10 l /\ drop_cr l = l /\ N.of_nat (length l) < limit.
(* a file that is found, consists of entries / comments / blank lines, with clean lines *)
Definition good_file (ordp : list pname) (limit : N) (fs : fsys) (name c : str) : Prop :=
  lookup_file fs name = Some c /\ Forall (simple_line ordp) (scan_lines limit c) /\
  Forall (clean_line limit) (text_lines ordp (scan_lines limit c)).
Definition excluded_lines (ordp : list pname) (limit : N) (cXs : list str) : list str :=
  concat (map (fun c => text_lines ordp (scan_lines limit c)) cXs).

(* include files with their own prefix / suffix lines (C05, whole parser) *)
Definition affix_file_line (ordp : list pname) (l : str) : Prop :=
  exists pl, parse_line ordp (trim_left is_blank l) = Ok pl /\
    (pl_type pl = LRegular \/ pl_type pl = LEmpty \/ pl_type pl = LComment \/ pl_type pl = LPrefix \/ pl_type pl = LSuffix).
(* the values of its prefix (suffix) lines, in order *)
Definition affix_values (ordp : list pname) (t : ltype) (ls : list str) : list str :=
  flat_map (fun l => match parse_line ordp (trim_left is_blank l) with
                     | Ok pl => if (match pl_type pl, t with LPrefix, LPrefix => true | LSuffix, LSuffix => true | _, _ => false end)
                                then [pl_value pl] else []
                     | _ => []
                     end) ls.
(* the local block the property describes, as lines *)
Definition block_lines (pfx : list str) (body : list str) (sfx : list str) : list str :=
  [$"##!> assemble"] ++ flat_map (fun p => [p; $"##!=>"]) pfx ++ body ++
  (match sfx with [] => [] | _ => [$"##!=>"] end) ++ flat_map (fun s => [s; $"##!=>"]) sfx ++ [$"##!<"].
(* an ordinary entry line that is its own left-trimmed form *)
Definition reg_fixed (ordp : list pname) (l : str) : Prop := is_regular ordp l = true /\ trim_left is_blank l = l.

(* what replaceSuffixes makes of handed-over entries, the pair map iterated in the order [ords] *)
Definition rewritten (ords : smap -> smap) (ps : smap) (ls : list str) : list str :=
  map (fun e => if skip_entry e then e else apply_pairs (ords ps) e) ls.
