(* cmd/flag_types.go: findRootDirectory.  A cleaned absolute path is the list
   of its components ("/" is []); [has p] says whether os.Stat succeeds on
   path p (file or directory). *)
From Coq Require Import String.
From Verif Require Import Base.Str.

Definition path := list str.
Definition ra_name : str := $"regex-assembly".

(* [rp] = components in reverse order (innermost first) *)
Fixpoint find_root_rev (has : path -> bool) (rp : list str) : option path :=
  match rp with
  | [] => None                       (* "/" ends in a separator: loop exits, error *)
  | _ :: rp' =>
    if has (rv rp ++ [ra_name]) then Some (rv rp) else find_root_rev has rp'
  end.

Definition find_root (has : path -> bool) (start : path) : option path :=
  find_root_rev has (rv start).
