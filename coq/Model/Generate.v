(* `regex generate`: parser -> assembler -> passes, as one function of the file
   contents, the include/exclude files, the configuration and the oracles. *)
From Coq Require Import String.
From Verif Require Import Base.Str Base.Lines Base.Outcome Model.Patterns Model.ParseLine Model.Passes Model.CmdLine Model.Parser Model.Assembler.
Open Scope N_scope.

Definition to_parsed (r : presult) : parsed :=
  {| p_buffer := r_dest r; p_flag_i := r_flag_i r; p_flag_s := r_flag_s r;
     p_prefixes := r_prefixes r; p_suffixes := r_suffixes r |}.

(* include depth the model follows before it reports a cycle (the Go code recurses
   until the process runs out of file descriptors and then fails) *)
Definition include_fuel : nat := 40.

Definition generate (join : list str -> option str) (cfg : config)
           (ordp : list pname) (ords ords2 : smap -> smap) (ordi : list (str * nat) -> list (str * nat))
           (limit_parse limit_asm : N) (fs : fsys) (contents : str) : outcome str :=
  do r <- parse ordp ords ords2 ordi limit_parse fs include_fuel [] contents;
  assemble join cfg limit_asm [] (to_parsed r).

(* only the parser: what the assembler is handed *)
Definition parse_only (ordp : list pname) (ords ords2 : smap -> smap) (ordi : list (str * nat) -> list (str * nat))
           (limit_parse : N) (fs : fsys) (contents : str) : outcome presult :=
  parse ordp ords ords2 ordi limit_parse fs include_fuel [] contents.
