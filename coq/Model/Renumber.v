(* util/renumber_tests.go: processYaml, formatEndOfFile; file selection by
   RuleIdTestFileNameRegex ^(\d{6})(?:\.ya?ml)?$ *)
From Coq Require Import String.
From Verif Require Import Base.Str Base.Lines.

(* Group 1 of  (.*KEY)\s+(.*$)  (TestIdRegex / TestTitleRegex) on a line
   without '\n': the greedy .* selects the LAST occurrence of KEY that is
   followed by at least one RE2 white-space character. *)
Definition key_here (key s : str) : bool :=
  prefixb key s &&
  match skipn (length key) s with
  | c :: _ => is_rxspace c
  | [] => false
  end.

Fixpoint match_key (key s : str) : option str :=
  match s with
  | [] => None
  | c :: s' =>
    match match_key key s' with
    | Some g => Some (c :: g)                 (* a later occurrence wins *)
    | None => if key_here key s then Some key else None
    end
  end.

Definition key_id : str := $"test_id:".
Definition key_title : str := $"test_title:".

Record counters := { idx : N; idc : N; tic : N }.
Definition counters0 := {| idx := 0; idc := 0; tic := 0 |}.

(* one iteration of the scanner loop: new counters and the line written *)
Definition step_line (rule_id : str) (st : counters) (line : str) : counters * str :=
  let '(st1, line1) :=
    match match_key key_id line with
    | Some g =>
      let idc' := idc st + 1 in
      let idx' := if idx st <? idc' then idx st + 1 else idx st in
      ({| idx := idx'; idc := idc'; tic := tic st |}, g ++ [32] ++ dec idx')
    | None => (st, line)
    end in
  match match_key key_title line1 with
  | Some g =>
    let tic' := tic st1 + 1 in
    let idx' := if idx st1 <? tic' then idx st1 + 1 else idx st1 in
    ({| idx := idx'; idc := idc st1; tic := tic' |}, g ++ [32] ++ rule_id ++ [45] ++ dec idx')
  | None => (st1, line1)
  end.

Fixpoint rewrite_lines (rule_id : str) (st : counters) (ls : list str) : list str :=
  match ls with
  | [] => []
  | l :: ls' => let (st', l') := step_line rule_id st l in l' :: rewrite_lines rule_id st' ls'
  end.

(* formatEndOfFile: drop trailing lines that are empty after bytes.TrimSpace
   (ASCII white space), append one empty line *)
Definition blank_line (l : str) : bool := forallb is_gospace l.
Definition format_eof_ws (lines : list str) : list str :=
  rv (drop_while_l blank_line (rv lines)) ++ [[]].

Definition process_yaml (limit : N) (rule_id : str) (contents : str) : str :=
  let out := unlines (rewrite_lines rule_id counters0 (scan_lines limit contents)) in
  join [10] (format_eof_ws (split_on 10 out)).

(* RuleIdTestFileNameRegex: group 1 *)
Definition match_test_file_name (s : str) : option str :=
  let d := firstn 6 s in
  let rest := skipn 6 s in
  if (Nat.eqb (length d) 6 && forallb is_digit d)%bool then
    if (str_eqb rest [] || str_eqb rest $".yaml" || str_eqb rest $".yml")%bool then Some d else None
  else None.

(* processFile: Some new contents = the file is written (not in check mode);
   None = untouched.  [check] also yields the error status. *)
Definition renumber_file (limit : N) (name : str) (contents : str) : option str :=
  match match_test_file_name name with
  | None => None
  | Some id =>
    let out := process_yaml limit id contents in
    if str_eqb contents out then None else Some out
  end.

(* ---------- the lines of the property's quantifier (C13 idempotence) ----------
   a test_id line / a test_title line: the key is found with only text without the letter t in
   front of it (blanks, tabs, list dashes); any other line carries neither key *)
Definition plain_id_line (l : str) : Prop :=
  exists indent, ~ In 116 indent /\ match_key key_id l = Some (indent ++ key_id).
Definition plain_title_line (l : str) : Prop :=
  match_key key_id l = None /\ exists indent, ~ In 116 indent /\ match_key key_title l = Some (indent ++ key_title).
Definition other_line (l : str) : Prop :=
  match_key key_id l = None /\ match_key key_title l = None.
Definition plain_line (l : str) : Prop := plain_id_line l \/ plain_title_line l \/ other_line l.
