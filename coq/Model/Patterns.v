(* Hand-written matchers for the directive patterns of regex/definitions.go
   with Go (RE2, leftmost-first) submatch semantics on a single line without
   newline.  Each is tied to the Go pattern by the correspondence suites and
   pinned to the pattern text (coq/Tie).  White space is RE2's \s. *)
From Coq Require Import String.
From Verif Require Import Base.Str.

Definition sp := is_rxspace.
Definition nsp (c : N) : bool := negb (is_rxspace c).
Definition skip_ws (s : str) : str := drop_while sp s.
Definition rtrim_ws (s : str) : str := trim_right sp s.
Definition all_ws (s : str) : bool := forallb sp s.

(* expect a literal prefix *)
Definition lit (p s : str) : option str :=
  if prefixb p s then Some (skipn (length p) s) else None.

(* the optional "-- pairs" tail followed by optional white space up to the end, on remainder R:
   Some g = matched with the capture g of the group (empty when the group did not
   participate), None = no match *)
Definition pairs_tail (r : str) : option str :=
  match lit $"--" (skip_ws r) with
  | Some x => Some (rtrim_ws (skip_ws x))
  | None => if all_ws r then Some [] else None
  end.

(* prefixes of a non-space run from the longest to the shortest (length >= 1),
   each with its remainder; the first whose remainder satisfies the tail wins
   (backtracking of the greedy non-space run) *)
Fixpoint first_run_split (run_rev : str) (rest : str) : option (str * str) :=
  (* run_rev: the candidate prefix, reversed; rest: what follows it *)
  match run_rev with
  | [] => None
  | c :: run_rev' =>
    match pairs_tail rest with
    | Some g2 => Some (rv run_rev, g2)
    | None => first_run_split run_rev' (c :: rest)
    end
  end.

(* IncludeRegex matched at the head of s *)
Definition include_here (s : str) : option (str * str) :=
  match lit $"##!>" s with
  | None => None
  | Some s1 =>
    match lit $"include" (skip_ws s1) with
    | None => None
    | Some s2 =>
      let s3 := skip_ws s2 in
      if Nat.eqb (length s3) (length s2) then None          (* at least one white space *)
      else
        let run := take_while nsp s3 in
        first_run_split (rv run) (drop_while nsp s3)
    end
  end.

(* IncludeRegex is anchored at the start of the line (like every other directive pattern) *)
Definition m_include (s : str) : option (str * str) := include_here s.

(* IncludeExceptRegex *)
(* lazy group 2: shortest prefix of r whose remainder satisfies the tail *)
Fixpoint lazy_split (acc_rev : str) (r : str) : str * str :=
  match pairs_tail r with
  | Some g3 => (rv acc_rev, g3)
  | None =>
    match r with
    | [] => (rv acc_rev, [])            (* unreachable: pairs_tail [] = Some [] *)
    | c :: r' => lazy_split (c :: acc_rev) r'
    end
  end.

Definition m_include_except (s : str) : option (str * str * str) :=
  match lit $"##!>" s with
  | None => None
  | Some s1 =>
    match lit $"include-except" (skip_ws s1) with
    | None => None
    | Some s2 =>
      let s3 := skip_ws s2 in
      if Nat.eqb (length s3) (length s2) then None
      else
        match take_while nsp s3 with
        | [] => None
        | g1 =>
          let r := skip_ws (drop_while nsp s3) in
          let (g2, g3) := lazy_split [] r in
          Some (g1, g2, g3)
        end
    end
  end.

(* DefinitionRegex: (g1, name, value) *)
Definition is_name_char (c : N) : bool :=
  is_lower c || is_upper c || is_digit c || (c =? 45) || (c =? 95).
Definition m_definition (s : str) : option (str * str * str) :=
  match lit $"##!>" s with
  | None => None
  | Some s1 =>
    match lit $"define" (skip_ws s1) with
    | None => None
    | Some s2 =>
      let s3 := skip_ws s2 in
      if Nat.eqb (length s3) (length s2) then None
      else
        match take_while is_name_char s3 with
        | [] => None
        | name =>
          let s4 := drop_while is_name_char s3 in
          let s5 := skip_ws s4 in
          if Nat.eqb (length s5) (length s4) then None
          else
            match take_while nsp s5 with
            | [] => None
            | value =>
              if all_ws (drop_while nsp s5)
              then Some (firstn (length s - length s5) s, name, value)
              else None
            end
        end
    end
  end.

(* CommentRegex *)
Definition m_comment (s : str) : bool :=
  match lit $"##!" (skip_ws s) with
  | None => false
  | Some [] => true
  | Some (c :: _) => negb ((c =? 94) || (c =? 36) || (c =? 43) || (c =? 62) || (c =? 60) || (c =? 61))
  end.

(* FlagsRegex / PrefixRegex / SuffixRegex: the captured value *)
Definition m_marker_value (marker : str) (s : str) : option str :=
  match lit marker s with
  | None => None
  | Some r =>
    match rtrim_ws (skip_ws r) with
    | [] => None
    | v => Some v
    end
  end.
Definition m_flags := m_marker_value $"##!+".
Definition m_prefix := m_marker_value $"##!^".
Definition m_suffix := m_marker_value $"##!$".

(* ProcessorBlockStartRegex (prefix match) *)
Definition m_block_start (s : str) : option (str * str) :=
  match lit $"##!>" s with
  | None => None
  | Some s1 =>
    let s2 := skip_ws s1 in
    match lit $"assemble" s2 with
    | Some r => Some ($"assemble", take_while nsp (skip_ws r))
    | None =>
      match lit $"cmdline" s2 with
      | Some r => Some ($"cmdline", take_while nsp (skip_ws r))
      | None => None
      end
    end
  end.

(* ProcessorEndRegex *)
Definition m_block_end (s : str) : bool := prefixb $"##!<" s.

(* ProcessorStartRegex (prefix match): (name, arg or empty) *)
Definition m_processor_start (s : str) : option (str * str) :=
  match lit $"##!>" s with
  | None => None
  | Some s1 =>
    let s2 := skip_ws s1 in
    match take_while is_lower s2 with
    | [] => None
    | name =>
      let r := drop_while is_lower s2 in
      let r2 := skip_ws r in
      if Nat.eqb (length r2) (length r) then Some (name, [])
      else Some (name, take_while is_lower r2)
    end
  end.

(* AssembleInputRegex and AssembleOutputRegex *)
Definition m_marker_rest (marker : str) (s : str) : option str :=
  match lit marker (skip_ws s) with
  | None => None
  | Some r => Some (skip_ws r)
  end.
Definition m_assemble_input := m_marker_rest $"##!=<".
Definition m_assemble_output := m_marker_rest $"##!=>".

(* DefinitionReferenceRegex at the head of s *)
Definition ref_here (s : str) : option str :=
  match lit $"{{" s with
  | None => None
  | Some r =>
    match take_while is_name_char r with
    | [] => None
    | name => if prefixb $"}}" (drop_while is_name_char r) then Some name else None
    end
  end.
