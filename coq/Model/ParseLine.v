(* regex/parser/parser.go: parseLine, buildPairMap, splitArgs, flagIsAllowed.
   Go ranges over the map of the seven directive patterns in an unspecified
   order and takes the first that matches: the order is an explicit argument. *)
From Coq Require Import String.
From Verif Require Import Base.Str Base.Outcome Model.Patterns.

Inductive pname := PInclude | PIncludeExcept | PDefinition | PComment | PFlags | PPrefix | PSuffix.

Definition all_pnames : list pname :=
  [PInclude; PIncludeExcept; PDefinition; PComment; PFlags; PPrefix; PSuffix].

Inductive ltype := LRegular | LEmpty | LInclude | LIncludeExcept | LDefinition | LComment | LFlags | LPrefix | LSuffix.

(* a Go map[string]string built by consecutive assignments: association list,
   a repeated key overwrites in place *)
Definition smap := list (str * str).
Fixpoint smap_set (m : smap) (k v : str) : smap :=
  match m with
  | [] => [(k, v)]
  | (k', v') :: m' => if str_eqb k k' then (k, v) :: m' else (k', v') :: smap_set m' k v
  end.
Fixpoint smap_get (m : smap) (k : str) : option str :=
  match m with
  | [] => None
  | (k', v') :: m' => if str_eqb k k' then Some v' else smap_get m' k
  end.

(* spaceRegex.ReplaceAllString(input, " ") then strings.Split(_, " "):
   every maximal run of RE2 white space is one separator *)
Fixpoint split_args_aux (s : str) (cur_rev : str) (in_ws : bool) : list str :=
  match s with
  | [] => [rv cur_rev]
  | c :: s' =>
    if is_rxspace c then
      if in_ws then split_args_aux s' cur_rev true
      else rv cur_rev :: split_args_aux s' [] true
    else split_args_aux s' (c :: cur_rev) false
  end.
Definition split_args (s : str) : list str := split_args_aux s [] false.

Fixpoint pairs_of (l : list str) (m : smap) : option smap :=
  match l with
  | [] => Some m
  | [_] => None
  | k :: v :: l' => pairs_of l' (smap_set m k v)
  end.

(* buildPairMap: Ok None = nil map, Ok (Some m), Err = logger.Panic (uneven) *)
Definition err_uneven : N := 1.
Definition err_flag : N := 2.
Definition build_pair_map (input : str) : outcome (option smap) :=
  match trim_space input with
  | [] => Ok None
  | _ =>
    match pairs_of (split_args input) [] with
    | Some m => Ok (Some m)
    | None => Err err_uneven
    end
  end.

Record parsed_line := {
  pl_type : ltype;
  pl_file : str;               (* include file name *)
  pl_excludes : list str;
  pl_pairs : option smap;
  pl_def : str * str;
  pl_value : str               (* prefix / suffix / flags *)
}.
Definition pl_of (t : ltype) : parsed_line :=
  {| pl_type := t; pl_file := []; pl_excludes := []; pl_pairs := None; pl_def := ([], []); pl_value := [] |}.

(* the body of the switch for one pattern that matched; None = no match *)
Definition try_pattern (p : pname) (line : str) : option (outcome parsed_line) :=
  match p with
  | PComment => if m_comment line then Some (Ok (pl_of LComment)) else None
  | PInclude =>
    match m_include line with
    | None => None
    | Some (f, pairs) =>
      Some (do m <- build_pair_map pairs;
            Ok {| pl_type := LInclude; pl_file := f; pl_excludes := []; pl_pairs := m; pl_def := ([], []); pl_value := [] |})
    end
  | PIncludeExcept =>
    match m_include_except line with
    | None => None
    | Some (f, ex, pairs) =>
      Some (do m <- build_pair_map pairs;
            Ok {| pl_type := LIncludeExcept; pl_file := f; pl_excludes := split_args ex; pl_pairs := m; pl_def := ([], []); pl_value := [] |})
    end
  | PDefinition =>
    match m_definition line with
    | None => None
    | Some (_, name, value) =>
      Some (Ok {| pl_type := LDefinition; pl_file := []; pl_excludes := []; pl_pairs := None; pl_def := (name, value); pl_value := [] |})
    end
  | PFlags => match m_flags line with None => None | Some v => Some (Ok {| pl_type := LFlags; pl_file := []; pl_excludes := []; pl_pairs := None; pl_def := ([], []); pl_value := v |}) end
  | PPrefix => match m_prefix line with None => None | Some v => Some (Ok {| pl_type := LPrefix; pl_file := []; pl_excludes := []; pl_pairs := None; pl_def := ([], []); pl_value := v |}) end
  | PSuffix => match m_suffix line with None => None | Some v => Some (Ok {| pl_type := LSuffix; pl_file := []; pl_excludes := []; pl_pairs := None; pl_def := ([], []); pl_value := v |}) end
  end.

Fixpoint first_match (order : list pname) (line : str) : outcome parsed_line :=
  match order with
  | [] => Ok (pl_of LRegular)
  | p :: order' =>
    match try_pattern p line with
    | Some r => r
    | None => first_match order' line
    end
  end.

Definition parse_line (order : list pname) (line : str) : outcome parsed_line :=
  match trim_space line with
  | [] => Ok (pl_of LEmpty)
  | _ => first_match order line
  end.

(* flags line: every rune must be 'i' or 's'; any other byte (including the
   bytes of a multi-byte rune) is rejected with logger.Panic *)
Definition flags_allowed (v : str) : bool := forallb (fun c => (c =? 105) || (c =? 115)) v.
