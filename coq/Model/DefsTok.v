(* Token view of definition expansion (C07).  A text is a list of tokens: literal
   characters and references {{name}} to DEFINED names (a reference to an undefined
   name is literal text - that clause of the property is the definition of
   [tokenize]).  [tok_expand] is expandDefinitions on tokens, with the iteration
   orders of the two map loops as explicit arguments; [full] is the specification:
   every reference replaced by its value with all references replaced, recursively. *)
From Coq Require Import String.
From Verif Require Import Base.Str Model.ParseLine.
Open Scope N_scope.

Inductive tok := L (c : N) | R (n : str).
Definition tdefs := list (str * list tok).

Fixpoint tlookup (d : tdefs) (n : str) : option (list tok) :=
  match d with
  | [] => None
  | (k, v) :: d' => if str_eqb n k then Some v else tlookup d' n
  end.

Definition subst_tok (n : str) (v : list tok) (t : tok) : list tok :=
  match t with
  | R m => if str_eqb m n then v else [t]
  | L _ => [t]
  end.
Definition subst1 (n : str) (v : list tok) (ts : list tok) : list tok := flat_map (subst_tok n v) ts.

(* one iteration of the first loop: the CURRENT value of n is substituted into every value *)
Definition step_defs (d : tdefs) (n : str) : tdefs :=
  match tlookup d n with
  | None => d
  | Some v => map (fun kv => (fst kv, subst1 n v (snd kv))) d
  end.
Definition loop1 (o1 : list str) (d : tdefs) : tdefs := fold_left step_defs o1 d.

Definition step_src (d : tdefs) (s : list tok) (n : str) : list tok :=
  match tlookup d n with
  | None => s
  | Some v => subst1 n v s
  end.
Definition loop2 (o2 : list str) (d : tdefs) (src : list tok) : list tok := fold_left (step_src d) o2 src.

Definition tok_expand (o1 o2 : list str) (d : tdefs) (src : list tok) : list tok :=
  loop2 o2 (loop1 o1 d) src.

(* specification: full substitution *)
Fixpoint full (fuel : nat) (d : tdefs) (ts : list tok) : list tok :=
  match fuel with
  | O => ts
  | S f =>
    flat_map (fun t => match t with
                       | R n => match tlookup d n with Some v => full f d v | None => [t] end
                       | L _ => [t]
                       end) ts
  end.

(* ---------- tokens <-> text ---------- *)
Definition detok_tok (t : tok) : str :=
  match t with
  | L c => [c]
  | R n => $"{{" ++ n ++ $"}}"
  end.
Definition detok (ts : list tok) : str := flat_map detok_tok ts.

Definition is_name_char (c : N) : bool :=
  is_lower c || is_upper c || is_digit c || (c =? 45) || (c =? 95).

(* {{name}} at the head of s with name among [names]: (name, rest) *)
Definition ref_at (names : list str) (s : str) : option (str * str) :=
  if prefixb $"{{" s then
    let r := skipn 2 s in
    let nm := take_while is_name_char r in
    let r' := drop_while is_name_char r in
    if prefixb $"}}" r' && existsb (str_eqb nm) names then Some (nm, skipn 2 r') else None
  else None.

Fixpoint tokenize_aux (fuel : nat) (names : list str) (s : str) : list tok :=
  match fuel with
  | O => []
  | S f =>
    match s with
    | [] => []
    | c :: s' =>
      match ref_at names s with
      | Some (nm, rest) => R nm :: tokenize_aux f names rest
      | None => L c :: tokenize_aux f names s'
      end
    end
  end.
Definition tokenize (names : list str) (s : str) : list tok := tokenize_aux (S (length s)) names s.

Definition tokdefs (vars : smap) : tdefs :=
  map (fun kv => (fst kv, tokenize (map fst vars) (snd kv))) vars.
