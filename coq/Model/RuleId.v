(* cmd/regex.go: parseRuleId  (pattern regex.RuleIdFileNameRegex
   ^(\d{6})(?:-chain(\d+))?(?:\.ra)?$ , strconv.ParseUint(_, 10, bits)).
   Also the per-file derivation used by update --all / compare --all. *)
From Coq Require Import String.
From Verif Require Import Base.Str.

Record rule_ref := { r_id : str; r_file : str; r_chain : N }.

(* the match of RuleIdFileNameRegex: (group 1, group 2) *)
Definition match_rule_id_file_name (s : str) : option (str * str) :=
  let d := firstn 6 s in
  let rest := skipn 6 s in
  if (Nat.eqb (length d) 6 && forallb is_digit d)%bool then
    if prefixb $"-chain" rest then
      let r2 := skipn 6 rest in
      let ds := take_while is_digit r2 in
      let r3 := drop_while is_digit r2 in
      match ds with
      | [] => None
      | _ => if (str_eqb r3 [] || str_eqb r3 $".ra")%bool then Some (d, ds) else None
      end
    else if (str_eqb rest [] || str_eqb rest $".ra")%bool then Some (d, [])
    else None
  else None.

(* strconv.ParseUint(ds, 10, bits) on a string of ASCII digits:
   the value, or None for the range error (the empty string is a syntax
   error, which parseRuleId ignores and reads as 0) *)
Definition parse_uint (bits : N) (ds : str) : option N :=
  match ds with
  | [] => None
  | _ => let v := dec_value ds in if v <? 2 ^ bits then Some v else None
  end.

Definition chain_offset (bits : N) (ds : str) : option N :=
  match ds with
  | [] => Some 0
  | _ => parse_uint bits ds
  end.

Definition parse_rule_id (bits : N) (s : str) : option rule_ref :=
  match match_rule_id_file_name s with
  | None => None
  | Some (d, ds) =>
    match chain_offset bits ds with
    | None => None
    | Some k =>
      Some {| r_id := d;
              r_file := if suffixb $".ra" s then s else s ++ $".ra";
              r_chain := k |}
    end
  end.
