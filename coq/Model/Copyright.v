(* chore/update_copyright.go: updateRules.  Five regexp.ReplaceAllString
   calls per line; the templates are "${1}"+version etc., which expand to
   group 1 followed by the text as long as the text has no '$' (versions that
   pass semver validation and four-digit years have none). *)
From Coq Require Import String.
From Verif Require Import Base.Str Base.Lines.

(* generic leftmost, non-overlapping replacement: [m s] = Some (replacement,
   length of the match) when the pattern matches at the head of [s] *)
Fixpoint replace_matches (m : str -> option (str * nat)) (s : str) (skip : nat) : str :=
  match s with
  | [] => []
  | c :: s' =>
    match skip with
    | S k => replace_matches m s' k
    | O =>
      match m s with
      | Some (r, n) => r ++ replace_matches m s' (n - 1)
      | None => c :: replace_matches m s' 0
      end
    end
  end.

(* \d+\.\d+\.\d+(-[a-z0-9-]+)? at the head of s: length of the match *)
Definition is_pre (c : N) : bool := is_lower c || is_digit c || (c =? 45).
Definition digits_len (s : str) : option (nat * str) :=
  match take_while is_digit s with
  | [] => None
  | d => Some (length d, drop_while is_digit s)
  end.
Definition semver3_len (s : str) : option nat :=
  match digits_len s with
  | Some (n1, 46 :: s1) =>
    match digits_len s1 with
    | Some (n2, 46 :: s2) =>
      match digits_len s2 with
      | Some (n3, s3) =>
        let base := (n1 + 1 + n2 + 1 + n3)%nat in
        match s3 with
        | 45 :: s4 =>
          match take_while is_pre s4 with
          | [] => Some base
          | p => Some (base + 1 + length p)%nat
          end
        | _ => Some base
        end
      | None => None
      end
    | _ => None
    end
  | _ => None
  end.

Definition ver_prefix1 : str := $"# OWASP ModSecurity Core Rule Set ver.".
Definition ver_prefix2 : str := $"# OWASP CRS ver.".

(* 1. CRSVersionRegex  ^(# OWASP (ModSecurity Core Rule Set|CRS) ver\.)(.+)$ *)
Definition repl_version (v : str) (line : str) : str :=
  if prefixb ver_prefix1 line && negb (Nat.eqb (length line) (length ver_prefix1)) then ver_prefix1 ++ v
  else if prefixb ver_prefix2 line && negb (Nat.eqb (length line) (length ver_prefix2)) then ver_prefix2 ++ v
  else line.

(* 2. ShortCRSVersionRegex  (setvar:tx.crs_setup_version=)(\d+) , '.' = any one byte *)
Definition short_a : str := $"setvar:tx".
Definition short_b : str := $"crs_setup_version=".
Definition m_short (short : str) (s : str) : option (str * nat) :=
  if prefixb short_a s then
    match skipn (length short_a) s with
    | dot :: r =>
      if prefixb short_b r then
        match take_while is_digit (skipn (length short_b) r) with
        | [] => None
        | d => Some (short_a ++ [dot] ++ short_b ++ short,
                     (length short_a + 1 + length short_b + length d)%nat)
        end
      else None
    | [] => None
    end
  else None.

(* 3. CRSCopyrightYearRegex, whole line;  '.' after "project" and "reserved" = any byte *)
Definition year_a : str := $"# Copyright (c) 2021-".
Definition year_tail_ok (t : str) : bool :=
  (* " (Core Rule Set|CRS) project. All rights reserved." with two wildcards *)
  let chk (name : str) :=
    let p1 := [32] ++ name ++ $" project" in
    prefixb p1 t &&
    match skipn (length p1) t with
    | _ :: r1 =>
      prefixb $" All rights reserved" r1 &&
      match skipn 20 r1 with
      | [_] => true
      | _ => false
      end
    | [] => false
    end in
  chk $"Core Rule Set" || chk $"CRS".
Definition repl_year (y : str) (line : str) : str :=
  if prefixb year_a line then
    let r := skipn (length year_a) line in
    let d := firstn 4 r in
    let t := skipn 4 r in
    if (Nat.eqb (length d) 4 && forallb is_digit d && year_tail_ok t)%bool
    then year_a ++ y ++ t else line
  else line.

(* 4. CRSYearSecRuleVerRegex  (ver:'OWASP_CRS/)(\d+\.\d+\.\d+(-[a-z0-9-]+)?)  everywhere *)
Definition secver_a : str := $"ver:'OWASP_CRS/".
Definition m_secver (v : str) (s : str) : option (str * nat) :=
  if prefixb secver_a s then
    match semver3_len (skipn (length secver_a) s) with
    | Some n => Some (secver_a ++ v, (length secver_a + n)%nat)
    | None => None
    end
  else None.

(* 5. CRSVersionComponentSignatureRegex: anchored at the line start, prefix then semver3 *)
Definition sig_a : str := $"SecComponentSignature ""OWASP_CRS/".
Definition repl_sig (v : str) (line : str) : str :=
  if prefixb sig_a line then
    let r := skipn (length sig_a) line in
    match semver3_len r with
    | Some n => sig_a ++ v ++ skipn n r
    | None => line
    end
  else line.

(* strings.Join(regexp.MustCompile(`\d+`).FindAllString(version, -1), "") *)
Definition only_digits (v : str) : str := filter is_digit v.

Definition update_line (v y : str) (line : str) : str :=
  let l1 := repl_version v line in
  let l2 := replace_matches (m_short (only_digits v)) l1 0 in
  let l3 := repl_year y l2 in
  let l4 := replace_matches (m_secver v) l3 0 in
  repl_sig v l4.

Definition update_rules (limit : N) (v y : str) (contents : str) : str :=
  unlines (map (update_line v y) (scan_lines limit contents)).
