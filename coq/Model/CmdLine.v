(* regex/processors/cmdline.go: regexpStr, regexpChar, computeSuffix and the
   selection of the three configured patterns per shell type (NewCmdLine);
   configuration/configuration.go: New (after YAML decoding). *)
From Coq Require Import String.
From Verif Require Import Base.Str Base.Outcome Model.Passes.
Open Scope N_scope.

Record evasion := { ev_pattern : str; ev_suffix : str; ev_nospace_suffix : str }.

Inductive cmdtype := CmdUnix | CmdWindows.

(* CmdLineTypeFromString *)
Definition cmdtype_of (t : str) : option cmdtype :=
  if str_eqb t $"unix" then Some CmdUnix
  else if str_eqb t $"windows" then Some CmdWindows
  else None.

(* the six configured strings, already TrimSpace'd by configuration.New
   (all empty when the file is missing or undecodable) *)
Record config := {
  cf_ev_unix : str; cf_ev_windows : str;
  cf_suf_unix : str; cf_suf_windows : str;
  cf_ns_unix : str; cf_ns_windows : str
}.
Definition empty_config : config :=
  {| cf_ev_unix := []; cf_ev_windows := []; cf_suf_unix := []; cf_suf_windows := []; cf_ns_unix := []; cf_ns_windows := [] |}.

(* configuration.New: every pattern is strings.TrimSpace'd *)
Definition trim_config (c : config) : config :=
  {| cf_ev_unix := trim_space (cf_ev_unix c); cf_ev_windows := trim_space (cf_ev_windows c);
     cf_suf_unix := trim_space (cf_suf_unix c); cf_suf_windows := trim_space (cf_suf_windows c);
     cf_ns_unix := trim_space (cf_ns_unix c); cf_ns_windows := trim_space (cf_ns_windows c) |}.

(* NewCmdLine *)
Definition evasion_for (c : config) (t : cmdtype) : evasion :=
  match t with
  | CmdUnix => {| ev_pattern := cf_ev_unix c; ev_suffix := cf_suf_unix c; ev_nospace_suffix := cf_ns_unix c |}
  | CmdWindows => {| ev_pattern := cf_ev_windows c; ev_suffix := cf_suf_windows c; ev_nospace_suffix := cf_ns_windows c |}
  end.

(* regexpChar *)
Definition regexp_char (c : N) : str :=
  if c =? 46 then $"\."
  else if c =? 45 then $"\-"
  else if c =? 32 then $"\s+"
  else if c <? 128 then [c]
  else [192 + c / 64; 128 + c mod 64].    (* string(byte) converts the byte to a RUNE: UTF-8 of U+0080..U+00FF *)

(* computeSuffix: (strippedInput, suffix) *)
Definition compute_suffix (ev : evasion) (input : str) : str * str :=
  let n := length input in
  if Nat.ltb n 2 then (input, [])
  else
    let body := firstn (n - 1) input in
    match last_opt input with
    | None => (input, [])
    | Some lastc =>
      if negb (is_escaped input (n - 1)) then
        if lastc =? 64 then (body, ev_suffix ev)
        else if lastc =? 126 then (body, ev_nospace_suffix ev)
        else (input, [])
      else (firstn (n - 2) input ++ [lastc], [])
    end.

(* interleave the evasion pattern between the escaped characters *)
Fixpoint interleave (sep : str) (l : list str) : str :=
  match l with
  | [] => []
  | [x] => x
  | x :: l' => x ++ sep ++ interleave sep l'
  end.

(* regexpStr *)
Definition regexp_str (ev : evasion) (input : str) : str :=
  match input with
  | 39 :: rest => rest                                   (* leading ' : verbatim *)
  | _ =>
    let (stripped, suffix) := compute_suffix ev input in
    interleave (ev_pattern ev) (map regexp_char stripped) ++
    (match suffix with [] => [] | _ => ev_pattern ev ++ suffix end)
  end.
