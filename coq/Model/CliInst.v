(* Model/Cli.v instantiated with the per-file models: the commands as closed functions of
   the tree, the configured patterns and the Join oracle. *)
From Coq Require Import String.
From Verif Require Import Base.Str Base.Lines Base.Outcome Model.Patterns Model.ParseLine Model.CmdLine Model.Parser Model.Assembler Model.Generate
  Model.Format Model.Renumber Model.Copyright Model.RuleId Model.Update Model.Cli.
From Verif Require Import Gen.Consts.
Open Scope N_scope.

(* path below a directory, components joined by '/' *)
Definition rel_name (dir p : path) : str := join [47] (skipn (length dir) p).

Definition fsys_of_tree (t : tree) : fsys :=
  let pick (dir : path) :=
    map (fun e => (rel_name dir (fst e), snd e)) (filter (fun e => under dir (fst e)) t) in
  {| fs_include := pick [$"regex-assembly"; $"include"];
     fs_exclude := pick [$"regex-assembly"; $"exclude"];
     fs_abs := [] |}.

Section Inst.
Variable join : list str -> option str.
Variable cfg : config.

Definition gen_in_tree (t : tree) (f : path) : outcome str :=
  match t_get t f with
  | None => Err 40
  | Some c =>
    generate join cfg all_pnames (fun m => m) (fun m => m) (fun m => m)
             scan_limit_parser_parse scan_limit_assembler_assemble (fsys_of_tree t) c
  end.

Definition fmt_file (c : str) : outcome str := format_bytes (fun _ => all_pnames) scan_limit_format_process_file c.
Definition renum_file (id c : str) : str := process_yaml scan_limit_renumber_process_yaml id c.
Definition copyr_file (v y c : str) : str := update_rules scan_limit_copyright_update_rules v y c.

Definition cli_update_all (t : tree) := update_all gen_in_tree parse_uint_bits (map fst t) t.
Definition cli_update_one (t : tree) (arg : str) := update_one gen_in_tree parse_uint_bits t arg.
Definition cli_compare_all (t : tree) := compare_all gen_in_tree parse_uint_bits (map fst t) t [].
Definition cli_format_all (t : tree) := format_all fmt_file (map fst t) t.
Definition cli_format_one (t : tree) (arg : str) := format_one fmt_file parse_uint_bits t arg.
Definition cli_format_check_all (t : tree) := format_check_all fmt_file (map fst t) t.
Definition cli_renumber_all (t : tree) := renumber_all renum_file (map fst t) t.
Definition cli_renumber_check_all (t : tree) := renumber_check_all renum_file (map fst t) t.
Definition cli_copyright_all (v y : str) (t : tree) := copyright_all (copyr_file v y) (map fst t) t.
End Inst.
