(* The plain reading of an assembly program, as a machine over DENOTATIONS instead of text
   (C01).  It reads the same line list as the operator - entries, ##!=> / ##!=< name /
   ##!=> name markers, ##!> assemble / ##!> cmdline blocks, ##!< - and computes what the
   file means: a segment is the alternation of its entries, segments are concatenated at
   the markers, a stored name denotes what was accumulated when it was stored, a nested
   block is one entry of its parent, a cmdline block is the alternation of its words.
   It never builds or inspects regex text (it looks at the input lines only to recognise
   the markers and block delimiters).

   The machine is partial (answers None) where the program is not well-formed (unknown
   stored name, store without name, unbalanced blocks, unknown processor, a cmdline block
   without words) and in ONE further place: a segment that is flushed while exactly one
   entry is pending and that entry is not sequence-level ([seq_level] = false) - the code
   copies such a line raw into its buffer (recorded finding C01-single-line-raw). *)
From Coq Require Import String.
From Verif Require Import Base.Str Base.Lines Base.Outcome Model.Patterns Model.ParseLine Model.CmdLine Model.Assembler.
Open Scope N_scope.

Section Plain.
Variable A : Type.
Variable aalt : list A -> A.            (* alternation *)
Variable acat : A -> A -> A.            (* concatenation *)
Variable den_line : str -> A.           (* what an entry line means *)
Variable den_word : evasion -> str -> A.   (* what a cmdline word means (C04) *)
Variable seq_level : str -> bool.       (* may this entry text be concatenated raw with its neighbours? *)
Variable cfg : config.

Definition ocat (o : option A) (x : A) : option A :=
  match o with None => Some x | Some y => Some (acat y x) end.

(* an Assemble processor: the pending entries (is it sequence-level?, meaning), and the buffer *)
Record pasm := { p_pending : list (bool * A); p_out : option A }.
Definition pasm_new : pasm := {| p_pending := []; p_out := None |}.

Definition pstash := list (str * option A).
Fixpoint ps_get (s : pstash) (k : str) : option (option A) :=
  match s with
  | [] => None
  | (k', v) :: s' => if str_eqb k k' then Some v else ps_get s' k
  end.
Fixpoint ps_set (s : pstash) (k : str) (v : option A) : pstash :=
  match s with
  | [] => [(k, v)]
  | (k', v') :: s' => if str_eqb k k' then (k, v) :: s' else (k', v') :: ps_set s' k v
  end.

(* flush: the pending alternation is appended to the buffer *)
Definition pflush (a : pasm) : option pasm :=
  match p_pending a with
  | [] => Some a
  | [(sq, x)] => if sq then Some {| p_pending := []; p_out := ocat (p_out a) (aalt [x]) |} else None
  | ps => Some {| p_pending := []; p_out := ocat (p_out a) (aalt (map snd ps)) |}
  end.

Definition pappend (a : pasm) (stash : pstash) (ident : str) : option pasm :=
  match ident with
  | [] => pflush a
  | _ =>
    match pflush a with
    | None => None
    | Some a1 =>
      match ps_get stash ident with
      | None => None
      | Some None => Some a1
      | Some (Some s) => Some {| p_pending := p_pending a1; p_out := ocat (p_out a1) s |}
      end
    end
  end.

Definition pstore (a : pasm) (stash : pstash) (ident : str) : option (pasm * pstash) :=
  match ident with
  | [] => None
  | _ =>
    match pflush a with
    | None => None
    | Some a1 => Some ({| p_pending := p_pending a1; p_out := None |}, ps_set stash ident (p_out a1))
    end
  end.

Definition padd (a : pasm) (sq : bool) (x : A) : pasm :=
  {| p_pending := p_pending a ++ [(sq, x)]; p_out := p_out a |}.

(* an input line arrives at an Assemble processor: a marker, or an entry *)
Definition pasm_line (a : pasm) (stash : pstash) (line : str) : option (pasm * pstash) :=
  match m_assemble_input line with
  | Some ident => pstore a stash ident
  | None =>
    match m_assemble_output line with
    | Some ident => match pappend a stash ident with Some a1 => Some (a1, stash) | None => None end
    | None => Some (padd a (seq_level line) (den_line line), stash)
    end
  end.

(* the block is complete: what it means, if anything *)
Definition pasm_complete (a : pasm) : option A :=
  match p_out a, p_pending a with
  | None, [] => None
  | Some o, [] => Some o
  | None, ps => Some (aalt (map snd ps))
  | Some o, ps => Some (acat o (aalt (map snd ps)))
  end.

(* the processors of the stack *)
Inductive pproc := PPAsm (a : pasm) | PPCmd (ev : evasion) (words : list A).

Definition pproc_line (p : pproc) (stash : pstash) (line : str) : option (pproc * pstash) :=
  match p with
  | PPAsm a => match pasm_line a stash line with Some (a', st) => Some (PPAsm a', st) | None => None end
  | PPCmd ev ws =>
    match line with
    | [] => Some (p, stash)
    | _ => Some (PPCmd ev (ws ++ [den_word ev line]), stash)
    end
  end.

(* a completed block hands its meaning to its parent as ONE entry; an assemble block's text is
   a group (sequence-level), a cmdline block's text is a bare alternation (not sequence-level) *)
Definition pproc_complete (p : pproc) : option (option (bool * A)) :=
  match p with
  | PPAsm a => Some (match pasm_complete a with Some x => Some (true, x) | None => None end)
  | PPCmd _ ws => match ws with [] => None | _ => Some (Some (false, aalt ws)) end
  end.

(* the parent receives the entry; inside a cmdline block the result text of a nested block would
   be pushed through the word transformation: outside the plain reading *)
Definition pproc_receive (p : pproc) (e : option (bool * A)) : option pproc :=
  match e with
  | None => Some p
  | Some (sq, x) =>
    match p with
    | PPAsm a => Some (PPAsm (padd a sq x))
    | PPCmd _ _ => None
    end
  end.

Definition pstart (stack : list pproc) (name arg : str) : option (list pproc) :=
  if str_eqb name $"assemble" then Some (PPAsm pasm_new :: stack)
  else if str_eqb name $"cmdline" then
    match cmdtype_of arg with
    | Some t => Some (PPCmd (evasion_for cfg t) [] :: stack)
    | None => None
    end
  else None.

Definition pstep (st : list pproc * pstash) (line : str) : option (list pproc * pstash) :=
  let '(stack, stash) := st in
  match m_processor_start line with
  | Some (name, arg) => match pstart stack name arg with Some s' => Some (s', stash) | None => None end
  | None =>
    if m_block_end line then
      match stack with
      | p :: parent :: rest =>
        match pproc_complete p with
        | Some e => match pproc_receive parent e with Some parent' => Some (parent' :: rest, stash) | None => None end
        | None => None
        end
      | _ => None
      end
    else
      match stack with
      | p :: rest => match pproc_line p stash line with Some (p', stash') => Some (p' :: rest, stash') | None => None end
      | [] => None
      end
  end.

Fixpoint prun (st : list pproc * pstash) (lines : list str) : option (list pproc * pstash) :=
  match lines with
  | [] => Some st
  | l :: ls => match pstep st l with Some st' => prun st' ls | None => None end
  end.

(* the body of the file: Some None = the file describes nothing *)
Definition plain_body (lines : list str) : option (option A) :=
  match prun ([PPAsm pasm_new], []) lines with
  | Some ([PPAsm a], _) => Some (pasm_complete a)
  | _ => None
  end.

End Plain.

(* ---------- what the statement of C01 asks of the lines ----------
   [Den s a]: the text s, read as a whole expression, means a.  [DenSeq s a]: moreover s may be
   juxtaposed with other such texts.  Stated here, proved about in Proofs/PlainReadingProofs.v. *)
Section PlainSpec.
Variable A : Type.
Variable aalt : list A -> A.
Variable acat : A -> A -> A.
Variable den_line : str -> A.
Variable den_word : evasion -> str -> A.
Variable seq_level : str -> bool.
Variable cfg : config.
Variable Den DenSeq : str -> A -> Prop.

(* an entry means what the plain reading says it means *)
Definition ok_entry (l : str) : Prop :=
  l <> [] /\ Den l (den_line l) /\ (seq_level l = true -> DenSeq l (den_line l)).

(* the text the cmdline processor makes of a word means what the plain reading says (C04) *)
Definition ok_word (ev : evasion) (l : str) : Prop :=
  regexp_str ev l <> [] /\ Den (regexp_str ev l) (den_word ev l).

(* what is asked of an ordinary line, given the processor that will receive it *)
Definition line_ok (stack : list (pproc A)) (l : str) : Prop :=
  match stack with
  | PPAsm _ _ :: _ => m_assemble_input l = None -> m_assemble_output l = None -> ok_entry l
  | PPCmd _ ev _ :: _ => l <> [] -> ok_word ev l
  | [] => True
  end.

Fixpoint lines_ok (st : list (pproc A) * pstash A) (lines : list str) : Prop :=
  match lines with
  | [] => True
  | l :: ls =>
    (m_processor_start l = None -> m_block_end l = false -> line_ok (fst st) l) /\
    match pstep A aalt acat den_line den_word seq_level cfg st l with
    | Some st' => lines_ok st' ls
    | None => True
    end
  end.

(* prefixes, body, suffixes concatenated *)
Fixpoint cat_opt (xs : list A) : option A :=
  match xs with
  | [] => None
  | x :: xs' => match cat_opt xs' with None => Some x | Some y => Some (acat x y) end
  end.

Definition whole (pxs : list A) (x : A) (sxs : list A) : A :=
  fold_right acat (match cat_opt sxs with None => x | Some s => acat x s end) pxs.
End PlainSpec.
