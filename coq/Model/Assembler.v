(* regex/processors/assemble.go (Assemble processor), regex/processors/cmdline.go
   (CmdLine processor as far as the operator drives it) and
   regex/operators/assembler.go (Run, assemble, startPreprocessor,
   endPreprocessor, complete, runFinalPass, runSimplificationAssembly).

   rassemble.Join is the oracle [join]: [None] = it returned an error.
   The package variables processorStack / processor are the explicit
   [stack]: the Go code keeps [processor] equal to the top of the stack at
   every point where it is used (pushes and pops update both). *)
From Coq Require Import String.
From Verif Require Import Base.Str Base.Lines Base.Outcome Model.Patterns Model.ParseLine Model.Passes Model.CmdLine.
Open Scope N_scope.

Section WithJoin.
Variable join : list str -> option str.

Definition err_join : N := 10.           (* rassemble.Join failed *)
Definition err_no_ident : N := 11.       (* ##!=< without a name *)
Definition err_no_stash : N := 12.       (* unknown stored name *)
Definition err_bad_cmdtype : N := 13.
Definition err_unknown_proc : N := 14.
Definition err_stack_empty : N := 15.    (* too many end markers *)
Definition err_stack_left : N := 16.     (* too few end markers *)
Definition err_final : N := 17.          (* logger.Fatal in complete *)

Definition grp (s : str) : str := $"(?:" ++ s ++ $")".

(* ---------- Assemble processor ---------- *)
Record asm := { a_lines : list str; a_output : str }.
Definition asm_new : asm := {| a_lines := []; a_output := [] |}.

(* runAssemble: (regex, lines afterwards) *)
Definition run_assemble (lines : list str) : outcome str :=
  match lines with
  | [] => Ok []
  | _ => match join lines with
         | Some r => Ok (grp r)
         | None => Err err_join
         end
  end.

(* append("") *)
Definition asm_flush (a : asm) : outcome asm :=
  let a1 := match a_lines a with
            | [l] => {| a_lines := []; a_output := a_output a ++ l |}   (* copied raw *)
            | _ => a
            end in
  do r <- run_assemble (a_lines a1);
  Ok {| a_lines := []; a_output := a_output a1 ++ r |}.

(* append(identifier) *)
Definition asm_append (a : asm) (stash : smap) (ident : str) : outcome asm :=
  match ident with
  | [] => asm_flush a
  | _ =>
    do a1 <- asm_flush a;
    match smap_get stash ident with
    | None => Err err_no_stash
    | Some stored => Ok {| a_lines := a_lines a1; a_output := a_output a1 ++ stored |}
    end
  end.

(* store(identifier) *)
Definition asm_store (a : asm) (stash : smap) (ident : str) : outcome (asm * smap) :=
  match ident with
  | [] => Err err_no_ident
  | _ =>
    do a1 <- asm_flush a;
    Ok ({| a_lines := a_lines a1; a_output := [] |}, smap_set stash ident (a_output a1))
  end.

Definition asm_process_line (a : asm) (stash : smap) (line : str) : outcome (asm * smap) :=
  match m_assemble_input line with
  | Some ident => asm_store a stash ident
  | None =>
    match m_assemble_output line with
    | Some ident => do a1 <- asm_append a stash ident; Ok (a1, stash)
    | None => Ok ({| a_lines := a_lines a ++ [line]; a_output := a_output a |}, stash)
    end
  end.

(* wrapCompletedAssembly *)
Definition wrap_completed (output regex : str) : str :=
  match output, regex with
  | [], [] => []
  | _ :: _, _ :: _ => grp output ++ grp regex
  | _ :: _, [] => grp output
  | [], _ :: _ => grp regex
  end.

(* Complete: zero or one result lines *)
Definition asm_complete (a : asm) : outcome (list str) :=
  do r <- run_assemble (a_lines a);
  match wrap_completed (a_output a) r with
  | [] => Ok []
  | res => Ok [res]
  end.

(* ---------- the processors the operator drives ---------- *)
Inductive proc := PAsm (a : asm) | PCmd (ev : evasion) (lines : list str).

Definition proc_process_line (p : proc) (stash : smap) (line : str) : outcome (proc * smap) :=
  match p with
  | PAsm a => do r <- asm_process_line a stash line; let '(a', st) := r in Ok (PAsm a', st)
  | PCmd ev lines =>
    match line with
    | [] => Ok (p, stash)
    | _ => Ok (PCmd ev (lines ++ [regexp_str ev line]), stash)
    end
  end.

Definition proc_complete (p : proc) : outcome (list str) :=
  match p with
  | PAsm a => asm_complete a
  | PCmd _ lines => match join lines with Some r => Ok [r] | None => Err err_join end
  end.

Fixpoint proc_consume (p : proc) (stash : smap) (lines : list str) : outcome (proc * smap) :=
  match lines with
  | [] => Ok (p, stash)
  | l :: ls => do r <- proc_process_line p stash l; let '(p', st) := r in proc_consume p' st ls
  end.

(* ---------- operator ---------- *)
Variable cfg : config.

(* startPreprocessor *)
Definition start_preprocessor (stack : list proc) (name arg : str) : outcome (list proc) :=
  if str_eqb name $"assemble" then Ok (PAsm asm_new :: stack)
  else if str_eqb name $"cmdline" then
    match cmdtype_of arg with
    | Some t => Ok (PCmd (evasion_for cfg t) [] :: stack)
    | None => Err err_bad_cmdtype
    end
  else Err err_unknown_proc.

(* one line of the loop in [assemble]; the stack's head is the current processor *)
Definition step_line (st : list proc * smap) (line : str) : outcome (list proc * smap) :=
  let '(stack, stash) := st in
  match m_processor_start line with
  | Some (name, arg) => do s' <- start_preprocessor stack name arg; Ok (s', stash)
  | None =>
    if m_block_end line then
      match stack with
      | [] => Err err_stack_empty
      | p :: rest =>
        do lines <- proc_complete p;
        match rest with
        | [] => Err err_stack_empty
        | parent :: rest' =>
          do r <- proc_consume parent stash lines;
          let '(parent', stash') := r in Ok (parent' :: rest', stash')
        end
      end
    else
      match stack with
      | [] => Err err_stack_empty
      | p :: rest => do r <- proc_process_line p stash line; let '(p', stash') := r in Ok (p' :: rest, stash')
      end
  end.

Fixpoint run_lines (st : list proc * smap) (lines : list str) : outcome (list proc * smap) :=
  match lines with
  | [] => Ok st
  | l :: ls => do st' <- step_line st l; run_lines st' ls
  end.

(* what the parser hands over *)
Record parsed := {
  p_buffer : str;
  p_flag_i : bool; p_flag_s : bool;
  p_prefixes : list str;
  p_suffixes : list str
}.

Definition flags_prefix (p : parsed) : str :=
  if p_flag_i p || p_flag_s p
  then $"(?" ++ (if p_flag_i p then [105] else []) ++ (if p_flag_s p then [115] else []) ++ $")"
  else [].

(* runFinalPass *)
Definition run_final_pass (stash : smap) (lines : list str) : outcome str :=
  do r <- proc_consume (PAsm asm_new) stash lines;
  match fst r with
  | PAsm a => do res <- asm_complete a; Ok (concat res)
  | _ => Err err_final
  end.

(* the text handed to runSimplificationAssembly (what C01 calls the pre-simplification text) *)
Definition pre_simplify (p : parsed) (stash : smap) (lines : list str) : outcome str :=
  do result <- run_final_pass stash lines;
  let result := match p_prefixes p, p_suffixes p, result with
                | _ :: _, _ :: _, _ :: _ => grp result
                | _, _, _ => result
                end in
  Ok (concat (p_prefixes p) ++ result ++ concat (p_suffixes p)).

(* complete *)
Definition complete (p : parsed) (stash : smap) (lines : list str) : outcome str :=
  do result <- pre_simplify p stash lines;
  match result with
  | [] => Ok []
  | _ =>
    match join [result] with
    | None => Err err_final
    | Some simplified =>
      do cleaned <- final_passes simplified;
      match cleaned with
      | [] => Ok []
      | _ => Ok (flags_prefix p ++ cleaned)
      end
    end
  end.

(* assemble + the stack check of Run.  [init_stack] is the value the package
   variable processorStack has when Run is entered: Run overwrites it. *)
Definition assemble (limit : N) (init_stack : list proc) (p : parsed) : outcome str :=
  let stack0 : list proc := [] in                       (* processorStack = NewProcessorStack() *)
  do st <- run_lines (PAsm asm_new :: stack0, []) (scan_lines limit (p_buffer p));
  let '(stack, stash) := st in
  match stack with
  | [] => Err err_stack_empty
  | top :: rest =>
    do lines <- proc_complete top;
    do out <- complete p stash lines;
    match rest with
    | [] => Ok out
    | _ => Err err_stack_left
    end
  end.

End WithJoin.
