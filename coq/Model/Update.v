(* cmd/regex_update.go: updateRegex ; cmd/regex_compare.go: readCurrentRegex,
   compareRegex (verdict only).  Rule location and operand delimitation by
   RuleRxRegex; the file is split on "\n" and joined again. *)
From Coq Require Import String.
From Verif Require Import Base.Str Base.Outcome.

Definition err_not_found : N := 10.
Definition err_no_rx : N := 11.
Definition crash_index : N := 1.

(* last position at which [needle] occurs in [s] with the occurrence ending
   at or before [limit]; scanning left to right and keeping the latest hit *)
Fixpoint last_occ_aux (needle s : str) (i limit : nat) (best : option nat) : option nat :=
  match s with
  | [] => if (Nat.eqb (length needle) 0 && Nat.leb i limit)%bool then Some i else best
  | _ :: s' =>
    let best' := if (prefixb needle s && Nat.leb (i + length needle) limit)%bool then Some i else best in
    last_occ_aux needle s' (S i) limit best'
  end.
Definition last_occ (needle s : str) (limit : nat) : option nat := last_occ_aux needle s 0 limit None.

Definition closing : str := [34; 32; 92].           (* quote, space, backslash *)
Definition marker_pos : str := $"""@rx ".
Definition marker_neg : str := $"""!@rx ".

(* RuleRxRegex, groups (1, 2, 3) and the text after the match *)
Definition rx_match (line : str) : option (str * str * str * str) :=
  match last_occ closing line (length line) with
  | None => None
  | Some q =>
    let e1 := match last_occ marker_pos line q with Some p => Some (p + length marker_pos)%nat | None => None end in
    let e2 := match last_occ marker_neg line q with Some p => Some (p + length marker_neg)%nat | None => None end in
    let e := match e1, e2 with
             | Some a, Some b => Some (Nat.max a b)
             | Some a, None => Some a
             | None, Some b => Some b
             | None, None => None
             end in
    match e with
    | None => None
    | Some g1end =>
      Some (firstn g1end line, firstn (q - g1end) (skipn g1end line), closing, skipn (q + 3) line)
    end
  end.

Definition sec_rule_line (line : str) : bool := contains $"SecRule" line.

(* the search loop: Some index of the line to rewrite (may be "-1" = None inside),
   or failure.  Result: Ok (Some i) | Ok None (= index -1) | Err *)
Fixpoint locate_aux (lines : list str) (idpat : str) (k : N) (i : nat) (found : bool) (count : N)
  : option (bool * N * option nat) :=
  (* Some (found, count, index) when the loop stops with a break; None when it runs to the end *)
  match lines with
  | [] => None
  | line :: rest =>
    if (negb found && contains idpat line)%bool then
      if k =? 0 then Some (true, count, match i with O => None | S j => Some j end)
      else locate_aux rest idpat k (S i) true count
    else
      let count' := if (found && sec_rule_line line)%bool then (count + 1) mod 256 else count in
      if (found && (count' =? k))%bool then Some (found, count', Some i)
      else locate_aux rest idpat k (S i) found count'
  end.

(* whether the loop found the id at all when it ran to the end, and the count *)
Fixpoint scan_all (lines : list str) (idpat : str) (found : bool) (count : N) : bool * N :=
  match lines with
  | [] => (found, count)
  | line :: rest =>
    if (negb found && contains idpat line)%bool then scan_all rest idpat true count
    else scan_all rest idpat found (if (found && sec_rule_line line)%bool then (count + 1) mod 256 else count)
  end.

Definition locate (lines : list str) (id : str) (k : N) : outcome (option nat) :=
  let idpat := $"id:" ++ id in
  match locate_aux lines idpat k 0 false 0 with
  | Some (_, _, idx) => Ok idx                      (* break: found and count = k *)
  | None =>
    (* loop ran to the end: index = last line; Fatal unless found and count = k *)
    let (found, count) := scan_all lines idpat false 0 in
    if (found && (count =? k))%bool then Ok (Some (length lines - 1)%nat) else Err err_not_found
  end.

Fixpoint set_nth (i : nat) (l' : str) (lines : list str) : list str :=
  match lines, i with
  | [], _ => []
  | _ :: rest, O => l' :: rest
  | x :: rest, S j => x :: set_nth j l' rest
  end.

(* updateRegex: the new file contents *)
Definition update_contents (contents : str) (id : str) (k : N) (new : str) : outcome str :=
  let lines := split_on 10 contents in
  do idx <- locate lines id k;
  match idx with
  | None => Crash crash_index                         (* lines[-1] *)
  | Some i =>
    match rx_match (nth i lines []) with
    | None => Err err_no_rx
    | Some (g1, _, g3, _) => Ok (join [10] (set_nth i (g1 ++ new ++ g3) lines))
    end
  end.

(* readCurrentRegex *)
Definition read_current (contents : str) (id : str) (k : N) : outcome str :=
  let lines := split_on 10 contents in
  do idx <- locate lines id k;
  match idx with
  | None => Crash crash_index
  | Some i =>
    match rx_match (nth i lines []) with
    | None => Err err_no_rx
    | Some (_, g2, _, _) => Ok g2
    end
  end.

(* compareRegex verdict *)
Definition unchanged (current generated : str) : bool := str_eqb current generated.
