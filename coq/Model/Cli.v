(* The commands as functions on a file tree: which files are read, which are
   selected by a walk or a glob, which are written, and the exit status.
   cmd/regex_update.go (performUpdate, processRule), cmd/regex_compare.go
   (performCompare, processRegexForCompare), cmd/regex_format.go (RunE,
   processAll, processFile's write decision), util/renumber_tests.go
   (RenumberTests, RenumberTest, processFile), cmd/util_renumber_tests.go
   (parseFilePath), chore/update_copyright.go (UpdateCopyright, processFile).

   What happens INSIDE one file is a parameter (the models of generate,
   format, renumber, update-copyright); this file is about selection, frame
   and failure.  cobra/pflag argument handling is not modelled. *)
From Coq Require Import String.
From Verif Require Import Base.Str Base.Outcome Model.RuleId Model.Update Model.Renumber.
Open Scope N_scope.

Definition path := list str.                 (* components below the CRS root *)
Definition tree := list (path * str).        (* regular files, in filepath.WalkDir order *)

Fixpoint path_eqb (a b : path) : bool :=
  match a, b with
  | [], [] => true
  | x :: a', y :: b' => str_eqb x y && path_eqb a' b'
  | _, _ => false
  end.

Fixpoint t_get (t : tree) (p : path) : option str :=
  match t with
  | [] => None
  | (q, c) :: t' => if path_eqb p q then Some c else t_get t' p
  end.

(* os.WriteFile on a file of the tree: contents replaced, nothing else *)
Fixpoint t_set (t : tree) (p : path) (c : str) : tree :=
  match t with
  | [] => []
  | (q, c0) :: t' => if path_eqb p q then (q, c) :: t' else (q, c0) :: t_set t' p c
  end.

Definition base (p : path) : str := match rv p with [] => [] | b :: _ => b end.
Definition under (dir : path) (p : path) : bool :=
  (Nat.ltb (length dir) (length p)) && path_eqb dir (firstn (length dir) p).

Definition d_assembly : path := [$"regex-assembly"].
Definition d_include : path := [$"regex-assembly"; $"include"].
Definition d_rules : path := [$"rules"].
Definition d_tests : path := [$"tests"; $"regression"; $"tests"].

(* path.Ext of a file name *)
Fixpoint ext_aux (r : str) (acc : str) : str :=
  match r with
  | [] => []
  | c :: r' => if c =? 46 then 46 :: acc else ext_aux r' (c :: acc)
  end.
Definition name_ext (name : str) : str := ext_aux (rv name) [].
Definition has_ext (e : str) (p : path) : bool := str_eqb (name_ext (base p)) e.

Inductive status := Success | Fail.

Section Commands.
(* per-file behaviour (instantiated with the models of the respective commands) *)
Variable gen : tree -> path -> outcome str.            (* regex generate for an assembly file *)
Variable fmt : str -> outcome str.                     (* the formatted bytes of one .ra file *)
Variable renum : str -> str -> str.                    (* rule id -> contents -> renumbered contents *)
Variable copyr : str -> str.                           (* contents -> contents with version/year set *)
Variable bits : N.                                     (* bit size given to ParseUint *)

(* ---------- update / compare ---------- *)
(* filepath.Glob of rules/STAR-PPP-STAR : direct children of rules/ whose name contains -PPP- *)
Definition glob_rules (t : tree) (id : str) : list path :=
  let needle := [45] ++ firstn 3 id ++ [45] in
  map fst (filter (fun e => let p := fst e in
                            Nat.eqb (length p) 2 && path_eqb (firstn 1 p) d_rules && contains needle (base p)) t).

(* processRule: Ok tree' | Err (logger.Fatal) *)
Definition process_rule (t : tree) (id : str) (k : N) (file : path) : outcome tree :=
  do regex <- gen t file;
  match glob_rules t id with
  | [rf] =>
    match t_get t rf with
    | None => Err 30
    | Some c => do c' <- update_contents c id k regex; Ok (t_set t rf c')
    end
  | _ => Err 31
  end.

(* the files `update --all` / `compare --all` address: .ra files below regex-assembly whose name
   matches RuleIdFileNameRegex, with the id and chain offset derived from the name *)
Definition addressed (p : path) : option (str * str) :=
  if under d_assembly p && has_ext $".ra" p then match_rule_id_file_name (base p) else None.

(* performUpdate --all: stops (Fatal) at the first failure, EARLIER FILES STAY WRITTEN *)
Fixpoint update_all (files : list path) (t : tree) : tree * status :=
  match files with
  | [] => (t, Success)
  | f :: rest =>
    match addressed f with
    | None => update_all rest t
    | Some (id, ds) =>
      match chain_offset bits ds with
      | None => (t, Fail)
      | Some k =>
        match process_rule t id k f with
        | Ok t' => update_all rest t'
        | _ => (t, Fail)
        end
      end
    end
  end.

Definition update_one (t : tree) (arg : str) : tree * status :=
  match parse_rule_id bits arg with
  | None => (t, Fail)
  | Some r =>
    match process_rule t (r_id r) (r_chain r) (d_assembly ++ [r_file r]) with
    | Ok t' => (t', Success)
    | _ => (t, Fail)
    end
  end.

(* compare: verdict per rule; (lines printed: true = unchanged, false = changed) *)
Definition compare_rule (t : tree) (id : str) (k : N) (file : path) : outcome (option bool) :=
  do regex <- gen t file;
  match glob_rules t id with
  | [rf] =>
    match t_get t rf with
    | None => Err 30
    | Some c => do cur <- read_current c id k; Ok (Some (unchanged cur regex))
    end
  | _ => Err 33             (* no rules file, or several: an error is returned *)
  end.

Fixpoint compare_all (files : list path) (t : tree) (acc : list bool) : outcome (list bool) :=
  match files with
  | [] => Ok acc
  | f :: rest =>
    match addressed f with
    | None => compare_all rest t acc
    | Some (id, ds) =>
      match chain_offset bits ds with
      | None => Err 32
      | Some k =>
        do v <- compare_rule t id k f;
        compare_all rest t (match v with Some b => acc ++ [b] | None => acc end)
      end
    end
  end.

Definition compare_all_status (github : bool) (verdicts : outcome (list bool)) : status :=
  match verdicts with
  | Ok vs => if github && existsb negb vs then Fail else Success
  | _ => Fail
  end.

(* ---------- format ---------- *)
Definition format_selected (p : path) : bool := under d_assembly p && has_ext $".ra" p.

(* processFile, write mode: a file that cannot be parsed (logger.Panic) aborts the command *)
Fixpoint format_all (files : list path) (t : tree) : tree * status :=
  match files with
  | [] => (t, Success)
  | f :: rest =>
    if format_selected f then
      match t_get t f with
      | None => format_all rest t
      | Some c =>
        match fmt c with
        | Ok c' => format_all rest (t_set t f c')
        | _ => (t, Fail)
        end
      end
    else format_all rest t
  end.

(* the single-file argument: NAME[.ra] -> assembly/<file> when it parses as a rule id, else include/NAME[.ra] *)
Definition format_target (arg : str) : path :=
  let filename := if str_eqb (name_ext arg) [] then arg ++ $".ra" else arg in
  match parse_rule_id bits filename with
  | Some r => d_assembly ++ [r_file r]
  | None => d_include ++ [filename]
  end.

Definition format_one (t : tree) (arg : str) : tree * status :=
  let f := format_target arg in
  match t_get t f with
  | None => (t, Fail)
  | Some c =>
    match fmt c with
    | Ok c' => (t_set t f c', Success)
    | _ => (t, Fail)
    end
  end.

(* --check: never writes; fails iff some selected file would change (the upper-case lint aside) *)
Definition format_check_all (files : list path) (t : tree) : status :=
  if existsb (fun f => format_selected f &&
                       match t_get t f with
                       | Some c => match fmt c with Ok c' => negb (str_eqb c c') | _ => true end
                       | None => false
                       end) files
  then Fail else Success.

(* ---------- renumber-tests ---------- *)
Definition renumber_selected (p : path) : option str :=
  if under d_tests p then match_test_file_name (base p) else None.

Fixpoint renumber_all (files : list path) (t : tree) : tree :=
  match files with
  | [] => t
  | f :: rest =>
    match renumber_selected f, t_get t f with
    | Some id, Some c =>
      let c' := renum id c in
      renumber_all rest (if str_eqb c c' then t else t_set t f c')      (* equal bytes are not written *)
    | _, _ => renumber_all rest t
    end
  end.

Definition renumber_check_all (files : list path) (t : tree) : status :=
  if existsb (fun f => match renumber_selected f, t_get t f with
                       | Some id, Some c => negb (str_eqb c (renum id c))
                       | _, _ => false
                       end) files
  then Fail else Success.

(* ---------- update-copyright ---------- *)
Definition copyright_selected (p : path) : bool :=
  suffixb $".conf" (base p) || suffixb $".example" (base p).

Fixpoint copyright_all (files : list path) (t : tree) : tree :=
  match files with
  | [] => t
  | f :: rest =>
    if copyright_selected f then
      match t_get t f with
      | Some c => copyright_all rest (t_set t f (copyr c))
      | None => copyright_all rest t
      end
    else copyright_all rest t
  end.

End Commands.
