(* regex/operators/assembler.go: the string-level clean-up passes run by
   [complete] after the last Join, utils.IsEscaped / regex.IsEscaped, and the
   group scanning (findGroupBodyEnd, removeGroup,
   dontUseFlagsForMetaCharacters, removeOutermostNonCapturingGroup).
   Every unchecked index the Go code performs is a [Crash] here. *)
From Coq Require Import String.
From Verif Require Import Base.Str Base.Outcome.
Open Scope N_scope.

(* ---------- utils.IsEscaped / regex.IsEscaped ---------- *)
(* number of consecutive backslashes at the head *)
Fixpoint count_bs (s : str) : nat :=
  match s with
  | 92 :: s' => S (count_bs s')
  | _ => O
  end.
(* position given as the reversed prefix input[:position] *)
Definition is_escaped_rev (before_rev : str) : bool := Nat.odd (count_bs before_rev).
Definition is_escaped (s : str) (pos : nat) : bool := is_escaped_rev (rv (firstn pos s)).

(* ---------- escapeDoublequotes: looks at ONE preceding byte ---------- *)
Fixpoint escape_dq_aux (prev : option N) (s : str) : str :=
  match s with
  | [] => []
  | c :: s' =>
    (if (c =? 34) && negb (match prev with Some 92 => true | _ => false end)
     then [92; 34] else [c]) ++ escape_dq_aux (Some c) s'
  end.
Definition escape_doublequotes (s : str) : str := escape_dq_aux None s.

(* ---------- useHexBackslashes ---------- *)
Definition bs_bs : str := [92; 92].
Definition hex_bs : str := $"\x5c".
Definition use_hex_backslashes (s : str) : str := replace_all bs_bs hex_bs s.

(* ---------- includeVerticalTabInSpaceClass ---------- *)
Definition perl_space : str := $"\t\n\f\r ".      (* the 9 bytes \ t \ n \ f \ r space *)
Definition space_vt : str := $"\s\x0b".
(* perlSpaceClassRegexp  \\t\\n\\f\\r (?:-[^\]])?  with ReplaceAllStringFunc: the class text becomes
   \s\x0b; when the space starts a range (a dash and a character other than a closing bracket
   follow) the space is kept and the dash and that character are copied *)
Fixpoint include_vt_aux (fuel : nat) (s : str) : str :=
  match fuel with
  | O => s
  | S f =>
    match s with
    | [] => []
    | c :: s' =>
      if prefixb perl_space s then
        match skipn 9 s with
        | d :: x :: rest' =>
          if (d =? 45) && negb (x =? 93) then space_vt ++ [32; 45; x] ++ include_vt_aux f rest'
          else space_vt ++ include_vt_aux f (d :: x :: rest')
        | rest => space_vt ++ include_vt_aux f rest
        end
      else c :: include_vt_aux f s'
    end
  end.
Definition include_vt (s : str) : str := include_vt_aux (S (length s)) s.

(* ---------- useHexEscapes: ranges over RUNES (Go's UTF-8 decoding) ---------- *)
Definition cont (b : N) : bool := (128 <=? b) && (b <=? 191).
(* one step of utf8.DecodeRune: (rune, width); invalid encodings give U+FFFD, width 1 *)
Definition rune_error : N := 65533.
Definition decode_rune (s : str) : N * nat :=
  match s with
  | [] => (rune_error, 0%nat)
  | b0 :: r =>
    if b0 <? 128 then (b0, 1%nat)
    else if (194 <=? b0) && (b0 <=? 223) then
      match r with
      | b1 :: _ => if cont b1 then ((b0 - 192) * 64 + (b1 - 128), 2%nat) else (rune_error, 1%nat)
      | _ => (rune_error, 1%nat)
      end
    else if (224 <=? b0) && (b0 <=? 239) then
      match r with
      | b1 :: b2 :: _ =>
        let lo := if b0 =? 224 then 160 else 128 in
        let hi := if b0 =? 237 then 159 else 191 in
        if (lo <=? b1) && (b1 <=? hi) && cont b2
        then ((b0 - 224) * 4096 + (b1 - 128) * 64 + (b2 - 128), 3%nat) else (rune_error, 1%nat)
      | _ => (rune_error, 1%nat)
      end
    else if (240 <=? b0) && (b0 <=? 244) then
      match r with
      | b1 :: b2 :: b3 :: _ =>
        let lo := if b0 =? 240 then 144 else 128 in
        let hi := if b0 =? 244 then 143 else 191 in
        if (lo <=? b1) && (b1 <=? hi) && cont b2 && cont b3
        then ((b0 - 240) * 262144 + (b1 - 128) * 4096 + (b2 - 128) * 64 + (b3 - 128), 4%nat)
        else (rune_error, 1%nat)
      | _ => (rune_error, 1%nat)
      end
    else (rune_error, 1%nat)
  end.

Definition hex_escape_rune (c : N) : str :=
  if c <? 32 then $"\x" ++ hex c
  else if 126 <? c then $"\x{" ++ hex c ++ $"}"
  else [c].

(* fuel = length of the input; every step consumes at least one byte *)
Fixpoint use_hex_escapes_aux (fuel : nat) (s : str) : str :=
  match fuel with
  | O => []
  | S f =>
    match s with
    | [] => []
    | _ =>
      let (c, w) := decode_rune s in
      hex_escape_rune c ++ use_hex_escapes_aux f (skipn w s)
    end
  end.
Definition use_hex_escapes (s : str) : str := use_hex_escapes_aux (length s) s.

(* ---------- findGroupBodyEnd ---------- *)
Definition crash_index : N := 1.     (* index out of range *)
Definition crash_slice : N := 2.     (* slice bounds out of range *)

(* scanning state: [before_rev] = input[:index] reversed, [rest] = input[index:].
   Returns (index of the byte after the one that closed the group, hasAlternation) *)
Fixpoint fgbe_aux (before_rev rest : str) (index : nat) (counter : nat) (alt : bool) : outcome (nat * bool) :=
  match rest with
  | [] => Crash crash_index                       (* input[index] with index = len(input) *)
  | c :: rest' =>
    let esc := is_escaped_rev before_rev in
    let counter' :=
      if (c =? 40) && negb esc then S counter
      else if (c =? 41) && negb esc then pred counter
      else counter in
    let alt' := if (c =? 124) && Nat.eqb counter 1 then true else alt in
    match counter' with
    | O => Ok (S index, alt')
    | _ => fgbe_aux (c :: before_rev) rest' (S index) counter' alt'
    end
  end.

(* (idx, hasAlternation) where idx is the index after the byte that closed the group;
   Go's bodyEnd is idx - 2 (it is -1 when the group closes at position 0) *)
Definition find_group_body_end (input : str) (start : nat) : outcome (nat * bool) :=
  if Nat.ltb (length input) start then Crash crash_index else
  fgbe_aux (rv (firstn start input)) (skipn start input) start 1 false.

(* removeGroup(input, groupStart, bodyStart, ignoreAlternations) *)
Definition remove_group (input : str) (gs bs : nat) (ignore : bool) : outcome str :=
  do r <- find_group_body_end input bs;
  let '(idx, alt0) := r in
  let alt := alt0 && negb ignore in
  if Nat.ltb (length input) gs then Crash crash_slice            (* input[:groupStart] *)
  else if Nat.ltb (idx - 1) bs then Crash crash_slice             (* input[bodyStart:bodyEnd+1] *)
  else
    Ok (firstn gs input ++ (if alt then $"(?:" else []) ++
        firstn (idx - 1 - bs) (skipn bs input) ++ (if alt then $")" else []) ++
        skipn idx input).

(* ---------- the two flag patterns of dontUseFlagsForMetaCharacters ---------- *)
Definition is_flag_char (c : N) : bool :=
  (c =? 45) || (c =? 109) || (c =? 105) || (c =? 115) || (c =? 85).   (* - m i s U *)

(* \(\?[-misU]+<close> at the head of s: length of the match *)
Definition flag_group_here (close : N) (s : str) : option nat :=
  if prefixb $"(?" s then
    let r := skipn 2 s in
    let fl := take_while is_flag_char r in
    match fl with
    | [] => None
    | _ =>
      match drop_while is_flag_char r with
      | c :: _ => if c =? close then Some (3 + length fl)%nat else None
      | [] => None
      end
    end
  else None.

(* removeUnescapedMatches for \(\?[-misU]+\) : leftmost, non-overlapping matches whose parenthesis
   is NOT escaped are removed; escaping is judged on the ORIGINAL text ([before_rev] = what precedes) *)
Fixpoint strip_flag_starts_aux (fuel : nat) (before_rev s : str) : str :=
  match fuel with
  | O => s
  | S f =>
    match s with
    | [] => []
    | c :: s' =>
      match flag_group_here 41 s with
      | Some n =>
        if is_escaped_rev before_rev then c :: strip_flag_starts_aux f (c :: before_rev) s'
        else strip_flag_starts_aux f (rv (firstn n s) ++ before_rev) (skipn n s)
      | None => c :: strip_flag_starts_aux f (c :: before_rev) s'
      end
    end
  end.
Definition strip_flag_starts (s : str) : str := strip_flag_starts_aux (S (length s)) [] s.

(* the leftmost match of \(\?[-misU]+: at or after position i whose parenthesis is NOT escaped:
   (start, end).  [before_rev] = input[:i] reversed, [rest] = input[i:] *)
Fixpoint find_ufg (before_rev rest : str) (i : nat) : option (nat * nat) :=
  match rest with
  | [] => None
  | c :: rest' =>
    match flag_group_here 58 rest with
    | Some n =>
      if is_escaped_rev before_rev then find_ufg (c :: before_rev) rest' (S i)
      else Some (i, (i + n)%nat)
    | None => find_ufg (c :: before_rev) rest' (S i)
    end
  end.
Definition find_flag_group (s : str) (from : nat) : option (nat * nat) :=
  find_ufg (rv (firstn from s)) (skipn from s) from.

(* the for-loop; the Go loop has no bound, the model's fuel is the input length + 1
   (every successful removeGroup shortens the text); fuel exhaustion is reported as a hang
   (Err 99), never as a result.  [from] is searchStart. *)
Definition err_hang : N := 99.
Fixpoint strip_flag_groups (fuel : nat) (s : str) (from : nat) : outcome str :=
  match find_flag_group s from with
  | None => Ok s
  | Some (a, b) =>
    match fuel with
    | O => Err err_hang
    | S f => do s' <- remove_group s a b false; strip_flag_groups f s' a
    end
  end.

Definition dont_use_flags (s : str) : outcome str :=
  let s1 := strip_flag_starts s in
  strip_flag_groups (S (length s1)) s1 0.

(* ---------- removeOutermostNonCapturingGroup ---------- *)
(* ^\(\?:.*\)$  ('.' does not match '\n') *)
Definition outer_group_shape (s : str) : bool :=
  prefixb $"(?:" s &&
  match rv (skipn 3 s) with
  | 41 :: mid_rev => forallb (fun c => negb (c =? 10)) mid_rev
  | _ => false
  end.

Definition remove_outermost (s : str) : outcome str :=
  if negb (outer_group_shape s) then Ok s else
  do r <- find_group_body_end s 3;
  let '(idx, _) := r in
  if Nat.ltb idx (length s) then Ok s
  else remove_group s 0 3 true.

(* ---------- the pass chain of [complete] after runSimplificationAssembly ---------- *)
Definition final_passes (s : str) : outcome str :=
  let s := use_hex_escapes s in
  let s := escape_doublequotes s in
  let s := use_hex_backslashes s in
  let s := include_vt s in
  do s <- dont_use_flags s;
  remove_outermost s.
