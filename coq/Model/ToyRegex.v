(* A small regex syntax with a real semantics, used to show that the hypotheses of the C01
   refinement theorem are satisfiable (Proofs/PlainReadingInstance.v).
   Syntax: literal bytes other than ( ) | and backslash, groups (?:...), alternation with |,
   juxtaposition.  Meaning: sets of byte strings.  [toy_join] is the naive optimiser: the lines
   joined with | inside a group. *)
From Coq Require Import String.
From Verif Require Import Base.Str Base.Lines Base.Outcome Model.Patterns Model.ParseLine Model.CmdLine Model.Assembler Model.PlainReading.
Open Scope N_scope.

Definition lang := str -> Prop.
Definition l_alt (xs : list lang) : lang := fun w => exists x, In x xs /\ x w.
Definition l_cat (a b : lang) : lang := fun w => exists u v, w = u ++ v /\ a u /\ b v.
Definition l_word (s : str) : lang := fun w => w = s.

Definition plain_byte (c : N) : bool :=
  negb (c =? 40) && negb (c =? 41) && negb (c =? 124) && negb (c =? 92).

Inductive SeqP : str -> lang -> Prop :=
| SP_lit c : plain_byte c = true -> SeqP [c] (l_word [c])
| SP_grp s L : AltP s L -> SeqP (grp s) L
| SP_cat s t L K : SeqP s L -> SeqP t K -> SeqP (s ++ t) (l_cat L K)
with AltP : str -> lang -> Prop :=
| AP_seq s L : SeqP s L -> AltP s L
| AP_alt s t L K : AltP s L -> AltP t K -> AltP (s ++ [124] ++ t) (fun w => L w \/ K w).

Definition Den (s : str) (a : lang) : Prop := exists L, AltP s L /\ forall w, L w <-> a w.
Definition DenSeq (s : str) (a : lang) : Prop := exists L, SeqP s L /\ forall w, L w <-> a w.

(* the naive optimiser *)
Fixpoint bar (ls : list str) : str :=
  match ls with
  | [] => []
  | [l] => l
  | l :: ls' => l ++ [124] ++ bar ls'
  end.
Definition toy_join (ls : list str) : option str := Some (grp (bar ls)).

Definition toy_seq_level (_ : str) : bool := true.
Definition toy_den_word (_ : evasion) (l : str) : lang := l_word l.   (* no cmdline blocks below *)
Definition toy_cfg : config := empty_config.
Definition toy_lines : list str := [$"ab"; $"cd"; $"##!=>"; $"ef"].
