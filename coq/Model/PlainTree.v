(* The plain-reading machine instantiated with syntax trees, for the correspondence check that
   compares it with the harness's own structural reading of generated programs (suite plain_tree):
   the theorem of C01 is about [plain_body]; the oracle that judges the real output is the
   harness's reading; this ties the two. *)
From Coq Require Import String.
From Verif Require Import Base.Str Base.Lines Base.Outcome Model.Patterns Model.ParseLine Model.CmdLine Model.Assembler Model.PlainReading.
Open Scope N_scope.

Inductive ptree :=
| PT_line (l : str)
| PT_word (ev : evasion) (l : str)
| PT_alt (xs : list ptree)
| PT_cat (a b : ptree).

Fixpoint mem_line (x : str) (l : list str) : bool :=
  match l with
  | [] => false
  | y :: l' => str_eqb x y || mem_line x l'
  end.

(* [nonseq]: the entry texts that may not be juxtaposed raw (top-level alternation) *)
Definition plain_tree (nonseq : list str) (cfg : config) (limit : N) (buffer : str) : option (option ptree) :=
  plain_body ptree PT_alt PT_cat PT_line PT_word (fun l => negb (mem_line l nonseq)) cfg (scan_lines limit buffer).
