(* C03 - same files and configuration always give byte-identical output. Statements only. *)
From Coq Require Import String Permutation.
From Verif Require Import Base.Str Base.Lines Base.Outcome Regex.Re Regex.Equiv Model.Patterns Model.ParseLine Model.Passes Model.CmdLine Model.Parser Model.Assembler Model.Generate.
From Verif Require Import Proofs.EquivSound Proofs.PassesProofs Proofs.CmdLineProofs Proofs.ParserProofs Proofs.AssemblerProofs Proofs.ParseOrdProofs.
From Verif Require Tie.Pin_IncludeRegex_src Tie.Pin_IncludeExceptRegex_src Tie.Pin_DefinitionRegex_src Tie.Pin_CommentRegex_src Tie.Pin_FlagsRegex_src Tie.Pin_PrefixRegex_src Tie.Pin_SuffixRegex_src.
From Verif Require Tie.Pin_lits_regex_parser_parser_Parser_Parse Tie.Pin_lits_regex_parser_parser_Parser_parseLine Tie.Pin_lits_regex_parser_include_except_builder_replaceSuffixes Tie.Pin_lits_regex_parser_include_except_builder_stringFromInclusionLines Tie.Pin_lits_regex_parser_parser_expandDefinitions Tie.Pin_lits_regex_operators_assembler_Operator_complete Tie.Pin_lits_regex_operators_assembler_Operator_Run.
Open Scope N_scope.

(* line classification: whatever order the pattern map is iterated in, an unambiguous line is classified the same *)
Theorem C03_parse_line_order_independent :
  forall o1 o2 line, (forall p, In p o1 <-> In p o2) -> unambiguous line -> parse_line o1 line = parse_line o2 line.
Proof. exact parse_line_order_indep. Qed.
Print Assumptions C03_parse_line_order_independent.

(* every line is claimed by at most one directive pattern (IncludeRegex is anchored since fix: 597d59c;
   before, a comment mentioning an include was claimed by two) ... *)
Theorem C03_classification_unambiguous :
  forall line p q, claims p line -> claims q line -> p = q.
Proof. exact classify_unique. Qed.
Print Assumptions C03_classification_unambiguous.

(* ... hence the classification of EVERY line is the same for every iteration order of the pattern map *)
Theorem C03_parse_line_deterministic :
  forall o1 o2 line, (forall p, In p o1 <-> In p o2) -> parse_line o1 line = parse_line o2 line.
Proof. exact parse_line_deterministic. Qed.
Print Assumptions C03_parse_line_deterministic.

Theorem C03_suffix_pairs_order_independent :
  forall ps ps' e, Permutation ps ps' -> noninterfering ps e -> apply_pairs ps e = apply_pairs ps' e.
Proof. exact apply_pairs_order_indep. Qed.
Print Assumptions C03_suffix_pairs_order_independent.

(* (known finding C03-chained-suffix-pairs) *)
Theorem C03_suffix_pairs_order_dependent_refuted :
  exists ps ps' e, Permutation ps ps' /\ apply_pairs ps e <> apply_pairs ps' e.
Proof. exact apply_pairs_order_dependent. Qed.
Print Assumptions C03_suffix_pairs_order_dependent_refuted.

(* include-except: the explicit sort undoes any iteration order of the line map *)
Theorem C03_include_except_order_independent :
  forall l l', Permutation l l' -> NoDup (map snd l) -> string_from_lines l = string_from_lines l'.
Proof. exact string_from_lines_order_indep. Qed.
Print Assumptions C03_include_except_order_independent.

Theorem C03_flags_sorted :
  forall p, flags_prefix p = [] \/ flags_prefix p = $"(?i)" \/ flags_prefix p = $"(?s)" \/ flags_prefix p = $"(?is)".
Proof. exact flags_prefix_cases. Qed.
Print Assumptions C03_flags_sorted.

Theorem C03_run_ignores_process_state :
  forall join cfg limit g g' p, assemble join cfg limit g p = assemble join cfg limit g' p.
Proof. exact assemble_ignores_globals. Qed.
Print Assumptions C03_run_ignores_process_state.

(* THE WHOLE PARSER AND THE WHOLE COMMAND: for ALL main files, include files and exclude files, the
   result of generate does not depend on the iteration order of the directive-pattern map (any two
   orders with the same elements) nor on the iteration order of the inclusion-line map of
   include-except (any two permutations).  Of the four map iterations of the pipeline only the
   two over suffix pairs and definitions remain - the recorded findings C03-chained-suffix-pairs
   and C03-cyclic-definitions, refuted above / per case. *)
Theorem C03_generate_independent_of_pattern_and_line_map_order :
  forall o1 o2, (forall p, In p o1 <-> In p o2) ->
  forall ords ords2 ordi1 ordi2, (forall m, Permutation m (ordi1 m)) -> (forall m, Permutation m (ordi2 m)) ->
  forall join cfg limit_parse limit_asm fs contents,
  generate join cfg o1 ords ords2 ordi1 limit_parse limit_asm fs contents =
  generate join cfg o2 ords ords2 ordi2 limit_parse limit_asm fs contents.
Proof.
  intros o1 o2 Hs ords ords2 ordi1 ordi2 H1 H2 join cfg lp la fs c.
  now apply (generate_ordp_ordi_indep o1 o2 Hs ords ords2 ordi1 ordi2 H1 H2 lp fs join cfg lp la c).
Qed.
Print Assumptions C03_generate_independent_of_pattern_and_line_map_order.
