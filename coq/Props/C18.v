(* C18 - Rule arguments, file names, chain offsets and the CRS root resolve
   consistently.  Statements only; proofs are in Proofs/. *)
From Coq Require Import String.
From Verif Require Import Base.Str Base.Outcome Model.RuleId Model.Root Model.Update Model.Renumber Model.Cli Proofs.RuleIdProofs Proofs.RootProofs Proofs.CliProofs Proofs.CliResolveProofs.
From Verif Require Gen.Consts.
(* pins: the theorems below speak about the code as long as these still hold *)
From Verif Require Tie.Pin_RuleIdFileNameRegex_src Tie.Pin_lits_cmd_regex_parseRuleId
  Tie.Pin_lits_cmd_flag_types_findRootDirectory Tie.Pin_parse_uint_bits Tie.Pin_parse_uint_base.
Open Scope N_scope.

(* The bit width the code passes to ParseUint, read from the source on every run *)
Definition bits := Gen.Consts.parse_uint_bits.

(* An argument is accepted iff it is NNNNNN[-chainK][.ra] with K <= 2^bits-1, and
   then resolves to id NNNNNN, file NNNNNN[-chainK].ra and offset K (0 when
   absent); K is the arbitrary-precision decimal value, so nothing wraps. *)
Theorem C18_rule_argument_resolution : forall s id file k,
  parse_rule_id bits s = Some {| r_id := id; r_file := file; r_chain := k |} <->
  exists d K e, shape s d K e /\ chain_value_ok bits K k /\
                id = d /\ file = d ++ chain_part K ++ $".ra".
Proof. exact (parse_rule_id_spec bits). Qed.
Print Assumptions C18_rule_argument_resolution.

Theorem C18_other_shapes_rejected : forall s,
  (forall d K e k, shape s d K e -> ~ chain_value_ok bits K k) -> parse_rule_id bits s = None.
Proof. exact (parse_rule_id_rejects bits). Qed.
Print Assumptions C18_other_shapes_rejected.

Theorem C18_chain_offset_never_wraps : forall s r,
  parse_rule_id bits s = Some r -> r_chain r < 2 ^ bits.
Proof. exact (chain_offset_in_range bits). Qed.
Print Assumptions C18_chain_offset_never_wraps.

Theorem C18_bits_is_8 : 2 ^ bits = 256.
Proof. reflexivity. Qed.

Theorem C18_reading_unique : forall s d K e d' K' e',
  shape s d K e -> shape s d' K' e' -> d = d' /\ K = K' /\ e = e'.
Proof. exact shape_unique. Qed.
Print Assumptions C18_reading_unique.

(* The root is the nearest ancestor-or-self (below "/") of the start directory
   that contains regex-assembly, for every file-system predicate [has]. *)
Theorem C18_root_is_nearest_ancestor : forall has start d,
  find_root has start = Some d <->
  (d <> [] /\ exists rest, start = d ++ rest) /\ has_ra has d = true /\
  (forall d', (d' <> [] /\ exists rest, start = d' ++ rest) ->
              (length d < length d')%nat -> has_ra has d' = false).
Proof. exact find_root_spec. Qed.
Print Assumptions C18_root_is_nearest_ancestor.

Theorem C18_root_fails_iff_none : forall has start,
  find_root has start = None <->
  forall d, (d <> [] /\ exists rest, start = d ++ rest) -> has_ra has d = false.
Proof. exact find_root_none. Qed.
Print Assumptions C18_root_fails_iff_none.

(* ---------- the two ways of naming a rule agree (whole commands on the tree model) ---------- *)
(* an assembly file NAME.ra directly below regex-assembly is addressed by `update --all` with exactly
   the rule id, chain offset and file that `update NAME.ra` resolves: the one-file walk IS the
   single-rule command (same tree, same exit status) *)
Theorem C18_update_all_addresses_a_file_as_the_argument_does :
  forall gen bits t name, suffixb $".ra" name = true -> addressed (d_assembly ++ [name]) <> None ->
  update_all gen bits [d_assembly ++ [name]] t = update_one gen bits t name.
Proof. exact update_all_single_is_update_one. Qed.
Print Assumptions C18_update_all_addresses_a_file_as_the_argument_does.

(* NAME and NAME.ra name the same rule *)
Theorem C18_update_argument_with_or_without_extension :
  forall gen bits t name, suffixb $".ra" name = false -> match_rule_id_file_name name <> None ->
  match_rule_id_file_name (name ++ $".ra") = match_rule_id_file_name name ->
  update_one gen bits t (name ++ $".ra") = update_one gen bits t name.
Proof. exact update_one_with_or_without_extension. Qed.
Print Assumptions C18_update_argument_with_or_without_extension.

(* compare --all records for the file the verdict `compare ARG` computes *)
Theorem C18_compare_all_addresses_a_file_as_the_argument_does :
  forall gen bits t name r, suffixb $".ra" name = true -> addressed (d_assembly ++ [name]) <> None ->
  parse_rule_id bits name = Some r ->
  compare_all gen bits [d_assembly ++ [name]] t [] =
  (do v <- compare_rule gen t (r_id r) (r_chain r) (d_assembly ++ [r_file r]);
   Ok (match v with Some b => [b] | None => [] end)).
Proof. exact compare_all_single_is_compare_rule. Qed.
Print Assumptions C18_compare_all_addresses_a_file_as_the_argument_does.

Theorem C18_resolve_example :
  addressed [$"regex-assembly"; $"942100-chain2.ra"] = Some ($"942100", $"2") /\
  suffixb $".ra" $"942100-chain2.ra" = true /\
  match_rule_id_file_name ($"942100-chain2" ++ $".ra") = match_rule_id_file_name $"942100-chain2".
Proof. exact resolve_example. Qed.
