(* C20 - self-update installs only a newer, checksum-verified release for this platform. Statements only. *)
From Coq Require Import String.
From Verif Require Import Base.Str Base.Outcome Model.SelfUpdate Proofs.SelfUpdateProofs Gen.Consts.
From Verif Require Tie.Pin_self_update_validates Tie.Pin_lits_internal_updater_updater_Updater Tie.Pin_lits_internal_updater_updater_getUpdaterAndLatestVersionFromGitHub Tie.Pin_lits_internal_updater_updater_getLatestVersionFromGitHub Tie.Pin_lits_cmd_self_update_createSelfUpdateCommand.
Open Scope N_scope.

(* regenerated from internal/updater/updater.go on every run: Updater installs through the updater that carries the checksum validator *)
Theorem C20_code_installs_through_validating_updater :
  self_update_validates = true.
Proof. exact Tie.Pin_self_update_validates.pinned. Qed.
Print Assumptions C20_code_installs_through_validating_updater.

(* for every catalogue, running version and fault pattern: what gets installed is the decompressed asset for this platform of a published, non-draft release whose version is not <= the running one (an incomparable running version counts as older) *)
Theorem C20_only_newer_release_for_platform :
  forall ver vle hash recorded decompress validate current exe rels r exe',
  self_update ver vle hash recorded decompress validate current exe rels = (Installed ver r, exe') ->
  exists rs, rels = Some rs /\ In r rs /\ candidate ver r = true /\ less_or_equal ver vle r current = false /\
    exists name bytes, r_asset ver r = Some (name, Some bytes) /\ decompress name bytes = Some exe'.
Proof. exact only_newer_platform. Qed.
Print Assumptions C20_only_newer_release_for_platform.

(* ... and whose bytes hash to the value recorded for that asset in the release's checksum file *)
Theorem C20_only_verified :
  forall ver vle hash recorded decompress current exe rels r exe',
  self_update ver vle hash recorded decompress true current exe rels = (Installed ver r, exe') ->
  exists name bytes text h, r_asset ver r = Some (name, Some bytes) /\ r_sums ver r = Some (Some text) /\
    recorded text name = Some h /\ h = hash bytes.
Proof. exact only_verified. Qed.
Print Assumptions C20_only_verified.

(* in every other situation the executable stays byte-identical *)
Theorem C20_else_untouched :
  forall ver vle hash recorded decompress validate current exe rels res exe',
  self_update ver vle hash recorded decompress validate current exe rels = (res, exe') ->
  (forall r, res <> Installed ver r) -> exe' = exe.
Proof. exact else_untouched. Qed.
Print Assumptions C20_else_untouched.

Theorem C20_not_newer_not_installed :
  forall ver vle hash recorded decompress validate current exe rs p,
  detect ver vle rs = Found ver p -> less_or_equal ver vle p current = true ->
  self_update ver vle hash recorded decompress validate current exe (Some rs) = (UpToDate ver, exe).
Proof. exact not_newer_not_installed. Qed.
Print Assumptions C20_not_newer_not_installed.

Theorem C20_missing_checksum_file_fails :
  forall ver vle hash recorded decompress validate current exe rs,
  detect ver vle rs = NoValidationAsset ver -> self_update ver vle hash recorded decompress validate current exe (Some rs) = (Failed ver, exe).
Proof. exact missing_checksum_file_fails. Qed.
Print Assumptions C20_missing_checksum_file_fails.

Theorem C20_checksum_mismatch_fails :
  forall ver hash recorded decompress exe r name bytes text h,
  r_asset ver r = Some (name, Some bytes) -> r_sums ver r = Some (Some text) -> recorded text name = Some h ->
  h <> hash bytes -> install ver hash recorded decompress true r exe = (Failed ver, exe).
Proof. exact checksum_mismatch_fails. Qed.
Print Assumptions C20_checksum_mismatch_fails.

(* the witness of the defect repaired in /repo (fix: 1c39816): with the non-validating entry point a
   release whose checksum file records another hash is installed *)
Theorem C20_unvalidated_install_witness :
  let r := {| r_ver := Some 9; r_draft := false; r_pre := false;
              r_asset := Some ($"tool_linux_amd64", Some $"EVIL"); r_sums := Some (Some $"0000  tool_linux_amd64") |} in
  self_update N N.leb (fun b => $"hash-of-" ++ b) (fun _ _ => Some $"0000") (fun _ b => Some b)
              false (Some 1) $"OLD" (Some [r]) = (Installed N r, $"EVIL").
Proof. exact unvalidated_install_ignores_checksum. Qed.
Print Assumptions C20_unvalidated_install_witness.

