(* C10 - format never changes what a file means or says.
   Statements only; proofs in Proofs/FormatProofs.v. *)
From Coq Require Import String.
From Verif Require Import Base.Str Base.Lines Base.Outcome Model.Patterns Model.ParseLine Model.Format Proofs.FormatProofs Proofs.FormatIdemProofs Proofs.FormatMeaningProofs Proofs.FormatDefLineProofs Proofs.FormatIncLineProofs Proofs.FormatExcLineProofs.
From Verif Require Tie.Pin_lits_cmd_regex_format_processLine Tie.Pin_lits_cmd_regex_format_processFile
  Tie.Pin_ProcessorBlockStartRegex_src Tie.Pin_ProcessorEndRegex_src Tie.Pin_FlagsRegex_src Tie.Pin_PrefixRegex_src
  Tie.Pin_SuffixRegex_src Tie.Pin_DefinitionRegex_src Tie.Pin_IncludeRegex_src Tie.Pin_IncludeExceptRegex_src
  Tie.Pin_CommentRegex_src Tie.Pin_lits_regex_parser_parser_Parser_Parse Tie.Pin_lits_regex_parser_parser_Parser_parseLine.
Open Scope N_scope.

(* entries, comments and every other line no directive pattern claims keep their
   text byte for byte; only leading blanks are replaced by the indentation *)
Theorem C10_regular_lines_whitespace_only : forall line indent,
  m_block_start line = None -> m_block_end line = false -> m_flags line = None ->
  m_prefix line = None -> m_suffix line = None -> m_definition line = None ->
  m_include line = None -> m_include_except line = None ->
  process_line line indent =
  (Some (match trim_left is_blank line with [] => [] | t => spaces (indent * 2) ++ t end), indent).
Proof. exact process_line_regular. Qed.
Print Assumptions C10_regular_lines_whitespace_only.

(* the directive cases are NOT white-space-only in the faithful model (known finding
   C10-formatter-drops-text): trailing text of a block start is dropped, a comment that
   mentions an include becomes an include, an unbalanced end marker becomes a blank line *)
Theorem C10_whitespace_only_refuted :
  process_line $"##!> cmdline unix # why" 0 = (Some $"##!> cmdline unix", 1%nat) /\
  process_line $"##!<" 0 = (None, 0%nat).
Proof. exact format_keeps_text_refuted. Qed.
Print Assumptions C10_whitespace_only_refuted.

(* a comment that mentions an include directive stays a comment (IncludeRegex anchored, fix: 597d59c) *)
Theorem C10_comment_mentioning_include_kept :
  process_line $"##! note ##!> include inc" 0 = (Some $"##! note ##!> include inc", 0%nat).
Proof. exact comment_mentioning_include_kept. Qed.
Print Assumptions C10_comment_mentioning_include_kept.

(* THE FORMATTED LINE SAYS WHAT THE LINE SAID: for every line that is not a definition / include /
   include-except directive, each of the eight directive patterns gives the same answer (match or
   not, and the same captures) on the formatted line - indentation stripped, as every reader of
   the file strips it - as on the original.  What the parser, the assembler and the formatter read
   from the file is unchanged by formatting.  (The three excluded directives: per case only.) *)
Theorem C10_formatted_line_reads_the_same_partial : forall line indent out next,
  trim_left is_blank line = line -> not_a_file_directive line ->
  process_line line indent = (Some out, next) ->
  same_reading (trim_left is_blank out) line.
Proof. exact format_keeps_reading. Qed.
Print Assumptions C10_formatted_line_reads_the_same_partial.

(* refuted for what the patterns do not capture (known finding C10-blockstart-word-split): the
   assembler reads ##!>assemblex as the unknown processor "assemblex"; format re-prints it as the
   block start of "assemble" with argument x *)
Theorem C10_blockstart_word_split_refuted :
  process_line $"##!>assemblex" 0 = (Some $"##!> assemble x", 1%nat) /\
  m_processor_start $"##!>assemblex" = Some ($"assemblex", []) /\
  m_processor_start $"##!> assemble x" = Some ($"assemble", $"x").
Proof. exact blockstart_word_split. Qed.
Print Assumptions C10_blockstart_word_split_refuted.

(* definition directives: the formatted line defines the same name with the same value and is,
   like the original, read by no other directive pattern (only the first capture, the text in
   front of the value, which nothing uses, is re-spaced) *)
Theorem C10_formatted_definition_line_defines_the_same : forall line indent out next g name value,
  trim_left is_blank line = line -> m_definition line = Some (g, name, value) ->
  process_line line indent = (Some out, next) ->
  let out' := trim_left is_blank out in
  (exists g', m_definition out' = Some (g', name, value)) /\
  m_block_start out' = m_block_start line /\ m_block_end out' = m_block_end line /\
  m_flags out' = m_flags line /\ m_prefix out' = m_prefix line /\ m_suffix out' = m_suffix line /\
  m_include out' = m_include line /\ m_include_except out' = m_include_except line.
Proof. exact format_keeps_definition. Qed.
Print Assumptions C10_formatted_definition_line_defines_the_same.

(* include directives: all eight directive patterns read the formatted line exactly as the original
   (same file, same pair list, no other pattern matches) *)
Theorem C10_formatted_include_line_reads_the_same : forall line indent out next f pairs,
  trim_left is_blank line = line -> m_include line = Some (f, pairs) ->
  process_line line indent = (Some out, next) ->
  same_reading (trim_left is_blank out) line.
Proof. exact format_keeps_include. Qed.
Print Assumptions C10_formatted_include_line_reads_the_same.

(* include-except directives: same file, same exclude list, same pair list, no other pattern *)
Theorem C10_formatted_include_except_line_reads_the_same : forall line indent out next f ex pairs,
  trim_left is_blank line = line -> m_include_except line = Some (f, ex, pairs) ->
  process_line line indent = (Some out, next) ->
  same_reading (trim_left is_blank out) line.
Proof. exact format_keeps_include_except. Qed.
Print Assumptions C10_formatted_include_except_line_reads_the_same.

(* IN FULL: every line that is not a definition directive is read by all eight directive patterns
   exactly as before (a definition line keeps name and value, see above: its first capture - the
   text in front of the value, used by nothing - is the one thing that is re-spaced) *)
Theorem C10_formatted_line_reads_the_same : forall line indent out next,
  trim_left is_blank line = line -> m_definition line = None ->
  process_line line indent = (Some out, next) ->
  same_reading (trim_left is_blank out) line.
Proof.
  intros line indent out next Ht Hd H.
  destruct (m_include line) as [[f pairs]|] eqn:Ei; [eapply format_keeps_include; eauto|].
  destruct (m_include_except line) as [[[f ex] pairs]|] eqn:Ex; [eapply format_keeps_include_except; eauto|].
  apply (format_keeps_reading line indent out next Ht); [repeat split; assumption|exact H].
Qed.
Print Assumptions C10_formatted_line_reads_the_same.
