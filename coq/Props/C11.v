(* C11 - update rewrites only the addressed rule's @rx operand.  Statements only. *)
From Coq Require Import String.
From Verif Require Import Base.Str Base.Outcome Model.RuleId Model.Update Model.Renumber Model.Cli Proofs.UpdateProofs Proofs.RoundTripProofs Proofs.CliProofs Proofs.CliUpdateFrameProofs.
From Verif Require Tie.Pin_RuleRxRegex_src Tie.Pin_SecRuleRegex_src Tie.Pin_lits_cmd_regex_update_updateRegex
  Tie.Pin_lits_cmd_regex_update_processRule Tie.Pin_lits_cmd_regex_update_performUpdate.
Open Scope N_scope.

(* every byte outside the rewritten line is preserved by the split/join round trip *)
Theorem C11_split_join_preserves_bytes : forall s, join [10] (split_on 10 s) = s.
Proof. exact split_join. Qed.
Print Assumptions C11_split_join_preserves_bytes.

(* exactly one line is replaced; it is group1 ++ new ++ group3 of its own match *)
Theorem C11_update_frame : forall contents id k new out,
  update_contents contents id k new = Ok out ->
  exists i g1 g2 g3 rest,
    locate (split_on 10 contents) id k = Ok (Some i) /\
    rx_match (nth i (split_on 10 contents) []) = Some (g1, g2, g3, rest) /\
    out = join [10] (set_nth i (g1 ++ new ++ g3) (split_on 10 contents)).
Proof. exact update_frame. Qed.
Print Assumptions C11_update_frame.

Theorem C11_same_line_count : forall i l ls, length (set_nth i l ls) = length ls.
Proof. exact set_nth_length. Qed.
Theorem C11_other_lines_identical : forall i j l ls d, i <> j -> nth j (set_nth i l ls) d = nth j ls d.
Proof. exact set_nth_other. Qed.
Print Assumptions C11_other_lines_identical.

(* refuted parts of the full statement (known findings C11-chain-beyond, C11-line-tail) *)
Theorem C11_only_addressed_rule_refuted :
  update_contents rules_unchained $"942100" 1 $"NEW" = Ok ($"SecRule ARGS ""@rx old1"" \
    ""id:942100,\
    severity:'CRITICAL'""
SecRule ARGS ""@rx NEW"" \
    ""id:942110,\
    severity:'CRITICAL'""
").
Proof. exact update_only_addressed_rule_refuted. Qed.

Theorem C11_keeps_line_ending_refuted :
  update_contents ($"SecRule ARGS ""@rx old"" \" ++ [13; 10] ++ $"    ""id:942100""" ++ [13; 10]) $"942100" 0 $"NEW"
  = Ok ($"SecRule ARGS ""@rx NEW"" \" ++ [10] ++ $"    ""id:942100""" ++ [13; 10]).
Proof. exact update_keeps_line_ending_refuted. Qed.

(* the rewritten line is the old line with the operand replaced - and nothing else on that line
   changes except that the text after the line continuation is dropped (finding C11-line-tail):
   the old line is g1 ++ operand ++ closing ++ rest, the new one g1 ++ new ++ closing *)
Theorem C11_rewritten_line_is_old_line_with_new_operand : forall contents id k new out,
  update_contents contents id k new = Ok out ->
  exists i g1 g2 rest,
    nth i (split_on 10 contents) [] = g1 ++ g2 ++ closing ++ rest /\
    out = join [10] (set_nth i (g1 ++ new ++ closing) (split_on 10 contents)).
Proof.
  intros contents id k new out H. destruct (update_frame _ _ _ _ _ H) as (i & g1 & g2 & g3 & rest & Hl & Hr & ->).
  destruct (rx_match_parts _ _ _ _ _ Hr) as (-> & Hline & _).
  exists i, g1, g2, rest. split; [exact Hline|reflexivity].
Qed.
Print Assumptions C11_rewritten_line_is_old_line_with_new_operand.

(* ---------- whole command on the tree model ---------- *)
(* a successful `regex update ARG` changes exactly one file - the unique rules file the id's prefix
   selects - and in it exactly one line: the old line g1 ++ operand ++ closing ++ rest becomes
   g1 ++ (what generate printed for the assembly file) ++ closing; the new tree is the old one with
   that one file's bytes replaced (t_set: no file created, deleted or otherwise touched) *)
Theorem C11_update_command_rewrites_exactly_one_line_of_one_file :
  forall gen bits t arg t', update_one gen bits t arg = (t', Success) ->
  exists r regex rf c i g1 g2 rest,
    parse_rule_id bits arg = Some r /\
    gen t (d_assembly ++ [r_file r]) = Ok regex /\ glob_rules t (r_id r) = [rf] /\ is_rules_file rf /\ t_get t rf = Some c /\
    locate (split_on 10 c) (r_id r) (r_chain r) = Ok (Some i) /\
    nth i (split_on 10 c) [] = g1 ++ g2 ++ closing ++ rest /\
    t' = t_set t rf (join [10] (set_nth i (g1 ++ regex ++ closing) (split_on 10 c))).
Proof. exact update_one_exact. Qed.
Print Assumptions C11_update_command_rewrites_exactly_one_line_of_one_file.

(* the same for every step of `update --all` *)
Theorem C11_update_step_rewrites_exactly_one_line_of_one_file :
  forall gen t id k f t', process_rule gen t id k f = Ok t' ->
  exists regex rf c i g1 g2 rest,
    gen t f = Ok regex /\ glob_rules t id = [rf] /\ is_rules_file rf /\ t_get t rf = Some c /\
    locate (split_on 10 c) id k = Ok (Some i) /\
    nth i (split_on 10 c) [] = g1 ++ g2 ++ closing ++ rest /\
    t' = t_set t rf (join [10] (set_nth i (g1 ++ regex ++ closing) (split_on 10 c))).
Proof. exact process_rule_exact. Qed.
Print Assumptions C11_update_step_rewrites_exactly_one_line_of_one_file.

Theorem C11_update_command_leaves_other_files :
  forall gen bits t arg t' q, update_one gen bits t arg = (t', Success) ->
  (forall r, parse_rule_id bits arg = Some r -> glob_rules t (r_id r) <> [q]) -> t_get t' q = t_get t q.
Proof. exact update_one_other_files. Qed.
Print Assumptions C11_update_command_leaves_other_files.
