(* C08 - processing with --all equals processing each file on its own. Statements only. *)
From Coq Require Import String.
From Verif Require Import Base.Str Base.Outcome Model.RuleId Model.Update Model.Renumber Model.Cli Model.Assembler Model.CmdLine.
From Verif Require Import Proofs.CliProofs Proofs.AssemblerProofs.
From Verif Require Tie.Pin_lits_cmd_regex_update_performUpdate Tie.Pin_lits_cmd_regex_compare_performCompare Tie.Pin_lits_cmd_regex_format_processAll Tie.Pin_lits_cmd_regex_update_runAssemble Tie.Pin_lits_regex_operators_assembler_Operator_Run Tie.Pin_lits_regex_operators_operators_NewProcessorStack Tie.Pin_RuleIdFileNameRegex_src.
Open Scope N_scope.

(* whatever an earlier run in the same process left in the package variables cannot influence a run *)
Theorem C08_run_ignores_process_state :
  forall join cfg limit g g' p, assemble join cfg limit g p = assemble join cfg limit g' p.
Proof. exact assemble_ignores_globals. Qed.
Print Assumptions C08_run_ignores_process_state.

(* format --all leaves every selected file exactly as formatting it alone would, whatever else is in the walk and in whatever order *)
Theorem C08_format_all_is_each_file_alone :
  forall fmt files t t' p c, NoDup files -> format_all fmt files t = (t', Success) -> In p files -> t_get t p = Some c ->
  format_selected p = true -> exists c', fmt c = Ok c' /\ t_get t' p = Some c'.
Proof. exact format_all_is_each_alone. Qed.
Print Assumptions C08_format_all_is_each_file_alone.

Theorem C08_format_all_keeps_other_files :
  forall fmt files t t' st p, format_all fmt files t = (t', st) -> ~ In p files -> t_get t' p = t_get t p.
Proof. exact format_all_keeps_unlisted. Qed.
Print Assumptions C08_format_all_keeps_other_files.

(* update --all never writes an assembly, include or exclude file: what generate reads for the next file is what it would read alone *)
Theorem C08_update_all_touches_rules_files_only :
  forall gen bits files t t' st, update_all gen bits files t = (t', st) -> frame is_rules_file t t'.
Proof. exact update_all_frame. Qed.
Print Assumptions C08_update_all_touches_rules_files_only.

