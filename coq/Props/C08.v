(* C08 - processing with --all equals processing each file on its own. Statements only. *)
From Coq Require Import String.
From Verif Require Import Base.Str Base.Outcome Model.RuleId Model.Update Model.Renumber Model.Cli Model.Assembler Model.CmdLine.
From Coq Require Import Permutation.
From Verif Require Import Model.CliInst Gen.Consts.
From Verif Require Import Proofs.CliProofs Proofs.AssemblerProofs Proofs.CliOrderProofs Proofs.CliInstProofs Proofs.RoundTripProofs Proofs.UpdateCommuteProofs.
From Verif Require Tie.Pin_lits_cmd_regex_update_performUpdate Tie.Pin_lits_cmd_regex_compare_performCompare Tie.Pin_lits_cmd_regex_format_processAll Tie.Pin_lits_cmd_regex_update_runAssemble Tie.Pin_lits_regex_operators_assembler_Operator_Run Tie.Pin_lits_regex_operators_operators_NewProcessorStack Tie.Pin_RuleIdFileNameRegex_src.
Open Scope N_scope.

(* whatever an earlier run in the same process left in the package variables cannot influence a run *)
Theorem C08_run_ignores_process_state :
  forall join cfg limit g g' p, assemble join cfg limit g p = assemble join cfg limit g' p.
Proof. exact assemble_ignores_globals. Qed.
Print Assumptions C08_run_ignores_process_state.

(* format --all leaves every selected file exactly as formatting it alone would, whatever else is in the walk and in whatever order *)
Theorem C08_format_all_is_each_file_alone :
  forall fmt files t t' p c, NoDup files -> format_all fmt files t = (t', Success) -> In p files -> t_get t p = Some c ->
  format_selected p = true -> exists c', fmt c = Ok c' /\ t_get t' p = Some c'.
Proof. exact format_all_is_each_alone. Qed.
Print Assumptions C08_format_all_is_each_file_alone.

Theorem C08_format_all_keeps_other_files :
  forall fmt files t t' st p, format_all fmt files t = (t', st) -> ~ In p files -> t_get t' p = t_get t p.
Proof. exact format_all_keeps_unlisted. Qed.
Print Assumptions C08_format_all_keeps_other_files.

(* update --all never writes an assembly, include or exclude file: what generate reads for the next file is what it would read alone *)
Theorem C08_update_all_touches_rules_files_only :
  forall gen bits files t t' st, update_all gen bits files t = (t', st) -> frame is_rules_file t t'.
Proof. exact update_all_frame. Qed.
Print Assumptions C08_update_all_touches_rules_files_only.


(* ---------- whole commands on the tree model: "each file on its own, in any order" ---------- *)

(* renumber-tests --all: every selected test file ends exactly as renumbering it alone leaves it ... *)
Theorem C08_renumber_all_is_each_file_alone :
  forall renum files t p id c, NoDup files -> In p files -> renumber_selected p = Some id -> t_get t p = Some c ->
  t_get (renumber_all renum files t) p = Some (renum id c).
Proof. exact renumber_all_is_each_alone. Qed.
Print Assumptions C08_renumber_all_is_each_file_alone.

(* ... and the whole resulting tree is the same for every order in which the walk presents the files *)
Theorem C08_renumber_all_order_independent :
  forall renum files files' t, Permutation files files' -> renumber_all renum files t = renumber_all renum files' t.
Proof. exact renumber_all_order_independent. Qed.
Print Assumptions C08_renumber_all_order_independent.

Theorem C08_copyright_all_is_each_file_alone :
  forall copyr files t p c, NoDup files -> In p files -> copyright_selected p = true -> t_get t p = Some c ->
  t_get (copyright_all copyr files t) p = Some (copyr c).
Proof. exact copyright_all_is_each_alone. Qed.
Print Assumptions C08_copyright_all_is_each_file_alone.

Theorem C08_copyright_all_order_independent :
  forall copyr files files' t, Permutation files files' -> copyright_all copyr files t = copyright_all copyr files' t.
Proof. exact copyright_all_order_independent. Qed.
Print Assumptions C08_copyright_all_order_independent.

(* format --all: a successful run gives the same tree for every order of the walk; a failing run fails in every order *)
Theorem C08_format_all_order_independent :
  forall fmt files files' t t', NoDup files -> Permutation files files' ->
  format_all fmt files t = (t', Success) -> format_all fmt files' t = (t', Success).
Proof. exact format_all_order_independent. Qed.
Print Assumptions C08_format_all_order_independent.

Theorem C08_format_all_failure_order_independent :
  forall fmt files files' t t1, NoDup files -> Permutation files files' ->
  format_all fmt files t = (t1, Fail) -> exists t2, format_all fmt files' t = (t2, Fail).
Proof. exact format_all_failure_order_independent. Qed.
Print Assumptions C08_format_all_failure_order_independent.

(* compare --all reports, in walk order, exactly the verdict each file gets on its own ... *)
Theorem C08_compare_all_is_each_file_alone :
  forall gen bits files t, compare_all gen bits files t [] = collect gen bits files t.
Proof. exact compare_all_is_each_alone. Qed.
Print Assumptions C08_compare_all_is_each_file_alone.

(* ... the same verdicts (as a multiset) and the same exit status for every order of the walk *)
Theorem C08_compare_all_order_independent :
  forall gen bits files files' t vs, Permutation files files' -> compare_all gen bits files t [] = Ok vs ->
  exists vs', compare_all gen bits files' t [] = Ok vs' /\ Permutation vs vs' /\
              forall github, compare_all_status github (Ok vs') = compare_all_status github (Ok vs).
Proof. exact compare_all_order_independent. Qed.
Print Assumptions C08_compare_all_order_independent.

(* update --all, the instantiated command (model of generate included): every regex it writes is
   generated from the tree as it was BEFORE the run - generate never reads a rules file *)
Theorem C08_generate_never_reads_a_rules_file :
  forall join cfg t rf c f, is_rules_file rf -> ~ is_rules_file f ->
  gen_in_tree join cfg (t_set t rf c) f = gen_in_tree join cfg t f.
Proof. exact gen_in_tree_ignores_rules_files. Qed.
Print Assumptions C08_generate_never_reads_a_rules_file.

Theorem C08_update_all_generates_from_the_untouched_tree :
  forall join cfg t,
  cli_update_all join cfg t = update_all_frozen (gen_in_tree join cfg) parse_uint_bits t (map fst t) t.
Proof. exact cli_update_all_generates_from_the_untouched_tree. Qed.
Print Assumptions C08_update_all_generates_from_the_untouched_tree.

(* two rules of the SAME rules file: both orders of the two updates succeed and give the same bytes,
   provided each rewritten line still looks the same to the other rule's locator.  (Different rules
   files: the two writes commute outright, t_set_comm.) *)
Theorem C08_updates_of_one_rules_file_commute_partial :
  forall c id1 k1 n1 id2 k2 n2 i1 i2 a1 a2 a3 ar b1 b2 b3 br,
  let lines := split_on 10 c in
  locate lines id1 k1 = Ok (Some i1) -> locate lines id2 k2 = Ok (Some i2) ->
  rx_match (nth i1 lines []) = Some (a1, a2, a3, ar) -> rx_match (nth i2 lines []) = Some (b1, b2, b3, br) ->
  i1 <> i2 -> ~ In 10 n1 -> ~ In 10 n2 ->
  same_class ($"id:" ++ id2) (nth i1 lines []) (a1 ++ n1 ++ a3) ->
  same_class ($"id:" ++ id1) (nth i2 lines []) (b1 ++ n2 ++ b3) ->
  exists c1 c2 out,
    update_contents c id1 k1 n1 = Ok c1 /\ update_contents c id2 k2 n2 = Ok c2 /\
    update_contents c1 id2 k2 n2 = Ok out /\ update_contents c2 id1 k1 n1 = Ok out /\
    out = join [10] (set_nth i1 (a1 ++ n1 ++ a3) (set_nth i2 (b1 ++ n2 ++ b3) lines)).
Proof. exact update_contents_commute. Qed.
Print Assumptions C08_updates_of_one_rules_file_commute_partial.

Theorem C08_writes_to_different_files_commute :
  forall t p q c d, p <> q -> t_set (t_set t p c) q d = t_set (t_set t q d) p c.
Proof. exact t_set_comm. Qed.

(* without that hypothesis the order matters: an operand that mentions the other rule's id (the C11
   locator finding seen from C08) *)
Theorem C08_update_order_matters_refuted :
  let c := $"SecRule ARGS ""@rx old1"" \
    ""id:942100,\
    severity:'CRITICAL'""
SecRule ARGS ""@rx old2"" \
    ""id:942110,\
    severity:'CRITICAL'""
" in
  exists c1 c2,
    update_contents c $"942100" 0 $"id:942110" = Ok c1 /\ update_contents c $"942110" 0 $"NEW2" = Ok c2 /\
    update_contents c1 $"942110" 0 $"NEW2" <> update_contents c2 $"942100" 0 $"id:942110".
Proof. exact update_order_matters_refuted. Qed.
