(* C16 - failures are loud. Statements only. *)
From Coq Require Import String.
From Verif Require Import Base.Str Base.Outcome Model.RuleId Model.Update Model.Renumber Model.Cli Model.Assembler Model.CmdLine.
From Verif Require Import Proofs.CliProofs Proofs.AssemblerProofs Proofs.CliOrderProofs Proofs.CliLoudProofs.
From Verif Require Tie.Pin_lits_cmd_regex_update_performUpdate Tie.Pin_lits_cmd_regex_update_processRule Tie.Pin_lits_cmd_regex_update_updateRegex Tie.Pin_lits_cmd_regex_compare_processRegexForCompare Tie.Pin_lits_cmd_regex_compare_performCompare Tie.Pin_lits_cmd_regex_format_processFile Tie.Pin_lits_regex_operators_assembler_Operator_startPreprocessor Tie.Pin_lits_regex_operators_assembler_Operator_endPreprocessor Tie.Pin_lits_regex_parser_parser_buildPairMap Tie.Pin_lits_regex_parser_parser_flagIsAllowed.
Open Scope N_scope.

(* a single-rule update that fails - for whatever reason inside generate, the lookup of the rules file, the rule or the chain offset - leaves every file byte-identical *)
Theorem C16_failed_update_leaves_files_untouched :
  forall gen bits t arg t', update_one gen bits t arg = (t', Fail) -> t' = t.
Proof. exact update_one_fail_untouched. Qed.
Print Assumptions C16_failed_update_leaves_files_untouched.

Theorem C16_failed_format_leaves_files_untouched :
  forall fmt bits t arg t', format_one fmt bits t arg = (t', Fail) -> t' = t.
Proof. exact format_one_fail_untouched. Qed.
Print Assumptions C16_failed_format_leaves_files_untouched.

(* compare produces a verdict only when exactly one rules file matches (repaired in /repo, fix: e2f7323) *)
Theorem C16_compare_needs_unique_rules_file :
  forall gen t id k f v, compare_rule gen t id k f = Ok v -> exists rf, glob_rules t id = [rf].
Proof. exact compare_rule_needs_unique_rules_file. Qed.
Print Assumptions C16_compare_needs_unique_rules_file.

Theorem C16_compare_missing_rules_file_fails :
  compare_rule (fun _ _ => Ok $"x") [([$"regex-assembly"; $"942100.ra"], $"x")] $"942100" 0 [$"regex-assembly"; $"942100.ra"] = Err 33.
Proof. exact compare_missing_rules_file_fails. Qed.
Print Assumptions C16_compare_missing_rules_file_fails.

(* update --all that fails on a later file has already rewritten the rules for the earlier ones (known finding C16-update-all-partial) *)
Theorem C16_update_all_partial_write_refuted :
  exists gen files t t', update_all gen 8 files t = (t', Fail) /\ t' <> t.
Proof. exact update_all_partial_write. Qed.
Print Assumptions C16_update_all_partial_write_refuted.


(* ---------- --all walks: a failure in ANY file - first, middle or last - fails the command ---------- *)
(* compare --all: a file whose regex cannot be generated, whose rules file is missing or ambiguous,
   whose rule or chain offset is not found ... makes the exit status non-zero in every output mode *)
Theorem C16_compare_all_fails_when_any_file_fails :
  forall gen bits files t f, In f files -> failed (verdict_of gen bits t f) ->
  forall github, compare_all_status github (compare_all gen bits files t []) = Fail.
Proof. exact compare_all_fails_when_any_file_fails. Qed.
Print Assumptions C16_compare_all_fails_when_any_file_fails.

Theorem C16_compare_all_github_fails_when_any_rule_changed :
  forall gen bits files t vs, compare_all gen bits files t [] = Ok vs -> In false vs -> compare_all_status true (Ok vs) = Fail.
Proof. exact compare_all_github_fails_when_any_rule_changed. Qed.
Print Assumptions C16_compare_all_github_fails_when_any_rule_changed.

(* format --all: one selected file that cannot be formatted, anywhere in the walk *)
Theorem C16_format_all_fails_when_any_file_fails :
  forall fmt files t f c, NoDup files -> In f files -> format_selected f = true -> t_get t f = Some c -> failed (fmt c) ->
  exists t', format_all fmt files t = (t', Fail).
Proof. exact format_all_fails_when_any_file_fails. Qed.
Print Assumptions C16_format_all_fails_when_any_file_fails.

(* update --all: one assembly file whose regex cannot be generated, anywhere in the walk (generate
   reads no rules file, so it fails on the tree reached exactly when it fails on the initial tree) *)
Theorem C16_update_all_fails_when_any_generate_fails :
  forall gen bits, gen_ignores_rules_files gen ->
  forall files t f id ds, In f files -> addressed f = Some (id, ds) -> failed (gen t f) ->
  exists t', update_all gen bits files t = (t', Fail).
Proof. exact update_all_fails_when_any_generate_fails. Qed.
Print Assumptions C16_update_all_fails_when_any_generate_fails.
