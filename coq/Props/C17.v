(* C17 - No silent truncation: long lines and large files are processed completely.
   Statements only; proofs in Proofs/ScanProofs.v. *)
From Coq Require Import String.
From Verif Require Import Base.Str Base.Lines Base.Outcome Proofs.ScanProofs Model.Patterns Model.ParseLine Model.Parser Proofs.ScanUnlinesProofs Model.Renumber Model.Copyright Model.Format.
From Verif Require Import Gen.Consts.
From Verif Require Tie.Pin_scan_limit_parser_parse Tie.Pin_scan_limit_assembler_assemble
  Tie.Pin_scan_limit_format_process_file Tie.Pin_scan_limit_renumber_process_yaml
  Tie.Pin_scan_limit_copyright_update_rules Tie.Pin_scan_limit_replace_suffixes
  Tie.Pin_scan_limit_remove_exclusions Tie.Pin_scan_limit_build_inclusion_line_map
  Tie.Pin_lits_utils_utils_NewLineScanner Tie.Pin_max_scan_token_size.
Open Scope N_scope.

(* The scanner model with the limit as a parameter (the property is ABOUT the limit):
   every line below the limit => everything is delivered, no error state *)
Theorem C17_scan_complete : forall limit b,
  forallb (short_line limit) (raw_lines b) = true ->
  scan limit b = (map drop_cr (raw_lines b), false).
Proof. exact scan_complete. Qed.
Print Assumptions C17_scan_complete.

(* a line at or above the limit => only the lines before it are delivered, error state set *)
Theorem C17_scan_stops_at_first_long : forall limit b pre l post,
  raw_lines b = pre ++ l :: post ->
  forallb (short_line limit) pre = true -> short_line limit l = false ->
  scan limit b = (map drop_cr pre, true).
Proof. exact scan_stops_at_first_long. Qed.
Print Assumptions C17_scan_stops_at_first_long.

Theorem C17_no_error_means_complete : forall limit b ls,
  scan limit b = (ls, false) -> ls = map drop_cr (raw_lines b).
Proof. exact scan_no_error_complete. Qed.
Print Assumptions C17_no_error_means_complete.

(* an input shorter than the limit can never be truncated *)
Theorem C17_below_limit_complete : forall limit b,
  N.of_nat (length b) < limit -> scan limit b = (map drop_cr (raw_lines b), false).
Proof. exact scan_below_limit_complete. Qed.
Print Assumptions C17_below_limit_complete.

(* the limit every line-reading site of the code uses now (regenerated from the source on
   every run): 2^63-1, i.e. above the size of any input that fits in memory *)
Theorem C17_all_sites_unbounded :
  scan_limit_parser_parse = 2 ^ 63 - 1 /\ scan_limit_assembler_assemble = 2 ^ 63 - 1 /\
  scan_limit_format_process_file = 2 ^ 63 - 1 /\ scan_limit_renumber_process_yaml = 2 ^ 63 - 1 /\
  scan_limit_copyright_update_rules = 2 ^ 63 - 1 /\ scan_limit_replace_suffixes = 2 ^ 63 - 1 /\
  scan_limit_remove_exclusions = 2 ^ 63 - 1 /\ scan_limit_build_inclusion_line_map = 2 ^ 63 - 1.
Proof. repeat split; reflexivity. Qed.

(* the rewriting commands emit exactly one line per delivered line *)
Theorem C17_renumber_line_per_line : forall rule ls st, length (rewrite_lines rule st ls) = length ls.
Proof.
  intros rule ls. induction ls as [|l ls IH]; intros st; cbn [rewrite_lines]; auto.
  destruct (step_line rule st l). cbn. now rewrite IH.
Qed.
Theorem C17_copyright_line_per_line : forall v y ls, length (map (update_line v y) ls) = length ls.
Proof. intros. apply map_length. Qed.
Theorem C17_format_line_per_line : forall ls i, length (process_lines ls i) = length ls.
Proof.
  intros ls. induction ls as [|l ls IH]; intros i; cbn [process_lines]; auto.
  destruct (process_line l i) as [[o|] i']; cbn; now rewrite IH.
Qed.
Print Assumptions C17_format_line_per_line.

(* with the default limit the truncation is visible in the model (what the code did before
   the fix: commit; kept as the witness the oracle replays when a site regresses) *)
Theorem C17_default_limit_truncates :
  scan 8 $"ab
0123456789
cd
" = ([$"ab"], true).
Proof. exact scan_truncates_example. Qed.
Print Assumptions C17_default_limit_truncates.

(* what one stage writes line by line, the next stage's scanner reads back completely and
   unchanged: for every list of clean lines (no newline inside, no carriage return at the end,
   each shorter than the limit) - the hand-over between parser, include builder and assembler *)
Theorem C17_scanner_reads_back_written_lines : forall limit ls,
  Forall (clean_line limit) ls -> scan_lines limit (unlines ls) = ls.
Proof. exact scan_lines_unlines. Qed.
Print Assumptions C17_scanner_reads_back_written_lines.
