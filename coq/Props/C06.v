(* C06 - include-except removes exactly the excluded entries and rewrites only suffixes. Statements only. *)
From Coq Require Import String Permutation.
From Verif Require Import Base.Str Base.Lines Base.Outcome Regex.Re Regex.Equiv Model.Patterns Model.ParseLine Model.Passes Model.CmdLine Model.Parser Model.Assembler Model.Generate.
From Verif Require Import Proofs.IncludeExceptProofs Proofs.IncludeInlineProofs Proofs.ScanUnlinesProofs Proofs.IncludeExceptInlineProofs Proofs.IncludeAffixProofs Proofs.IncludePairsProofs.
From Verif Require Import Proofs.EquivSound Proofs.PassesProofs Proofs.CmdLineProofs Proofs.ParserProofs Proofs.AssemblerProofs.
From Verif Require Tie.Pin_lits_regex_parser_include_except_builder_replaceSuffixes Tie.Pin_lits_regex_parser_include_except_builder_removeExclusions Tie.Pin_lits_regex_parser_include_except_builder_buildinclusionLineMap Tie.Pin_lits_regex_parser_include_except_builder_stringFromInclusionLines Tie.Pin_lits_regex_parser_include_except_builder_buildIncludeExceptString Tie.Pin_lits_regex_parser_include_except_builder_buildIncludeString Tie.Pin_lits_regex_parser_include_except_builder_inclusionLineSlice_Less Tie.Pin_lits_regex_parser_parser_buildPairMap Tie.Pin_lits_regex_parser_parser_splitArgs Tie.Pin_IncludeExceptRegex_src Tie.Pin_IncludeRegex_src.
Open Scope N_scope.

(* whatever order the map of surviving lines is iterated in, sorting by the unique index gives one result *)
Theorem C06_order_restored_by_sort :
  forall l l', Permutation l l' -> NoDup (map snd l) -> sort_by_index l = sort_by_index l'.
Proof. exact sort_by_index_perm_invariant. Qed.
Print Assumptions C06_order_restored_by_sort.

Theorem C06_emitted_text_order_independent :
  forall l l', Permutation l l' -> NoDup (map snd l) -> string_from_lines l = string_from_lines l'.
Proof. exact string_from_lines_order_indep. Qed.
Print Assumptions C06_emitted_text_order_independent.

(* an entry that ends in no key is left alone *)
Theorem C06_no_matching_suffix_untouched :
  forall ps e, (forall k v, In (k, v) ps -> cut_suffix e k = None) -> apply_pairs ps e = e.
Proof. exact apply_pairs_none. Qed.
Print Assumptions C06_no_matching_suffix_untouched.

(* an entry that ends in exactly one key gets that ending replaced (deleted for the empty marker) *)
Theorem C06_single_rewrite :
  forall ps e k v e', In (k, v) ps -> cut_suffix e k = Some e' ->
  (forall k2 v2, In (k2, v2) ps -> k2 <> k -> cut_suffix e k2 = None) ->
  (forall k2 v2, In (k2, v2) ps -> cut_suffix (rewrite_with e' v) k2 = None) ->
  (forall v2, In (k, v2) ps -> v2 = v) ->
  apply_pairs ps e = rewrite_with e' v.
Proof. exact apply_pairs_single. Qed.
Print Assumptions C06_single_rewrite.

Theorem C06_skips_comments_and_directives :
  forall ords limit ps content, replace_suffixes ords limit content (Some ps) =
  unlines (map (fun e => if skip_entry e then e else apply_pairs (ords ps) e) (scan_lines limit content)).
Proof. exact replace_suffixes_skips. Qed.
Print Assumptions C06_skips_comments_and_directives.

Theorem C06_no_pairs_no_change :
  forall ords limit content, replace_suffixes ords limit content None = content.
Proof. exact replace_suffixes_nil. Qed.
Print Assumptions C06_no_pairs_no_change.

(* pairs whose replacement ends in another pair's key: the result depends on the iteration order (known finding) *)
Theorem C06_chained_pairs_refuted :
  exists ps ps' e, Permutation ps ps' /\ apply_pairs ps e <> apply_pairs ps' e.
Proof. exact apply_pairs_order_dependent. Qed.
Print Assumptions C06_chained_pairs_refuted.


(* the whole map / delete / sort pipeline of include-except is this list function, for EVERY
   iteration order of the Go map: the entries of F, each once at the position of its last occurrence,
   without those that occur in the exclude files *)
Theorem C06_include_except_is_list_difference :
  forall (ordi : list (str * nat) -> list (str * nat)) ls excl,
  (forall m, Permutation m (ordi m)) ->
  string_from_lines (ordi (fold_left imap_del excl (build_imap ls 0 []))) =
  match filter (not_excluded excl) (keep_last ls) with
  | [] => []
  | r => unlines r
  end.
Proof. exact include_except_spec. Qed.
Print Assumptions C06_include_except_is_list_difference.

Theorem C06_nothing_excluded_survives :
  forall excl ls l, In l (filter (not_excluded excl) (keep_last ls)) -> ~ In l excl.
Proof. exact nothing_excluded_survives. Qed.
Print Assumptions C06_nothing_excluded_survives.

Theorem C06_nothing_else_dropped :
  forall excl ls l, In l ls -> ~ In l excl -> In l (filter (not_excluded excl) (keep_last ls)).
Proof. exact nothing_else_dropped. Qed.
Print Assumptions C06_nothing_else_dropped.

(* THE WHOLE PARSER AND THE WHOLE COMMAND, for word-list files: for every including file, every
   position of the directive, every includer state, every iteration order of the maps: if the
   include file and the exclude files are found and consist of entries, comments and blank lines
   (clean lines), generate of the file with `include-except F X1 .. Xn` IS generate of the file
   with, in the directive's place, the entries of F that are not entries of any Xi, each once, in
   the order of their last occurrence.  (Suffix replacement pairs on the directive, include files
   with own definitions / prefixes / suffixes: the lemmas above and the by-hand oracle per case.) *)
Theorem C06_include_except_wordlists_is_typing_the_surviving_lines_partial :
  forall ordp ords ords2 ordi limit fs join cfg limit_asm pre line post pl cF cXs contents1 contents2,
  (forall m, Permutation m (ordi m)) ->
  parse_line ordp (trim_left is_blank line) = Ok pl -> pl_type pl = LIncludeExcept -> pl_pairs pl = None ->
  good_file ordp limit fs (pl_file pl) cF -> Forall2 (good_file ordp limit fs) (pl_excludes pl) cXs ->
  scan_lines limit contents1 = pre ++ [line] ++ post ->
  scan_lines limit contents2 =
    pre ++ filter (not_excluded (excluded_lines ordp limit cXs)) (keep_last (text_lines ordp (scan_lines limit cF))) ++ post ->
  generate join cfg ordp ords ords2 ordi limit limit_asm fs contents1 =
  generate join cfg ordp ords ords2 ordi limit limit_asm fs contents2.
Proof. intros. eapply generate_include_except_wordlists_inline; eauto. Qed.
Print Assumptions C06_include_except_wordlists_is_typing_the_surviving_lines_partial.

Theorem C06_include_except_wordlists_example :
  exists pl cF cX,
    parse_line all_pnames (trim_left is_blank $"##!> include-except words skip") = Ok pl /\ pl_type pl = LIncludeExcept /\ pl_pairs pl = None /\
    good_file all_pnames 65536 ex6_fs (pl_file pl) cF /\ Forall2 (good_file all_pnames 65536 ex6_fs) (pl_excludes pl) [cX] /\
    filter (not_excluded (excluded_lines all_pnames 65536 [cX])) (keep_last (text_lines all_pnames (scan_lines 65536 cF))) = [$"ls"; $"time"].
Proof. exact include_except_wordlists_example. Qed.
Print Assumptions C06_include_except_wordlists_example.

(* THE SUFFIX REPLACEMENT, whole parser and whole command: `include F -- k1 v1 ...` of a word-list
   file is typing the REWRITTEN entries in place, where the rewriting is apply_pairs in the order
   [ords] in which the pair map is iterated; nothing but the entries is touched (comments and
   blank lines of F are not handed over at all).  Premise: the rewritten entries are ordinary
   entry lines again. *)
Theorem C06_include_with_pairs_is_typing_the_rewritten_entries_partial :
  forall ordp ords ords2 ordi limit fs join cfg limit_asm pre line post pl c ps contents1 contents2,
  parse_line ordp (trim_left is_blank line) = Ok pl -> pl_type pl = LInclude -> pl_pairs pl = Some ps ->
  lookup_file fs (pl_file pl) = Some c -> Forall (simple_line ordp) (scan_lines limit c) ->
  Forall (clean_line limit) (text_lines ordp (scan_lines limit c)) ->
  Forall (reg_fixed ordp) (rewritten ords ps (text_lines ordp (scan_lines limit c))) ->
  scan_lines limit contents1 = pre ++ [line] ++ post ->
  scan_lines limit contents2 = pre ++ rewritten ords ps (text_lines ordp (scan_lines limit c)) ++ post ->
  generate join cfg ordp ords ords2 ordi limit limit_asm fs contents1 =
  generate join cfg ordp ords ords2 ordi limit limit_asm fs contents2.
Proof. intros. eapply generate_include_pairs_wordlist_inline; eauto. Qed.
Print Assumptions C06_include_with_pairs_is_typing_the_rewritten_entries_partial.

Theorem C06_include_with_pairs_example :
  exists pl c ps,
    parse_line all_pnames (trim_left is_blank $"##!> include cmds -- @ [\s<>]") = Ok pl /\ pl_type pl = LInclude /\ pl_pairs pl = Some ps /\
    lookup_file ex6b_fs (pl_file pl) = Some c /\ Forall (simple_line all_pnames) (scan_lines 65536 c) /\
    Forall (clean_line 65536) (text_lines all_pnames (scan_lines 65536 c)) /\
    rewritten (fun m => m) ps (text_lines all_pnames (scan_lines 65536 c)) = [$"curl[\s<>]"; $"wget[\s<>]"; $"nc"] /\
    Forall (reg_fixed all_pnames) (rewritten (fun m => m) ps (text_lines all_pnames (scan_lines 65536 c))).
Proof. exact include_pairs_example. Qed.
Print Assumptions C06_include_with_pairs_example.
