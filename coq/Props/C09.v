(* C09 - format produces one canonical layout and is idempotent; --check agrees.
   Statements only; proofs in Proofs/FormatProofs.v. *)
From Coq Require Import String.
From Verif Require Import Base.Str Base.Lines Base.Outcome Model.Patterns Model.ParseLine Model.Format Proofs.FormatProofs Proofs.FormatIdemProofs Proofs.FormatDefLineProofs Proofs.FormatIncLineProofs Proofs.FormatExcLineProofs.
From Verif Require Import Gen.Consts.
From Verif Require Model.RuleId Model.Update Model.Renumber Model.Cli Proofs.CliProofs Proofs.CliCheckProofs.
From Verif Require Tie.Pin_standard_header Tie.Pin_lits_cmd_regex_format_processLine
  Tie.Pin_lits_cmd_regex_format_formatEndOfFile Tie.Pin_lits_cmd_regex_format_checkStandardHeader
  Tie.Pin_lits_cmd_regex_format_processFile Tie.Pin_lits_cmd_regex_format_processAll
  Tie.Pin_ProcessorBlockStartRegex_src Tie.Pin_ProcessorEndRegex_src Tie.Pin_FlagsRegex_src Tie.Pin_PrefixRegex_src
  Tie.Pin_SuffixRegex_src Tie.Pin_DefinitionRegex_src Tie.Pin_IncludeRegex_src Tie.Pin_IncludeExceptRegex_src
  Tie.Pin_max_scan_token_size.
Open Scope N_scope.

(* indentation law for every line, every indent and every capture *)
Theorem C09_line_layout : forall line indent out next,
  process_line line indent = (Some out, next) ->
  exists k body, out = spaces k ++ body /\ starts_nonblank body /\
    (k = 0 \/ k = indent * 2 \/ S (S k) = indent * 2)%nat /\
    (next = indent \/ next = S indent \/ S next = indent).
Proof. exact process_line_layout. Qed.
Print Assumptions C09_line_layout.

(* end of file: no trailing empty line among the kept lines, one empty line appended *)
Theorem C09_end_of_file : forall lines, lines <> [] ->
  exists kept, format_eof lines = kept ++ [[]] /\
    (kept = [] \/ exists k l, kept = k ++ [l] /\ l <> []).
Proof. exact format_eof_shape. Qed.
Print Assumptions C09_end_of_file.

Theorem C09_header_test : forall a b c rest,
  check_header (a :: b :: c :: rest) = true <-> a ++ [10] ++ b ++ [10] ++ c = standard_header.
Proof. exact check_header_spec. Qed.
Print Assumptions C09_header_test.

(* idempotence for all byte contents is false of the faithful model: the empty file
   needs three rounds and ends with the header twice (known finding C09-header-eof) *)
Theorem C09_idempotent_refuted :
  exists x y z, fmt [] = Ok x /\ fmt x = Ok y /\ fmt y = Ok z /\ x <> y /\ y <> z.
Proof. exact format_idempotent_refuted. Qed.
Print Assumptions C09_idempotent_refuted.

(* FORMATTING A FORMATTED LINE CHANGES NOTHING - the part that is proved.
   Full statement: for every line, processLine applied to its own output (indentation stripped
   again, as the formatter's parser does) prints the same line and moves the indent the same way.
   Proved for every line that is NOT a definition / include / include-except directive; for those
   three the patterns re-reading their own canonical print is shown per case by the format suite,
   not proved (hence _partial). *)
Theorem C09_line_idempotent_partial : forall line indent out next,
  trim_left is_blank line = line -> not_a_file_directive line ->
  process_line line indent = (Some out, next) ->
  process_line (trim_left is_blank out) indent = (Some out, next).
Proof. exact process_line_idempotent_partial. Qed.
Print Assumptions C09_line_idempotent_partial.

(* ... and for the lines of a file: laying out the laid-out lines gives the same lines, for every
   starting indent (error lines included: an end marker with no open block prints an empty line) *)
Theorem C09_lines_idempotent_partial : forall ls indent,
  Forall (fun l => trim_left is_blank l = l /\ not_a_file_directive l) ls ->
  process_lines (map (trim_left is_blank) (process_lines ls indent)) indent = process_lines ls indent.
Proof. intros ls indent. now apply process_lines_idempotent_partial. Qed.
Print Assumptions C09_lines_idempotent_partial.

Theorem C09_lines_idempotent_example :
  let ls := [$"##!+ i"; $"##!^ \b"; $"##!> assemble"; $"a|b"; $"##!=>"; $"##!> cmdline unix"; $"ls@"; $"##!<"; $"##! note"; $"##!<"; $""] in
  Forall (fun l => trim_left is_blank l = l /\ not_a_file_directive l) ls /\
  process_lines ls 0 = [$"##!+ i"; $"##!^ \b"; $"##!> assemble"; $"  a|b"; $"  ##!=>"; $"  ##!> cmdline unix"; $"    ls@"; $"  ##!<"; $"  ##! note"; $"##!<"; $""].
Proof. exact layout_idempotent_example. Qed.
Print Assumptions C09_lines_idempotent_example.

(* definition directives too: `##!> define NAME VALUE` as format prints it is read back with the
   same name and value, so the printed line is a fixed point.  Line-level idempotence now holds for
   every line that is not an include / include-except directive (those: per case only) *)
Theorem C09_line_idempotent_but_includes_partial : forall line indent out next,
  trim_left is_blank line = line -> not_an_include_directive line ->
  process_line line indent = (Some out, next) ->
  process_line (trim_left is_blank out) indent = (Some out, next).
Proof. exact process_line_idempotent_but_includes. Qed.
Print Assumptions C09_line_idempotent_but_includes_partial.

Theorem C09_lines_idempotent_but_includes_partial : forall ls indent,
  Forall (fun l => trim_left is_blank l = l /\ not_an_include_directive l) ls ->
  process_lines (map (trim_left is_blank) (process_lines ls indent)) indent = process_lines ls indent.
Proof. intros ls indent. now apply process_lines_idempotent_but_includes. Qed.
Print Assumptions C09_lines_idempotent_but_includes_partial.

Theorem C09_definition_line_example :
  process_line $"##!>   define   sep-1 	[\s,;]+  " 2 = (Some $"    ##!> define sep-1 [\s,;]+", 2%nat) /\
  m_definition $"##!>   define   sep-1 	[\s,;]+  " = Some ($"##!>   define   sep-1 	", $"sep-1", $"[\s,;]+").
Proof. exact definition_line_example. Qed.

(* include directives too: `##!> include FILE[ -- PAIRS]` as format prints it is read back with the
   same file and the same pair list (the greedy file name with its backtracking, the optional pair
   group), so line-level idempotence holds for EVERY line that is not an include-except directive
   (that one: per case only) *)
Theorem C09_line_idempotent_but_include_except_partial : forall line indent out next,
  trim_left is_blank line = line -> m_include_except line = None ->
  process_line line indent = (Some out, next) ->
  process_line (trim_left is_blank out) indent = (Some out, next).
Proof. exact process_line_idempotent_but_include_except. Qed.
Print Assumptions C09_line_idempotent_but_include_except_partial.

Theorem C09_lines_idempotent_but_include_except_partial : forall ls indent,
  Forall (fun l => trim_left is_blank l = l /\ m_include_except l = None) ls ->
  process_lines (map (trim_left is_blank) (process_lines ls indent)) indent = process_lines ls indent.
Proof. intros ls indent. now apply process_lines_idempotent_but_include_except. Qed.
Print Assumptions C09_lines_idempotent_but_include_except_partial.

Theorem C09_include_line_example :
  process_line $"##!>  include   words-1.ra   --   @   [\s<>]  ~  x  " 1 = (Some $"  ##!> include words-1.ra -- @   [\s<>]  ~  x", 1%nat) /\
  m_include $"##!>  include   words-1.ra   --   @   [\s<>]  ~  x  " = Some ($"words-1.ra", $"@   [\s<>]  ~  x") /\
  m_include $"##!> include words-1.ra -- @   [\s<>]  ~  x" = Some ($"words-1.ra", $"@   [\s<>]  ~  x").
Proof. exact include_line_example. Qed.

(* --check agrees with format, whole command on the tree model: `format --all --check` succeeds
   exactly when `format --all` would succeed and leave every file byte-identical *)
Theorem C09_check_agrees_with_format : forall fmt files t, NoDup files ->
  (Cli.format_check_all fmt files t = Cli.Success <-> Cli.format_all fmt files t = (t, Cli.Success)).
Proof. exact CliCheckProofs.format_check_agrees_with_format. Qed.
Print Assumptions C09_check_agrees_with_format.

(* and include-except directives (the lazy exclude-list group: the shortest prefix whose remainder
   satisfies the optional pair tail stays the shortest when the remainder is re-printed).
   LINE-LEVEL IDEMPOTENCE, IN FULL: for EVERY line as the formatter's parser delivers it, every
   starting indent, error lines included - no directive is excepted any more *)
Theorem C09_line_idempotent : forall line indent out next,
  trim_left is_blank line = line ->
  process_line line indent = (Some out, next) ->
  process_line (trim_left is_blank out) indent = (Some out, next).
Proof. exact process_line_idempotent. Qed.
Print Assumptions C09_line_idempotent.

Theorem C09_lines_idempotent : forall ls indent,
  Forall (fun l => trim_left is_blank l = l) ls ->
  process_lines (map (trim_left is_blank) (process_lines ls indent)) indent = process_lines ls indent.
Proof. intros ls indent. now apply process_lines_idempotent. Qed.
Print Assumptions C09_lines_idempotent.

(* for the lines of ANY file: the formatter's parser left-trims every line before processLine sees it *)
Theorem C09_layout_of_any_lines_is_a_fixed_point : forall ls indent,
  let ts := map (trim_left is_blank) ls in
  process_lines (map (trim_left is_blank) (process_lines ts indent)) indent = process_lines ts indent.
Proof. exact process_lines_idempotent_any. Qed.
Print Assumptions C09_layout_of_any_lines_is_a_fixed_point.

Theorem C09_include_except_line_example :
  process_line $"##!>  include-except   words.ra   ex-1   ex-2.ra  --  @  x  " 1
    = (Some $"  ##!> include-except words.ra ex-1   ex-2.ra -- @  x", 1%nat) /\
  m_include_except $"##!>  include-except   words.ra   ex-1   ex-2.ra  --  @  x  " = Some ($"words.ra", $"ex-1   ex-2.ra", $"@  x") /\
  m_include_except $"##!> include-except words.ra ex-1   ex-2.ra -- @  x" = Some ($"words.ra", $"ex-1   ex-2.ra", $"@  x").
Proof. exact include_except_line_example. Qed.
