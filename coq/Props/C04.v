(* C04 - cmdline blocks. Statements only. *)
From Coq Require Import String Permutation.
From Verif Require Import Base.Str Base.Lines Base.Outcome Regex.Re Regex.Equiv Model.Patterns Model.ParseLine Model.Passes Model.CmdLine Model.Parser Model.Assembler Model.Generate.
From Verif Require Import Proofs.EquivSound Proofs.PassesProofs Proofs.CmdLineProofs Proofs.ParserProofs Proofs.AssemblerProofs.
From Verif Require Tie.Pin_lits_regex_processors_cmdline_CmdLine_regexpStr Tie.Pin_lits_regex_processors_cmdline_CmdLine_regexpChar Tie.Pin_lits_regex_processors_cmdline_CmdLine_computeSuffix Tie.Pin_lits_regex_processors_cmdline_CmdLineTypeFromString Tie.Pin_lits_regex_processors_cmdline_NewCmdLine Tie.Pin_lits_regex_processors_cmdline_CmdLine_ProcessLine Tie.Pin_lits_regex_processors_cmdline_CmdLine_Complete Tie.Pin_lits_configuration_configuration_New.
Open Scope N_scope.

(* the word becomes its escaped characters with the evasion pattern between any two adjacent ones,
   followed by evasion pattern + suffix pattern when a marker demands it *)
Theorem C04_regexp_str_shape :
  forall ev c rest, c <> 39 ->
  regexp_str ev (c :: rest) =
  let (stripped, suffix) := compute_suffix ev (c :: rest) in
  interleave (ev_pattern ev) (map regexp_char stripped) ++
  match suffix with [] => [] | _ => ev_pattern ev ++ suffix end.
Proof. exact regexp_str_shape. Qed.
Print Assumptions C04_regexp_str_shape.

Theorem C04_interleave_step :
  forall sep x y l, interleave sep (x :: y :: l) = x ++ sep ++ interleave sep (y :: l).
Proof. exact interleave_cons. Qed.
Print Assumptions C04_interleave_step.

Theorem C04_escaping :
  forall c, regexp_char c = (if c =? 46 then $"\." else if c =? 45 then $"\-" else if c =? 32 then $"\s+"
                   else if c <? 128 then [c] else [192 + c / 64; 128 + c mod 64]).
Proof. exact regexp_char_cases. Qed.
Print Assumptions C04_escaping.

Theorem C04_quote_passes_verbatim :
  forall ev rest, regexp_str ev (39 :: rest) = rest.
Proof. exact regexp_str_quote. Qed.
Print Assumptions C04_quote_passes_verbatim.

Theorem C04_at_demands_suffix :
  forall ev body, body <> [] -> is_escaped (body ++ [64]) (length body) = false ->
  compute_suffix ev (body ++ [64]) = (body, ev_suffix ev).
Proof. exact compute_suffix_at. Qed.
Print Assumptions C04_at_demands_suffix.

Theorem C04_tilde_demands_nospace_suffix :
  forall ev body, body <> [] -> is_escaped (body ++ [126]) (length body) = false ->
  compute_suffix ev (body ++ [126]) = (body, ev_nospace_suffix ev).
Proof. exact compute_suffix_tilde. Qed.
Print Assumptions C04_tilde_demands_nospace_suffix.

Theorem C04_escaped_marker_kept :
  forall ev pre c, is_escaped (pre ++ [92; c]) (length pre + 1) = true ->
  compute_suffix ev (pre ++ [92; c]) = (pre ++ [c], []).
Proof. exact compute_suffix_escaped. Qed.
Print Assumptions C04_escaped_marker_kept.

Theorem C04_other_last_char :
  forall ev body c, body <> [] -> c <> 64 -> c <> 126 -> is_escaped (body ++ [c]) (length body) = false ->
  compute_suffix ev (body ++ [c]) = (body ++ [c], []).
Proof. exact compute_suffix_other. Qed.
Print Assumptions C04_other_last_char.

Theorem C04_short_word_untouched :
  forall ev input, (length input < 2)%nat -> compute_suffix ev input = (input, []).
Proof. exact compute_suffix_short. Qed.
Print Assumptions C04_short_word_untouched.

(* missing or unreadable toolchain.yaml: nothing is inserted *)
Theorem C04_empty_configuration_inserts_nothing :
  forall t c rest, c <> 39 ->
  regexp_str (evasion_for empty_config t) (c :: rest) = concat (map regexp_char (fst (compute_suffix no_evasion (c :: rest)))).
Proof. exact regexp_str_empty_config. Qed.
Print Assumptions C04_empty_configuration_inserts_nothing.

Theorem C04_pattern_selection :
  forall c,
  evasion_for c CmdUnix = {| ev_pattern := cf_ev_unix c; ev_suffix := cf_suf_unix c; ev_nospace_suffix := cf_ns_unix c |} /\
  evasion_for c CmdWindows = {| ev_pattern := cf_ev_windows c; ev_suffix := cf_suf_windows c; ev_nospace_suffix := cf_ns_windows c |}.
Proof. exact pattern_selection. Qed.
Print Assumptions C04_pattern_selection.

Theorem C04_inclusion_oracle_sound :
  forall excluded fuel r1 r2 V, included excluded fuel r1 r2 = Holds V ->
  forall s w e, (forall c, In c w -> ~ In c excluded) -> M r1 s w e -> M r2 s w e.
Proof. exact included_sound. Qed.
Print Assumptions C04_inclusion_oracle_sound.

