(* C15 - inspecting commands never write; rewriting commands touch only their targets. Statements only. *)
From Coq Require Import String.
From Verif Require Import Base.Str Base.Outcome Model.RuleId Model.Update Model.Renumber Model.Cli Model.Assembler Model.CmdLine.
From Verif Require Import Proofs.CliProofs Proofs.AssemblerProofs Proofs.CliTargetProofs.
From Verif Require Tie.Pin_lits_cmd_regex_update_performUpdate Tie.Pin_lits_cmd_regex_update_processRule Tie.Pin_lits_cmd_regex_format_processAll Tie.Pin_lits_cmd_regex_format_processFile Tie.Pin_lits_cmd_regex_format_createFormatCommand Tie.Pin_lits_util_renumber_tests_TestRenumberer_RenumberTests Tie.Pin_lits_util_renumber_tests_TestRenumberer_processFile Tie.Pin_lits_cmd_util_renumber_tests_parseFilePath Tie.Pin_lits_chore_update_copyright_UpdateCopyright Tie.Pin_lits_chore_update_copyright_processFile Tie.Pin_RuleIdFileNameRegex_src Tie.Pin_RuleIdTestFileNameRegex_src Tie.Pin_lits_context_context_NewWithConfiguration.
Open Scope N_scope.

(* frame t t' = same set of files, and every file outside the predicate has identical bytes *)
Theorem C15_update_all_frame :
  forall gen bits files t t' st, update_all gen bits files t = (t', st) -> frame is_rules_file t t'.
Proof. exact update_all_frame. Qed.
Print Assumptions C15_update_all_frame.

Theorem C15_update_one_frame :
  forall gen bits t arg t' st, update_one gen bits t arg = (t', st) -> frame is_rules_file t t'.
Proof. exact update_one_frame. Qed.
Print Assumptions C15_update_one_frame.

Theorem C15_format_all_frame :
  forall fmt files t t' st, format_all fmt files t = (t', st) -> frame is_assembly_ra t t'.
Proof. exact format_all_frame. Qed.
Print Assumptions C15_format_all_frame.

Theorem C15_format_one_frame :
  forall fmt bits t arg t' st, format_one fmt bits t arg = (t', st) -> frame (fun p => p = format_target bits arg) t t'.
Proof. exact format_one_frame. Qed.
Print Assumptions C15_format_one_frame.

Theorem C15_renumber_all_frame :
  forall renum files t, frame is_test_file t (renumber_all renum files t).
Proof. exact renumber_all_frame. Qed.
Print Assumptions C15_renumber_all_frame.

Theorem C15_copyright_frame :
  forall copyr files t, frame is_conf_or_example t (copyright_all copyr files t).
Proof. exact copyright_all_frame. Qed.
Print Assumptions C15_copyright_frame.

Theorem C15_write_keeps_other_files :
  forall t p c q, q <> p -> t_get (t_set t p c) q = t_get t q.
Proof. exact t_get_set_other. Qed.
Print Assumptions C15_write_keeps_other_files.

Theorem C15_write_creates_nothing :
  forall t p c, map fst (t_set t p c) = map fst t.
Proof. exact t_set_keys. Qed.
Print Assumptions C15_write_creates_nothing.

(* the single-file argument of format is not restricted to .ra files (known finding C15-format-argument) *)
Theorem C15_format_argument_refuted :
  format_target 8 $"notes.txt" = [$"regex-assembly"; $"include"; $"notes.txt"].
Proof. exact format_target_not_ra. Qed.
Print Assumptions C15_format_argument_refuted.


(* whatever its argument, `format ARG` resolves to - and so can only write - a file below regex-assembly
   (not necessarily a .ra file: the refutation above) *)
Theorem C15_format_argument_resolves_below_regex_assembly :
  forall bits arg, under d_assembly (format_target bits arg) = true.
Proof. exact format_target_below_assembly. Qed.
Print Assumptions C15_format_argument_resolves_below_regex_assembly.

Theorem C15_format_one_touches_only_below_regex_assembly :
  forall fmt bits t arg t' st q, format_one fmt bits t arg = (t', st) -> under d_assembly q = false -> t_get t' q = t_get t q.
Proof. exact format_one_touches_only_below_assembly. Qed.
Print Assumptions C15_format_one_touches_only_below_regex_assembly.

(* `update ARG`, successful or not, touches at most the ONE rules file the glob of the rule's prefix selects *)
Theorem C15_update_one_touches_only_the_rules_file_of_the_rule :
  forall gen bits t arg t' st q, update_one gen bits t arg = (t', st) ->
  (forall r, parse_rule_id bits arg = Some r -> glob_rules t (r_id r) <> [q]) -> t_get t' q = t_get t q.
Proof. exact update_one_touches_only_the_rules_file_of_the_rule. Qed.
Print Assumptions C15_update_one_touches_only_the_rules_file_of_the_rule.
