(* C01 - the generated regex matches exactly the language the assembly file describes.
   Statements only; proofs in Proofs/EquivSound.v and Proofs/AssemblerProofs.v. *)
From Coq Require Import String Permutation.
From Verif Require Import Base.Str Base.Lines Base.Outcome Regex.Re Regex.Equiv Model.Patterns Model.ParseLine Model.Passes Model.CmdLine Model.Parser Model.Assembler Model.Generate.
From Verif Require Import Proofs.EquivSound Proofs.PassesProofs Proofs.CmdLineProofs Proofs.ParserProofs Proofs.AssemblerProofs.
From Verif Require Tie.Pin_lits_regex_operators_assembler_removeUnescapedMatches.
From Verif Require Tie.Pin_perlSpaceClassRegexp_src Tie.Pin_const_regex_operators_assembler_perlSpaceClass.
From Verif Require Tie.Pin_lits_regex_processors_assemble_Assemble_append Tie.Pin_lits_regex_processors_assemble_Assemble_store Tie.Pin_lits_regex_processors_assemble_Assemble_runAssemble Tie.Pin_lits_regex_processors_assemble_Assemble_wrapCompletedAssembly Tie.Pin_lits_regex_processors_assemble_Assemble_ProcessLine Tie.Pin_lits_regex_processors_assemble_Assemble_Complete Tie.Pin_lits_regex_operators_assembler_Operator_Run Tie.Pin_lits_regex_operators_assembler_Operator_assemble Tie.Pin_lits_regex_operators_assembler_Operator_complete Tie.Pin_lits_regex_operators_assembler_Operator_runFinalPass Tie.Pin_lits_regex_operators_assembler_Operator_runSimplificationAssembly Tie.Pin_lits_regex_operators_assembler_Operator_startPreprocessor Tie.Pin_lits_regex_operators_assembler_Operator_endPreprocessor Tie.Pin_ProcessorStartRegex_src Tie.Pin_ProcessorEndRegex_src Tie.Pin_AssembleInputRegex_src Tie.Pin_AssembleOutputRegex_src Tie.Pin_lits_regex_operators_operators_ProcessorStack_pop Tie.Pin_lits_regex_operators_operators_ProcessorStack_top Tie.Pin_lits_regex_parser_parser_Parser_Parse Tie.Pin_lits_regex_parser_parser_Parser_parseLine.
Open Scope N_scope.

(* the oracle that compares the real output with the plain reading: a Holds verdict means the two
   expressions accept exactly the same strings, in every context, over the compared alphabet *)
Theorem C01_equivalence_oracle_sound :
  forall excluded fuel r1 r2 V, equivalent excluded fuel r1 r2 = Holds V ->
  forall s w e, (forall c, In c w -> ~ In c excluded) -> (M r1 s w e <-> M r2 s w e).
Proof. exact equivalent_sound. Qed.
Print Assumptions C01_equivalence_oracle_sound.

Theorem C01_inclusion_oracle_sound :
  forall excluded fuel r1 r2 V, included excluded fuel r1 r2 = Holds V ->
  forall s w e, (forall c, In c w -> ~ In c excluded) -> M r1 s w e -> M r2 s w e.
Proof. exact included_sound. Qed.
Print Assumptions C01_inclusion_oracle_sound.

(* every assembled alternation is wrapped in a non-capturing group before it is concatenated *)
Theorem C01_alternations_are_grouped :
  forall join lines r, run_assemble join lines = Ok r ->
  (lines = [] /\ r = []) \/ exists j, join lines = Some j /\ r = $"(?:" ++ j ++ $")".
Proof. exact run_assemble_grouped. Qed.
Print Assumptions C01_alternations_are_grouped.

Theorem C01_block_result_shape :
  forall output regex,
  wrap_completed output regex = [] \/ wrap_completed output regex = grp output ++ grp regex \/
  wrap_completed output regex = grp output \/ wrap_completed output regex = grp regex.
Proof. exact wrap_completed_cases. Qed.
Print Assumptions C01_block_result_shape.

Theorem C01_final_text_shape :
  forall join p stash lines out, complete join p stash lines = Ok out ->
  out = [] \/ exists body, out = flags_prefix p ++ body /\ body <> [] /\ Forall printable body.
Proof. exact complete_shape. Qed.
Print Assumptions C01_final_text_shape.

(* refuted part of the full statement: a segment with exactly one pending line is copied raw
   (known finding C01-single-line-raw); the witness replays on the binary *)
Theorem C01_single_line_segment_refuted :
  asm_flush bar_join {| a_lines := [$"c"]; a_output := $"a|b" |} = Ok {| a_lines := []; a_output := $"a|bc" |} /\
  assemble bar_join empty_config 1000 []
    {| p_buffer := $"a|b" ++ [10] ++ $"##!=>" ++ [10] ++ $"c" ++ [10] ++ $"##!=>" ++ [10] ++ $"d" ++ [10];
       p_flag_i := false; p_flag_s := false; p_prefixes := []; p_suffixes := [] |}
  = Ok $"(?:(?:a|bc)(?:(?:d)))".
Proof. exact single_line_segment_copied_raw. Qed.
Print Assumptions C01_single_line_segment_refuted.

