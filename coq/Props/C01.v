(* C01 - the generated regex matches exactly the language the assembly file describes.
   Statements only; proofs in Proofs/EquivSound.v, Proofs/AssemblerProofs.v, Proofs/PlainReadingProofs.v
   and Proofs/PlainReadingInstance.v. *)
From Coq Require Import String Permutation.
From Verif Require Import Base.Str Base.Lines Base.Outcome Regex.Re Regex.Equiv Model.Patterns Model.ParseLine Model.Passes Model.CmdLine Model.Parser Model.Assembler Model.Generate.
From Verif Require Import Model.PlainReading Model.ToyRegex.
From Verif Require Import Proofs.EquivSound Proofs.PassesProofs Proofs.CmdLineProofs Proofs.ParserProofs Proofs.AssemblerProofs Proofs.PlainReadingProofs Proofs.PlainReadingInstance.
From Verif Require Tie.Pin_calls_regex_operators_assembler_Operator_complete.
From Verif Require Tie.Pin_lits_regex_operators_assembler_removeUnescapedMatches.
From Verif Require Tie.Pin_perlSpaceClassRegexp_src Tie.Pin_const_regex_operators_assembler_perlSpaceClass.
From Verif Require Tie.Pin_lits_regex_processors_assemble_Assemble_append Tie.Pin_lits_regex_processors_assemble_Assemble_store Tie.Pin_lits_regex_processors_assemble_Assemble_runAssemble Tie.Pin_lits_regex_processors_assemble_Assemble_wrapCompletedAssembly Tie.Pin_lits_regex_processors_assemble_Assemble_ProcessLine Tie.Pin_lits_regex_processors_assemble_Assemble_Complete Tie.Pin_lits_regex_operators_assembler_Operator_Run Tie.Pin_lits_regex_operators_assembler_Operator_assemble Tie.Pin_lits_regex_operators_assembler_Operator_complete Tie.Pin_lits_regex_operators_assembler_Operator_runFinalPass Tie.Pin_lits_regex_operators_assembler_Operator_runSimplificationAssembly Tie.Pin_lits_regex_operators_assembler_Operator_startPreprocessor Tie.Pin_lits_regex_operators_assembler_Operator_endPreprocessor Tie.Pin_ProcessorStartRegex_src Tie.Pin_ProcessorEndRegex_src Tie.Pin_AssembleInputRegex_src Tie.Pin_AssembleOutputRegex_src Tie.Pin_lits_regex_operators_operators_ProcessorStack_pop Tie.Pin_lits_regex_operators_operators_ProcessorStack_top Tie.Pin_lits_regex_parser_parser_Parser_Parse Tie.Pin_lits_regex_parser_parser_Parser_parseLine.
Open Scope N_scope.

(* the oracle that compares the real output with the plain reading: a Holds verdict means the two
   expressions accept exactly the same strings, in every context, over the compared alphabet *)
Theorem C01_equivalence_oracle_sound :
  forall excluded fuel r1 r2 V, equivalent excluded fuel r1 r2 = Holds V ->
  forall s w e, (forall c, In c w -> ~ In c excluded) -> (M r1 s w e <-> M r2 s w e).
Proof. exact equivalent_sound. Qed.
Print Assumptions C01_equivalence_oracle_sound.

Theorem C01_inclusion_oracle_sound :
  forall excluded fuel r1 r2 V, included excluded fuel r1 r2 = Holds V ->
  forall s w e, (forall c, In c w -> ~ In c excluded) -> M r1 s w e -> M r2 s w e.
Proof. exact included_sound. Qed.
Print Assumptions C01_inclusion_oracle_sound.

(* every assembled alternation is wrapped in a non-capturing group before it is concatenated *)
Theorem C01_alternations_are_grouped :
  forall join lines r, run_assemble join lines = Ok r ->
  (lines = [] /\ r = []) \/ exists j, join lines = Some j /\ r = $"(?:" ++ j ++ $")".
Proof. exact run_assemble_grouped. Qed.
Print Assumptions C01_alternations_are_grouped.

Theorem C01_block_result_shape :
  forall output regex,
  wrap_completed output regex = [] \/ wrap_completed output regex = grp output ++ grp regex \/
  wrap_completed output regex = grp output \/ wrap_completed output regex = grp regex.
Proof. exact wrap_completed_cases. Qed.
Print Assumptions C01_block_result_shape.

Theorem C01_final_text_shape :
  forall join p stash lines out, complete join p stash lines = Ok out ->
  out = [] \/ exists body, out = flags_prefix p ++ body /\ body <> [] /\ Forall printable body.
Proof. exact complete_shape. Qed.
Print Assumptions C01_final_text_shape.

(* refuted part of the full statement: a segment with exactly one pending line is copied raw
   (known finding C01-single-line-raw); the witness replays on the binary *)
Theorem C01_single_line_segment_refuted :
  asm_flush bar_join {| a_lines := [$"c"]; a_output := $"a|b" |} = Ok {| a_lines := []; a_output := $"a|bc" |} /\
  assemble bar_join empty_config 1000 []
    {| p_buffer := $"a|b" ++ [10] ++ $"##!=>" ++ [10] ++ $"c" ++ [10] ++ $"##!=>" ++ [10] ++ $"d" ++ [10];
       p_flag_i := false; p_flag_s := false; p_prefixes := []; p_suffixes := [] |}
  = Ok $"(?:(?:a|bc)(?:(?:d)))".
Proof. exact single_line_segment_copied_raw. Qed.
Print Assumptions C01_single_line_segment_refuted.

(* refuted part of the full statement: the white space pass rewrites the five characters tab,
   newline, form feed, carriage return, space also where they are a literal sequence outside a
   bracket expression (known finding C01-space-sequence-outside-class) *)
Theorem C01_space_sequence_refuted :
  final_passes ($"a\t\n\f\r b") = Ok ($"a\s\x0bb").
Proof. exact space_sequence_outside_class_rewritten. Qed.
Print Assumptions C01_space_sequence_refuted.

(* refuted: the final passes do not keep the meaning of a dot (known finding C01-dotall-stripped):
   "any character including newline" and "any character but newline" come out the same *)
Theorem C01_dot_flag_groups_refuted :
  final_passes ($"a(?s:.)b") = Ok ($"a.b") /\ final_passes ($"a(?-s:.)b") = Ok ($"a.b").
Proof. exact dot_flag_groups_stripped. Qed.
Print Assumptions C01_dot_flag_groups_refuted.

(* refuted: [Aa], printed (?i:A) by the optimiser, comes out as A (known finding
   C01-casefold-group-stripped) *)
Theorem C01_casefold_group_refuted : final_passes ($"(?i:A)b") = Ok ($"Ab").
Proof. exact casefold_group_stripped. Qed.
Print Assumptions C01_casefold_group_refuted.

(* THE REFINEMENT STATEMENT.  For every program (any nesting of blocks, any markers, any stored
   names, cmdline blocks, prefixes, suffixes, flags), every optimiser [join] and every notion of
   meaning (A, alternation, concatenation, [Den] for texts, [DenSeq] for texts that may be
   juxtaposed) obeying the seven laws below: whenever the plain reading of the lines is defined
   and is x, and the entries mean what the plain reading takes them to mean ([lines_ok]), the
   operator's answer is the flag group followed by the final textual passes applied to a text
   that means prefixes . x . suffixes.
   The plain reading (Model/PlainReading.v) never looks at regex text; it is undefined on
   ill-formed programs and where a segment of exactly one entry that is not sequence-level is
   flushed (the recorded finding C01-single-line-raw, refuted below).  What the final passes do
   to the meaning is C19/C02 and the recorded findings C01-dotall-stripped. *)
Theorem C01_text_before_final_passes_means_plain_reading :
  forall (join : list str -> option str) (cfg : config) (A : Type) (aalt : list A -> A) (acat : A -> A -> A)
         (den_line : str -> A) (den_word : evasion -> str -> A) (seq_level : str -> bool)
         (Den DenSeq : str -> A -> Prop),
  (forall s a, DenSeq s a -> Den s a) ->
  (forall s a, Den s a -> DenSeq (grp s) a) ->
  (forall s t a b, DenSeq s a -> DenSeq t b -> DenSeq (s ++ t) (acat a b)) ->
  (forall s x, Den s (aalt [x]) -> Den s x) ->
  (forall s x, DenSeq s x -> DenSeq s (aalt [x])) ->
  (forall ls r xs, join ls = Some r -> Forall2 Den ls xs -> ls <> [] -> Den r (aalt xs)) ->
  (forall ls r, join ls = Some r -> ls <> [] -> r <> [] /\ m_assemble_input r = None /\ m_assemble_output r = None) ->
  forall limit init p x pxs sxs out,
  let lines := scan_lines limit (p_buffer p) in
  lines_ok A aalt acat den_line den_word seq_level cfg Den DenSeq ([PPAsm A (pasm_new A)], []) lines ->
  plain_body A aalt acat den_line den_word seq_level cfg lines = Some (Some x) ->
  Forall2 DenSeq (p_prefixes p) pxs -> Forall2 DenSeq (p_suffixes p) sxs ->
  assemble join cfg limit init p = Ok out ->
  exists simplified cleaned,
    Den simplified (whole A acat pxs x sxs) /\
    final_passes simplified = Ok cleaned /\
    out = match cleaned with [] => [] | _ => flags_prefix p ++ cleaned end.
Proof. exact assemble_is_passes_of_plain_reading. Qed.
Print Assumptions C01_text_before_final_passes_means_plain_reading.

(* the laws are satisfiable and the statement is not vacuous: with a real semantics for a small
   regex syntax (Model/ToyRegex.v: literals, groups, |, juxtaposition; meanings are sets of byte
   strings) and the naive optimiser, all seven laws are proved, and for the file
   ab / cd / ##!=> / ef the text handed to the final passes parses to exactly {abef, cdef} *)
Theorem C01_refinement_instance :
  forall limit init flag_i flag_s out,
  let p := {| p_buffer := $"ab" ++ [10] ++ $"cd" ++ [10] ++ $"##!=>" ++ [10] ++ $"ef" ++ [10];
              p_flag_i := flag_i; p_flag_s := flag_s; p_prefixes := []; p_suffixes := [] |} in
  scan_lines limit (p_buffer p) = toy_lines ->
  assemble toy_join toy_cfg limit init p = Ok out ->
  exists simplified cleaned L,
    AltP simplified L /\ (forall w, L w <-> (w = $"abef" \/ w = $"cdef")) /\
    final_passes simplified = Ok cleaned /\
    out = match cleaned with [] => [] | _ => flags_prefix p ++ cleaned end.
Proof. exact toy_assemble. Qed.
Print Assumptions C01_refinement_instance.

Theorem C01_refinement_instance_runs :
  let p := {| p_buffer := $"ab" ++ [10] ++ $"cd" ++ [10] ++ $"##!=>" ++ [10] ++ $"ef" ++ [10];
              p_flag_i := false; p_flag_s := false; p_prefixes := []; p_suffixes := [] |} in
  scan_lines 65536 (p_buffer p) = toy_lines /\
  assemble toy_join toy_cfg 65536 [] p = Ok $"(?:(?:(?:(?:(?:(?:ab|cd)))(?:(?:(?:ef))))))".
Proof. exact toy_assemble_runs. Qed.
Print Assumptions C01_refinement_instance_runs.
