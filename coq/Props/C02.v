(* C02 - the generated regex can be pasted between the quotes of a SecRule line. Statements only. *)
From Coq Require Import String Permutation.
From Verif Require Import Base.Str Base.Lines Base.Outcome Regex.Re Regex.Equiv Model.Patterns Model.ParseLine Model.Passes Model.CmdLine Model.Parser Model.Assembler Model.Generate.
From Verif Require Import Proofs.HexBsProofs.
From Verif Require Import Proofs.EquivSound Proofs.PassesProofs Proofs.CmdLineProofs Proofs.ParserProofs Proofs.AssemblerProofs.
From Verif Require Tie.Pin_calls_regex_operators_assembler_Operator_complete.
From Verif Require Tie.Pin_lits_regex_operators_assembler_removeUnescapedMatches.
From Verif Require Tie.Pin_perlSpaceClassRegexp_src Tie.Pin_const_regex_operators_assembler_perlSpaceClass.
From Verif Require Tie.Pin_lits_regex_operators_assembler_Operator_escapeDoublequotes Tie.Pin_lits_regex_operators_assembler_Operator_useHexBackslashes Tie.Pin_lits_regex_operators_assembler_Operator_useHexEscapes Tie.Pin_lits_regex_operators_assembler_Operator_includeVerticalTabInSpaceClass Tie.Pin_lits_regex_operators_assembler_Operator_dontUseFlagsForMetaCharacters Tie.Pin_lits_regex_operators_assembler_Operator_removeGroup Tie.Pin_lits_regex_operators_assembler_Operator_removeOutermostNonCapturingGroup Tie.Pin_lits_regex_operators_assembler_Operator_findGroupBodyEnd Tie.Pin_lits_utils_utils_IsEscaped Tie.Pin_lits_regex_utils_IsEscaped Tie.Pin_lits_regex_operators_assembler_Operator_complete.
Open Scope N_scope.

(* whatever the optimiser returns, the text after the clean-up passes is printable ASCII *)
Theorem C02_output_printable_ascii :
  forall t out, final_passes t = Ok out -> Forall printable out.
Proof. exact final_passes_printable. Qed.
Print Assumptions C02_output_printable_ascii.

Theorem C02_output_single_line :
  forall t out, final_passes t = Ok out -> ~ In 10 out /\ ~ In 13 out.
Proof. exact final_passes_single_line. Qed.
Print Assumptions C02_output_single_line.

(* control and non-ASCII characters (any byte string, valid UTF-8 or not) appear only as hex escapes *)
Theorem C02_hex_escapes_printable :
  forall s, Forall printable (use_hex_escapes s).
Proof. exact use_hex_escapes_printable. Qed.
Print Assumptions C02_hex_escapes_printable.

(* every double quote is directly preceded by a backslash ... *)
Theorem C02_quote_preceded_by_backslash :
  forall s a b, escape_doublequotes s = a ++ 34 :: b -> exists a', a = a' ++ [92].
Proof. exact escape_doublequotes_quote_preceded. Qed.
Print Assumptions C02_quote_preceded_by_backslash.

(* ... which is not the same as escaped: the full statement is refuted (known finding C02-quote-after-backslash) *)
Theorem C02_quotes_escaped_refuted :
  exists t out, final_passes t = Ok out /\ quotes_escaped out = false.
Proof. exact quotes_escaped_refuted. Qed.
Print Assumptions C02_quotes_escaped_refuted.

Theorem C02_flags_only_leading_sorted :
  forall p, flags_prefix p = [] \/ flags_prefix p = $"(?i)" \/ flags_prefix p = $"(?s)" \/ flags_prefix p = $"(?is)".
Proof. exact flags_prefix_cases. Qed.
Print Assumptions C02_flags_only_leading_sorted.

Theorem C02_final_text_shape :
  forall join p stash lines out, complete join p stash lines = Ok out ->
  out = [] \/ exists body, out = flags_prefix p ++ body /\ body <> [] /\ Forall printable body.
Proof. exact complete_shape. Qed.
Print Assumptions C02_final_text_shape.


(* a literal backslash is written only as \x5c: after useHexBackslashes no two backslashes are adjacent, for every input *)
Theorem C02_no_backslash_pair : forall s, has_bs_pair (use_hex_backslashes s) = false.
Proof. exact use_hex_backslashes_no_pair. Qed.
Print Assumptions C02_no_backslash_pair.
