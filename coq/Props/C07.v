(* C07 - definitions are pure textual substitution, independent of their order. Statements only. *)
From Coq Require Import String Permutation.
From Verif Require Import Base.Str Base.Lines Base.Outcome Regex.Re Regex.Equiv Model.Patterns Model.ParseLine Model.Passes Model.CmdLine Model.Parser Model.Assembler Model.Generate.
From Verif Require Import Model.DefsTok Proofs.DefsTokProofs.
From Verif Require Import Proofs.EquivSound Proofs.PassesProofs Proofs.CmdLineProofs Proofs.ParserProofs Proofs.AssemblerProofs.
From Verif Require Tie.Pin_lits_regex_parser_parser_expandDefinitions Tie.Pin_lits_regex_parser_parser_Parser_Parse Tie.Pin_DefinitionRegex_src Tie.Pin_DefinitionReferenceRegex_src.
Open Scope N_scope.

(* text that references none of the defined names - in particular references to undefined names - stays as it is *)
Theorem C07_unreferenced_names_change_nothing :
  forall o2 vars src, (forall n, In n o2 -> ~ occurs (needle n) src) -> expand_defs_in_src o2 vars src = src.
Proof. exact expand_src_no_reference. Qed.
Print Assumptions C07_unreferenced_names_change_nothing.

Theorem C07_absent_needle_identity :
  forall needle repl s, ~ occurs needle s -> replace_all needle repl s = s.
Proof. exact replace_all_absent. Qed.
Print Assumptions C07_absent_needle_identity.

Theorem C07_first_definition_wins :
  forall vars k v v0, smap_get vars k = Some v0 -> merge_def vars k v = vars.
Proof. exact merge_def_keeps. Qed.
Print Assumptions C07_first_definition_wins.

(* the expansion on tokens (literal characters and references to defined names): for acyclic
   definitions the result is the full substitution - every reference replaced by its value with all
   references replaced, recursively - for EVERY iteration order of the two map loops *)
Theorem C07_expansion_is_full_substitution :
  forall rank F d0 o1 o2 src,
  ranked rank d0 -> (forall k, defined d0 k -> (rank k < F)%nat) ->
  (forall k, defined d0 k -> In k o1) -> (forall k, defined d0 k -> In k o2) ->
  tok_expand o1 o2 d0 src = full (S F) d0 src.
Proof. exact tok_expand_is_full_subst. Qed.
Print Assumptions C07_expansion_is_full_substitution.

Theorem C07_expansion_order_independent :
  forall rank F d0 o1 o2 o1' o2' src,
  ranked rank d0 -> (forall k, defined d0 k -> (rank k < F)%nat) ->
  (forall k, defined d0 k -> In k o1) -> (forall k, defined d0 k -> In k o2) ->
  (forall k, defined d0 k -> In k o1') -> (forall k, defined d0 k -> In k o2') ->
  tok_expand o1 o2 d0 src = tok_expand o1' o2' d0 src.
Proof. exact tok_expand_order_independent. Qed.
Print Assumptions C07_expansion_order_independent.

Theorem C07_undefined_reference_untouched :
  forall f d n, ~ defined d n -> full f d [R n] = [R n].
Proof. exact undefined_reference_untouched. Qed.
Print Assumptions C07_undefined_reference_untouched.

(* the premises are satisfiable: a chain a -> b -> c, expanded in two different orders *)
Example C07_chain_example :
  let d := [($"a", [L 120; R $"b"]); ($"b", [R $"c"; L 121]); ($"c", [L 122])] in
  tok_expand [$"a"; $"b"; $"c"] [$"c"; $"a"; $"b"] d [R $"a"; L 45; R $"undefined"] = [L 120; L 122; L 121; L 45; R $"undefined"] /\
  tok_expand [$"c"; $"b"; $"a"] [$"a"; $"b"; $"c"] d [R $"a"; L 45; R $"undefined"] = [L 120; L 122; L 121; L 45; R $"undefined"].
Proof. split; vm_compute; reflexivity. Qed.
