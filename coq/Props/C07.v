(* C07 - definitions are pure textual substitution, independent of their order. Statements only. *)
From Coq Require Import String Permutation.
From Verif Require Import Base.Str Base.Lines Base.Outcome Regex.Re Regex.Equiv Model.Patterns Model.ParseLine Model.Passes Model.CmdLine Model.Parser Model.Assembler Model.Generate.
From Verif Require Import Proofs.EquivSound Proofs.PassesProofs Proofs.CmdLineProofs Proofs.ParserProofs Proofs.AssemblerProofs.
From Verif Require Tie.Pin_lits_regex_parser_parser_expandDefinitions Tie.Pin_lits_regex_parser_parser_Parser_Parse Tie.Pin_DefinitionRegex_src Tie.Pin_DefinitionReferenceRegex_src.
Open Scope N_scope.

(* text that references none of the defined names - in particular references to undefined names - stays as it is *)
Theorem C07_unreferenced_names_change_nothing :
  forall o2 vars src, (forall n, In n o2 -> ~ occurs (needle n) src) -> expand_defs_in_src o2 vars src = src.
Proof. exact expand_src_no_reference. Qed.
Print Assumptions C07_unreferenced_names_change_nothing.

Theorem C07_absent_needle_identity :
  forall needle repl s, ~ occurs needle s -> replace_all needle repl s = s.
Proof. exact replace_all_absent. Qed.
Print Assumptions C07_absent_needle_identity.

Theorem C07_first_definition_wins :
  forall vars k v v0, smap_get vars k = Some v0 -> merge_def vars k v = vars.
Proof. exact merge_def_keeps. Qed.
Print Assumptions C07_first_definition_wins.

