(* C13 - renumber-tests numbers tests 1..n, touches nothing else, is idempotent.
   Statements only; proofs in Proofs/RenumberProofs.v. *)
From Coq Require Import String.
From Verif Require Import Base.Str Base.Lines Model.Renumber Proofs.RenumberProofs Proofs.RenumberIdemProofs Proofs.RenumberSpecProofs.
From Verif Require Tie.Pin_TestIdRegex_src Tie.Pin_TestTitleRegex_src Tie.Pin_RuleIdTestFileNameRegex_src
  Tie.Pin_lits_util_renumber_tests_TestRenumberer_processYaml
  Tie.Pin_lits_util_renumber_tests_TestRenumberer_formatEndOfFile
  Tie.Pin_lits_util_renumber_tests_TestRenumberer_processFile Tie.Pin_max_scan_token_size Tie.Pin_scan_limit_renumber_process_yaml.
From Verif Require Model.RuleId Model.Update Model.Cli Proofs.CliProofs Proofs.CliCheckProofs.
Open Scope N_scope.

(* the running index is max(test_id lines seen, test_title lines seen), in every reachable state *)
Theorem C13_index_invariant : forall rule st line, inv st -> inv (fst (step_line rule st line)).
Proof. exact step_inv. Qed.
Print Assumptions C13_index_invariant.

(* every line of a file is rewritten by step_line in a state that satisfies the invariant *)
Theorem C13_every_line_in_invariant_state : forall rule ls st, inv st ->
  forall pre l post, ls = pre ++ l :: post ->
  exists st', inv st' /\
    rewrite_lines rule st ls =
    rewrite_lines rule st pre ++ snd (step_line rule st' l) :: rewrite_lines rule (fst (step_line rule st' l)) post.
Proof. exact rewrite_inv. Qed.
Print Assumptions C13_every_line_in_invariant_state.

(* a line carrying neither key is copied byte for byte and does not advance any counter *)
Theorem C13_other_lines_untouched : forall rule st line,
  match_key key_id line = None -> match_key key_title line = None ->
  step_line rule st line = (st, line).
Proof. exact step_untouched. Qed.
Print Assumptions C13_other_lines_untouched.

(* what is kept of a key line: everything up to and including the (last) key *)
Theorem C13_key_line_prefix_kept : forall key s g,
  match_key key s = Some g ->
  exists pre c rest, g = pre ++ key /\ s = g ++ c :: rest /\ is_rxspace c = true.
Proof. exact match_key_shape. Qed.
Print Assumptions C13_key_line_prefix_kept.

(* the number written on the next test_id line is max(ids so far + 1, titles so far) ... *)
Theorem C13_id_line_number : forall rule st line g,
  inv st -> match_key key_id line = Some g ->
  match_key key_title (g ++ [32] ++ dec (id_number st)) = None ->
  step_line rule st line =
  ({| idx := id_number st; idc := idc st + 1; tic := tic st |}, g ++ [32] ++ dec (id_number st)).
Proof. exact step_id_line. Qed.
Print Assumptions C13_id_line_number.

Theorem C13_title_line_number : forall rule st line g,
  inv st -> match_key key_id line = None -> match_key key_title line = Some g ->
  step_line rule st line =
  ({| idx := title_number st; idc := idc st; tic := tic st + 1 |},
   g ++ [32] ++ rule ++ [45] ++ dec (title_number st)).
Proof. exact step_title_line. Qed.
Print Assumptions C13_title_line_number.

(* ... which is n for the n-th line whenever the two kinds are balanced (one kind only,
   or both fields in every test) *)
Theorem C13_nth_id_is_n_partial : forall st, tic st <= idc st + 1 -> id_number st = idc st + 1.
Proof. exact balanced_id_number. Qed.
Theorem C13_nth_title_is_n_partial : forall st, idc st <= tic st + 1 -> title_number st = tic st + 1.
Proof. exact balanced_title_number. Qed.

(* The unguarded statement is false of the faithful model: two titles followed by an id
   number the first test_id 2 (known finding C13-mixed-fields, replayed on the binary). *)
Theorem C13_nth_id_is_n_refuted :
  process_yaml 65536 $"920100" mixed_witness =
  $"- test_title: 920100-1
- test_title: 920100-2
- test_id: 2
".
Proof. exact nth_id_is_n_refuted. Qed.

(* the rewritten file is empty or ends with exactly one newline *)
Theorem C13_one_final_newline : forall limit rule contents,
  process_yaml limit rule contents = [] \/
  exists body c, process_yaml limit rule contents = body ++ [c; 10] /\ c <> 10.
Proof. exact process_yaml_final_newline. Qed.
Print Assumptions C13_one_final_newline.

(* RENUMBERING TWICE IS RENUMBERING ONCE, on the lines of a file: for every list of lines of
   the property's quantifier ([plain_line]: a test_id line, a test_title line - the key preceded
   by text without the letter t, i.e. blanks, tabs, list dashes - or a line with neither key),
   every rule id without the letter t and every starting state of the counters, rewriting the
   rewritten lines gives the same lines. *)
Theorem C13_renumbering_twice_is_once : forall rule ls st,
  ~ In 116 rule -> Forall plain_line ls ->
  rewrite_lines rule st (rewrite_lines rule st ls) = rewrite_lines rule st ls.
Proof. intros rule ls st Hr HF. now apply rewrite_lines_idempotent. Qed.
Print Assumptions C13_renumbering_twice_is_once.

Theorem C13_idempotence_example :
  let ls := [$"- test_title: old"; $"  desc: ""t"""; $"  - test_id: 7"; $"    test_id:  x"; $""] in
  Forall plain_line ls /\
  rewrite_lines $"942100" counters0 ls = [$"- test_title: 942100-1"; $"  desc: ""t"""; $"  - test_id: 1"; $"    test_id: 2"; $""].
Proof. exact idempotent_example. Qed.
Print Assumptions C13_idempotence_example.

(* THE WHOLE FILE MEETS THE SPEC (refinement): for every list of plain lines in which the two kinds of
   key lines stay balanced - every test carries an id, a title, or both, in any order - the rewriter
   writes n on the n-th test_id line, RULE-n on the n-th test_title line and copies every other line:
   exactly what [renumber_spec] (two independent counters) says.  Unbalanced files are the recorded
   finding (C13_nth_id_is_n_refuted). *)
Theorem C13_renumbered_file_meets_the_spec : forall rule ls,
  Forall plain_line ls -> balanced 0 0 ls ->
  rewrite_lines rule counters0 ls = renumber_spec rule 0 0 ls.
Proof. exact renumbered_file_meets_spec. Qed.
Print Assumptions C13_renumbered_file_meets_the_spec.

Theorem C13_renumbered_lines_meet_the_spec_from_any_state : forall rule ls st,
  inv st -> Forall plain_line ls -> balanced (idc st) (tic st) ls ->
  rewrite_lines rule st ls = renumber_spec rule (idc st) (tic st) ls.
Proof. exact rewrite_lines_meets_spec. Qed.
Print Assumptions C13_renumbered_lines_meet_the_spec_from_any_state.

Theorem C13_spec_example :
  renumber_spec $"942100" 0 0 [$"- test_title: a"; $"  test_id: 7"; $"  desc: x"; $"- test_id: 9"; $"- test_title: 942100-5"; $"  test_id: 1"]
  = [$"- test_title: 942100-1"; $"  test_id: 1"; $"  desc: x"; $"- test_id: 2"; $"- test_title: 942100-2"; $"  test_id: 3"] /\
  balanced 0 0 [$"- test_title: a"; $"  test_id: 7"; $"  desc: x"; $"- test_id: 9"; $"- test_title: 942100-5"; $"  test_id: 1"].
Proof. exact spec_example. Qed.

(* --check, whole command on the tree model: `renumber-tests --all --check` succeeds exactly when
   `renumber-tests --all` would leave every file byte-identical *)
Theorem C13_check_fails_exactly_when_a_rewrite_would_change_a_file : forall renum files t, NoDup files ->
  (Cli.renumber_check_all renum files t = Cli.Success <-> Cli.renumber_all renum files t = t).
Proof. exact CliCheckProofs.renumber_check_agrees_with_renumber. Qed.
Print Assumptions C13_check_fails_exactly_when_a_rewrite_would_change_a_file.

(* ... and for the bytes of the file: what renumber-tests writes is the spec's lines, each ended by a
   newline, with the end of the file normalised (one final newline: C13_one_final_newline) *)
Theorem C13_file_bytes_meet_the_spec : forall limit rule contents,
  Forall plain_line (scan_lines limit contents) -> balanced 0 0 (scan_lines limit contents) ->
  process_yaml limit rule contents =
  join [10] (format_eof_ws (split_on 10 (unlines (renumber_spec rule 0 0 (scan_lines limit contents))))).
Proof. exact process_yaml_meets_spec. Qed.
Print Assumptions C13_file_bytes_meet_the_spec.
