(* C14 - update-copyright sets version and year everywhere, whatever was there before.
   Statements only; proofs in Proofs/CopyrightProofs.v. *)
From Coq Require Import String.
From Verif Require Import Base.Str Base.Lines Model.Copyright Proofs.CopyrightProofs.
From Verif Require Tie.Pin_CRSVersionRegex_src Tie.Pin_ShortCRSVersionRegex_src Tie.Pin_CRSCopyrightYearRegex_src
  Tie.Pin_CRSYearSecRuleVerRegex_src Tie.Pin_CRSVersionComponentSignatureRegex_src
  Tie.Pin_lits_chore_update_copyright_updateRules Tie.Pin_lits_chore_update_copyright_UpdateCopyright
  Tie.Pin_lits_chore_update_copyright_processFile Tie.Pin_max_scan_token_size Tie.Pin_scan_limit_copyright_update_rules.
From Coq Require Import Permutation.
From Verif Require Model.RuleId Model.Update Model.Renumber Model.Cli Proofs.CliProofs Proofs.CliOrderProofs.
Open Scope N_scope.

(* all other text is untouched: a line on which none of the five marker patterns can
   match anywhere is copied *)
Theorem C14_other_text_untouched : forall v y line,
  prefixb ver_prefix1 line = false -> prefixb ver_prefix2 line = false ->
  prefixb year_a line = false -> prefixb sig_a line = false ->
  (forall pre t, line = pre ++ t -> prefixb short_a t = false) ->
  (forall pre t, line = pre ++ t -> prefixb secver_a t = false) ->
  update_line v y line = line.
Proof. exact update_line_untouched. Qed.
Print Assumptions C14_other_text_untouched.

(* the header marker shows exactly V whatever text followed "ver." before *)
Theorem C14_header_version_shows : forall v rest, rest <> [] ->
  repl_version v (ver_prefix1 ++ rest) = ver_prefix1 ++ v /\
  repl_version v (ver_prefix2 ++ rest) = ver_prefix2 ++ v.
Proof. exact repl_version_shows. Qed.
Print Assumptions C14_header_version_shows.

Theorem C14_header_version_idempotent : forall v line, v <> [] ->
  repl_version v (repl_version v line) = repl_version v line.
Proof. exact repl_version_idem. Qed.
Print Assumptions C14_header_version_idempotent.

(* the copyright line: only the end year changes *)
Theorem C14_year_shows : forall y d t,
  length d = 4%nat -> forallb is_digit d = true -> year_tail_ok t = true ->
  repl_year y (year_a ++ d ++ t) = year_a ++ y ++ t.
Proof. exact repl_year_shows. Qed.
Print Assumptions C14_year_shows.

(* line-wise: every scanned line is rewritten on its own and newline-terminated *)
Theorem C14_linewise : forall limit v y contents,
  update_rules limit v y contents = unlines (map (update_line v y) (scan_lines limit contents)).
Proof. exact update_rules_lines. Qed.

(* "repeating the command changes nothing, regardless of accepted versions" is false of
   the faithful model (known finding C14-version-forms; witness replayed on the code) *)
Theorem C14_idempotent_refuted :
  let once := update_rules 65536 $"4.1.0-RC1" $"2025" c14_witness in
  update_rules 65536 $"4.1.0-RC1" $"2025" once <> once.
Proof. exact update_not_idempotent_refuted. Qed.

(* EVERYWHERE, whole command on the tree model: every *.conf / *.example file of the walk ends as the
   line-wise rewrite of its own bytes - whatever the other files contain and in whatever order the walk
   presents them - and no other file is touched (C15_copyright_frame) *)
Theorem C14_every_selected_file_is_rewritten : forall limit v y files t p c,
  NoDup files -> In p files -> Cli.copyright_selected p = true -> Cli.t_get t p = Some c ->
  Cli.t_get (Cli.copyright_all (update_rules limit v y) files t) p = Some (update_rules limit v y c).
Proof. intros limit v y. exact (CliOrderProofs.copyright_all_is_each_alone (update_rules limit v y)). Qed.
Print Assumptions C14_every_selected_file_is_rewritten.

Theorem C14_result_independent_of_walk_order : forall limit v y files files' t,
  Permutation files files' ->
  Cli.copyright_all (update_rules limit v y) files t = Cli.copyright_all (update_rules limit v y) files' t.
Proof. intros limit v y. exact (CliOrderProofs.copyright_all_order_independent (update_rules limit v y)). Qed.
Print Assumptions C14_result_independent_of_walk_order.
