(* C19 - generate never crashes or hangs. Statements only. *)
From Coq Require Import String Permutation.
From Verif Require Import Base.Str Base.Lines Base.Outcome Regex.Re Regex.Equiv Model.Patterns Model.ParseLine Model.Passes Model.CmdLine Model.Parser Model.Assembler Model.Generate.
From Verif Require Import Proofs.EquivSound Proofs.PassesProofs Proofs.CmdLineProofs Proofs.ParserProofs Proofs.AssemblerProofs.
From Verif Require Tie.Pin_calls_regex_operators_assembler_Operator_complete.
From Verif Require Tie.Pin_lits_regex_operators_assembler_removeUnescapedMatches.
From Verif Require Tie.Pin_lits_regex_operators_assembler_Operator_escapeDoublequotes Tie.Pin_lits_regex_operators_assembler_Operator_useHexBackslashes Tie.Pin_lits_regex_operators_assembler_Operator_useHexEscapes Tie.Pin_lits_regex_operators_assembler_Operator_includeVerticalTabInSpaceClass Tie.Pin_lits_regex_operators_assembler_Operator_dontUseFlagsForMetaCharacters Tie.Pin_lits_regex_operators_assembler_Operator_removeGroup Tie.Pin_lits_regex_operators_assembler_Operator_removeOutermostNonCapturingGroup Tie.Pin_lits_regex_operators_assembler_Operator_findGroupBodyEnd Tie.Pin_lits_utils_utils_IsEscaped Tie.Pin_lits_regex_utils_IsEscaped Tie.Pin_lits_regex_operators_assembler_Operator_startPreprocessor.
Open Scope N_scope.

(* the unbounded for-loop of dontUseFlagsForMetaCharacters: every removal shortens the text, so the
   model's fuel is never exhausted - the loop terminates on every input *)
Theorem C19_flag_group_loop_terminates :
  forall s, dont_use_flags s <> Err err_hang.
Proof. exact dont_use_flags_terminates. Qed.
Print Assumptions C19_flag_group_loop_terminates.

Theorem C19_passes_terminate :
  forall t, final_passes t <> Err err_hang.
Proof. exact final_passes_terminates. Qed.
Print Assumptions C19_passes_terminate.

Theorem C19_removal_shortens :
  forall s from a b s', (from <= length s)%nat -> find_flag_group s from = Some (a, b) -> remove_group s a b false = Ok s' ->
  (length s' < length s /\ a <= length s')%nat.
Proof. exact remove_flag_group_shorter. Qed.
Print Assumptions C19_removal_shortens.

(* when the group scan returns, the returned position is inside the text *)
Theorem C19_group_scan_in_bounds :
  forall s start idx alt, find_group_body_end s start = Ok (idx, alt) -> (start < idx <= length s)%nat.
Proof. exact find_group_body_end_bounds. Qed.
Print Assumptions C19_group_scan_in_bounds.

(* the case the property names: an ESCAPED parenthesis followed by ?i: is ordinary text
   (a genuine defect found by this check - index out of range - repaired in /repo, fix: 818337f and eb0e1c8 for the (?i) form) *)
Theorem C19_escaped_paren_is_text :
  dont_use_flags $"\(?i:x" = Ok $"\(?i:x" /\ dont_use_flags $"a(?i:x|y)b\(?i:z" = Ok $"a(?:x|y)b\(?i:z" /\
  dont_use_flags $"(\(?i)" = Ok $"(\(?i)" /\ dont_use_flags $"a(?s)b" = Ok $"ab".
Proof. exact escaped_paren_is_text. Qed.
Print Assumptions C19_escaped_paren_is_text.

(* what remains outside the theorems: an UNBALANCED flag group runs off the end; the optimiser
   never prints one (validated on every Join answer by the correspondence and fuzz runs) *)
Theorem C19_unbalanced_flag_group_crashes : dont_use_flags $"(?i:x" = Crash crash_index.
Proof. exact unbalanced_flag_group_crashes. Qed.
Print Assumptions C19_unbalanced_flag_group_crashes.
