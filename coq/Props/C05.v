(* C05 - including a file is the same as typing its lines in place. Statements only. *)
From Coq Require Import String Permutation.
From Verif Require Import Base.Str Base.Lines Base.Outcome Regex.Re Regex.Equiv Model.Patterns Model.ParseLine Model.Passes Model.CmdLine Model.Parser Model.Assembler Model.Generate.
From Verif Require Import Proofs.EquivSound Proofs.PassesProofs Proofs.CmdLineProofs Proofs.ParserProofs Proofs.IncludeInlineProofs Proofs.IncludeAffixProofs Proofs.AssemblerProofs.
From Verif Require Tie.Pin_lits_regex_parser_parser_Parser_Parse Tie.Pin_lits_regex_parser_parser_Parser_parseLine Tie.Pin_lits_regex_parser_parser_parseFile Tie.Pin_lits_regex_parser_parser_mergePrefixesSuffixes Tie.Pin_lits_regex_parser_include_except_builder_buildIncludeString.
Open Scope N_scope.

(* a file without prefixes, suffixes and flags hands over exactly its own parsed text: no wrapping *)
Theorem C05_plain_include_is_inline :
  forall r, plain_result r -> merge_prefixes_suffixes r = Ok (r_dest r).
Proof. exact include_plain_is_inline. Qed.
Print Assumptions C05_plain_include_is_inline.

(* prefixes and suffixes of the included file bind only its own entries: they are emitted as a local block *)
Theorem C05_prefix_suffix_local_block :
  forall r p ps, r_flag_i r = false -> r_flag_s r = false -> r_prefixes r = p :: ps ->
  exists body, merge_prefixes_suffixes r = Ok ($"##!> assemble" ++ [10] ++ body ++ $"##!<" ++ [10]) /\
    body = concat (map (fun p => p ++ [10] ++ $"##!=>" ++ [10]) (p :: ps)) ++ r_dest r ++
           (match r_suffixes r with [] => [] | _ => $"##!=>" ++ [10] end) ++
           concat (map (fun s => s ++ [10] ++ $"##!=>" ++ [10]) (r_suffixes r)).
Proof. exact include_pfx_sfx_local. Qed.
Print Assumptions C05_prefix_suffix_local_block.

Theorem C05_flags_in_include_rejected :
  forall r, r_flag_i r = true \/ r_flag_s r = true -> merge_prefixes_suffixes r = Err err_include_flags.
Proof. exact include_flags_rejected. Qed.
Print Assumptions C05_flags_in_include_rejected.

Theorem C05_lookup_prefers_include_dir :
  forall fs name c, (match ra_name name with 47 :: _ => False | _ => True end) ->
  smap_get (fs_include fs) (ra_name name) = Some c -> lookup_file fs name = Some c.
Proof. exact lookup_prefers_include. Qed.
Print Assumptions C05_lookup_prefers_include_dir.

Theorem C05_extension_added :
  forall name, (path_ext name = $".ra" /\ ra_name name = name) \/ (path_ext name <> $".ra" /\ ra_name name = name ++ $".ra").
Proof. exact ra_name_cases. Qed.
Print Assumptions C05_extension_added.

Theorem C05_equivalence_oracle_sound :
  forall excluded fuel r1 r2 V, equivalent excluded fuel r1 r2 = Holds V ->
  forall s w e, (forall c, In c w -> ~ In c excluded) -> (M r1 s w e <-> M r2 s w e).
Proof. exact equivalent_sound. Qed.
Print Assumptions C05_equivalence_oracle_sound.

(* THE WHOLE PARSER AND THE WHOLE COMMAND, for word-list include files: for every including file,
   every position of the include line (the parser does not know blocks, so also inside assemble /
   cmdline blocks), every state of the includer (definitions made before or after, flags,
   prefixes, suffixes), every iteration order of the maps and every include file that consists of
   entries, comments and blank lines: generate of the file with the include line IS generate of
   the file with the lines of the include file typed in its place - the same expression, the same
   error.  (Include files with their own definitions / prefixes / suffixes / nested includes:
   the lemmas above and the by-hand inlining oracle per case.) *)
Theorem C05_wordlist_include_is_typing_its_lines_partial :
  forall ordp ords ords2 ordi limit fs join cfg limit_asm pre line post pl c contents1 contents2,
  parse_line ordp (trim_left is_blank line) = Ok pl -> pl_type pl = LInclude -> pl_pairs pl = None ->
  lookup_file fs (pl_file pl) = Some c -> Forall (simple_line ordp) (scan_lines limit c) ->
  scan_lines limit contents1 = pre ++ [line] ++ post ->
  scan_lines limit contents2 = pre ++ scan_lines limit c ++ post ->
  generate join cfg ordp ords ords2 ordi limit limit_asm fs contents1 =
  generate join cfg ordp ords ords2 ordi limit limit_asm fs contents2.
Proof. intros. eapply generate_include_wordlist_inline; eauto. Qed.
Print Assumptions C05_wordlist_include_is_typing_its_lines_partial.

Theorem C05_wordlist_include_example :
  exists pl c,
    parse_line all_pnames (trim_left is_blank $"  ##!> include words") = Ok pl /\ pl_type pl = LInclude /\ pl_pairs pl = None /\
    lookup_file ex_fs (pl_file pl) = Some c /\ Forall (simple_line all_pnames) (scan_lines 65536 c) /\
    scan_lines 65536 $"a
  ##!> include words
b
" = [$"a"] ++ [$"  ##!> include words"] ++ [$"b"] /\
    scan_lines 65536 $"a
ls
  cat
##! a comment

b
" = [$"a"] ++ scan_lines 65536 c ++ [$"b"].
Proof. exact include_wordlist_example. Qed.
Print Assumptions C05_wordlist_include_example.

(* ... and for include files with their OWN prefix / suffix lines: including the file is typing the
   local block  ##!> assemble / p1 / ##!=> ... the entries ... ##!=> / s1 / ##!=> ... / ##!<  in
   place - whole parser, whole command, every includer, position and state.  The prefix / suffix
   values must be ordinary entry lines (a value that is itself a parser directive is read by the
   parser when typed but handed over as text when included). *)
Theorem C05_include_with_affixes_is_typing_the_local_block_partial :
  forall ordp ords ords2 ordi limit fs join cfg limit_asm pre line post pl c contents1 contents2,
  parse_line ordp (trim_left is_blank line) = Ok pl -> pl_type pl = LInclude -> pl_pairs pl = None ->
  lookup_file fs (pl_file pl) = Some c -> Forall (affix_file_line ordp) (scan_lines limit c) ->
  let pfx := affix_values ordp LPrefix (scan_lines limit c) in
  let sfx := affix_values ordp LSuffix (scan_lines limit c) in
  let body := text_lines ordp (scan_lines limit c) in
  (pfx <> [] \/ sfx <> []) ->
  Forall (reg_fixed ordp) (pfx ++ sfx) -> Forall (reg_fixed ordp) [$"##!> assemble"; $"##!=>"; $"##!<"] ->
  scan_lines limit contents1 = pre ++ [line] ++ post ->
  scan_lines limit contents2 = pre ++ block_lines pfx body sfx ++ post ->
  generate join cfg ordp ords ords2 ordi limit limit_asm fs contents1 =
  generate join cfg ordp ords ords2 ordi limit limit_asm fs contents2.
Proof. intros. eapply generate_include_affix_inline; eauto. Qed.
Print Assumptions C05_include_with_affixes_is_typing_the_local_block_partial.

Theorem C05_include_with_affixes_example :
  exists pl c,
    parse_line all_pnames (trim_left is_blank $"##!> include aff") = Ok pl /\ pl_type pl = LInclude /\ pl_pairs pl = None /\
    lookup_file ex5_fs (pl_file pl) = Some c /\ Forall (affix_file_line all_pnames) (scan_lines 65536 c) /\
    affix_values all_pnames LPrefix (scan_lines 65536 c) = [$"pre"] /\ affix_values all_pnames LSuffix (scan_lines 65536 c) = [$"post"] /\
    Forall (reg_fixed all_pnames) ([$"pre"] ++ [$"post"]) /\ Forall (reg_fixed all_pnames) [$"##!> assemble"; $"##!=>"; $"##!<"] /\
    block_lines [$"pre"] (text_lines all_pnames (scan_lines 65536 c)) [$"post"] =
      [$"##!> assemble"; $"pre"; $"##!=>"; $"foo"; $"bar"; $"##!=>"; $"post"; $"##!=>"; $"##!<"].
Proof. exact include_affix_example. Qed.
Print Assumptions C05_include_with_affixes_example.
