(* C12 - after update, compare reports the rule as unchanged, and vice versa.  Statements only. *)
From Coq Require Import String.
From Verif Require Import Base.Str Base.Outcome Model.Update Proofs.UpdateProofs.
From Verif Require Tie.Pin_RuleRxRegex_src Tie.Pin_SecRuleRegex_src Tie.Pin_lits_cmd_regex_update_updateRegex
  Tie.Pin_lits_cmd_regex_compare_readCurrentRegex Tie.Pin_lits_cmd_regex_compare_processRegexForCompare
  Tie.Pin_lits_cmd_regex_compare_performCompare.
Open Scope N_scope.

(* the verdict is plain byte equality: a single differing byte is a change *)
Theorem C12_verdict_is_byte_equality : forall a b, unchanged a b = true <-> a = b.
Proof. exact unchanged_iff. Qed.
Print Assumptions C12_verdict_is_byte_equality.

(* update and compare locate the line and delimit the operand with the same functions *)
Theorem C12_same_location_and_delimitation : forall contents id k new out,
  update_contents contents id k new = Ok out ->
  exists i g1 g2 g3 rest,
    locate (split_on 10 contents) id k = Ok (Some i) /\
    rx_match (nth i (split_on 10 contents) []) = Some (g1, g2, g3, rest) /\
    read_current contents id k = Ok g2.
Proof.
  intros contents id k new out H. destruct (update_frame _ _ _ _ _ H) as (i & g1 & g2 & g3 & rest & Hl & Hr & _).
  exists i, g1, g2, g3, rest. repeat split; auto. unfold read_current. rewrite Hl. cbn [bind]. rewrite Hr. reflexivity.
Qed.
Print Assumptions C12_same_location_and_delimitation.

(* "compare after update reports unchanged" is false of the faithful model when the generated
   regex contains the operator marker text (known finding C12-marker-in-regex) *)
Theorem C12_read_after_update_refuted :
  exists out, update_contents rules_unchained $"942100" 0 $"\""@rx x" = Ok out /\
              read_current out $"942100" 0 = Ok $"x".
Proof. exact read_after_update_refuted. Qed.
