(* C12 - after update, compare reports the rule as unchanged, and vice versa.  Statements only. *)
From Coq Require Import String.
From Verif Require Import Base.Str Base.Outcome Model.Update Proofs.UpdateProofs Proofs.RoundTripProofs.
From Verif Require Import Model.RuleId Model.Renumber Model.Cli Model.CliInst Gen.Consts Proofs.CliProofs Proofs.CliOrderProofs Proofs.CliInstProofs Proofs.CliRoundTripProofs.
From Verif Require Tie.Pin_RuleRxRegex_src Tie.Pin_SecRuleRegex_src Tie.Pin_lits_cmd_regex_update_updateRegex
  Tie.Pin_lits_cmd_regex_compare_readCurrentRegex Tie.Pin_lits_cmd_regex_compare_processRegexForCompare
  Tie.Pin_lits_cmd_regex_compare_performCompare.
Open Scope N_scope.

(* the verdict is plain byte equality: a single differing byte is a change *)
Theorem C12_verdict_is_byte_equality : forall a b, unchanged a b = true <-> a = b.
Proof. exact unchanged_iff. Qed.
Print Assumptions C12_verdict_is_byte_equality.

(* update and compare locate the line and delimit the operand with the same functions *)
Theorem C12_same_location_and_delimitation : forall contents id k new out,
  update_contents contents id k new = Ok out ->
  exists i g1 g2 g3 rest,
    locate (split_on 10 contents) id k = Ok (Some i) /\
    rx_match (nth i (split_on 10 contents) []) = Some (g1, g2, g3, rest) /\
    read_current contents id k = Ok g2.
Proof.
  intros contents id k new out H. destruct (update_frame _ _ _ _ _ H) as (i & g1 & g2 & g3 & rest & Hl & Hr & _).
  exists i, g1, g2, g3, rest. repeat split; auto. unfold read_current. rewrite Hl. cbn [bind]. rewrite Hr. reflexivity.
Qed.
Print Assumptions C12_same_location_and_delimitation.

(* "compare after update reports unchanged" is false of the faithful model when the generated
   regex contains the operator marker text (known finding C12-marker-in-regex) *)
Theorem C12_read_after_update_refuted :
  exists out, update_contents rules_unchained $"942100" 0 $"\""@rx x" = Ok out /\
              read_current out $"942100" 0 = Ok $"x".
Proof. exact read_after_update_refuted. Qed.

(* THE ROUND TRIP.  For every rules file, rule id, chain offset and new operand: if update
   succeeds, the operand contains no newline, no operator marker ends inside it
   ([operand_clean]) and the rewritten line is still the same line to the locator
   ([same_class]: it mentions id:<id> and SecRule exactly when the old line did), then the
   reader of compare returns exactly the new operand, and compare says "unchanged" exactly when
   the regex generated now is byte for byte what update wrote.
   The complement of [operand_clean] is the recorded finding C12-marker-in-regex (refuted below);
   the complement of [same_class] is outside what generate can produce for a regex (it would need
   the text SecRule or id:<id> inside the operand: the C11 findings). *)
Theorem C12_compare_reads_what_update_wrote : forall contents id k new out generated,
  update_contents contents id k new = Ok out -> ~ In 10 new ->
  (forall i g1 g2 g3 rest,
     locate (split_on 10 contents) id k = Ok (Some i) ->
     rx_match (nth i (split_on 10 contents) []) = Some (g1, g2, g3, rest) ->
     operand_clean g1 new /\
     same_class ($"id:" ++ id) (nth i (split_on 10 contents) []) (g1 ++ new ++ g3)) ->
  exists cur, read_current out id k = Ok cur /\ (unchanged cur generated = true <-> generated = new).
Proof. exact compare_after_update. Qed.
Print Assumptions C12_compare_reads_what_update_wrote.

(* [operand_clean] holds as soon as neither "@rx nor "!@rx occurs inside the new operand: a
   marker cannot straddle the end of group 1, which always ends with the marker's space *)
Theorem C12_operand_without_marker_is_clean : forall line g1 g2 g3 rest new,
  rx_match line = Some (g1, g2, g3, rest) ->
  (forall p, ~ occ marker_pos new p) -> (forall p, ~ occ marker_neg new p) ->
  operand_clean g1 new.
Proof.
  intros line g1 g2 g3 rest new H Hp Hn. destruct (g1_ends_with_space _ _ _ _ _ H) as [g ->].
  now apply operand_clean_when_no_marker_inside.
Qed.
Print Assumptions C12_operand_without_marker_is_clean.

Theorem C12_round_trip_example :
  exists out, update_contents rules_unchained $"942100" 0 $"(?i)a+""b" = Ok out /\
              read_current out $"942100" 0 = Ok $"(?i)a+""b".
Proof. exact read_after_update_example. Qed.
Print Assumptions C12_round_trip_example.

(* ---------- whole command, on the tree model with the model of generate inside ---------- *)
(* after a successful `regex update ARG`, `regex compare` of the same rule on the resulting tree
   reports "unchanged": generate gives the same regex again (it never reads a rules file), the glob
   finds the same rules file, and the reader returns what was written *)
Theorem C12_compare_after_update_says_unchanged :
  forall join cfg t arg t' r regex,
  parse_rule_id parse_uint_bits arg = Some r ->
  gen_in_tree join cfg t (d_assembly ++ [r_file r]) = Ok regex ->
  writable_operand t (r_id r) (r_chain r) regex ->
  cli_update_one join cfg t arg = (t', Success) ->
  compare_rule (gen_in_tree join cfg) t' (r_id r) (r_chain r) (d_assembly ++ [r_file r]) = Ok (Some true).
Proof.
  intros join cfg t arg t' r regex Hp Hg Hw H.
  exact (compare_after_update_one (gen_in_tree join cfg) (gen_in_tree_ignores_rules_files join cfg) _ _ _ _ _ _ Hp Hg Hw H).
Qed.
Print Assumptions C12_compare_after_update_says_unchanged.

(* the same for every step of `update --all` *)
Theorem C12_compare_after_update_step_says_unchanged :
  forall join cfg t id k f t' regex,
  ~ is_rules_file f -> gen_in_tree join cfg t f = Ok regex -> writable_operand t id k regex ->
  process_rule (gen_in_tree join cfg) t id k f = Ok t' ->
  compare_rule (gen_in_tree join cfg) t' id k f = Ok (Some true).
Proof.
  intros join cfg t id k f t' regex. exact (compare_after_process_rule (gen_in_tree join cfg) (gen_in_tree_ignores_rules_files join cfg) t id k f t' regex).
Qed.
Print Assumptions C12_compare_after_update_step_says_unchanged.

(* vice versa: when compare says "unchanged", update rewrites the rule's line to what it read
   (dropping only text after the line continuation, finding C11-line-tail) ... *)
Theorem C12_update_when_compare_says_unchanged :
  forall c id k regex cur, read_current c id k = Ok cur -> unchanged cur regex = true ->
  exists i g1 g3 rest,
    nth i (split_on 10 c) [] = g1 ++ regex ++ g3 ++ rest /\
    update_contents c id k regex = Ok (join [10] (set_nth i (g1 ++ regex ++ g3) (split_on 10 c))).
Proof. exact update_when_unchanged. Qed.
Print Assumptions C12_update_when_compare_says_unchanged.

(* ... and leaves the file byte-identical when the line ends with the continuation *)
Theorem C12_update_when_unchanged_is_identity :
  forall c id k regex cur, read_current c id k = Ok cur -> unchanged cur regex = true ->
  (forall i g1 g2 g3 rest, locate (split_on 10 c) id k = Ok (Some i) ->
     rx_match (nth i (split_on 10 c) []) = Some (g1, g2, g3, rest) -> rest = []) ->
  update_contents c id k regex = Ok c.
Proof. exact update_when_unchanged_is_identity. Qed.
Print Assumptions C12_update_when_unchanged_is_identity.
