(* Proofs about Model/ParseLine.v and Model/Parser.v: order independence of the map
   iterations (C03), include handling (C05), include-except and suffix replacement (C06),
   definition expansion (C07). *)
From Coq Require Import String Permutation Sorted.
From Verif Require Import Base.Str Base.Lines Base.Outcome Proofs.StrLemmas Model.Patterns Model.ParseLine Model.Parser.
Open Scope N_scope.

(* ---------- parseLine: the order of the pattern map is irrelevant for unambiguous lines ---------- *)
Definition claims (p : pname) (line : str) : Prop := try_pattern p line <> None.

Lemma first_match_none o line :
  (forall q, In q o -> try_pattern q line = None) -> first_match o line = Ok (pl_of LRegular).
Proof.
  induction o as [|p o IH]; intro H; cbn [first_match]; [reflexivity|].
  rewrite (H p (or_introl eq_refl)). apply IH. intros q Hq. apply H. now right.
Qed.

Lemma first_match_unique o line p r :
  In p o -> try_pattern p line = Some r ->
  (forall q, In q o -> claims q line -> q = p) -> first_match o line = r.
Proof.
  induction o as [|x o IH]; intros Hin Hp Huniq; [destruct Hin|]. cbn [first_match].
  destruct (try_pattern x line) as [rx|] eqn:Ex.
  - assert (x = p) by (apply Huniq; [now left|unfold claims; congruence]). subst x. congruence.
  - destruct Hin as [->|Hin]; [congruence|]. apply IH; auto. intros q Hq. apply Huniq. now right.
Qed.

Lemma some_claim_dec o line :
  (exists p r, In p o /\ try_pattern p line = Some r) \/ (forall q, In q o -> try_pattern q line = None).
Proof.
  induction o as [|x o [(p & r & Hin & Hr)|Hnone]].
  - right. intros q [].
  - left. exists p, r. split; [now right|auto].
  - destruct (try_pattern x line) as [r|] eqn:E.
    + left. exists x, r. split; [now left|auto].
    + right. intros q [<-|Hq]; auto.
Qed.

Definition unambiguous (line : str) : Prop := forall p q, claims p line -> claims q line -> p = q.

Lemma pname_eq_dec (p q : pname) : {p = q} + {p <> q}.
Proof. decide equality. Qed.

Theorem parse_line_order_indep o1 o2 line :
  (forall p, In p o1 <-> In p o2) -> unambiguous line -> parse_line o1 line = parse_line o2 line.
Proof.
  intros Hset Hu. unfold parse_line. destruct (trim_space line); [reflexivity|].
  destruct (some_claim_dec o1 line) as [(p & r & Hin & Hr)|Hnone].
  - assert (Hc : claims p line) by (unfold claims; congruence).
    rewrite (first_match_unique o1 line p r), (first_match_unique o2 line p r); auto.
    + apply Hset; auto.
  - rewrite !first_match_none; auto. intros q Hq. apply Hnone. apply Hset. auto.
Qed.

(* ---------- the directive patterns are pairwise disjoint ---------- *)
(* (since IncludeRegex is anchored, fix: 597d59c; before, a comment mentioning an include was
   claimed by two patterns) *)
Lemma lit_some p s r : lit p s = Some r -> s = p ++ r.
Proof.
  unfold lit. destruct (prefixb p s) eqn:E; [|discriminate]. intro H. injection H as <-.
  apply prefixb_true_iff in E as [r ->]. now rewrite skipn_app_exact.
Qed.

(* the three characters ##! and the one after them *)
Definition marker4 (c : N) (s : str) : Prop := exists r, s = 35 :: 35 :: 33 :: c :: r.

Lemma marker_value_head c s v : m_marker_value (35 :: 35 :: 33 :: [c]) s = Some v -> marker4 c s.
Proof.
  unfold m_marker_value. destruct (lit _ s) as [r|] eqn:E; [|discriminate]. intros _.
  exists r. now apply lit_some in E.
Qed.

Lemma skip_ws_nonspace c r : sp c = false -> skip_ws (c :: r) = c :: r.
Proof. intro H. unfold skip_ws. cbn [drop_while]. now rewrite H. Qed.

(* the keyword of a ##!> directive: the text after ##!> and optional white space *)
Definition directive_kw (kw : str) (s : str) (rest : str) : Prop :=
  exists s1, s = $"##!>" ++ s1 /\ skip_ws s1 = kw ++ rest.

Lemma include_kw s r : include_here s = Some r -> exists c rest, directive_kw $"include" s (c :: rest) /\ sp c = true.
Proof.
  unfold include_here. destruct (lit $"##!>" s) as [s1|] eqn:E1; [|discriminate].
  destruct (lit $"include" (skip_ws s1)) as [s2|] eqn:E2; [|discriminate].
  destruct (Nat.eqb (length (skip_ws s2)) (length s2)) eqn:El; [discriminate|]. intros _.
  destruct s2 as [|c s3]; [discriminate|]. exists c, s3. split.
  - exists s1. split; [now apply lit_some|now apply lit_some].
  - unfold skip_ws in El. cbn [drop_while] in El. destruct (sp c) eqn:Ec; auto.
    rewrite Nat.eqb_refl in El. discriminate.
Qed.

Lemma include_except_kw s r : m_include_except s = Some r -> exists rest, directive_kw $"include-except" s rest.
Proof.
  unfold m_include_except. destruct (lit $"##!>" s) as [s1|] eqn:E1; [|discriminate].
  destruct (lit $"include-except" (skip_ws s1)) as [s2|] eqn:E2; [|discriminate]. intros _.
  exists s2, s1. split; now apply lit_some.
Qed.

Lemma definition_kw s r : m_definition s = Some r -> exists rest, directive_kw $"define" s rest.
Proof.
  unfold m_definition. destruct (lit $"##!>" s) as [s1|] eqn:E1; [|discriminate].
  destruct (lit $"define" (skip_ws s1)) as [s2|] eqn:E2; [|discriminate]. intros _.
  exists s2, s1. split; now apply lit_some.
Qed.

Lemma directive_marker4 kw s rest : directive_kw kw s rest -> marker4 62 s.
Proof. intros (s1 & -> & _). exists s1. reflexivity. Qed.

Lemma comment_head s : m_comment s = true ->
  forall c, marker4 c s -> c <> 94 /\ c <> 36 /\ c <> 43 /\ c <> 62 /\ c <> 60 /\ c <> 61.
Proof.
  intros H c [r ->]. unfold m_comment in H.
  rewrite skip_ws_nonspace in H by reflexivity.
  change (lit $"##!" (35 :: 35 :: 33 :: c :: r)) with (Some (c :: r)) in H.
  cbn beta iota in H. apply negb_true_iff in H. rewrite !orb_false_iff in H.
  destruct H as (((((H1 & H2) & H3) & H4) & H5) & H6).
  apply N.eqb_neq in H1, H2, H3, H4, H5, H6. repeat split; assumption.
Qed.

Lemma marker4_inj c d s : marker4 c s -> marker4 d s -> c = d.
Proof. intros [r ->] [r' H]. congruence. Qed.

Lemma directive_kw_inj kw1 kw2 s r1 r2 :
  directive_kw kw1 s r1 -> directive_kw kw2 s r2 -> kw1 ++ r1 = kw2 ++ r2.
Proof.
  intros (s1 & E1 & K1) (s2 & E2 & K2). rewrite E1 in E2. apply app_inv_head in E2. subst s2. congruence.
Qed.

(* what a claim of each pattern says about the head of the line *)
Inductive head_kind := HInclude | HExcept | HDefine | HComment | HFlags | HPrefix | HSuffix.
Definition kind_of (p : pname) : head_kind :=
  match p with
  | PInclude => HInclude | PIncludeExcept => HExcept | PDefinition => HDefine | PComment => HComment
  | PFlags => HFlags | PPrefix => HPrefix | PSuffix => HSuffix
  end.

Theorem classify_unique line : unambiguous line.
Proof.
  assert (Hinc : claims PInclude line -> exists c rest, directive_kw $"include" line (c :: rest) /\ sp c = true).
  { unfold claims. cbn [try_pattern]. unfold m_include. destruct (include_here line) eqn:E; [|congruence].
    intros _. eapply include_kw; eauto. }
  assert (Hexc : claims PIncludeExcept line -> exists rest, directive_kw $"include-except" line rest).
  { unfold claims. cbn [try_pattern]. destruct (m_include_except line) as [[[a b] c]|] eqn:E; [|congruence].
    intros _. eapply include_except_kw; eauto. }
  assert (Hdef : claims PDefinition line -> exists rest, directive_kw $"define" line rest).
  { unfold claims. cbn [try_pattern]. destruct (m_definition line) as [[[a b] c]|] eqn:E; [|congruence].
    intros _. eapply definition_kw; eauto. }
  assert (Hcom : claims PComment line -> m_comment line = true).
  { unfold claims. cbn [try_pattern]. destruct (m_comment line); congruence. }
  assert (Hfl : claims PFlags line -> marker4 43 line).
  { unfold claims. cbn [try_pattern]. destruct (m_flags line) eqn:E; [|congruence]. intros _. eapply marker_value_head; eauto. }
  assert (Hpr : claims PPrefix line -> marker4 94 line).
  { unfold claims. cbn [try_pattern]. destruct (m_prefix line) eqn:E; [|congruence]. intros _. eapply marker_value_head; eauto. }
  assert (Hsu : claims PSuffix line -> marker4 36 line).
  { unfold claims. cbn [try_pattern]. destruct (m_suffix line) eqn:E; [|congruence]. intros _. eapply marker_value_head; eauto. }
  (* the character after ##! of every claimant *)
  assert (M : forall p, claims p line -> p <> PComment ->
              marker4 (match p with PFlags => 43 | PPrefix => 94 | PSuffix => 36 | _ => 62 end) line).
  { intros p Hp Hne. destruct p; try congruence; auto.
    - destruct (Hinc Hp) as (c & rest & K & _). eapply directive_marker4; eauto.
    - destruct (Hexc Hp) as (rest & K). eapply directive_marker4; eauto.
    - destruct (Hdef Hp) as (rest & K). eapply directive_marker4; eauto. }
  intros p q Hp Hq.
  destruct (pname_eq_dec p q) as [|Hne]; [assumption|exfalso].
  (* a comment excludes everything else *)
  assert (NC : forall a b, claims a line -> claims b line -> a = PComment -> b <> PComment -> False).
  { intros a b Ha Hb -> Hb'. pose proof (comment_head line (Hcom Ha) _ (M b Hb Hb')) as H.
    destruct b; try congruence; cbn in H; intuition congruence. }
  destruct (pname_eq_dec p PComment) as [Ep|Ep]; [eapply (NC p q); eauto; congruence|].
  destruct (pname_eq_dec q PComment) as [Eq|Eq]; [eapply (NC q p); eauto; congruence|].
  pose proof (marker4_inj _ _ _ (M p Hp Ep) (M q Hq Eq)) as E4.
  destruct p, q; try congruence; try discriminate E4.
  - destruct (Hinc Hp) as (c & rest & K1 & Hc). destruct (Hexc Hq) as (rest2 & K2).
    pose proof (directive_kw_inj _ _ _ _ _ K1 K2) as E. cbn in E. injection E as E _. subst c. discriminate Hc.
  - destruct (Hinc Hp) as (c & rest & K1 & Hc). destruct (Hdef Hq) as (rest2 & K2).
    pose proof (directive_kw_inj _ _ _ _ _ K1 K2) as E. cbn in E. discriminate E.
  - destruct (Hinc Hq) as (c & rest & K1 & Hc). destruct (Hexc Hp) as (rest2 & K2).
    pose proof (directive_kw_inj _ _ _ _ _ K1 K2) as E. cbn in E. injection E as E _. subst c. discriminate Hc.
  - destruct (Hexc Hp) as (rest & K1). destruct (Hdef Hq) as (rest2 & K2).
    pose proof (directive_kw_inj _ _ _ _ _ K1 K2) as E. cbn in E. discriminate E.
  - destruct (Hinc Hq) as (c & rest & K1 & Hc). destruct (Hdef Hp) as (rest2 & K2).
    pose proof (directive_kw_inj _ _ _ _ _ K1 K2) as E. cbn in E. discriminate E.
  - destruct (Hexc Hq) as (rest & K1). destruct (Hdef Hp) as (rest2 & K2).
    pose proof (directive_kw_inj _ _ _ _ _ K1 K2) as E. cbn in E. discriminate E.
Qed.

(* hence the classification of EVERY line is independent of the iteration order of the pattern map *)
Corollary parse_line_deterministic o1 o2 line :
  (forall p, In p o1 <-> In p o2) -> parse_line o1 line = parse_line o2 line.
Proof. intro H. apply parse_line_order_indep; [exact H|apply classify_unique]. Qed.

(* ---------- replaceSuffixes ---------- *)
Lemma apply_pairs_none ps e :
  (forall k v, In (k, v) ps -> cut_suffix e k = None) -> apply_pairs ps e = e.
Proof.
  induction ps as [|[k v] ps IH]; intro H; cbn [apply_pairs]; [reflexivity|].
  rewrite (H k v (or_introl eq_refl)). apply IH. intros k' v' Hin. eapply H. right. eauto.
Qed.

Definition rewrite_with (e' r : str) : str := if str_eqb r empty_marker then e' else e' ++ r.

(* exactly one key is a suffix of the entry, and no key is a suffix of the rewritten entry:
   the result is the single rewrite, wherever the pair stands in the iteration order *)
Lemma apply_pairs_single ps : forall e k v e',
  In (k, v) ps -> cut_suffix e k = Some e' ->
  (forall k2 v2, In (k2, v2) ps -> k2 <> k -> cut_suffix e k2 = None) ->
  (forall k2 v2, In (k2, v2) ps -> cut_suffix (rewrite_with e' v) k2 = None) ->
  (forall v2, In (k, v2) ps -> v2 = v) ->
  apply_pairs ps e = rewrite_with e' v.
Proof.
  induction ps as [|[k1 v1] ps IH]; intros e k v e' Hin Hcut Hothers Hafter Hfun; [destruct Hin|].
  cbn [apply_pairs].
  destruct (cut_suffix e k1) as [e1|] eqn:E1.
  - (* k1 must be k *)
    destruct (str_eqb k1 k) eqn:Ek.
    + apply str_eqb_eq in Ek. subst k1. assert (v1 = v) by (apply Hfun; now left). subst v1.
      rewrite Hcut in E1. injection E1 as <-. fold (rewrite_with e' v).
      apply apply_pairs_none. intros k2 v2 Hin2. eapply Hafter. right. eauto.
    + apply str_eqb_neq in Ek. rewrite (Hothers k1 v1 (or_introl eq_refl) Ek) in E1. discriminate.
  - destruct Hin as [Heq|Hin]; [injection Heq as -> ->; congruence|].
    eapply IH; eauto.
    + intros k2 v2 Hin2. eapply Hothers. right. eauto.
    + intros k2 v2 Hin2. eapply Hafter. right. eauto.
    + intros v2 Hin2. apply Hfun. now right.
Qed.

Definition noninterfering (ps : smap) (e : str) : Prop :=
  (forall k v, In (k, v) ps -> cut_suffix e k = None) \/
  exists k v e', In (k, v) ps /\ cut_suffix e k = Some e' /\
    (forall k2 v2, In (k2, v2) ps -> k2 <> k -> cut_suffix e k2 = None) /\
    (forall k2 v2, In (k2, v2) ps -> cut_suffix (rewrite_with e' v) k2 = None) /\
    (forall v2, In (k, v2) ps -> v2 = v).

Theorem apply_pairs_order_indep ps ps' e :
  Permutation ps ps' -> noninterfering ps e -> apply_pairs ps e = apply_pairs ps' e.
Proof.
  intros Hperm [Hnone|(k & v & e' & Hin & Hcut & Ho & Ha & Hf)].
  - rewrite !apply_pairs_none; auto. intros k v Hin. eapply Hnone. eapply Permutation_in; [symmetry|]; eauto.
  - rewrite (apply_pairs_single ps e k v e'), (apply_pairs_single ps' e k v e'); auto.
    + eapply Permutation_in; eauto.
    + intros k2 v2 Hin2. eapply Ho. eapply Permutation_in; [symmetry|]; eauto.
    + intros k2 v2 Hin2. eapply Ha. eapply Permutation_in; [symmetry|]; eauto.
    + intros v2 Hin2. apply Hf. eapply Permutation_in; [symmetry|]; eauto.
Qed.

(* the order DOES matter when a replacement ends in another pair's key (known finding) *)
Example apply_pairs_order_dependent :
  exists ps ps' e, Permutation ps ps' /\ apply_pairs ps e <> apply_pairs ps' e.
Proof.
  exists [($"a", $"b"); ($"b", $"c")], [($"b", $"c"); ($"a", $"b")], $"xa".
  split; [apply perm_swap|vm_compute; discriminate].
Qed.

(* comments, directives and blank lines are never rewritten *)
Theorem replace_suffixes_skips ords limit ps content :
  replace_suffixes ords limit content (Some ps) =
  unlines (map (fun e => if skip_entry e then e else apply_pairs (ords ps) e) (scan_lines limit content)).
Proof. reflexivity. Qed.

Theorem replace_suffixes_nil ords limit content : replace_suffixes ords limit content None = content.
Proof. reflexivity. Qed.

(* ---------- include-except: sorting by the unique index undoes any map iteration order ---------- *)
Definition idx_le (x y : str * nat) : Prop := (snd x <= snd y)%nat.

Lemma insert_sorted x l : Sorted idx_le l -> Sorted idx_le (insert_by_index x l).
Proof.
  induction l as [|y l IH]; intro Hs; cbn [insert_by_index].
  - repeat constructor.
  - destruct (Nat.leb (snd x) (snd y)) eqn:E.
    + constructor; auto. constructor. apply Nat.leb_le in E. exact E.
    + apply Nat.leb_gt in E. inversion Hs as [|? ? Hs' Hhd]; subst. constructor; auto.
      destruct l as [|z l]; cbn [insert_by_index].
      * constructor. unfold idx_le. lia.
      * destruct (Nat.leb (snd x) (snd z)); constructor; unfold idx_le; try lia.
        inversion Hhd; subst. auto.
Qed.

Lemma sort_sorted l : Sorted idx_le (sort_by_index l).
Proof. induction l as [|x l IH]; cbn; [constructor|apply insert_sorted; auto]. Qed.

Lemma insert_perm x l : Permutation (x :: l) (insert_by_index x l).
Proof.
  induction l as [|y l IH]; cbn [insert_by_index]; [reflexivity|].
  destruct (Nat.leb _ _); [reflexivity|]. rewrite perm_swap. now constructor.
Qed.
Lemma sort_perm l : Permutation l (sort_by_index l).
Proof.
  induction l as [|x l IH]; cbn; [constructor|]. rewrite <- insert_perm. now constructor.
Qed.

(* two sorted lists with the same elements and pairwise distinct indexes are equal *)
Lemma sorted_strict l : Sorted idx_le l -> NoDup (map snd l) -> StronglySorted (fun x y => (snd x < snd y)%nat) l.
Proof.
  intros Hs Hnd. apply Sorted_StronglySorted in Hs; [|intros a b c; unfold idx_le; lia].
  induction Hs as [|x l Hs IH Hall]; [constructor|]. cbn in Hnd. inversion Hnd as [|? ? Hnotin Hnd']; subst.
  constructor; auto. rewrite Forall_forall in *. intros y Hy. specialize (Hall y Hy). unfold idx_le in Hall.
  assert (snd x <> snd y) by (intro E; apply Hnotin; rewrite E; apply in_map; auto). lia.
Qed.

Lemma strict_sorted_unique l1 : forall l2,
  StronglySorted (fun x y : str * nat => (snd x < snd y)%nat) l1 ->
  StronglySorted (fun x y : str * nat => (snd x < snd y)%nat) l2 ->
  (forall x, In x l1 <-> In x l2) -> l1 = l2.
Proof.
  induction l1 as [|x l1 IH]; intros l2 H1 H2 Hin.
  - destruct l2 as [|y l2]; [reflexivity|]. exfalso. apply (Hin y). now left.
  - destruct l2 as [|y l2]; [exfalso; apply (Hin x); now left|].
    inversion H1 as [|? ? H1' F1]; inversion H2 as [|? ? H2' F2]; subst.
    rewrite Forall_forall in F1, F2.
    assert (x = y).
    { destruct (proj1 (Hin x) (or_introl eq_refl)) as [E|Hx]; [auto|].
      destruct (proj2 (Hin y) (or_introl eq_refl)) as [E|Hy]; [auto|].
      specialize (F1 y Hy). specialize (F2 x Hx). lia. }
    subst y. f_equal. apply IH; auto. intro z. split; intro Hz.
    + destruct (proj1 (Hin z) (or_intror Hz)) as [E|]; auto. subst z. specialize (F1 x Hz). lia.
    + destruct (proj2 (Hin z) (or_intror Hz)) as [E|]; auto. subst z. specialize (F2 x Hz). lia.
Qed.

Theorem sort_by_index_perm_invariant l l' :
  Permutation l l' -> NoDup (map snd l) -> sort_by_index l = sort_by_index l'.
Proof.
  intros Hp Hnd. apply strict_sorted_unique.
  - apply sorted_strict; [apply sort_sorted|]. eapply Permutation_NoDup; [|exact Hnd].
    apply Permutation_map. apply sort_perm.
  - apply sorted_strict; [apply sort_sorted|]. eapply Permutation_NoDup; [|exact Hnd].
    apply Permutation_map. rewrite <- sort_perm. exact Hp.
  - intro x. split; intro H.
    + eapply Permutation_in; [apply sort_perm|]. eapply Permutation_in; [exact Hp|].
      eapply Permutation_in; [symmetry; apply sort_perm|]. exact H.
    + eapply Permutation_in; [apply sort_perm|]. eapply Permutation_in; [symmetry; exact Hp|].
      eapply Permutation_in; [symmetry; apply sort_perm|]. exact H.
Qed.

(* whatever order the inclusion-line map is iterated in, the emitted text is the same *)
Theorem string_from_lines_order_indep l l' :
  Permutation l l' -> NoDup (map snd l) -> string_from_lines l = string_from_lines l'.
Proof.
  intros Hp Hnd. unfold string_from_lines.
  destruct l as [|x l]; destruct l' as [|y l']; auto.
  - apply Permutation_nil in Hp. discriminate.
  - symmetry in Hp. apply Permutation_nil in Hp. discriminate.
  - now rewrite (sort_by_index_perm_invariant _ _ Hp Hnd).
Qed.

(* ---------- include: what an included file hands to its includer (C05) ---------- *)
Definition plain_result (r : presult) : Prop :=
  r_flag_i r = false /\ r_flag_s r = false /\ r_prefixes r = [] /\ r_suffixes r = [].

Theorem include_plain_is_inline r : plain_result r -> merge_prefixes_suffixes r = Ok (r_dest r).
Proof. intros (Hi & Hs & Hp & Hx). unfold merge_prefixes_suffixes. now rewrite Hi, Hs, Hp, Hx. Qed.

Theorem include_flags_rejected r : r_flag_i r = true \/ r_flag_s r = true -> merge_prefixes_suffixes r = Err err_include_flags.
Proof. intros [H|H]; unfold merge_prefixes_suffixes; rewrite H; [reflexivity|now rewrite orb_true_r]. Qed.

(* prefixes and suffixes of the included file become a LOCAL assemble block around its own text *)
Theorem include_pfx_sfx_local r p ps :
  r_flag_i r = false -> r_flag_s r = false -> r_prefixes r = p :: ps ->
  exists body, merge_prefixes_suffixes r = Ok ($"##!> assemble" ++ [10] ++ body ++ $"##!<" ++ [10]) /\
    body = concat (map (fun p => p ++ [10] ++ $"##!=>" ++ [10]) (p :: ps)) ++ r_dest r ++
           (match r_suffixes r with [] => [] | _ => $"##!=>" ++ [10] end) ++
           concat (map (fun s => s ++ [10] ++ $"##!=>" ++ [10]) (r_suffixes r)).
Proof.
  intros Hi Hs Hp. unfold merge_prefixes_suffixes. rewrite Hi, Hs, Hp. cbn [orb].
  eexists. split; [|reflexivity]. repeat rewrite <- app_assoc. reflexivity.
Qed.

(* lookup: include directory before exclude directory, .ra appended unless already there *)
Theorem lookup_prefers_include fs name c :
  (match ra_name name with 47 :: _ => False | _ => True end) ->
  smap_get (fs_include fs) (ra_name name) = Some c -> lookup_file fs name = Some c.
Proof.
  unfold lookup_file. intros Hrel H. destruct (ra_name name) as [|ch r]; [now rewrite H|].
  destruct (N.eq_dec ch 47) as [->|Hne]; [destruct Hrel|].
  assert (E : match ch with 47 => smap_get (fs_abs fs) (ch :: r) | _ =>
            match smap_get (fs_include fs) (ch :: r) with Some c0 => Some c0 | None => smap_get (fs_exclude fs) (ch :: r) end end
          = match smap_get (fs_include fs) (ch :: r) with Some c0 => Some c0 | None => smap_get (fs_exclude fs) (ch :: r) end).
  { destruct ch as [|p]; [reflexivity|]. revert Hne. clear. intro Hne.
    repeat (destruct p as [p|p|]; try reflexivity); congruence. }
  rewrite E, H. reflexivity.
Qed.

Theorem ra_name_cases name :
  (path_ext name = $".ra" /\ ra_name name = name) \/ (path_ext name <> $".ra" /\ ra_name name = name ++ $".ra").
Proof.
  unfold ra_name. destruct (str_eqb (path_ext name) $".ra") eqn:E.
  - left. apply str_eqb_eq in E. auto.
  - right. apply str_eqb_neq in E. auto.
Qed.

(* ---------- definitions (C07) ---------- *)
Lemma merge_def_keeps vars k v v0 : smap_get vars k = Some v0 -> merge_def vars k v = vars.
Proof. unfold merge_def. now intros ->. Qed.

Lemma replace_all_aux_absent needle repl s :
  (forall t, (exists pre, s = pre ++ t) -> prefixb needle t = false) ->
  replace_all_aux needle repl s 0 = s.
Proof.
  induction s as [|c s IH]; intro H; cbn [replace_all_aux]; [reflexivity|].
  rewrite (H (c :: s)) by (exists []; reflexivity). f_equal. apply IH.
  intros t [pre ->]. apply H. exists (c :: pre). reflexivity.
Qed.

(* a name that is not referenced leaves the text alone: in particular references to undefined
   names stay literal, whatever else is defined *)
Definition occurs (needle s : str) : Prop := exists pre post, s = pre ++ needle ++ post.

Lemma replace_all_absent needle repl s : ~ occurs needle s -> replace_all needle repl s = s.
Proof.
  intro H. unfold replace_all. destruct needle as [|n0 needle]; [reflexivity|].
  apply replace_all_aux_absent. intros t [pre ->].
  destruct (prefixb (n0 :: needle) t) eqn:E; [|reflexivity].
  apply prefixb_true_iff in E as [post ->]. exfalso. apply H. exists pre, post. reflexivity.
Qed.

Theorem expand_src_no_reference o2 vars src :
  (forall n, In n o2 -> ~ occurs (needle n) src) -> expand_defs_in_src o2 vars src = src.
Proof.
  induction o2 as [|n o2 IH]; intro H; cbn [expand_defs_in_src]; [reflexivity|].
  destruct (smap_get vars n); [rewrite replace_all_absent by (apply H; now left)|];
    apply IH; intros m Hm; apply H; now right.
Qed.
