(* C09 / C10: the definition directive line.  `##!> define NAME VALUE` as format prints it is
   read back with the same name and value, so the line is a fixed point of processLine. *)
From Coq Require Import String Lia.
From Verif Require Import Base.Str Base.Lines Base.Outcome Model.Patterns Model.ParseLine Model.Format
  Proofs.StrLemmas Proofs.FormatProofs Proofs.FormatIdemProofs.
Open Scope N_scope.

Lemma name_char_not_ws c : is_name_char c = true -> sp c = false.
Proof.
  unfold is_name_char, sp, is_rxspace, is_lower, is_upper, is_digit. intro H.
  repeat (apply orb_true_iff in H as [H|H]); try (apply andb_true_iff in H as [H1 H2]; apply N.leb_le in H1, H2);
    try (apply N.eqb_eq in H);
    repeat (apply orb_false_iff; split); apply N.eqb_neq; lia.
Qed.

Definition def_print (name value : str) : str := $"##!> define " ++ name ++ [32] ++ value.

Lemma definition_parts line g name value : m_definition line = Some (g, name, value) ->
  name <> [] /\ forallb is_name_char name = true /\ value <> [] /\ forallb nsp value = true.
Proof.
  unfold m_definition. destruct (lit $"##!>" line) as [s1|]; [|discriminate].
  destruct (lit $"define" (skip_ws s1)) as [s2|]; [|discriminate].
  destruct (Nat.eqb _ _); [discriminate|].
  destruct (take_while is_name_char (skip_ws s2)) as [|n0 nm] eqn:En; [discriminate|].
  destruct (Nat.eqb _ _); [discriminate|].
  destruct (take_while nsp _) as [|v0 vl] eqn:Ev; [discriminate|].
  destruct (all_ws _); [|discriminate]. intro H. injection H as _ <- <-.
  repeat split; try discriminate; [rewrite <- En|rewrite <- Ev]; apply take_while_all.
Qed.

Lemma def_print_reads name value :
  name <> [] -> forallb is_name_char name = true -> value <> [] -> forallb nsp value = true ->
  exists g, m_definition (def_print name value) = Some (g, name, value).
Proof.
  intros Hn Hnc Hv Hvc. unfold def_print.
  change ($"##!> define " ++ name ++ [32] ++ value) with ($"##!>" ++ 32 :: ($"define" ++ 32 :: (name ++ 32 :: value))).
  unfold m_definition. rewrite lit_app.
  change (skip_ws (32 :: $"define" ++ 32 :: name ++ 32 :: value)) with ($"define" ++ 32 :: (name ++ 32 :: value)).
  rewrite lit_app.
  destruct name as [|n0 nm]; [congruence|]. destruct value as [|v0 vl]; [congruence|].
  cbn [forallb] in Hnc, Hvc. apply andb_true_iff in Hnc as [Hn0 Hnm]. apply andb_true_iff in Hvc as [Hv0 Hvl].
  assert (Hn0s : sp n0 = false) by now apply name_char_not_ws.
  assert (Hv0s : sp v0 = false) by (unfold nsp in Hv0; unfold sp; now destruct (is_rxspace v0)).
  assert (Hs3 : skip_ws (32 :: (n0 :: nm) ++ 32 :: v0 :: vl) = (n0 :: nm) ++ 32 :: v0 :: vl).
  { unfold skip_ws. cbn [drop_while app]. change (sp 32) with true. cbn iota. now rewrite Hn0s. }
  rewrite Hs3.
  replace (Nat.eqb (length ((n0 :: nm) ++ 32 :: v0 :: vl)) (length (32 :: (n0 :: nm) ++ 32 :: v0 :: vl))) with false
    by (symmetry; apply Nat.eqb_neq; cbn [length]; lia).
  assert (Htn : take_while is_name_char ((n0 :: nm) ++ 32 :: v0 :: vl) = n0 :: nm).
  { apply take_while_app_stop; [cbn [forallb]; now rewrite Hn0, Hnm|reflexivity]. }
  assert (Hdn : drop_while is_name_char ((n0 :: nm) ++ 32 :: v0 :: vl) = 32 :: v0 :: vl).
  { apply drop_while_app_stop; [cbn [forallb]; now rewrite Hn0, Hnm|reflexivity]. }
  rewrite Htn, Hdn.
  assert (Hs5 : skip_ws (32 :: v0 :: vl) = v0 :: vl).
  { unfold skip_ws. cbn [drop_while]. change (sp 32) with true. cbn iota. now rewrite Hv0s. }
  rewrite Hs5.
  replace (Nat.eqb (length (v0 :: vl)) (length (32 :: v0 :: vl))) with false
    by (symmetry; apply Nat.eqb_neq; cbn [length]; lia).
  assert (Htv : take_while nsp (v0 :: vl) = v0 :: vl) by (apply take_while_id; cbn [forallb]; now rewrite Hv0, Hvl).
  assert (Hdv : drop_while nsp (v0 :: vl) = []).
  { rewrite <- (app_nil_r (v0 :: vl)). apply drop_while_app_stop; [cbn [forallb]; now rewrite Hv0, Hvl|exact I]. }
  rewrite Htv, Hdv. cbn [all_ws forallb]. eexists. reflexivity.
Qed.

(* the printed definition line is none of the directives processLine tries first *)
Lemma def_print_not_other name value :
  m_block_start (def_print name value) = None /\ m_block_end (def_print name value) = false /\
  m_flags (def_print name value) = None /\ m_prefix (def_print name value) = None /\ m_suffix (def_print name value) = None.
Proof. repeat split; reflexivity. Qed.

Lemma def_line_again name value indent :
  name <> [] -> forallb is_name_char name = true -> value <> [] -> forallb nsp value = true ->
  process_line (def_print name value) indent = (Some (spaces (indent * 2) ++ def_print name value), indent).
Proof.
  intros Hn Hnc Hv Hvc. destruct (def_print_reads name value Hn Hnc Hv Hvc) as [g Hd].
  destruct (def_print_not_other name value) as (Hb & He & Hf & Hp & Hs).
  unfold process_line. change (trim_left is_blank (def_print name value)) with (def_print name value).
  rewrite Hb, He, Hf, Hp, Hs, Hd. reflexivity.
Qed.

Lemma lit_inv p s r : lit p s = Some r -> exists r', s = p ++ r'.
Proof. unfold lit. destruct (prefixb p s) eqn:E; [|discriminate]. intros _. now apply prefixb_true_iff. Qed.

(* a definition line starts with ##!> and, after white space, with "define" *)
Lemma definition_head line g name value : m_definition line = Some (g, name, value) ->
  exists s1 r, line = $"##!>" ++ s1 /\ skip_ws s1 = $"define" ++ r.
Proof.
  unfold m_definition. destruct (lit $"##!>" line) as [s1|] eqn:E1; [|discriminate].
  destruct (lit $"define" (skip_ws s1)) as [s2|] eqn:E2; [|discriminate]. intros _.
  destruct (lit_inv _ _ _ E2) as [r Hr]. exists s1, r. split; [|exact Hr].
  unfold lit in E1. destruct (prefixb $"##!>" line) eqn:P; [|discriminate]. injection E1 as <-.
  apply prefixb_true_iff in P as [r' ->]. reflexivity.
Qed.

Lemma definition_not_other line g name value : m_definition line = Some (g, name, value) ->
  m_block_start line = None /\ m_block_end line = false /\ m_flags line = None /\ m_prefix line = None /\ m_suffix line = None.
Proof.
  intro H. destruct (definition_head _ _ _ _ H) as (s1 & r & -> & Hs).
  repeat split; try reflexivity.
  unfold m_block_start. rewrite lit_app, Hs. reflexivity.
Qed.

(* the line-level statement for definition lines *)
Theorem process_line_idempotent_definition line indent out next g name value :
  trim_left is_blank line = line ->
  m_definition line = Some (g, name, value) ->
  process_line line indent = (Some out, next) ->
  process_line (trim_left is_blank out) indent = (Some out, next).
Proof.
  intros Htrim Hd H. destruct (definition_parts _ _ _ _ Hd) as (Hn & Hnc & Hv & Hvc).
  destruct (definition_not_other _ _ _ _ Hd) as (Hb & He & Hf & Hp & Hs).
  unfold process_line in H. rewrite Htrim in H.
  destruct line as [|c0 l0] eqn:El; [discriminate|]. rewrite <- El in *.
  rewrite Hb, He, Hf, Hp, Hs, Hd in H. injection H as <- <-.
  change (spaces (indent * 2) ++ $"##!> define " ++ name ++ [32] ++ value) with (spaces (indent * 2) ++ def_print name value).
  assert (Hnb : starts_nonblank (def_print name value)) by reflexivity.
  rewrite (trim_spaces _ _ Hnb). now apply def_line_again.
Qed.

(* ---------- everything except include / include-except directives ---------- *)
Definition not_an_include_directive (line : str) : Prop :=
  m_include line = None /\ m_include_except line = None.

Theorem process_line_idempotent_but_includes line indent out next :
  trim_left is_blank line = line -> not_an_include_directive line ->
  process_line line indent = (Some out, next) ->
  process_line (trim_left is_blank out) indent = (Some out, next).
Proof.
  intros Htrim [Hi Hx] H. destruct (m_definition line) as [[[g name] value]|] eqn:Ed.
  - eapply process_line_idempotent_definition; eauto.
  - apply (process_line_idempotent_partial line); auto. repeat split; auto.
Qed.

Theorem process_lines_idempotent_but_includes ls : forall indent,
  Forall (fun l => trim_left is_blank l = l /\ not_an_include_directive l) ls ->
  process_lines (map (trim_left is_blank) (process_lines ls indent)) indent = process_lines ls indent.
Proof.
  induction ls as [|l ls IH]; intros indent HF; [reflexivity|].
  inversion HF as [|? ? [Ht Hn] HF']; subst. cbn [process_lines].
  destruct (process_line l indent) as [[l'|] i'] eqn:E.
  - cbn [map process_lines]. rewrite (process_line_idempotent_but_includes _ _ _ _ Ht Hn E). f_equal. now apply IH.
  - destruct (process_line_none _ _ _ E) as [-> ->]. cbn [map process_lines].
    change (process_line (trim_left is_blank []) 0) with (Some (@nil N), 0%nat). cbn iota. f_equal. now apply IH.
Qed.

(* C10: the formatted definition line defines the same name with the same value, and is read by
   no other directive pattern - as the original *)
Lemma definition_not_include line g name value : m_definition line = Some (g, name, value) ->
  m_include line = None /\ m_include_except line = None.
Proof.
  intro H. destruct (definition_head _ _ _ _ H) as (s1 & r & -> & Hs).
  split.
  - unfold m_include, include_here. rewrite lit_app, Hs. reflexivity.
  - unfold m_include_except. rewrite lit_app, Hs. reflexivity.
Qed.

Theorem format_keeps_definition line indent out next g name value :
  trim_left is_blank line = line -> m_definition line = Some (g, name, value) ->
  process_line line indent = (Some out, next) ->
  let out' := trim_left is_blank out in
  (exists g', m_definition out' = Some (g', name, value)) /\
  m_block_start out' = m_block_start line /\ m_block_end out' = m_block_end line /\
  m_flags out' = m_flags line /\ m_prefix out' = m_prefix line /\ m_suffix out' = m_suffix line /\
  m_include out' = m_include line /\ m_include_except out' = m_include_except line.
Proof.
  intros Htrim Hd H. destruct (definition_parts _ _ _ _ Hd) as (Hn & Hnc & Hv & Hvc).
  destruct (definition_not_other _ _ _ _ Hd) as (Hb & He & Hf & Hp & Hs).
  destruct (definition_not_include _ _ _ _ Hd) as (Hi & Hx).
  unfold process_line in H. rewrite Htrim in H.
  destruct line as [|c0 l0] eqn:El; [discriminate|]. rewrite <- El in *.
  rewrite Hb, He, Hf, Hp, Hs, Hd in H. injection H as <- <-. cbv zeta.
  change (spaces (indent * 2) ++ $"##!> define " ++ name ++ [32] ++ value) with (spaces (indent * 2) ++ def_print name value).
  assert (Hnb : starts_nonblank (def_print name value)) by reflexivity.
  rewrite (trim_spaces _ _ Hnb).
  destruct (def_print_reads name value Hn Hnc Hv Hvc) as [g' Hd'].
  destruct (definition_not_other _ _ _ _ Hd') as (Hb' & He' & Hf' & Hp' & Hs').
  destruct (definition_not_include _ _ _ _ Hd') as (Hi' & Hx').
  rewrite Hb, He, Hf, Hp, Hs, Hi, Hx, Hb', He', Hf', Hp', Hs', Hi', Hx'. repeat split; eauto.
Qed.

(* non-vacuity *)
Example definition_line_example :
  process_line $"##!>   define   sep-1 	[\s,;]+  " 2 = (Some $"    ##!> define sep-1 [\s,;]+", 2%nat) /\
  m_definition $"##!>   define   sep-1 	[\s,;]+  " = Some ($"##!>   define   sep-1 	", $"sep-1", $"[\s,;]+").
Proof. split; vm_compute; reflexivity. Qed.
