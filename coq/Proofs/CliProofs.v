(* Frame, selection and failure theorems about Model/Cli.v (C08, C15, C16). *)
From Coq Require Import String.
From Verif Require Import Base.Str Base.Outcome Proofs.StrLemmas Model.RuleId Model.Update Model.Renumber Model.Cli.
Open Scope N_scope.

Lemma path_eqb_eq a : forall b, path_eqb a b = true <-> a = b.
Proof.
  induction a as [|x a IH]; intros [|y b]; cbn; split; intro H; try discriminate; auto.
  - apply andb_true_iff in H as [H1 H2]. apply str_eqb_eq in H1. apply IH in H2. congruence.
  - injection H as -> ->. rewrite str_eqb_refl. cbn. now apply IH.
Qed.
Lemma path_eqb_refl a : path_eqb a a = true.
Proof. now apply path_eqb_eq. Qed.
Lemma path_eqb_neq a b : a <> b -> path_eqb a b = false.
Proof. intro H. destruct (path_eqb a b) eqn:E; auto. apply path_eqb_eq in E. congruence. Qed.

(* os.WriteFile: everything but the written file's bytes stays *)
Lemma t_get_set_other t p c q : q <> p -> t_get (t_set t p c) q = t_get t q.
Proof.
  intro Hne. induction t as [|[r c0] t IH]; cbn; auto.
  destruct (path_eqb p r) eqn:E; cbn.
  - apply path_eqb_eq in E. subst r. now rewrite (path_eqb_neq q p Hne).
  - destruct (path_eqb q r); auto.
Qed.
Lemma t_set_keys t p c : map fst (t_set t p c) = map fst t.
Proof. induction t as [|[r c0] t IH]; cbn; auto. destruct (path_eqb p r); cbn; congruence. Qed.
Lemma t_get_set_same t p c c0 : t_get t p = Some c0 -> t_get (t_set t p c) p = Some c.
Proof.
  induction t as [|[r c1] t IH]; cbn; [discriminate|].
  destruct (path_eqb p r) eqn:E; cbn; rewrite E; auto.
Qed.

(* "differs only on paths satisfying P, and no file is created or deleted" *)
Definition frame (P : path -> Prop) (t t' : tree) : Prop :=
  map fst t' = map fst t /\ forall q, ~ P q -> t_get t' q = t_get t q.

Lemma frame_refl P t : frame P t t.
Proof. split; auto. Qed.
Lemma frame_trans P t1 t2 t3 : frame P t1 t2 -> frame P t2 t3 -> frame P t1 t3.
Proof. intros [K1 G1] [K2 G2]. split; [congruence|]. intros q Hq. rewrite G2, G1; auto. Qed.
Lemma frame_set (P : path -> Prop) t p c : P p -> frame P t (t_set t p c).
Proof.
  intro Hp. split; [apply t_set_keys|]. intros q Hq. apply t_get_set_other. intro E. subst. auto.
Qed.

Definition is_rules_file (p : path) : Prop := length p = 2%nat /\ firstn 1 p = d_rules.

Section Commands.
Variable gen : tree -> path -> outcome str.
Variable fmt : str -> outcome str.
Variable renum : str -> str -> str.
Variable copyr : str -> str.
Variable bits : N.

Lemma glob_rules_are_rules_files t id rf : In rf (glob_rules t id) -> is_rules_file rf.
Proof.
  unfold glob_rules. intro H. apply in_map_iff in H as ([p c] & <- & H). apply filter_In in H as [_ H].
  cbn [fst] in H. apply andb_true_iff in H as [H _]. apply andb_true_iff in H as [H1 H2].
  split; [now apply Nat.eqb_eq|now apply path_eqb_eq].
Qed.

(* ---------- update ---------- *)
Lemma process_rule_frame t id k f t' :
  process_rule gen t id k f = Ok t' -> frame is_rules_file t t'.
Proof.
  unfold process_rule. destruct (gen t f) as [regex| |]; cbn [bind]; try discriminate.
  destruct (glob_rules t id) as [|rf [|]] eqn:G; try discriminate.
  destruct (t_get t rf) as [c|]; try discriminate.
  destruct (update_contents c id k regex) as [c'| |]; cbn [bind]; try discriminate.
  intro H. injection H as <-. apply frame_set. apply (glob_rules_are_rules_files t id). rewrite G. now left.
Qed.

(* C15: update (single rule or --all) modifies rules files only, creates and deletes nothing *)
Theorem update_all_frame files : forall t t' st,
  update_all gen bits files t = (t', st) -> frame is_rules_file t t'.
Proof.
  induction files as [|f rest IH]; intros t t' st H; cbn [update_all] in H.
  - injection H as <- _. apply frame_refl.
  - destruct (addressed f) as [[id ds]|]; [|eauto].
    destruct (chain_offset bits ds) as [k|]; [|injection H as <- _; apply frame_refl].
    destruct (process_rule gen t id k f) as [t1| |] eqn:E; try (injection H as <- _; apply frame_refl).
    eapply frame_trans; [eapply process_rule_frame; eauto|eauto].
Qed.

Theorem update_one_frame t arg t' st : update_one gen bits t arg = (t', st) -> frame is_rules_file t t'.
Proof.
  unfold update_one. destruct (parse_rule_id bits arg) as [r|]; [|intro H; injection H as <- _; apply frame_refl].
  destruct (process_rule _ _ _ _ _) as [t1| |] eqn:E; intro H; injection H as <- _; try apply frame_refl.
  eapply process_rule_frame; eauto.
Qed.

(* C16: a failing single-rule update leaves every file byte-identical *)
Theorem update_one_fail_untouched t arg t' : update_one gen bits t arg = (t', Fail) -> t' = t.
Proof.
  unfold update_one. destruct (parse_rule_id bits arg) as [r|]; [|intro H; now injection H as <-].
  destruct (process_rule _ _ _ _ _); intro H; try discriminate; now injection H as <-.
Qed.

(* ---------- format ---------- *)
Definition is_assembly_ra (p : path) : Prop := format_selected p = true.

Theorem format_all_frame files : forall t t' st, format_all fmt files t = (t', st) -> frame is_assembly_ra t t'.
Proof.
  induction files as [|f rest IH]; intros t t' st H; cbn [format_all] in H.
  - injection H as <- _. apply frame_refl.
  - destruct (format_selected f) eqn:Es; [|eauto].
    destruct (t_get t f) as [c|]; [|eauto].
    destruct (fmt c) as [c'| |]; try (injection H as <- _; apply frame_refl).
    eapply frame_trans; [apply (frame_set is_assembly_ra t f c' Es)|eauto].
Qed.

Theorem format_one_frame t arg t' st :
  format_one fmt bits t arg = (t', st) -> frame (fun p => p = format_target bits arg) t t'.
Proof.
  unfold format_one. destruct (t_get t _) as [c|]; [|intro H; injection H as <- _; apply frame_refl].
  destruct (fmt c); intro H; injection H as <- _; try apply frame_refl. now apply frame_set.
Qed.

Theorem format_one_fail_untouched t arg t' : format_one fmt bits t arg = (t', Fail) -> t' = t.
Proof.
  unfold format_one. destruct (t_get t _) as [c|]; [|intro H; now injection H as <-].
  destruct (fmt c); intro H; try discriminate; now injection H as <-.
Qed.

(* C08 for format: with --all every selected file ends up exactly as formatting it alone would
   leave it, and every other file is untouched - whatever else is in the walk *)
Lemma format_all_keeps_unlisted files : forall t t' st p,
  format_all fmt files t = (t', st) -> ~ In p files -> t_get t' p = t_get t p.
Proof.
  induction files as [|f rest IH]; intros t t' st p H Hnin; cbn [format_all] in H.
  - now injection H as <- _.
  - assert (p <> f /\ ~ In p rest) as [Hpf Hr] by (split; intro; apply Hnin; [now left|now right]).
    destruct (format_selected f); [|eauto].
    destruct (t_get t f) as [c|]; [|eauto].
    destruct (fmt c) as [c'| |]; try (now injection H as <- _).
    rewrite (IH _ _ _ p H Hr). now apply t_get_set_other.
Qed.

Theorem format_all_is_each_alone files : forall t t' p c,
  NoDup files -> format_all fmt files t = (t', Success) -> In p files -> t_get t p = Some c ->
  format_selected p = true -> exists c', fmt c = Ok c' /\ t_get t' p = Some c'.
Proof.
  induction files as [|f rest IH]; intros t t' p c Hnd H Hin Hget Hsel; [destruct Hin|].
  inversion Hnd as [|? ? Hnotin Hnd']; subst. cbn [format_all] in H.
  destruct Hin as [->|Hin].
  - rewrite Hsel, Hget in H. destruct (fmt c) as [c'| |] eqn:E; try discriminate.
    exists c'. split; auto. rewrite (format_all_keeps_unlisted _ _ _ _ p H Hnotin). eapply t_get_set_same; eauto.
  - assert (p <> f) by (intro; subst; auto).
    destruct (format_selected f); [|eauto].
    destruct (t_get t f) as [c0|] eqn:Ef; [|eauto].
    destruct (fmt c0) as [c0'| |]; try discriminate.
    eapply IH; eauto. rewrite t_get_set_other; auto.
Qed.

(* ---------- renumber-tests ---------- *)
Definition is_test_file (p : path) : Prop := renumber_selected p <> None.

Theorem renumber_all_frame files : forall t, frame is_test_file t (renumber_all renum files t).
Proof.
  induction files as [|f rest IH]; intro t; cbn [renumber_all]; [apply frame_refl|].
  destruct (renumber_selected f) as [id|] eqn:Es; [|apply IH].
  destruct (t_get t f) as [c|]; [|apply IH].
  destruct (str_eqb c (renum id c)); [apply IH|].
  eapply frame_trans; [|apply IH]. apply frame_set. unfold is_test_file. congruence.
Qed.

(* ---------- update-copyright ---------- *)
Definition is_conf_or_example (p : path) : Prop := copyright_selected p = true.

Theorem copyright_all_frame files : forall t, frame is_conf_or_example t (copyright_all copyr files t).
Proof.
  induction files as [|f rest IH]; intro t; cbn [copyright_all]; [apply frame_refl|].
  destruct (copyright_selected f) eqn:Es; [|apply IH].
  destruct (t_get t f) as [c|]; [|apply IH].
  eapply frame_trans; [|apply IH]. now apply frame_set.
Qed.

End Commands.

(* ---------- refuted parts (known findings) ---------- *)
(* C16: update --all that fails on a later file has already rewritten the earlier ones *)
Example update_all_partial_write :
  exists gen files t t', update_all gen 8 files t = (t', Fail) /\ t' <> t.
Proof.
  exists (fun _ f => if path_eqb f [$"regex-assembly"; $"942100.ra"] then Ok $"new" else Err 1).
  exists [[$"regex-assembly"; $"942100.ra"]; [$"regex-assembly"; $"942110.ra"]].
  exists [([$"regex-assembly"; $"942100.ra"], $"x"); ([$"regex-assembly"; $"942110.ra"], $"(");
          ([$"rules"; $"R-942-X.conf"], $"SecRule ARGS ""@rx old"" \" ++ [10] ++ $"    ""id:942100,\" ++ [10])].
  eexists. split; [vm_compute; reflexivity|vm_compute; discriminate].
Qed.

(* C15: the single-file argument of format is not restricted to .ra files below regex-assembly:
   NAME.txt resolves to include/NAME.txt *)
Example format_target_not_ra : format_target 8 $"notes.txt" = [$"regex-assembly"; $"include"; $"notes.txt"].
Proof. vm_compute. reflexivity. Qed.

(* C16: compare with no (or several) matching rules files fails (repaired in /repo, fix: e2f7323;
   before the repair this was Ok None: nothing reported, exit status 0) *)
Example compare_missing_rules_file_fails :
  compare_rule (fun _ _ => Ok $"x") [([$"regex-assembly"; $"942100.ra"], $"x")] $"942100" 0 [$"regex-assembly"; $"942100.ra"] = Err 33.
Proof. vm_compute. reflexivity. Qed.

Section CompareFail.
Variable gen : tree -> path -> outcome str.
Theorem compare_rule_needs_unique_rules_file t id k f v :
  compare_rule gen t id k f = Ok v -> exists rf, glob_rules t id = [rf].
Proof.
  unfold compare_rule. destruct (gen t f); cbn [bind]; try discriminate.
  destruct (glob_rules t id) as [|rf [|]]; try discriminate. eauto.
Qed.
End CompareFail.
