(* C18 / C08 on the tree model: an assembly file NAME.ra directly below regex-assembly is addressed
   by `update --all` with exactly the rule id, chain offset and file that the argument NAME.ra (or
   NAME) gives to `update ARG`: the two ways of naming a rule resolve consistently. *)
From Coq Require Import String.
From Verif Require Import Base.Str Base.Outcome Proofs.StrLemmas Model.RuleId Model.Update Model.Renumber Model.Cli Proofs.CliProofs.
Open Scope N_scope.

Section Resolve.
Variable gen : tree -> path -> outcome str.
Variable bits : N.

Lemma base_assembly name : base (d_assembly ++ [name]) = name.
Proof. reflexivity. Qed.

Theorem update_all_single_is_update_one t name :
  suffixb $".ra" name = true -> addressed (d_assembly ++ [name]) <> None ->
  update_all gen bits [d_assembly ++ [name]] t = update_one gen bits t name.
Proof.
  intros Hs Ha. cbn [update_all]. unfold addressed in *. rewrite base_assembly in *.
  destruct (under d_assembly (d_assembly ++ [name]) && has_ext $".ra" (d_assembly ++ [name]))%bool; [|congruence].
  unfold update_one, parse_rule_id.
  destruct (match_rule_id_file_name name) as [[id ds]|]; [|congruence].
  destruct (chain_offset bits ds) as [k|]; [|reflexivity].
  cbn [r_id r_chain r_file]. rewrite Hs.
  destruct (process_rule gen t id k (d_assembly ++ [name])); reflexivity.
Qed.

(* the same rule, named without the extension *)
Theorem update_one_with_or_without_extension t name :
  suffixb $".ra" name = false -> match_rule_id_file_name name <> None ->
  match_rule_id_file_name (name ++ $".ra") = match_rule_id_file_name name ->
  update_one gen bits t (name ++ $".ra") = update_one gen bits t name.
Proof.
  intros Hs Hm He. unfold update_one, parse_rule_id. rewrite He.
  destruct (match_rule_id_file_name name) as [[id ds]|]; [|congruence].
  destruct (chain_offset bits ds) as [k|]; [|reflexivity].
  cbn [r_id r_chain r_file]. rewrite Hs.
  assert (Hs2 : suffixb $".ra" (name ++ $".ra") = true).
  { unfold suffixb. rewrite rv_app. apply prefixb_app. }
  rewrite Hs2. reflexivity.
Qed.

(* compare: the verdict `compare --all` records for the file is the one `compare ARG` computes *)
Theorem compare_all_single_is_compare_rule t name r :
  suffixb $".ra" name = true -> addressed (d_assembly ++ [name]) <> None ->
  parse_rule_id bits name = Some r ->
  compare_all gen bits [d_assembly ++ [name]] t [] =
  (do v <- compare_rule gen t (r_id r) (r_chain r) (d_assembly ++ [r_file r]);
   Ok (match v with Some b => [b] | None => [] end)).
Proof.
  intros Hs Ha Hp. cbn [compare_all]. unfold addressed in *. rewrite base_assembly in *.
  destruct (under d_assembly (d_assembly ++ [name]) && has_ext $".ra" (d_assembly ++ [name]))%bool; [|congruence].
  unfold parse_rule_id in Hp.
  destruct (match_rule_id_file_name name) as [[id ds]|]; [|congruence].
  destruct (chain_offset bits ds) as [k|]; [|discriminate]. injection Hp as <-.
  cbn [r_id r_chain r_file]. rewrite Hs.
  destruct (compare_rule gen t id k (d_assembly ++ [name])) as [[b|]| |]; reflexivity.
Qed.
End Resolve.

Example resolve_example :
  addressed [$"regex-assembly"; $"942100-chain2.ra"] = Some ($"942100", $"2") /\
  suffixb $".ra" $"942100-chain2.ra" = true /\
  match_rule_id_file_name ($"942100-chain2" ++ $".ra") = match_rule_id_file_name $"942100-chain2".
Proof. repeat split; vm_compute; reflexivity. Qed.
