From Coq Require Import String.
From Verif Require Import Base.Str Base.Lines Base.Outcome Proofs.StrLemmas Model.Patterns Model.ParseLine Model.Format.
From Verif Require Import Gen.Consts.
Open Scope N_scope.

Definition starts_nonblank (b : str) : Prop :=
  match b with [] => True | c :: _ => is_blank c = false end.

Lemma trim_left_blank_starts l : starts_nonblank (trim_left is_blank l).
Proof. unfold trim_left. pose proof (drop_while_stops is_blank l) as H. destruct (drop_while is_blank l); auto. Qed.

(* Indentation law of processLine, for every line, every indent and whatever the
   directive patterns capture: the result is [k] spaces followed by a body that
   does not start with a space or tab; k is 0 for flag/prefix/suffix lines,
   2*(indent-1) for a block end, 2*indent otherwise; the next indent moves by
   at most one. *)
Theorem process_line_layout line indent out next :
  process_line line indent = (Some out, next) ->
  exists k body, out = spaces k ++ body /\ starts_nonblank body /\
    (k = 0 \/ k = indent * 2 \/ S (S k) = indent * 2)%nat /\
    (next = indent \/ next = S indent \/ S next = indent).
Proof.
  unfold process_line.
  pose proof (trim_left_blank_starts line) as Htl.
  destruct (trim_left is_blank line) as [|t0 tl] eqn:Et.
  - intros H; injection H as <- <-. exists O, []. cbn. auto.
  - destruct (m_block_start line) as [[name arg]|].
    { intros H; injection H as <- <-. eexists _, _. split; [reflexivity|]. split; [exact eq_refl|]. auto. }
    destruct (m_block_end line).
    { destruct indent as [|i]; [discriminate|]. intros H; injection H as <- <-.
      eexists _, _. split; [reflexivity|]. split; [exact Htl|]. split; [right; right; lia|auto]. }
    destruct (m_flags line). { intros H; injection H as <- <-. exists O, ($"##!+ " ++ s). cbn. auto. }
    destruct (m_prefix line). { intros H; injection H as <- <-. exists O, ($"##!^ " ++ s). cbn. auto. }
    destruct (m_suffix line). { intros H; injection H as <- <-. exists O, ($"##!$ " ++ s). cbn. auto. }
    destruct (m_definition line) as [[[g1 name] value]|].
    { intros H; injection H as <- <-. eexists _, _. split; [reflexivity|]. split; [exact eq_refl|]. auto. }
    destruct (m_include line) as [[f pairs]|].
    { intros H; injection H as <- <-. eexists _, _. split; [reflexivity|]. split; [exact eq_refl|]. auto. }
    destruct (m_include_except line) as [[[f ex] pairs]|].
    { intros H; injection H as <- <-. eexists _, _. split; [reflexivity|]. split; [exact eq_refl|]. auto. }
    intros H; injection H as <- <-. eexists _, _. split; [reflexivity|]. split; [exact Htl|]. auto.
Qed.

(* a line that no directive pattern claims keeps its text: only leading blanks change *)
Theorem process_line_regular line indent :
  m_block_start line = None -> m_block_end line = false -> m_flags line = None ->
  m_prefix line = None -> m_suffix line = None -> m_definition line = None ->
  m_include line = None -> m_include_except line = None ->
  process_line line indent =
  (Some (match trim_left is_blank line with [] => [] | t => spaces (indent * 2) ++ t end), indent).
Proof.
  intros H1 H2 H3 H4 H5 H6 H7 H8. unfold process_line.
  rewrite H1, H2, H3, H4, H5, H6, H7, H8. destruct (trim_left is_blank line); reflexivity.
Qed.

(* end of file: the kept lines are followed by exactly one empty line and do
   not end in an empty line themselves *)
Lemma drop_empty_shape (r : list str) :
  rv (drop_while_l is_empty_line r) = [] \/
  exists k l, rv (drop_while_l is_empty_line r) = k ++ [l] /\ l <> [].
Proof.
  induction r as [|y r IH]; cbn [drop_while_l]; [left; reflexivity|].
  destruct y as [|c y']; cbn [is_empty_line]; auto.
  right. exists (rv r), (c :: y'). split; [|discriminate].
  rewrite !rv_rev. reflexivity.
Qed.

Theorem format_eof_shape lines :
  lines <> [] ->
  exists kept, format_eof lines = kept ++ [[]] /\
    (kept = [] \/ exists k l, kept = k ++ [l] /\ l <> []).
Proof.
  intro Hne. unfold format_eof. destruct lines as [|x xs]; [congruence|].
  exists (rv (drop_while_l is_empty_line (rv (x :: xs)))). split; auto.
  apply drop_empty_shape.
Qed.

(* the header test accepts exactly "two header lines and an empty third line" *)
Theorem check_header_spec a b c rest :
  check_header (a :: b :: c :: rest) = true <-> a ++ [10] ++ b ++ [10] ++ c = standard_header.
Proof. cbn [check_header]. apply str_eqb_eq. Qed.

(* --- statements that the faithful model refutes (known findings) --- *)
Definition canonical_order (_ : nat) := all_pnames.
Definition fmt (s : str) : outcome str := format_bytes canonical_order 65536 s.

(* C09: formatting the empty file is not idempotent and duplicates the header (C09-header-eof) *)
Theorem format_idempotent_refuted :
  exists x y z, fmt [] = Ok x /\ fmt x = Ok y /\ fmt y = Ok z /\ x <> y /\ y <> z.
Proof.
  eexists _, _, _. split; [vm_compute; reflexivity|]. split; [vm_compute; reflexivity|].
  split; [vm_compute; reflexivity|]. split; discriminate.
Qed.

(* C10: text after a block start is dropped and an unbalanced end marker is blanked
   (C10-formatter-drops-text); a comment that mentions an include is kept as it is since
   IncludeRegex is anchored (repaired in /repo, fix: 597d59c) *)
Theorem format_keeps_text_refuted :
  process_line $"##!> cmdline unix # why" 0 = (Some $"##!> cmdline unix", 1%nat) /\
  process_line $"##!<" 0 = (None, 0%nat).
Proof. repeat split; vm_compute; reflexivity. Qed.

Example comment_mentioning_include_kept :
  process_line $"##! note ##!> include inc" 0 = (Some $"##! note ##!> include inc", 0%nat).
Proof. vm_compute. reflexivity. Qed.

Example format_example :
  fmt $"##!+ i
  ##!> assemble
a
##!<
" = Ok (standard_header ++ $"
##!+ i
##!> assemble
  a
##!<
").
Proof. vm_compute. reflexivity. Qed.
