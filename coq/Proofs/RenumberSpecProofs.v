(* C13, whole file (line list): renumber-tests writes n on the n-th test_id line and RULE-n on the
   n-th test_title line and copies every other line, for every file of plain lines in which the two
   kinds of key lines stay balanced (each test carries an id, a title, or both, in any order). *)
From Coq Require Import String Lia.
From Verif Require Import Base.Str Base.Lines Model.Renumber Proofs.StrLemmas Proofs.RenumberProofs Proofs.RenumberIdemProofs.
Open Scope N_scope.

(* THE SPEC: two independent counters, no interaction *)
Fixpoint renumber_spec (rule : str) (i t : N) (ls : list str) : list str :=
  match ls with
  | [] => []
  | l :: ls' =>
    match match_key key_id l with
    | Some g => (g ++ [32] ++ dec (i + 1)) :: renumber_spec rule (i + 1) t ls'
    | None =>
      match match_key key_title l with
      | Some g => (g ++ [32] ++ rule ++ [45] ++ dec (t + 1)) :: renumber_spec rule i (t + 1) ls'
      | None => l :: renumber_spec rule i t ls'
      end
    end
  end.

(* at every key line the other kind is at most one ahead *)
Fixpoint balanced (i t : N) (ls : list str) : Prop :=
  match ls with
  | [] => True
  | l :: ls' =>
    match match_key key_id l with
    | Some _ => t <= i + 1 /\ balanced (i + 1) t ls'
    | None =>
      match match_key key_title l with
      | Some _ => i <= t + 1 /\ balanced i (t + 1) ls'
      | None => balanced i t ls'
      end
    end
  end.

Lemma plain_id_no_title indent n : ~ In 116 indent ->
  match_key key_title ((indent ++ key_id) ++ [32] ++ dec n) = None.
Proof.
  intro Hi. assert (Hd : ~ In 116 (dec n)) by (apply digits_no_t, dec_digits).
  rewrite <- app_assoc. change (key_title) with (116 :: tl key_title). apply prepend_no_first; [exact Hi|].
  change (116 :: tl key_title) with key_title. cbn [app]. now apply no_title_in_id_line.
Qed.

Theorem rewrite_lines_meets_spec rule : forall ls st,
  inv st -> Forall plain_line ls -> balanced (idc st) (tic st) ls ->
  rewrite_lines rule st ls = renumber_spec rule (idc st) (tic st) ls.
Proof.
  induction ls as [|l ls IH]; intros st Hinv HF Hb; [reflexivity|].
  inversion HF as [|? ? Hl HF']; subst. cbn [rewrite_lines renumber_spec balanced] in *.
  destruct Hl as [(indent & Hi & Hm)|[(Hn & indent & Hi & Hm)|(Hn & Ht)]].
  - rewrite Hm in *. destruct Hb as [Hle Hb].
    rewrite (step_id_line rule st l _ Hinv Hm) by (now apply plain_id_no_title).
    rewrite (balanced_id_number st Hle). f_equal.
    apply (IH {| idx := idc st + 1; idc := idc st + 1; tic := tic st |}); auto.
    unfold inv. cbn. lia.
  - rewrite Hn, Hm in *. destruct Hb as [Hle Hb].
    rewrite (step_title_line rule st l _ Hinv Hn Hm).
    rewrite (balanced_title_number st Hle). f_equal.
    apply (IH {| idx := tic st + 1; idc := idc st; tic := tic st + 1 |}); auto.
    unfold inv. cbn. lia.
  - rewrite Hn, Ht in *. rewrite (step_untouched _ _ _ Hn Ht). f_equal. now apply IH.
Qed.

(* from the start of a file *)
Corollary renumbered_file_meets_spec rule ls :
  Forall plain_line ls -> balanced 0 0 ls ->
  rewrite_lines rule counters0 ls = renumber_spec rule 0 0 ls.
Proof. intros. apply (rewrite_lines_meets_spec rule ls counters0); auto. exact inv0. Qed.

(* the spec numbers the key lines 1..n: its k-th id line carries k (read off the definition) *)
Example spec_example :
  renumber_spec $"942100" 0 0 [$"- test_title: a"; $"  test_id: 7"; $"  desc: x"; $"- test_id: 9"; $"- test_title: 942100-5"; $"  test_id: 1"]
  = [$"- test_title: 942100-1"; $"  test_id: 1"; $"  desc: x"; $"- test_id: 2"; $"- test_title: 942100-2"; $"  test_id: 3"] /\
  balanced 0 0 [$"- test_title: a"; $"  test_id: 7"; $"  desc: x"; $"- test_id: 9"; $"- test_title: 942100-5"; $"  test_id: 1"].
Proof. split; [vm_compute; reflexivity|vm_compute; repeat split; discriminate]. Qed.

(* the whole file: the bytes renumber-tests writes are the spec's lines, newline-terminated, with the
   end of the file normalised *)
Corollary process_yaml_meets_spec limit rule contents :
  Forall plain_line (scan_lines limit contents) -> balanced 0 0 (scan_lines limit contents) ->
  process_yaml limit rule contents =
  join [10] (format_eof_ws (split_on 10 (unlines (renumber_spec rule 0 0 (scan_lines limit contents))))).
Proof. intros HF Hb. unfold process_yaml. now rewrite renumbered_file_meets_spec. Qed.
