(* Proofs about Model/SelfUpdate.v (C20). *)
From Coq Require Import String.
From Verif Require Import Base.Str Base.Outcome Proofs.StrLemmas Model.SelfUpdate.
Open Scope N_scope.

Section Proofs.
Variable ver : Type.
Variable vle : ver -> ver -> bool.
Variable hash : str -> str.
Variable recorded : str -> str -> option str.
Variable decompress : str -> str -> option str.

Notation release := (release ver).
Notation self_update := (self_update ver vle hash recorded decompress).
Notation install := (install ver hash recorded decompress).
Notation detect := (detect ver vle).
Notation pick := (pick ver vle).

Lemma pick_spec rels : forall best r,
  pick best rels = Some r -> (best = Some r) \/ (In r rels /\ candidate ver r = true).
Proof.
  induction rels as [|x rels IH]; intros best r H; cbn [SelfUpdate.pick] in H; [now left|].
  destruct (candidate ver x) eqn:Ec.
  - destruct best as [b|].
    + destruct (newer_than ver vle x b).
      * apply IH in H as [H|[H1 H2]]; [injection H as <-; right; split; [now left|auto]|right; split; [now right|auto]].
      * apply IH in H as [H|[H1 H2]]; [now left|right; split; [now right|auto]].
    + apply IH in H as [H|[H1 H2]]; [injection H as <-; right; split; [now left|auto]|right; split; [now right|auto]].
  - apply IH in H as [H|[H1 H2]]; [now left|right; split; [now right|auto]].
Qed.

Lemma detect_found rels r : detect rels = Found ver r ->
  In r rels /\ candidate ver r = true /\ r_sums ver r <> None.
Proof.
  unfold SelfUpdate.detect. destruct (pick None rels) as [p|] eqn:E; [|discriminate].
  destruct (r_sums ver p) eqn:Es; [|discriminate]. intro H. injection H as <-.
  apply pick_spec in E as [E|[H1 H2]]; [discriminate|]. repeat split; auto. congruence.
Qed.

Lemma install_installed validate r exe r' exe' :
  install validate r exe = (Installed ver r', exe') ->
  r' = r /\ exists name bytes, r_asset ver r = Some (name, Some bytes) /\ decompress name bytes = Some exe' /\
    (validate = true -> exists text h, r_sums ver r = Some (Some text) /\ recorded text name = Some h /\ h = hash bytes).
Proof.
  unfold SelfUpdate.install. destruct (r_asset ver r) as [[name [bytes|]]|]; try discriminate.
  destruct validate.
  - destruct (r_sums ver r) as [[text|]|]; try discriminate.
    destruct (recorded text name) as [h|] eqn:Er; try discriminate.
    destruct (str_eqb h (hash bytes)) eqn:Eh; try discriminate.
    destruct (decompress name bytes) as [p|] eqn:Ed; try discriminate.
    intro H. injection H as <- <-. split; auto. exists name, bytes. repeat split; auto.
    intros _. exists text, h. repeat split; auto. now apply str_eqb_eq.
  - destruct (decompress name bytes) as [p|] eqn:Ed; try discriminate.
    intro H. injection H as <- <-. split; auto. exists name, bytes. repeat split; auto. discriminate.
Qed.

(* only a strictly newer release (or any release, for a build without a comparable version),
   that is a published, non-draft candidate of the catalogue with an asset for this platform *)
Theorem only_newer_platform validate current exe rels r exe' :
  self_update validate current exe rels = (Installed ver r, exe') ->
  exists rs, rels = Some rs /\ In r rs /\ candidate ver r = true /\ less_or_equal ver vle r current = false /\
    exists name bytes, r_asset ver r = Some (name, Some bytes) /\ decompress name bytes = Some exe'.
Proof.
  unfold SelfUpdate.self_update. destruct rels as [rs|]; [|discriminate].
  destruct (detect rs) as [| |p] eqn:Ed; try discriminate.
  destruct (less_or_equal ver vle p current) eqn:El; [discriminate|].
  intro H. apply install_installed in H as (-> & name & bytes & Ha & Hd & _).
  apply detect_found in Ed as (Hin & Hc & _). exists rs. repeat split; auto. eauto.
Qed.

(* ... whose bytes match the SHA-256 recorded in that release's checksum file -
   PROVIDED the code installs through the validating entry point *)
Theorem only_verified current exe rels r exe' :
  self_update true current exe rels = (Installed ver r, exe') ->
  exists name bytes text h, r_asset ver r = Some (name, Some bytes) /\ r_sums ver r = Some (Some text) /\
    recorded text name = Some h /\ h = hash bytes.
Proof.
  unfold SelfUpdate.self_update. destruct rels as [rs|]; [|discriminate].
  destruct (detect rs) as [| |p]; try discriminate.
  destruct (less_or_equal ver vle p current); [discriminate|].
  intro H. apply install_installed in H as (-> & name & bytes & Ha & _ & Hv).
  destruct (Hv eq_refl) as (text & h & H1 & H2 & H3). exists name, bytes, text, h. auto.
Qed.

(* in every other situation the executable stays byte-identical *)
Theorem else_untouched validate current exe rels res exe' :
  self_update validate current exe rels = (res, exe') ->
  (forall r, res <> Installed ver r) -> exe' = exe.
Proof.
  unfold SelfUpdate.self_update. destruct rels as [rs|]; [|intros H _; now injection H as _ <-].
  destruct (detect rs) as [| |p]; try (intros H _; now injection H as _ <-).
  destruct (less_or_equal ver vle p current); [intros H _; now injection H as _ <-|].
  unfold SelfUpdate.install. destruct (r_asset ver p) as [[name [bytes|]]|]; try (intros H _; now injection H as _ <-).
  match goal with |- context [if ?b then _ else _] => destruct b end; try (intros H _; now injection H as _ <-).
  destruct (decompress name bytes); intros H Hno; injection H as <- <-; auto. exfalso. eapply Hno. reflexivity.
Qed.

(* no newer release, no release at all, no asset for the platform, no checksum file: nothing is installed *)
Theorem not_newer_not_installed validate current exe rs p :
  detect rs = Found ver p -> less_or_equal ver vle p current = true ->
  self_update validate current exe (Some rs) = (UpToDate ver, exe).
Proof. intros Hd Hl. unfold SelfUpdate.self_update. now rewrite Hd, Hl. Qed.

Theorem missing_checksum_file_fails validate current exe rs :
  detect rs = NoValidationAsset ver -> self_update validate current exe (Some rs) = (Failed ver, exe).
Proof. intro Hd. unfold SelfUpdate.self_update. now rewrite Hd. Qed.

Theorem checksum_mismatch_fails exe r name bytes text h :
  r_asset ver r = Some (name, Some bytes) -> r_sums ver r = Some (Some text) -> recorded text name = Some h ->
  h <> hash bytes -> install true r exe = (Failed ver, exe).
Proof.
  intros Ha Hs Hr Hne. unfold SelfUpdate.install. rewrite Ha, Hs, Hr.
  destruct (str_eqb h (hash bytes)) eqn:E; [apply str_eqb_eq in E; congruence|reflexivity].
Qed.

End Proofs.

(* without the validating entry point the property is false: a release whose checksum file
   records a different hash is installed (the defect repaired in /repo; kept as the witness the
   search replays when the install call regresses) *)
Example unvalidated_install_ignores_checksum :
  let r := {| r_ver := Some 9; r_draft := false; r_pre := false;
              r_asset := Some ($"tool_linux_amd64", Some $"EVIL"); r_sums := Some (Some $"0000  tool_linux_amd64") |} in
  self_update N N.leb (fun b => $"hash-of-" ++ b) (fun _ _ => Some $"0000") (fun _ b => Some b)
              false (Some 1) $"OLD" (Some [r]) = (Installed N r, $"EVIL").
Proof. vm_compute. reflexivity. Qed.
