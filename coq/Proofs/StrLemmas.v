(* General lemmas about Base/Str.v *)
From Verif Require Import Base.Str.
Open Scope N_scope.

Lemma rv_rev {A} (l : list A) : rv l = rev l.
Proof. unfold rv. rewrite rev_append_rev. apply app_nil_r. Qed.

Lemma rv_app {A} (a b : list A) : rv (a ++ b) = rv b ++ rv a.
Proof. rewrite !rv_rev. apply rev_app_distr. Qed.

Lemma rv_involutive {A} (l : list A) : rv (rv l) = l.
Proof. rewrite !rv_rev. apply rev_involutive. Qed.

Lemma rv_length {A} (l : list A) : length (rv l) = length l.
Proof. rewrite rv_rev. apply rev_length. Qed.

Lemma str_eqb_eq a b : str_eqb a b = true <-> a = b.
Proof.
  revert b; induction a as [|x a IH]; intros [|y b]; simpl; split; intro H; try easy.
  - apply andb_true_iff in H as [H1 H2]. apply N.eqb_eq in H1. apply IH in H2. congruence.
  - inversion H; subst. rewrite N.eqb_refl. simpl. now apply IH.
Qed.

Lemma str_eqb_refl a : str_eqb a a = true.
Proof. now apply str_eqb_eq. Qed.

Lemma str_eqb_neq a b : str_eqb a b = false <-> a <> b.
Proof.
  split; intro H.
  - intro E. apply str_eqb_eq in E. congruence.
  - destruct (str_eqb a b) eqn:E; auto. apply str_eqb_eq in E. contradiction.
Qed.

Lemma prefixb_true_iff p s : prefixb p s = true <-> exists r, s = p ++ r.
Proof.
  revert s; induction p as [|x p IH]; intros s; simpl.
  - split; eauto.
  - destruct s as [|y s]; [split; [easy|intros [r Hr]; discriminate]|].
    rewrite andb_true_iff, N.eqb_eq, IH. split.
    + intros [-> [r ->]]. now exists r.
    + intros [r Hr]. inversion Hr; subst. eauto.
Qed.

Lemma prefixb_app p r : prefixb p (p ++ r) = true.
Proof. apply prefixb_true_iff. eauto. Qed.

Lemma prefixb_nil_r p : prefixb p [] = true -> p = [].
Proof. destruct p; simpl; congruence. Qed.

Lemma suffixb_true_iff p s : suffixb p s = true <-> exists l, s = l ++ p.
Proof.
  unfold suffixb. rewrite prefixb_true_iff. split.
  - intros [r Hr]. exists (rv r).
    rewrite <- (rv_involutive s), Hr, rv_app, rv_involutive. reflexivity.
  - intros [l ->]. exists (rv l). apply rv_app.
Qed.

Lemma suffixb_app l p : suffixb p (l ++ p) = true.
Proof. apply suffixb_true_iff. eauto. Qed.

Lemma take_drop_while f s : take_while f s ++ drop_while f s = s.
Proof. induction s as [|c s IH]; simpl; auto. destruct (f c); simpl; congruence. Qed.

Lemma take_while_all f s : forallb f (take_while f s) = true.
Proof. induction s as [|c s IH]; simpl; auto. destruct (f c) eqn:E; simpl; auto. now rewrite E. Qed.

Definition stops (f : N -> bool) (b : str) : Prop :=
  match b with [] => True | c :: _ => f c = false end.

Lemma drop_while_stops f s : stops f (drop_while f s).
Proof. induction s as [|c s IH]; simpl; auto. destruct (f c) eqn:E; simpl; auto. Qed.

Lemma take_while_app_stop f a b :
  forallb f a = true -> stops f b -> take_while f (a ++ b) = a.
Proof.
  induction a as [|c a IH]; simpl; intros Ha Hb.
  - destruct b; simpl in *; auto. now rewrite Hb.
  - apply andb_true_iff in Ha as [-> Ha]. f_equal. auto.
Qed.

Lemma drop_while_app_stop f a b :
  forallb f a = true -> stops f b -> drop_while f (a ++ b) = b.
Proof.
  induction a as [|c a IH]; simpl; intros Ha Hb.
  - destruct b; simpl in *; auto. now rewrite Hb.
  - apply andb_true_iff in Ha as [-> Ha]. auto.
Qed.

Lemma drop_while_idem f s : drop_while f (drop_while f s) = drop_while f s.
Proof.
  pose proof (drop_while_stops f s) as H. destruct (drop_while f s) as [|c r]; simpl in *; auto.
  now rewrite H.
Qed.

Lemma drop_while_none f s : stops f s -> drop_while f s = s.
Proof. destruct s; simpl; auto. intros ->; auto. Qed.

Lemma forallb_app_iff {A} (f : A -> bool) a b : forallb f (a ++ b) = true <-> forallb f a = true /\ forallb f b = true.
Proof. rewrite forallb_app, andb_true_iff. tauto. Qed.

Lemma firstn_app_exact {A} (a b : list A) : firstn (length a) (a ++ b) = a.
Proof. induction a; simpl; congruence. Qed.

Lemma skipn_app_exact {A} (a b : list A) : skipn (length a) (a ++ b) = b.
Proof. induction a; simpl; congruence. Qed.

Lemma forallb_last (f : N -> bool) s :
  forallb f s = true -> s <> [] -> exists l c, s = l ++ [c] /\ f c = true.
Proof.
  intros Hf Hne. destruct (exists_last Hne) as (l & c & ->).
  exists l, c. split; auto. apply forallb_app_iff in Hf as [_ Hc]. simpl in Hc.
  now rewrite andb_true_r in Hc.
Qed.

Lemma suffixb_last p x l c : suffixb (p ++ [x]) (l ++ [c]) = true -> x = c.
Proof.
  intro H. apply suffixb_true_iff in H as [l' H].
  rewrite app_assoc in H. apply app_inj_tail in H. destruct H; auto.
Qed.
