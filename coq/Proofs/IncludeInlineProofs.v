(* C05: including a word-list file is typing its lines in place - at the level of the whole parser.
   For every including file, every position of the include line (top level: the parser does not
   know blocks, so this covers lines inside assemble / cmdline blocks too), every state of the
   includer (definitions made before or after, flags, prefixes, suffixes) and every include file
   that consists of entries, comments and blank lines: parsing the file with the include line
   gives exactly the result of parsing the file with the lines of the include file in its place. *)
From Coq Require Import String.
From Verif Require Import Base.Str Base.Lines Base.Outcome Proofs.StrLemmas Model.Patterns Model.ParseLine Model.Passes Model.CmdLine Model.Parser Model.Assembler Model.Generate.
Open Scope N_scope.

Section S.
Variable ordp : list pname.
Variable ords ords2 : smap -> smap.
Variable ordi : list (str * nat) -> list (str * nat).
Variable limit : N.
Variable fs : fsys.

Notation simple_line := (simple_line ordp).

(* the text such lines contribute *)
Notation is_regular := (Parser.is_regular ordp).
Definition text_of (ls : list str) : str :=
  concat (map (fun l => trim_left is_blank l ++ [10]) (filter is_regular ls)).

Lemma add_text_add_text a b r : add_text b (add_text a r) = add_text (a ++ b) r.
Proof. unfold add_text. cbn. now rewrite app_assoc. Qed.

Lemma add_text_nil r : add_text [] r = r.
Proof. destruct r. unfold add_text. cbn. now rewrite app_nil_r. Qed.

Theorem include_wordlist_is_inline : forall f vars pre line post pl c contents1 contents2,
  parse_line ordp (trim_left is_blank line) = Ok pl -> pl_type pl = LInclude -> pl_pairs pl = None ->
  lookup_file fs (pl_file pl) = Some c -> Forall simple_line (scan_lines limit c) ->
  scan_lines limit contents1 = pre ++ [line] ++ post ->
  scan_lines limit contents2 = pre ++ scan_lines limit c ++ post ->
  parse ordp ords ords2 ordi limit fs (S f) vars contents1 = parse ordp ords ords2 ordi limit fs (S f) vars contents2.
Proof.
  intros f vars pre line post pl c contents1 contents2 Hpl Hty Hpairs Hlook Hsimple H1 H2.
  (* the included file, parsed on its own: its text, nothing else *)
  assert (HF : parse ordp ords ords2 ordi limit fs f [] c = Ok (add_text (text_of (scan_lines limit c)) (presult0 []))).
  { destruct f as [|f']; cbn [parse].
    - match goal with |- bind (?L _ _) _ = _ => assert (E : forall ls r, Forall simple_line ls -> L r ls = Ok (add_text (text_of ls) r)) end.
      { induction ls as [|l ls IHl]; intros r HFa; [now rewrite add_text_nil|].
        inversion HFa as [|? ? (pl0 & Hp0 & Ht0) HFa']; subst.
        rewrite Hp0. cbn [bind]. unfold text_of. cbn [filter]. unfold Parser.is_regular at 1. rewrite Hp0.
        destruct Ht0 as [Ht0|[Ht0|Ht0]]; rewrite Ht0; cbn [bind map concat].
        - rewrite (IHl _ HFa'). now rewrite add_text_add_text.
        - now apply IHl.
        - now apply IHl. }
      rewrite (E _ _ Hsimple). reflexivity.
    - match goal with |- bind (?L _ _) _ = _ => assert (E : forall ls r, Forall simple_line ls -> L r ls = Ok (add_text (text_of ls) r)) end.
      { induction ls as [|l ls IHl]; intros r HFa; [now rewrite add_text_nil|].
        inversion HFa as [|? ? (pl0 & Hp0 & Ht0) HFa']; subst.
        rewrite Hp0. cbn [bind]. unfold text_of. cbn [filter]. unfold Parser.is_regular at 1. rewrite Hp0.
        destruct Ht0 as [Ht0|[Ht0|Ht0]]; rewrite Ht0; cbn [bind map concat].
        - rewrite (IHl _ HFa'). now rewrite add_text_add_text.
        - now apply IHl.
        - now apply IHl. }
      rewrite (E _ _ Hsimple). reflexivity. }
  cbn [parse]. rewrite H1, H2.
  match goal with |- bind (?L _ _) _ = bind (?L' _ _) _ =>
    assert (Happ : forall a b r, L r (a ++ b) = bind (L r a) (fun r' => L r' b));
    [|assert (Esimple : forall ls r, Forall simple_line ls -> L r ls = Ok (add_text (text_of ls) r));
      [|assert (Eline : forall r, L r [line] = Ok (add_text (text_of (scan_lines limit c)) r))]]
  end.
  - induction a as [|x a IHa]; intros b r; [reflexivity|].
    cbn [app]. destruct (parse_line ordp (trim_left is_blank x)) as [plx| |]; cbn [bind]; try reflexivity.
    match goal with |- bind ?X _ = _ => destruct X as [rx| |]; cbn [bind]; try reflexivity end.
    apply IHa.
  - induction ls as [|l ls IHl]; intros r HFa; [now rewrite add_text_nil|].
    inversion HFa as [|? ? (pl0 & Hp0 & Ht0) HFa']; subst.
    rewrite Hp0. cbn [bind]. unfold text_of. cbn [filter]. unfold Parser.is_regular at 1. rewrite Hp0.
    destruct Ht0 as [Ht0|[Ht0|Ht0]]; rewrite Ht0; cbn [bind map concat].
    + rewrite (IHl _ HFa'). now rewrite add_text_add_text.
    + now apply IHl.
    + now apply IHl.
  - intro r. rewrite Hpl. cbn [bind]. rewrite Hty, Hlook. cbn [bind]. rewrite HF. cbn [bind].
    unfold merge_prefixes_suffixes. cbn. rewrite Hpairs. reflexivity.
  - rewrite !Happ.
    match goal with |- bind (bind ?X _) _ = _ => destruct X as [r0| |] end; cbn [bind]; try reflexivity.
    rewrite !Happ. rewrite Eline, (Esimple _ _ Hsimple). reflexivity.
Qed.


(* ... and so does the whole command: the same regular expression, the same error *)
Theorem generate_include_wordlist_inline join cfg limit_asm pre line post pl c contents1 contents2 :
  parse_line ordp (trim_left is_blank line) = Ok pl -> pl_type pl = LInclude -> pl_pairs pl = None ->
  lookup_file fs (pl_file pl) = Some c -> Forall simple_line (scan_lines limit c) ->
  scan_lines limit contents1 = pre ++ [line] ++ post ->
  scan_lines limit contents2 = pre ++ scan_lines limit c ++ post ->
  generate join cfg ordp ords ords2 ordi limit limit_asm fs contents1 =
  generate join cfg ordp ords ords2 ordi limit limit_asm fs contents2.
Proof.
  intros. unfold generate. change include_fuel with (S 39).
  now rewrite (include_wordlist_is_inline 39 [] pre line post pl c contents1 contents2).
Qed.

End S.

(* non-vacuity: a word list with a comment and a blank line, included between two entries *)
Definition ex_fs : fsys := {| fs_include := [($"words.ra", $"ls
  cat
##! a comment

")]; fs_exclude := []; fs_abs := [] |}.

Example include_wordlist_example :
  exists pl c,
    parse_line all_pnames (trim_left is_blank $"  ##!> include words") = Ok pl /\ pl_type pl = LInclude /\ pl_pairs pl = None /\
    lookup_file ex_fs (pl_file pl) = Some c /\ Forall (Parser.simple_line all_pnames) (scan_lines 65536 c) /\
    scan_lines 65536 $"a
  ##!> include words
b
" = [$"a"] ++ [$"  ##!> include words"] ++ [$"b"] /\
    scan_lines 65536 $"a
ls
  cat
##! a comment

b
" = [$"a"] ++ scan_lines 65536 c ++ [$"b"].
Proof.
  eexists. eexists. split; [vm_compute; reflexivity|]. split; [reflexivity|]. split; [reflexivity|].
  split; [vm_compute; reflexivity|]. split; [|split; vm_compute; reflexivity].
  vm_compute scan_lines. repeat (apply Forall_cons; [eexists; split; [vm_compute; reflexivity|cbn; auto]|]). apply Forall_nil.
Qed.
