(* C08, whole command on the tree model: `--all` is "each selected file on its own", in ANY order
   of the walk, for renumber-tests, update-copyright, format, compare; and for update: what
   generate computes for a file during `update --all` is what it computes on the untouched tree. *)
From Coq Require Import String Permutation.
From Verif Require Import Base.Str Base.Outcome Proofs.StrLemmas Model.RuleId Model.Update Model.Renumber Model.Cli Proofs.CliProofs.
Open Scope N_scope.

(* two writes to different files commute (os.WriteFile touches one file) *)
Lemma t_set_comm t p q c d : p <> q -> t_set (t_set t p c) q d = t_set (t_set t q d) p c.
Proof.
  intro Hne. induction t as [|[r c0] t IH]; cbn; auto.
  destruct (path_eqb p r) eqn:Ep, (path_eqb q r) eqn:Eq; cbn; rewrite ?Ep, ?Eq; auto.
  - apply path_eqb_eq in Ep, Eq. congruence.
  - now rewrite IH.
Qed.

Lemma t_get_set_same' t p c : t_get t p <> None -> t_get (t_set t p c) p = Some c.
Proof. destruct (t_get t p) eqn:E; [intros _; eapply t_get_set_same; eauto|congruence]. Qed.

Lemma t_get_set_none t p q c : t_get t q = None -> t_get (t_set t p c) q = None.
Proof.
  induction t as [|[r c0] t IH]; cbn; auto.
  destruct (path_eqb q r) eqn:Eq; [discriminate|]. intro H.
  destruct (path_eqb p r) eqn:Ep; cbn; rewrite Eq; auto.
Qed.

(* ---------- the generic "rewrite every file on its own" walk ---------- *)
Section Each.
Variable h : path -> str -> option str.      (* None: the file is not written *)

Definition step (f : path) (t : tree) : tree :=
  match t_get t f with
  | Some c => match h f c with Some c' => t_set t f c' | None => t end
  | None => t
  end.

Fixpoint each (files : list path) (t : tree) : tree :=
  match files with
  | [] => t
  | f :: rest => each rest (step f t)
  end.

Lemma step_get_other f t q : q <> f -> t_get (step f t) q = t_get t q.
Proof.
  intro Hne. unfold step. destruct (t_get t f) as [c|]; auto. destruct (h f c); auto. now apply t_get_set_other.
Qed.

Lemma step_comm f g t : f <> g -> step f (step g t) = step g (step f t).
Proof.
  intro Hne. unfold step at 1 3. rewrite (step_get_other g t f Hne), (step_get_other f t g (not_eq_sym Hne)).
  unfold step. destruct (t_get t f) as [cf|] eqn:Ef, (t_get t g) as [cg|] eqn:Eg; auto;
    try destruct (h f cf) as [cf'|]; try destruct (h g cg) as [cg'|]; auto.
  now apply t_set_comm, not_eq_sym.
Qed.

Lemma each_unlisted files : forall t q, ~ In q files -> t_get (each files t) q = t_get t q.
Proof.
  induction files as [|f rest IH]; intros t q Hn; cbn [each]; auto.
  rewrite IH by (intro; apply Hn; now right). apply step_get_other. intro; subst; apply Hn; now left.
Qed.

(* every listed file ends exactly as processing it alone would leave it *)
Theorem each_alone files : forall t p, NoDup files -> In p files ->
  t_get (each files t) p = t_get (step p t) p.
Proof.
  induction files as [|f rest IH]; intros t p Hnd Hin; [destruct Hin|].
  inversion Hnd as [|? ? Hnotin Hnd']; subst. cbn [each]. destruct Hin as [->|Hin].
  - now apply each_unlisted.
  - assert (p <> f) by (intro; subst; auto).
    rewrite IH by auto. unfold step at 1 3. rewrite (step_get_other f t p) by auto.
    destruct (t_get t p) as [c|] eqn:Ep.
    + destruct (h p c) as [c'|].
      * rewrite !t_get_set_same'; auto; rewrite ?step_get_other; auto; congruence.
      * rewrite step_get_other; auto.
    + rewrite step_get_other; auto.
Qed.

(* ... whatever the order of the walk *)
Theorem each_perm files files' : Permutation files files' -> forall t, each files t = each files' t.
Proof.
  induction 1 as [|x l l' _ IH|x y l|l l' l'' _ IH1 _ IH2]; intro t; cbn [each]; auto.
  - destruct (list_eq_dec (list_eq_dec N.eq_dec) x y) as [->|Hne]; [reflexivity|]. now rewrite step_comm.
  - now rewrite IH1.
Qed.
End Each.

Section Commands.
Variable gen : tree -> path -> outcome str.
Variable fmt : str -> outcome str.
Variable renum : str -> str -> str.
Variable copyr : str -> str.
Variable bits : N.

(* ---------- renumber-tests ---------- *)
Definition h_renumber (f : path) (c : str) : option str :=
  match renumber_selected f with
  | Some id => if str_eqb c (renum id c) then None else Some (renum id c)
  | None => None
  end.

Lemma renumber_all_each files : forall t, renumber_all renum files t = each h_renumber files t.
Proof.
  induction files as [|f rest IH]; intro t; cbn [renumber_all each]; auto.
  unfold step, h_renumber. destruct (renumber_selected f) as [id|]; destruct (t_get t f) as [c|]; auto.
  destruct (str_eqb c (renum id c)); auto.
Qed.

Theorem renumber_all_order_independent files files' t :
  Permutation files files' -> renumber_all renum files t = renumber_all renum files' t.
Proof. intro HP. rewrite !renumber_all_each. now apply each_perm. Qed.

Theorem renumber_all_is_each_alone files t p id c :
  NoDup files -> In p files -> renumber_selected p = Some id -> t_get t p = Some c ->
  t_get (renumber_all renum files t) p = Some (renum id c).
Proof.
  intros Hnd Hin Hsel Hget. rewrite renumber_all_each, each_alone by auto.
  unfold step, h_renumber. rewrite Hget, Hsel. destruct (str_eqb c (renum id c)) eqn:E.
  - apply str_eqb_eq in E. congruence.
  - eapply t_get_set_same; eauto.
Qed.

(* ---------- update-copyright ---------- *)
Definition h_copyright (f : path) (c : str) : option str :=
  if copyright_selected f then Some (copyr c) else None.

Lemma copyright_all_each files : forall t, copyright_all copyr files t = each h_copyright files t.
Proof.
  induction files as [|f rest IH]; intro t; cbn [copyright_all each]; auto.
  unfold step, h_copyright. destruct (copyright_selected f); destruct (t_get t f) as [c|]; auto.
Qed.

Theorem copyright_all_order_independent files files' t :
  Permutation files files' -> copyright_all copyr files t = copyright_all copyr files' t.
Proof. intro HP. rewrite !copyright_all_each. now apply each_perm. Qed.

Theorem copyright_all_is_each_alone files t p c :
  NoDup files -> In p files -> copyright_selected p = true -> t_get t p = Some c ->
  t_get (copyright_all copyr files t) p = Some (copyr c).
Proof.
  intros Hnd Hin Hsel Hget. rewrite copyright_all_each, each_alone by auto.
  unfold step, h_copyright. rewrite Hget, Hsel. eapply t_get_set_same; eauto.
Qed.

(* ---------- format ---------- *)
Definition h_format (f : path) (c : str) : option str :=
  if format_selected f then match fmt c with Ok c' => Some c' | _ => None end else None.

(* every selected file of the walk that exists can be formatted *)
Definition all_formattable (files : list path) (t : tree) : Prop :=
  forall f c, In f files -> format_selected f = true -> t_get t f = Some c -> exists c', fmt c = Ok c'.

Lemma format_all_success files : forall t, NoDup files -> all_formattable files t ->
  format_all fmt files t = (each h_format files t, Success).
Proof.
  induction files as [|f rest IH]; intros t Hnd Hall; cbn [format_all each]; auto.
  inversion Hnd as [|? ? Hnotin Hnd']; subst.
  assert (Hrest : forall t1, (forall q, q <> f -> t_get t1 q = t_get t q) -> all_formattable rest t1).
  { intros t1 Hsame g c Hin Hs Hg. apply (Hall g c); [now right|auto|]. rewrite <- Hsame; auto. intro; subst; auto. }
  unfold step, h_format. destruct (format_selected f) eqn:Es.
  - destruct (t_get t f) as [c|] eqn:Eg.
    + destruct (Hall f c (or_introl eq_refl) Es Eg) as [c' Ec]. rewrite Ec. apply IH; auto.
      apply Hrest. intros q Hq. now apply t_get_set_other.
    + apply IH; auto.
  - destruct (t_get t f); apply IH; auto.
Qed.

Lemma format_all_success_inv files : forall t t', NoDup files ->
  format_all fmt files t = (t', Success) -> all_formattable files t.
Proof.
  induction files as [|f rest IH]; intros t t' Hnd H g c Hin Hs Hg; [destruct Hin|].
  inversion Hnd as [|? ? Hnotin Hnd']; subst. cbn [format_all] in H. destruct Hin as [->|Hin].
  - rewrite Hs, Hg in H. destruct (fmt c) as [c'| |]; try discriminate. eauto.
  - assert (g <> f) by (intro; subst; auto).
    destruct (format_selected f); [|eapply IH; eauto].
    destruct (t_get t f) as [c0|]; [|eapply IH; eauto].
    destruct (fmt c0) as [c0'| |]; try discriminate.
    eapply (IH _ _ Hnd' H g c); auto. rewrite t_get_set_other; auto.
Qed.

(* a successful `format --all` does not depend on the order in which the walk presents the files *)
Theorem format_all_order_independent files files' t t' :
  NoDup files -> Permutation files files' ->
  format_all fmt files t = (t', Success) -> format_all fmt files' t = (t', Success).
Proof.
  intros Hnd HP H. pose proof (format_all_success_inv _ _ _ Hnd H) as Hall.
  rewrite (format_all_success files t Hnd Hall) in H. injection H as <-.
  rewrite (format_all_success files' t).
  - now rewrite (each_perm h_format _ _ HP).
  - eapply Permutation_NoDup; eauto.
  - intros f c Hin. apply Hall. eapply Permutation_in; [apply Permutation_sym|]; eauto.
Qed.

(* and it fails in one order exactly when it fails in every order *)
Theorem format_all_failure_order_independent files files' t t1 :
  NoDup files -> Permutation files files' ->
  format_all fmt files t = (t1, Fail) -> exists t2, format_all fmt files' t = (t2, Fail).
Proof.
  intros Hnd HP H. destruct (format_all fmt files' t) as [t2 [|]] eqn:E; [|eauto].
  apply (format_all_order_independent files' files) in E; [congruence| |now apply Permutation_sym].
  eapply Permutation_NoDup; eauto.
Qed.

(* ---------- compare ---------- *)
Definition verdict_of (t : tree) (f : path) : outcome (list bool) :=
  match addressed f with
  | None => Ok []
  | Some (id, ds) =>
    match chain_offset bits ds with
    | None => Err 32
    | Some k => do v <- compare_rule gen t id k f; Ok (match v with Some b => [b] | None => [] end)
    end
  end.

Fixpoint collect (files : list path) (t : tree) : outcome (list bool) :=
  match files with
  | [] => Ok []
  | f :: rest => do v <- verdict_of t f; do ws <- collect rest t; Ok (v ++ ws)
  end.

Lemma compare_all_app files : forall t acc,
  compare_all gen bits files t acc = (do ws <- compare_all gen bits files t []; Ok (acc ++ ws)).
Proof.
  induction files as [|f rest IH]; intros t acc; cbn [compare_all bind]; [now rewrite app_nil_r|].
  destruct (addressed f) as [[id ds]|]; [|apply IH].
  destruct (chain_offset bits ds) as [k|]; [|reflexivity].
  destruct (compare_rule gen t id k f) as [v| |]; cbn [bind]; try reflexivity.
  destruct v as [b|]; [|apply IH].
  rewrite (IH t (acc ++ [b])), (IH t ([] ++ [b])).
  destruct (compare_all gen bits rest t []); cbn [bind]; try reflexivity. now rewrite <- app_assoc.
Qed.

(* compare --all reports, in walk order, exactly the verdict each file gets on its own *)
Theorem compare_all_is_each_alone files : forall t, compare_all gen bits files t [] = collect files t.
Proof.
  induction files as [|f rest IH]; intro t; cbn [compare_all collect]; auto.
  unfold verdict_of. destruct (addressed f) as [[id ds]|]; cbn [bind app]; [|rewrite IH; now destruct (collect rest t)].
  destruct (chain_offset bits ds) as [k|]; [|reflexivity].
  destruct (compare_rule gen t id k f) as [v| |]; cbn [bind]; try reflexivity.
  destruct v as [b|]; cbn [app].
  - rewrite compare_all_app, IH. reflexivity.
  - rewrite IH. now destruct (collect rest t).
Qed.

Lemma collect_perm files files' : Permutation files files' -> forall t vs,
  collect files t = Ok vs -> exists vs', collect files' t = Ok vs' /\ Permutation vs vs'.
Proof.
  induction 1 as [|x l l' _ IH|x y l|l l' l'' _ IH1 _ IH2]; intros t vs H; cbn [collect] in *.
  - eauto.
  - destruct (verdict_of t x) as [v| |]; cbn [bind] in *; try discriminate.
    destruct (collect l t) as [ws| |] eqn:E; cbn [bind] in *; try discriminate. injection H as <-.
    destruct (IH t ws E) as (ws' & -> & HP). cbn [bind]. eexists; split; [reflexivity|]. now apply Permutation_app_head.
  - destruct (verdict_of t y) as [vy| |]; cbn [bind] in *; try discriminate.
    destruct (verdict_of t x) as [vx| |]; cbn [bind] in *; try discriminate.
    destruct (collect l t) as [ws| |]; cbn [bind] in *; try discriminate. injection H as <-.
    eexists; split; [reflexivity|]. rewrite !app_assoc. apply Permutation_app_tail, Permutation_app_comm.
  - destruct (IH1 t vs H) as (v1 & H1 & P1). destruct (IH2 t v1 H1) as (v2 & H2 & P2).
    exists v2. split; auto. eapply Permutation_trans; eauto.
Qed.

Lemma existsb_perm {A} (p : A -> bool) l l' : Permutation l l' -> existsb p l = existsb p l'.
Proof.
  induction 1 as [| | |? ? ? _ IH1 _ IH2]; cbn; auto; try congruence.
  now rewrite !orb_assoc, (orb_comm (p y)).
Qed.

(* the verdicts are the same multiset, and the exit status the same, whatever the order of the walk *)
Theorem compare_all_order_independent files files' t vs :
  Permutation files files' -> compare_all gen bits files t [] = Ok vs ->
  exists vs', compare_all gen bits files' t [] = Ok vs' /\ Permutation vs vs' /\
              forall github, compare_all_status github (Ok vs') = compare_all_status github (Ok vs).
Proof.
  intros HP H. rewrite compare_all_is_each_alone in *. destruct (collect_perm _ _ HP t vs H) as (vs' & H' & P).
  exists vs'. repeat split; auto. intro github. unfold compare_all_status.
  now rewrite (existsb_perm negb _ _ P).
Qed.

(* ---------- update ---------- *)
(* what generate reads is never a rules file: writing a rules file does not change its answer
   (for the instantiated command this is PROVED below, see gen_in_tree_ignores_rules_files) *)
Definition gen_ignores_rules_files : Prop :=
  forall t rf c f, is_rules_file rf -> ~ is_rules_file f -> gen (t_set t rf c) f = gen t f.

(* update --all where every regex is generated from the UNTOUCHED tree t0 *)
Fixpoint update_all_frozen (t0 : tree) (files : list path) (t : tree) : tree * status :=
  match files with
  | [] => (t, Success)
  | f :: rest =>
    match addressed f with
    | None => update_all_frozen t0 rest t
    | Some (id, ds) =>
      match chain_offset bits ds with
      | None => (t, Fail)
      | Some k =>
        match (do regex <- gen t0 f;
               match glob_rules t id with
               | [rf] => match t_get t rf with
                         | None => Err 30
                         | Some c => do c' <- update_contents c id k regex; Ok (t_set t rf c')
                         end
               | _ => Err 31
               end) with
        | Ok t' => update_all_frozen t0 rest t'
        | _ => (t, Fail)
        end
      end
    end
  end.

Lemma addressed_not_rules f x : addressed f = Some x -> ~ is_rules_file f.
Proof.
  unfold addressed, under, is_rules_file. intros H [Hl Hf].
  destruct f as [|a [|b [|? ?]]]; try discriminate. cbn in Hf. injection Hf as ->.
  cbn in H. discriminate.
Qed.

Lemma filter_fst_set (P : path -> bool) t rf c :
  map fst (filter (fun e => P (fst e)) (t_set t rf c)) = map fst (filter (fun e : path * str => P (fst e)) t).
Proof.
  induction t as [|[q c0] t IH]; cbn [t_set]; auto.
  destruct (path_eqb rf q); cbn [filter fst]; destruct (P q); cbn [map fst]; congruence.
Qed.

Lemma glob_rules_set t rf c id : glob_rules (t_set t rf c) id = glob_rules t id.
Proof.
  unfold glob_rules.
  apply (filter_fst_set (fun p => Nat.eqb (length p) 2 && path_eqb (firstn 1 p) d_rules && contains ([45] ++ firstn 3 id ++ [45]) (base p))%bool).
Qed.

(* generate sees, for every file of an `update --all` run, the tree as it was before the run *)
Theorem update_all_generates_from_the_untouched_tree files : gen_ignores_rules_files ->
  forall t0 t, (forall f, ~ is_rules_file f -> gen t f = gen t0 f) ->
  update_all gen bits files t = update_all_frozen t0 files t.
Proof.
  intro Hgen. induction files as [|f rest IH]; intros t0 t Hsame; cbn [update_all update_all_frozen]; auto.
  destruct (addressed f) as [[id ds]|] eqn:Ea; [|now apply IH].
  destruct (chain_offset bits ds) as [k|]; [|reflexivity].
  unfold process_rule. rewrite (Hsame f (addressed_not_rules _ _ Ea)).
  destruct (gen t0 f) as [regex| |]; cbn [bind]; try reflexivity.
  destruct (glob_rules t id) as [|rf [|]] eqn:Eg; try reflexivity.
  destruct (t_get t rf) as [c|]; try reflexivity.
  destruct (update_contents c id k regex) as [c'| |]; cbn [bind]; try reflexivity.
  apply IH. intros g Hg. rewrite Hgen; auto.
  apply (glob_rules_are_rules_files t id). rewrite Eg. now left.
Qed.
End Commands.
