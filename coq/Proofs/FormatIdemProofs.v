(* C09: formatting a formatted line changes nothing (line level).
   The formatter's parser hands processLine lines without leading blanks; processLine prints the
   line with its indentation; formatting again strips the indentation and processes the rest with
   the same indent.  For every line that is blank, a block start, a block end, a flags / prefix /
   suffix line or a regular line (entry, comment, marker), the second round prints the same
   line and moves the indent in the same way.  Definition, include and include-except lines are
   NOT covered (their patterns re-read their own canonical print, shown per case by the suite,
   not proved): hence _partial. *)
From Coq Require Import String.
From Verif Require Import Base.Str Base.Lines Base.Outcome Proofs.StrLemmas Model.Patterns Model.ParseLine Model.Format Proofs.FormatProofs.
Open Scope N_scope.

Lemma stops_blank_iff b : starts_nonblank b <-> stops is_blank b.
Proof. destruct b; cbn; tauto. Qed.

Lemma trim_spaces k b : starts_nonblank b -> trim_left is_blank (spaces k ++ b) = b.
Proof.
  intro H. unfold trim_left, spaces. apply drop_while_app_stop; [|now apply stops_blank_iff].
  induction k; cbn; auto.
Qed.

Lemma take_while_id f s : forallb f s = true -> take_while f s = s.
Proof. intro H. rewrite <- (app_nil_r s) at 1. apply take_while_app_stop; cbn; auto. Qed.

Lemma trim_right_stops f u : stops f u -> stops f (trim_right f u).
Proof.
  destruct u as [|c u']; [intros _; cbn; exact I|]. cbn [stops]. intro Hc.
  unfold trim_right. rewrite !rv_rev. cbn [rev].
  assert (E : drop_while f (rev u' ++ [c]) = drop_while f (rev u') ++ [c]).
  { generalize (rev u'). intro a. induction a as [|x a IH]; cbn; [now rewrite Hc|].
    destruct (f x); [exact IH|reflexivity]. }
  rewrite E, rev_app_distr. cbn. exact Hc.
Qed.

Lemma trim_right_idem f s : trim_right f (trim_right f s) = trim_right f s.
Proof. unfold trim_right. now rewrite rv_involutive, drop_while_idem. Qed.

(* the value captured by FlagsRegex / PrefixRegex / SuffixRegex is read back from its print *)
Lemma marker_value_again m s v : m_marker_value m s = Some v ->
  skip_ws v = v /\ rtrim_ws v = v /\ v <> [].
Proof.
  unfold m_marker_value. destruct (lit m s) as [r|]; [|discriminate].
  destruct (rtrim_ws (skip_ws r)) as [|c t] eqn:E; [discriminate|]. intros H. injection H as <-.
  rewrite <- E. split; [|split].
  - unfold skip_ws. apply drop_while_none. apply trim_right_stops. apply drop_while_stops.
  - apply trim_right_idem.
  - rewrite E. discriminate.
Qed.

Lemma marker_print_reads m v : skip_ws v = v -> rtrim_ws v = v -> v <> [] ->
  lit m (m ++ 32 :: v) = Some (32 :: v) -> m_marker_value m (m ++ 32 :: v) = Some v.
Proof.
  intros Hs Hr Hn Hl. unfold m_marker_value. rewrite Hl.
  assert (E : skip_ws (32 :: v) = v) by (unfold skip_ws in *; cbn; exact Hs).
  rewrite E, Hr. destruct v; [congruence|reflexivity].
Qed.

Lemma lit_app p r : lit p (p ++ r) = Some r.
Proof. unfold lit. now rewrite prefixb_app, skipn_app_exact. Qed.

(* the three value lines: formatted again, the same line *)
Lemma flags_line_again v indent : skip_ws v = v -> rtrim_ws v = v -> v <> [] ->
  process_line ($"##!+ " ++ v) indent = (Some ($"##!+ " ++ v), indent).
Proof.
  intros Hs Hr Hn. change ($"##!+ " ++ v) with (35 :: 35 :: 33 :: 43 :: 32 :: v). unfold process_line.
  change (trim_left is_blank (35 :: 35 :: 33 :: 43 :: 32 :: v)) with (35 :: 35 :: 33 :: 43 :: 32 :: v).
  assert (Hb : m_block_start (35 :: 35 :: 33 :: 43 :: 32 :: v) = None) by reflexivity.
  assert (He : m_block_end (35 :: 35 :: 33 :: 43 :: 32 :: v) = false) by reflexivity.
  rewrite Hb, He.
  assert (Hf : m_flags (35 :: 35 :: 33 :: 43 :: 32 :: v) = Some v).
  { apply (marker_print_reads $"##!+" v Hs Hr Hn). apply (lit_app $"##!+" (32 :: v)). }
  rewrite Hf. reflexivity.
Qed.

Lemma prefix_line_again v indent : skip_ws v = v -> rtrim_ws v = v -> v <> [] ->
  process_line ($"##!^ " ++ v) indent = (Some ($"##!^ " ++ v), indent).
Proof.
  intros Hs Hr Hn. change ($"##!^ " ++ v) with (35 :: 35 :: 33 :: 94 :: 32 :: v). unfold process_line.
  change (trim_left is_blank (35 :: 35 :: 33 :: 94 :: 32 :: v)) with (35 :: 35 :: 33 :: 94 :: 32 :: v).
  assert (Hb : m_block_start (35 :: 35 :: 33 :: 94 :: 32 :: v) = None) by reflexivity.
  assert (He : m_block_end (35 :: 35 :: 33 :: 94 :: 32 :: v) = false) by reflexivity.
  assert (Hfl : m_flags (35 :: 35 :: 33 :: 94 :: 32 :: v) = None) by reflexivity.
  rewrite Hb, He, Hfl.
  assert (Hf : m_prefix (35 :: 35 :: 33 :: 94 :: 32 :: v) = Some v).
  { apply (marker_print_reads $"##!^" v Hs Hr Hn). apply (lit_app $"##!^" (32 :: v)). }
  rewrite Hf. reflexivity.
Qed.

Lemma suffix_line_again v indent : skip_ws v = v -> rtrim_ws v = v -> v <> [] ->
  process_line ($"##!$ " ++ v) indent = (Some ($"##!$ " ++ v), indent).
Proof.
  intros Hs Hr Hn. change ($"##!$ " ++ v) with (35 :: 35 :: 33 :: 36 :: 32 :: v). unfold process_line.
  change (trim_left is_blank (35 :: 35 :: 33 :: 36 :: 32 :: v)) with (35 :: 35 :: 33 :: 36 :: 32 :: v).
  assert (Hb : m_block_start (35 :: 35 :: 33 :: 36 :: 32 :: v) = None) by reflexivity.
  assert (He : m_block_end (35 :: 35 :: 33 :: 36 :: 32 :: v) = false) by reflexivity.
  assert (Hfl : m_flags (35 :: 35 :: 33 :: 36 :: 32 :: v) = None) by reflexivity.
  assert (Hp : m_prefix (35 :: 35 :: 33 :: 36 :: 32 :: v) = None) by reflexivity.
  rewrite Hb, He, Hfl, Hp.
  assert (Hf : m_suffix (35 :: 35 :: 33 :: 36 :: 32 :: v) = Some v).
  { apply (marker_print_reads $"##!$" v Hs Hr Hn). apply (lit_app $"##!$" (32 :: v)). }
  rewrite Hf. reflexivity.
Qed.

(* ---------- block start ---------- *)
Lemma block_start_parts line name arg : m_block_start line = Some (name, arg) ->
  (name = $"assemble" \/ name = $"cmdline") /\ forallb nsp arg = true.
Proof.
  unfold m_block_start. destruct (lit $"##!>" line) as [s1|]; [|discriminate].
  destruct (lit $"assemble" (skip_ws s1)) as [r|].
  - intros H. injection H as <- <-. split; [now left|apply take_while_all].
  - destruct (lit $"cmdline" (skip_ws s1)) as [r|]; [|discriminate].
    intros H. injection H as <- <-. split; [now right|apply take_while_all].
Qed.

Definition arg_tail (arg : str) : str := match arg with [] => [] | _ => [32] ++ arg end.

Lemma skip_ws_arg_tail arg : forallb nsp arg = true -> take_while nsp (skip_ws (arg_tail arg)) = arg.
Proof.
  intro H. destruct arg as [|c a]; [reflexivity|]. cbn [arg_tail app].
  cbn [forallb] in H. apply andb_true_iff in H as [Hc Ha].
  unfold skip_ws. cbn [drop_while]. change (sp 32) with true. cbn iota.
  assert (Hsp : sp c = false) by (unfold nsp in Hc; unfold sp; now destruct (is_rxspace c)).
  cbn [drop_while]. rewrite Hsp. apply take_while_id. cbn [forallb]. now rewrite Hc, Ha.
Qed.

Lemma block_start_print_reads name arg : (name = $"assemble" \/ name = $"cmdline") -> forallb nsp arg = true ->
  m_block_start ($"##!> " ++ name ++ arg_tail arg) = Some (name, arg).
Proof.
  intros [-> | ->] Ha.
  - change ($"##!> " ++ $"assemble" ++ arg_tail arg) with ($"##!>" ++ 32 :: ($"assemble" ++ arg_tail arg)).
    unfold m_block_start. rewrite lit_app.
    change (skip_ws (32 :: $"assemble" ++ arg_tail arg)) with ($"assemble" ++ arg_tail arg).
    rewrite lit_app. now rewrite skip_ws_arg_tail.
  - change ($"##!> " ++ $"cmdline" ++ arg_tail arg) with ($"##!>" ++ 32 :: ($"cmdline" ++ arg_tail arg)).
    unfold m_block_start. rewrite lit_app.
    change (skip_ws (32 :: $"cmdline" ++ arg_tail arg)) with ($"cmdline" ++ arg_tail arg).
    assert (Hn : lit $"assemble" ($"cmdline" ++ arg_tail arg) = None) by reflexivity.
    rewrite Hn, lit_app. now rewrite skip_ws_arg_tail.
Qed.

Definition bs_print (name arg : str) : str := 35 :: 35 :: 33 :: 62 :: 32 :: name ++ arg_tail arg.

Lemma block_start_again name arg indent : (name = $"assemble" \/ name = $"cmdline") -> forallb nsp arg = true ->
  process_line (bs_print name arg) indent = (Some (spaces (indent * 2) ++ bs_print name arg), S indent).
Proof.
  intros Hn Ha. pose proof (block_start_print_reads name arg Hn Ha) as Hb.
  change ($"##!> " ++ name ++ arg_tail arg) with (bs_print name arg) in Hb.
  unfold process_line. change (trim_left is_blank (bs_print name arg)) with (bs_print name arg).
  unfold bs_print at 1. rewrite Hb. reflexivity.
Qed.

(* ---------- the line-level statement ---------- *)
Theorem process_line_idempotent_partial line indent out next :
  trim_left is_blank line = line ->                       (* as the formatter's parser delivers it *)
  not_a_file_directive line ->
  process_line line indent = (Some out, next) ->
  process_line (trim_left is_blank out) indent = (Some out, next).
Proof.
  intros Htrim (Hd & Hi & Hx) H. unfold process_line in H. rewrite Htrim in H.
  destruct line as [|c0 l0] eqn:El.
  - injection H as <- <-. reflexivity.
  - assert (Hne : line <> []) by (rewrite El; discriminate). rewrite <- El in *. clear El c0 l0.
    assert (Hnb : starts_nonblank line) by (rewrite <- Htrim; apply trim_left_blank_starts).
    destruct (m_block_start line) as [[name arg]|] eqn:Eb.
    + (* block start: printed canonically, read back *)
      injection H as <- <-. destruct (block_start_parts _ _ _ Eb) as [Hname Harg].
      change (process_line (trim_left is_blank (spaces (indent * 2) ++ bs_print name arg)) indent =
              (Some (spaces (indent * 2) ++ bs_print name arg), S indent)).
      assert (Hnb2 : starts_nonblank (bs_print name arg)) by reflexivity.
      rewrite (trim_spaces _ _ Hnb2). now apply block_start_again.
    + destruct (m_block_end line) eqn:Ee.
      * (* block end: the line itself behind other indentation *)
        destruct indent as [|i]; [discriminate|]. injection H as <- <-.
        rewrite (trim_spaces _ _ Hnb). unfold process_line. rewrite Htrim.
        destruct line as [|c0 l0]; [congruence|]. rewrite Eb, Ee. reflexivity.
      * destruct (m_flags line) as [v|] eqn:Ef.
        { injection H as <- <-. destruct (marker_value_again _ _ _ Ef) as (Hs & Hr & Hn).
          assert (Hnb2 : starts_nonblank ($"##!+ " ++ v)) by reflexivity.
          change (trim_left is_blank ($"##!+ " ++ v)) with (drop_while is_blank ($"##!+ " ++ v)).
          rewrite (drop_while_none is_blank) by (now apply stops_blank_iff). now apply flags_line_again. }
        destruct (m_prefix line) as [v|] eqn:Ep.
        { injection H as <- <-. destruct (marker_value_again _ _ _ Ep) as (Hs & Hr & Hn).
          change (trim_left is_blank ($"##!^ " ++ v)) with (drop_while is_blank ($"##!^ " ++ v)).
          rewrite (drop_while_none is_blank) by (apply stops_blank_iff; reflexivity). now apply prefix_line_again. }
        destruct (m_suffix line) as [v|] eqn:Es.
        { injection H as <- <-. destruct (marker_value_again _ _ _ Es) as (Hs & Hr & Hn).
          change (trim_left is_blank ($"##!$ " ++ v)) with (drop_while is_blank ($"##!$ " ++ v)).
          rewrite (drop_while_none is_blank) by (apply stops_blank_iff; reflexivity). now apply suffix_line_again. }
        rewrite Hd, Hi, Hx in H. injection H as <- <-.
        (* a regular line: the line itself behind the indentation *)
        rewrite (trim_spaces _ _ Hnb). unfold process_line. rewrite Htrim.
        destruct line as [|c0 l0]; [congruence|]. rewrite Eb, Ee, Ef, Ep, Es, Hd, Hi, Hx. reflexivity.
Qed.

(* the error case (an end marker with no block open) prints an empty line and leaves the indent at 0 *)
Lemma process_line_none line indent next : process_line line indent = (None, next) -> indent = O /\ next = O.
Proof.
  unfold process_line. destruct (trim_left is_blank line) as [|c t]; [discriminate|].
  destruct (m_block_start line) as [[name arg]|]; [discriminate|].
  destruct (m_block_end line).
  - destruct indent; [intros H; injection H as <-; auto|discriminate].
  - destruct (m_flags line); [discriminate|]. destruct (m_prefix line); [discriminate|].
    destruct (m_suffix line); [discriminate|]. destruct (m_definition line) as [[[? ?] ?]|]; [discriminate|].
    destruct (m_include line) as [[? ?]|]; [discriminate|].
    destruct (m_include_except line) as [[[? ?] ?]|]; discriminate.
Qed.

(* THE LINES OF A FILE: laying out the laid-out lines (indentation stripped again, as the
   formatter's parser does) gives the same lines *)
Theorem process_lines_idempotent_partial ls : forall indent,
  Forall (fun l => trim_left is_blank l = l /\ not_a_file_directive l) ls ->
  process_lines (map (trim_left is_blank) (process_lines ls indent)) indent = process_lines ls indent.
Proof.
  induction ls as [|l ls IH]; intros indent HF; [reflexivity|].
  inversion HF as [|? ? [Ht Hn] HF']; subst. cbn [process_lines].
  destruct (process_line l indent) as [[l'|] i'] eqn:E.
  - cbn [map process_lines]. rewrite (process_line_idempotent_partial _ _ _ _ Ht Hn E). f_equal. now apply IH.
  - destruct (process_line_none _ _ _ E) as [-> ->]. cbn [map process_lines].
    change (process_line (trim_left is_blank []) 0) with (Some (@nil N), 0%nat). cbn iota. f_equal. now apply IH.
Qed.

(* non-vacuity: a nested file with flags, a prefix, blocks, markers, a comment *)
Example layout_idempotent_example :
  let ls := [$"##!+ i"; $"##!^ \b"; $"##!> assemble"; $"a|b"; $"##!=>"; $"##!> cmdline unix"; $"ls@"; $"##!<"; $"##! note"; $"##!<"; $""] in
  Forall (fun l => trim_left is_blank l = l /\ not_a_file_directive l) ls /\
  process_lines ls 0 = [$"##!+ i"; $"##!^ \b"; $"##!> assemble"; $"  a|b"; $"  ##!=>"; $"  ##!> cmdline unix"; $"    ls@"; $"  ##!<"; $"  ##! note"; $"##!<"; $""].
Proof. split; [repeat (apply Forall_cons; [repeat split|]); apply Forall_nil|vm_compute; reflexivity]. Qed.
