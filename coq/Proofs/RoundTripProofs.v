(* C12: what update wrote is what compare reads back.
   For every rules file, rule id, chain offset and new operand: if update succeeds, the operand
   contains no newline, does not complete an operator marker ("@rx / "!@rx) with the text in
   front of it, and leaves the rewritten line in the same class for the locator (it still
   mentions / does not mention id:<id> and SecRule), then compare's reader returns exactly the
   new operand.  The complement of the middle condition is the recorded finding
   C12-marker-in-regex (UpdateProofs.read_after_update_refuted). *)
From Coq Require Import String.
From Verif Require Import Base.Str Base.Outcome Proofs.StrLemmas Model.Update Proofs.UpdateProofs.
Open Scope N_scope.

Lemma skipn_skipn {A} (x y : nat) (l : list A) : skipn x (skipn y l) = skipn (x + y) l.
Proof.
  revert l; induction y as [|y IH]; intros l.
  - now rewrite Nat.add_0_r.
  - replace (x + S y)%nat with (S (x + y)) by lia. destruct l as [|a l]; [now rewrite !skipn_nil|]. cbn [skipn]. apply IH.
Qed.

(* ---------- occurrences ---------- *)
Definition occ (needle s : str) (p : nat) : Prop := prefixb needle (skipn p s) = true.

Lemma occ_iff needle s p : occ needle s p <-> exists r, skipn p s = needle ++ r.
Proof. apply prefixb_true_iff. Qed.

Lemma occ_bound needle s p : needle <> [] -> occ needle s p -> (p + length needle <= length s)%nat.
Proof.
  intros Hn H. assert (length needle <> 0)%nat by (destruct needle; [congruence|discriminate]). apply occ_iff in H as [r Hr].
  assert (Hl : length (skipn p s) = (length needle + length r)%nat) by (rewrite Hr, app_length; reflexivity).
  rewrite skipn_length in Hl. lia.
Qed.

Lemma occ_app_l needle a b p : occ needle a p -> occ needle (a ++ b) p.
Proof.
  intros H. apply occ_iff in H as [r Hr]. apply occ_iff. rewrite skipn_app, Hr.
  exists (r ++ skipn (p - length a) b). now rewrite app_assoc.
Qed.

Lemma occ_app_inv needle a b p : occ needle (a ++ b) p -> (p + length needle <= length a)%nat -> occ needle a p.
Proof.
  intros H Hle. apply occ_iff in H as [r Hr]. apply occ_iff. rewrite skipn_app in Hr.
  exists (skipn (length needle) (skipn p a)).
  assert (Hlen : (length needle <= length (skipn p a))%nat) by (rewrite skipn_length; lia).
  assert (Hf : firstn (length needle) (skipn p a) = needle).
  { assert (E : firstn (length needle) (skipn p a ++ skipn (p - length a) b) = firstn (length needle) (needle ++ r)) by now rewrite Hr.
    rewrite firstn_app_exact in E. rewrite firstn_app in E.
    replace (length needle - length (skipn p a))%nat with 0%nat in E by lia.
    cbn in E. now rewrite app_nil_r in E. }
  rewrite <- Hf at 1. now rewrite firstn_skipn.
Qed.

Lemma occ_cons needle c s j : occ needle (c :: s) (S j) <-> occ needle s j.
Proof. reflexivity. Qed.

Lemma occ_nil needle j : needle <> [] -> ~ occ needle [] j.
Proof. intros Hn H. unfold occ in H. destruct j; cbn in H; destruct needle; try congruence; discriminate. Qed.

(* ---------- last_occ: the last occurrence that ends at or before the limit ---------- *)
Definition valid (needle s : str) (i limit j : nat) : Prop :=
  occ needle s j /\ (i + j + length needle <= limit)%nat.

Lemma last_occ_aux_spec needle : needle <> [] -> forall s i limit best,
  match last_occ_aux needle s i limit best with
  | Some r =>
      (best = Some r /\ forall j, ~ valid needle s i limit j) \/
      (exists j, r = (i + j)%nat /\ valid needle s i limit j /\ forall j', valid needle s i limit j' -> (j' <= j)%nat)
  | None => best = None /\ forall j, ~ valid needle s i limit j
  end.
Proof.
  intros Hn. induction s as [|c s IH]; intros i limit best.
  - cbn [last_occ_aux]. destruct needle as [|n0 needle]; [congruence|]. cbn [length Nat.eqb andb].
    assert (Hno : forall j, ~ valid (n0 :: needle) [] i limit j).
    { intros j [Ho _]. eapply occ_nil; eauto. }
    destruct best as [r|]; [left|]; split; auto.
  - cbn [last_occ_aux].
    set (cond := (prefixb needle (c :: s) && Nat.leb (i + length needle) limit)%bool).
    set (best' := if cond then Some i else best).
    specialize (IH (S i) limit best').
    assert (Hv0 : valid needle (c :: s) i limit 0 <-> cond = true).
    { unfold valid, occ, cond. cbn [skipn]. rewrite Bool.andb_true_iff, Nat.leb_le.
      replace (i + 0 + length needle)%nat with (i + length needle)%nat by lia. tauto. }
    assert (HvS : forall j, valid needle (c :: s) i limit (S j) <-> valid needle s (S i) limit j).
    { intros j. unfold valid. rewrite occ_cons. replace (i + S j)%nat with (S i + j)%nat by lia. tauto. }
    destruct (last_occ_aux needle s (S i) limit best') as [r|].
    + destruct IH as [[Hb Hnone]|(j & -> & Hvj & Hmax)].
      * unfold best' in Hb. destruct cond eqn:Ec.
        -- injection Hb as <-. right. exists 0%nat. split; [lia|]. split; [now apply Hv0|].
           intros [|j'] Hj'; [lia|]. apply HvS in Hj'. now apply Hnone in Hj'.
        -- left. split; [exact Hb|]. intros [|j] Hj.
           ++ apply Hv0 in Hj. congruence.
           ++ apply HvS in Hj. now apply Hnone in Hj.
      * right. exists (S j). split; [lia|]. split; [now apply HvS|].
        intros [|j'] Hj'; [lia|]. apply HvS in Hj'. apply Hmax in Hj'. lia.
    + destruct IH as [Hb Hnone]. unfold best' in Hb. destruct cond eqn:Ec; [discriminate|].
      split; [exact Hb|]. intros [|j] Hj.
      * apply Hv0 in Hj. congruence.
      * apply HvS in Hj. now apply Hnone in Hj.
Qed.

Lemma last_occ_some needle s limit p : needle <> [] -> last_occ needle s limit = Some p ->
  occ needle s p /\ (p + length needle <= limit)%nat /\
  forall p', occ needle s p' -> (p' + length needle <= limit)%nat -> (p' <= p)%nat.
Proof.
  intros Hn H. unfold last_occ in H. pose proof (last_occ_aux_spec needle Hn s 0 limit None) as S.
  rewrite H in S. destruct S as [[Hb _]|(j & -> & [Ho Hl] & Hmax)]; [discriminate|].
  cbn in *. split; [exact Ho|]. split; [exact Hl|]. intros p' Ho' Hl'. apply Hmax. split; auto.
Qed.

Lemma last_occ_none needle s limit : needle <> [] -> last_occ needle s limit = None ->
  forall p, occ needle s p -> ~ (p + length needle <= limit)%nat.
Proof.
  intros Hn H p Ho Hl. unfold last_occ in H. pose proof (last_occ_aux_spec needle Hn s 0 limit None) as S.
  rewrite H in S. destruct S as [_ Hnone]. apply (Hnone p). split; auto.
Qed.

Lemma last_occ_exists needle s limit p0 : needle <> [] -> occ needle s p0 -> (p0 + length needle <= limit)%nat ->
  exists p, last_occ needle s limit = Some p /\ (p0 <= p)%nat.
Proof.
  intros Hn Ho Hl. destruct (last_occ needle s limit) as [p|] eqn:E.
  - exists p. split; [reflexivity|]. apply (last_occ_some _ _ _ _ Hn E); auto.
  - exfalso. eapply last_occ_none; eauto.
Qed.

(* the last occurrence is THE occurrence p when p is valid and no valid one lies behind it *)
Lemma last_occ_is needle s limit p : needle <> [] -> occ needle s p -> (p + length needle <= limit)%nat ->
  (forall p', occ needle s p' -> (p' + length needle <= limit)%nat -> (p' <= p)%nat) ->
  last_occ needle s limit = Some p.
Proof.
  intros Hn Ho Hl Hmax. destruct (last_occ_exists _ _ _ _ Hn Ho Hl) as (p1 & E & Hge).
  destruct (last_occ_some _ _ _ _ Hn E) as (Ho1 & Hl1 & _). specialize (Hmax _ Ho1 Hl1).
  replace p with p1 by lia. exact E.
Qed.

(* ---------- the operand delimiters of a matched line ---------- *)
Lemma marker_pos_nonempty : marker_pos <> []. Proof. discriminate. Qed.
Lemma marker_neg_nonempty : marker_neg <> []. Proof. discriminate. Qed.
Lemma closing_nonempty : closing <> []. Proof. discriminate. Qed.

(* the end of group 1: the larger of the ends of the last positive / negated marker *)
Definition g1_end (line : str) (q : nat) : option nat :=
  let e1 := match last_occ marker_pos line q with Some p => Some (p + length marker_pos)%nat | None => None end in
  let e2 := match last_occ marker_neg line q with Some p => Some (p + length marker_neg)%nat | None => None end in
  match e1, e2 with
  | Some a, Some b => Some (Nat.max a b)
  | Some a, None => Some a
  | None, Some b => Some b
  | None, None => None
  end.

Lemma rx_match_unfold line :
  rx_match line =
  match last_occ closing line (length line) with
  | None => None
  | Some q =>
    match g1_end line q with
    | None => None
    | Some g1end => Some (firstn g1end line, firstn (q - g1end) (skipn g1end line), closing, skipn (q + 3) line)
    end
  end.
Proof. reflexivity. Qed.

(* group 1 ends with a marker: there is a marker m occurring in line at |g1| - |m| *)
Lemma g1_end_marker line q e : g1_end line q = Some e ->
  (e <= q)%nat /\
  exists m, (m = marker_pos \/ m = marker_neg) /\ (length m <= e)%nat /\ occ m line (e - length m).
Proof.
  unfold g1_end. intros H.
  pose proof (eq_refl : length marker_pos = 5%nat) as LP. pose proof (eq_refl : length marker_neg = 6%nat) as LN.
  rewrite LP, LN in H.
  destruct (last_occ marker_pos line q) as [p1|] eqn:E1; destruct (last_occ marker_neg line q) as [p2|] eqn:E2;
    try discriminate; injection H as <-.
  - destruct (last_occ_some _ _ _ _ marker_pos_nonempty E1) as (O1 & L1 & _).
    destruct (last_occ_some _ _ _ _ marker_neg_nonempty E2) as (O2 & L2 & _).
    rewrite LP in L1. rewrite LN in L2.
    split; [lia|]. destruct (Nat.max_spec (p1 + 5) (p2 + 6)) as [[_ ->]|[_ ->]].
    + exists marker_neg. rewrite LN. split; [now right|]. split; [lia|]. now replace (p2 + 6 - 6)%nat with p2 by lia.
    + exists marker_pos. rewrite LP. split; [now left|]. split; [lia|]. now replace (p1 + 5 - 5)%nat with p1 by lia.
  - destruct (last_occ_some _ _ _ _ marker_pos_nonempty E1) as (O1 & L1 & _). rewrite LP in L1. split; [lia|].
    exists marker_pos. rewrite LP. split; [now left|]. split; [lia|]. now replace (p1 + 5 - 5)%nat with p1 by lia.
  - destruct (last_occ_some _ _ _ _ marker_neg_nonempty E2) as (O2 & L2 & _). rewrite LN in L2. split; [lia|].
    exists marker_neg. rewrite LN. split; [now right|]. split; [lia|]. now replace (p2 + 6 - 6)%nat with p2 by lia.
Qed.

(* every marker occurrence that ends inside g1 ++ new ends inside g1 *)
Definition operand_clean (g1 new : str) : Prop :=
  forall m p, m = marker_pos \/ m = marker_neg -> occ m (g1 ++ new) p -> (p + length m <= length g1)%nat.

Lemma g1_end_rebuilt g1 new : operand_clean g1 new ->
  (exists m, (m = marker_pos \/ m = marker_neg) /\ (length m <= length g1)%nat /\ occ m g1 (length g1 - length m)) ->
  g1_end (g1 ++ new ++ closing) (length g1 + length new) = Some (length g1).
Proof.
  intros Hclean (m & Hm & Hlen & Ho).
  (* what last_occ can answer for either marker *)
  assert (Hin : forall m', m' = marker_pos \/ m' = marker_neg -> forall p,
            occ m' (g1 ++ new ++ closing) p -> (p + length m' <= length g1 + length new)%nat ->
            (p + length m' <= length g1)%nat).
  { intros m' Hm' p Hp Hl. apply (Hclean m' p Hm'). rewrite app_assoc in Hp.
    eapply occ_app_inv; eauto. rewrite app_length. lia. }
  assert (Hhere : forall m', m' = m -> m' <> [] ->
            last_occ m' (g1 ++ new ++ closing) (length g1 + length new) = Some (length g1 - length m')%nat).
  { intros m' -> Hne. apply last_occ_is; auto.
    - now apply occ_app_l.
    - lia.
    - intros p' Hp' Hl'. specialize (Hin m Hm p' Hp' Hl'). lia. }
  assert (Hother : forall m', m' = marker_pos \/ m' = marker_neg -> m' <> [] ->
            match last_occ m' (g1 ++ new ++ closing) (length g1 + length new) with
            | Some p => (p + length m' <= length g1)%nat
            | None => True
            end).
  { intros m' Hm' Hne. destruct (last_occ m' _ _) as [p|] eqn:E; auto.
    destruct (last_occ_some _ _ _ _ Hne E) as (Op & Lp & _). eapply Hin; eauto. }
  unfold g1_end. destruct Hm as [-> | ->].
  - rewrite (Hhere marker_pos eq_refl marker_pos_nonempty).
    pose proof (Hother marker_neg (or_intror eq_refl) marker_neg_nonempty) as H2.
    destruct (last_occ marker_neg _ _) as [p2|]; f_equal; lia.
  - rewrite (Hhere marker_neg eq_refl marker_neg_nonempty).
    pose proof (Hother marker_pos (or_introl eq_refl) marker_pos_nonempty) as H1.
    destruct (last_occ marker_pos _ _) as [p1|]; f_equal; lia.
Qed.

(* the matched line, taken apart *)
Lemma rx_match_parts line g1 g2 g3 rest : rx_match line = Some (g1, g2, g3, rest) ->
  g3 = closing /\ line = g1 ++ g2 ++ g3 ++ rest /\
  exists m, (m = marker_pos \/ m = marker_neg) /\ (length m <= length g1)%nat /\ occ m g1 (length g1 - length m).
Proof.
  rewrite rx_match_unfold. destruct (last_occ closing line (length line)) as [q|] eqn:Eq; [|discriminate].
  destruct (g1_end line q) as [e|] eqn:Ee; [|discriminate]. intros H. injection H as <- <- <- <-.
  destruct (last_occ_some _ _ _ _ closing_nonempty Eq) as (Oq & Lq & _).
  destruct (g1_end_marker _ _ _ Ee) as (Hle & m & Hm & Hlen & Ho).
  cbn [length] in Lq.
  assert (Hg1 : length (firstn e line) = e) by (rewrite firstn_length; lia).
  split; [reflexivity|]. split.
  - apply occ_iff in Oq as [r Hr].
    rewrite <- (firstn_skipn e line) at 1. f_equal.
    rewrite <- (firstn_skipn (q - e) (skipn e line)) at 1. f_equal.
    rewrite skipn_skipn. replace (q - e + e)%nat with q by lia. rewrite Hr.
    f_equal. replace (q + 3)%nat with (3 + q)%nat by lia. rewrite <- skipn_skipn, Hr. reflexivity.
  - exists m. rewrite Hg1. split; [exact Hm|]. split; [exact Hlen|].
    rewrite <- (firstn_skipn e line) in Ho. eapply occ_app_inv; eauto. rewrite Hg1. lia.
Qed.

(* THE LINE-LEVEL ROUND TRIP *)
Theorem rx_match_rebuilt line g1 g2 g3 rest new :
  rx_match line = Some (g1, g2, g3, rest) -> operand_clean g1 new ->
  rx_match (g1 ++ new ++ g3) = Some (g1, new, g3, []).
Proof.
  intros H Hclean. destruct (rx_match_parts _ _ _ _ _ H) as (-> & _ & Hm).
  rewrite rx_match_unfold.
  assert (Hq : last_occ closing (g1 ++ new ++ closing) (length (g1 ++ new ++ closing)) = Some (length g1 + length new)%nat).
  { apply last_occ_is.
    - discriminate.
    - unfold occ. rewrite app_assoc, <- app_length, skipn_app_exact. reflexivity.
    - rewrite !app_length. lia.
    - intros p' _ Hl. rewrite !app_length in Hl. lia. }
  rewrite Hq. rewrite (g1_end_rebuilt g1 new Hclean Hm).
  rewrite firstn_app_exact, skipn_app_exact.
  replace (length g1 + length new - length g1)%nat with (length new) by lia.
  rewrite firstn_app_exact. f_equal. f_equal.
  rewrite app_assoc. replace (length g1 + length new + 3)%nat with (length ((g1 ++ new) ++ closing)) by (rewrite !app_length; reflexivity).
  apply skipn_all.
Qed.

(* ---------- the file level ---------- *)
(* what the locator looks at in a line *)
Definition same_class (idpat a b : str) : Prop :=
  contains idpat a = contains idpat b /\ sec_rule_line a = sec_rule_line b.

Lemma locate_aux_class idpat k : forall ls1 ls2 i found count,
  Forall2 (same_class idpat) ls1 ls2 ->
  locate_aux ls1 idpat k i found count = locate_aux ls2 idpat k i found count.
Proof.
  induction ls1 as [|a ls1 IH]; intros ls2 i found count HF; inversion HF as [|? b ? ls2' [Hc Hs] HF']; subst; [reflexivity|].
  cbn [locate_aux]. rewrite Hc, Hs.
  destruct (negb found && contains idpat b)%bool.
  - destruct (k =? 0); [reflexivity|]. now apply IH.
  - destruct (found && (_ =? k))%bool; [reflexivity|]. now apply IH.
Qed.

Lemma scan_all_class idpat : forall ls1 ls2 found count,
  Forall2 (same_class idpat) ls1 ls2 -> scan_all ls1 idpat found count = scan_all ls2 idpat found count.
Proof.
  induction ls1 as [|a ls1 IH]; intros ls2 found count HF; inversion HF as [|? b ? ls2' [Hc Hs] HF']; subst; [reflexivity|].
  cbn [scan_all]. rewrite Hc, Hs. destruct (negb found && contains idpat b)%bool; now apply IH.
Qed.

Lemma Forall2_len {A B} (R : A -> B -> Prop) l1 l2 : Forall2 R l1 l2 -> length l1 = length l2.
Proof. induction 1; cbn; congruence. Qed.

Lemma locate_class ls1 ls2 id k :
  Forall2 (same_class ($"id:" ++ id)) ls1 ls2 -> locate ls1 id k = locate ls2 id k.
Proof.
  intros HF. unfold locate. rewrite (locate_aux_class _ _ _ _ _ _ _ HF), (scan_all_class _ _ _ _ _ HF).
  now rewrite (Forall2_len _ _ _ HF).
Qed.

Lemma same_class_set_nth idpat i l' : forall ls,
  same_class idpat (nth i ls []) l' -> (i < length ls)%nat -> Forall2 (same_class idpat) ls (set_nth i l' ls).
Proof.
  revert i. assert (Hrefl : forall ls, Forall2 (same_class idpat) ls ls).
  { induction ls; constructor; auto. split; reflexivity. }
  intros i ls. revert i. induction ls as [|x ls IH]; intros [|i] Hc Hl; cbn in *; try lia.
  - constructor; auto.
  - constructor; [split; reflexivity|]. apply IH; auto. lia.
Qed.

(* split after join gives the lines back when no line contains the separator *)
Lemma split_on_no_sep sep s : Forall (fun l => ~ In sep l) (split_on sep s).
Proof.
  induction s as [|c s IH]; [constructor; [tauto|constructor]|].
  rewrite split_on_cons. destruct (N.eqb_spec c sep) as [->|Hne].
  - constructor; [tauto|exact IH].
  - destruct (split_on sep s) as [|p ps]; [constructor; [|constructor]; intros [H|[]]; congruence|].
    inversion IH as [|? ? Hp Hps]; subst. constructor; [|exact Hps]. intros [H|H]; [congruence|tauto].
Qed.

Lemma split_on_line l : ~ In 10 l -> split_on 10 l = [l].
Proof.
  induction l as [|c l IH]; intro H; [reflexivity|]. rewrite split_on_cons.
  destruct (N.eqb_spec c 10) as [->|Hne]; [exfalso; apply H; now left|].
  rewrite IH; [reflexivity|]. intro Hin. apply H. now right.
Qed.

Lemma split_on_app_sep l s : ~ In 10 l -> split_on 10 (l ++ [10] ++ s) = l :: split_on 10 s.
Proof.
  induction l as [|c l IH]; intro H.
  - cbn [app]. rewrite split_on_cons. reflexivity.
  - cbn [app]. rewrite split_on_cons. destruct (N.eqb_spec c 10) as [->|Hne]; [exfalso; apply H; now left|].
    change (l ++ 10 :: s) with (l ++ [10] ++ s). rewrite IH; [reflexivity|]. intro Hin. apply H. now right.
Qed.

Lemma split_join_lines ls : ls <> [] -> Forall (fun l => ~ In 10 l) ls -> split_on 10 (join [10] ls) = ls.
Proof.
  induction ls as [|l ls IH]; [congruence|]. intros _ HF. inversion HF as [|? ? Hl HF']; subst.
  destruct ls as [|l2 ls].
  - cbn [join]. now apply split_on_line.
  - change (join [10] (l :: l2 :: ls)) with (l ++ [10] ++ join [10] (l2 :: ls)).
    rewrite split_on_app_sep; auto. f_equal. apply IH; [discriminate|exact HF'].
Qed.

Lemma Forall_set_nth (P : list N -> Prop) i l' : forall ls, Forall P ls -> P l' -> Forall P (set_nth i l' ls).
Proof.
  revert i. intros i ls. revert i. induction ls as [|x ls IH]; intros [|i] HF Hl; cbn; auto;
    inversion HF; subst; constructor; auto.
Qed.

Lemma set_nth_nonempty i l' ls : ls <> [] -> set_nth i l' ls <> [].
Proof. destruct ls; [congruence|]. destruct i; discriminate. Qed.

Lemma nth_Forall {A} (P : A -> Prop) ls i d : Forall P ls -> (i < length ls)%nat -> P (nth i ls d).
Proof. revert i; induction ls as [|x ls IH]; intros [|i] HF Hl; cbn in *; try lia; inversion HF; subst; auto. apply IH; auto. lia. Qed.

(* the located index is inside the file *)
Lemma locate_aux_bound idpat k : forall ls i found count f c j,
  locate_aux ls idpat k i found count = Some (f, c, Some j) -> (j < i + length ls)%nat.
Proof.
  induction ls as [|a ls IH]; intros i found count f c j H; cbn [locate_aux] in H; [discriminate|].
  destruct (negb found && contains idpat a)%bool.
  - destruct (k =? 0).
    + destruct i as [|i']; [discriminate|]. injection H as _ _ <-. cbn [length]. lia.
    + apply IH in H. cbn [length]. lia.
  - match type of H with (if ?b then _ else _) = _ => destruct b end.
    + injection H as _ _ <-. cbn [length]. lia.
    + apply IH in H. cbn [length]. lia.
Qed.

Lemma locate_bound ls id k i : ls <> [] -> locate ls id k = Ok (Some i) -> (i < length ls)%nat.
Proof.
  intros Hne H. unfold locate in H.
  destruct (locate_aux ls ($"id:" ++ id) k 0 false 0) as [[[f c] idx]|] eqn:E.
  - injection H as ->. apply locate_aux_bound in E. lia.
  - destruct (scan_all ls ($"id:" ++ id) false 0) as [found count].
    destruct (found && (count =? k))%bool; [|discriminate]. injection H as <-.
    destruct ls; [congruence|]. cbn [length]. lia.
Qed.

(* THE ROUND TRIP *)
Theorem read_after_update contents id k new out :
  update_contents contents id k new = Ok out ->
  ~ In 10 new ->
  (forall i g1 g2 g3 rest,
     locate (split_on 10 contents) id k = Ok (Some i) ->
     rx_match (nth i (split_on 10 contents) []) = Some (g1, g2, g3, rest) ->
     operand_clean g1 new /\
     same_class ($"id:" ++ id) (nth i (split_on 10 contents) []) (g1 ++ new ++ g3)) ->
  read_current out id k = Ok new.
Proof.
  intros Hu Hnl Hcond. destruct (update_frame _ _ _ _ _ Hu) as (i & g1 & g2 & g3 & rest & Hloc & Hrx & ->).
  destruct (Hcond _ _ _ _ _ Hloc Hrx) as [Hclean Hclass].
  set (lines := split_on 10 contents) in *.
  assert (Hne : lines <> []) by apply split_on_nonempty.
  assert (Hi : (i < length lines)%nat) by (eapply locate_bound; eauto).
  destruct (rx_match_parts _ _ _ _ _ Hrx) as (Hg3 & Hline & _).
  assert (Hold : ~ In 10 (nth i lines [])) by (apply (nth_Forall (fun l => ~ In 10 l)); [apply split_on_no_sep|exact Hi]).
  assert (Hnew : ~ In 10 (g1 ++ new ++ g3)).
  { rewrite Hline in Hold. intro Hin. apply in_app_or in Hin as [Hin|Hin].
    - apply Hold. apply in_or_app. now left.
    - apply in_app_or in Hin as [Hin|Hin]; [now apply Hnl|].
      apply Hold. apply in_or_app. right. apply in_or_app. right. apply in_or_app. now left. }
  unfold read_current.
  rewrite split_join_lines.
  - rewrite <- (locate_class lines); [|apply same_class_set_nth; auto]. fold lines. rewrite Hloc. cbn [bind].
    rewrite set_nth_same; [|exact Hi]. rewrite (rx_match_rebuilt _ _ _ _ _ new Hrx Hclean). reflexivity.
  - now apply set_nth_nonempty.
  - apply Forall_set_nth; [apply split_on_no_sep|exact Hnew].
Qed.

(* and compare's verdict on it is "unchanged" exactly when the generated regex is the new operand *)
Corollary compare_after_update contents id k new out generated :
  update_contents contents id k new = Ok out -> ~ In 10 new ->
  (forall i g1 g2 g3 rest,
     locate (split_on 10 contents) id k = Ok (Some i) ->
     rx_match (nth i (split_on 10 contents) []) = Some (g1, g2, g3, rest) ->
     operand_clean g1 new /\
     same_class ($"id:" ++ id) (nth i (split_on 10 contents) []) (g1 ++ new ++ g3)) ->
  exists cur, read_current out id k = Ok cur /\ (unchanged cur generated = true <-> generated = new).
Proof.
  intros Hu Hnl Hc. exists new. split; [eapply read_after_update; eauto|].
  rewrite unchanged_iff. split; congruence.
Qed.

(* ---------- a sufficient condition on the operand alone ----------
   Group 1 always ends with the space of its marker; a marker cannot straddle that space (its
   only space is its last character).  So it is enough that neither marker occurs INSIDE the new
   operand. *)
Lemma nth_skipn_add {A} (s : list A) p j d : nth j (skipn p s) d = nth (p + j) s d.
Proof.
  revert s; induction p as [|p IH]; intros s; [reflexivity|].
  destruct s as [|a s]; [destruct j; reflexivity|]. cbn [skipn Nat.add nth]. apply IH.
Qed.

Lemma occ_nth m s p j : occ m s p -> (j < length m)%nat -> nth (p + j) s 0 = nth j m 0.
Proof.
  intros H Hj. apply occ_iff in H as [r Hr]. rewrite <- nth_skipn_add, Hr. now apply app_nth1.
Qed.

Lemma marker_inner_not_space m j : m = marker_pos \/ m = marker_neg -> (S j < length m)%nat -> nth j m 0 <> 32.
Proof.
  intros [-> | ->] Hj; cbn in Hj.
  - destruct j as [|[|[|[|j]]]]; cbn; try discriminate; lia.
  - destruct j as [|[|[|[|[|j]]]]]; cbn; try discriminate; lia.
Qed.

Theorem operand_clean_when_no_marker_inside g new :
  (forall p, ~ occ marker_pos new p) -> (forall p, ~ occ marker_neg new p) ->
  operand_clean (g ++ [32]) new.
Proof.
  intros Hp Hn m p Hm Ho.
  destruct (Nat.le_gt_cases (p + length m) (length (g ++ [32]))) as [Hle|Hgt]; [exact Hle|exfalso].
  assert (Hmn : m <> []) by (destruct Hm as [-> | ->]; discriminate).
  destruct (Nat.le_gt_cases (length (g ++ [32])) p) as [Hin|Hstr].
  - (* the whole occurrence lies in the new operand *)
    assert (Ho' : occ m new (p - length (g ++ [32]))).
    { unfold occ in *. rewrite skipn_app in Ho. rewrite skipn_all2 in Ho by lia. exact Ho. }
    destruct Hm as [-> | ->]; [eapply Hp|eapply Hn]; eauto.
  - (* it straddles the space *)
    set (j := (length (g ++ [32%N]) - 1 - p)%nat).
    assert (Hj : (S j < length m)%nat) by (unfold j; lia).
    assert (Hjl : (j < length m)%nat) by lia.
    pose proof (occ_nth _ _ _ _ Ho Hjl) as Hc.
    replace (p + j)%nat with (length g) in Hc by (unfold j; rewrite app_length; cbn [length]; rewrite app_length in Hstr; cbn [length] in Hstr; lia).
    rewrite <- app_assoc in Hc. rewrite app_nth2 in Hc by lia. rewrite Nat.sub_diag in Hc. cbn in Hc.
    symmetry in Hc. now apply (marker_inner_not_space m j Hm Hj).
Qed.

(* group 1 of a matched line does end with that space *)
Lemma g1_ends_with_space line g1 g2 g3 rest : rx_match line = Some (g1, g2, g3, rest) -> exists g, g1 = g ++ [32].
Proof.
  intros H. destruct (rx_match_parts _ _ _ _ _ H) as (_ & _ & m & Hm & Hlen & Ho).
  apply occ_iff in Ho as [r Hr].
  assert (Hr0 : r = []).
  { assert (E : length (skipn (length g1 - length m) g1) = (length m + length r)%nat) by (rewrite Hr, app_length; reflexivity).
    rewrite skipn_length in E. destruct r; [reflexivity|]. cbn [length] in E. lia. }
  subst r. rewrite app_nil_r in Hr.
  exists (firstn (length g1 - length m) g1 ++ removelast m).
  rewrite <- app_assoc.
  assert (Hm32 : removelast m ++ [32] = m) by (destruct Hm as [-> | ->]; reflexivity).
  rewrite Hm32. pose proof (firstn_skipn (length g1 - length m) g1) as E. rewrite Hr in E. now symmetry.
Qed.

(* non-vacuity: a real rules file, a real operand *)
Example read_after_update_example :
  exists out, update_contents rules_unchained $"942100" 0 $"(?i)a+""b" = Ok out /\
              read_current out $"942100" 0 = Ok $"(?i)a+""b".
Proof. eexists. split; vm_compute; reflexivity. Qed.
