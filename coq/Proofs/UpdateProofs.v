From Coq Require Import String.
From Verif Require Import Base.Str Base.Outcome Proofs.StrLemmas Model.Update.
Open Scope N_scope.

(* splitting on "\n" and joining again preserves every byte: CR, final newline
   or its absence *)
Lemma split_on_cons sep c s :
  split_on sep (c :: s) =
  if c =? sep then [] :: split_on sep s
  else match split_on sep s with [] => [[c]] | p :: ps => (c :: p) :: ps end.
Proof. reflexivity. Qed.

Lemma split_on_nonempty sep s : split_on sep s <> [].
Proof. induction s as [|c s IH]; cbn; [discriminate|]. destruct (c =? sep); [discriminate|]. destruct (split_on sep s); discriminate. Qed.

Theorem split_join s : join [10] (split_on 10 s) = s.
Proof.
  induction s as [|c s IH]; [reflexivity|].
  rewrite split_on_cons. destruct (N.eqb_spec c 10) as [->|Hne].
  - pose proof (split_on_nonempty 10 s) as Hn. destruct (split_on 10 s) as [|p ps] eqn:E; [congruence|].
    cbn [join app]. rewrite <- IH. reflexivity.
  - pose proof (split_on_nonempty 10 s) as Hn. destruct (split_on 10 s) as [|p ps] eqn:E; [congruence|].
    rewrite <- IH. destruct ps; reflexivity.
Qed.

Lemma set_nth_length i l ls : length (set_nth i l ls) = length ls.
Proof. revert i; induction ls as [|x ls IH]; intros [|i]; cbn; auto. Qed.

Lemma set_nth_other i j l ls d : i <> j -> nth j (set_nth i l ls) d = nth j ls d.
Proof.
  revert i j; induction ls as [|x ls IH]; intros [|i] [|j] H; cbn; auto; try congruence.
Qed.

Lemma set_nth_same i l ls d : (i < length ls)%nat -> nth i (set_nth i l ls) d = l.
Proof. revert i; induction ls as [|x ls IH]; intros [|i] H; cbn in *; auto; try lia. apply IH. lia. Qed.

(* update rewrites one line and nothing else: same number of lines, every line
   other than the located one identical, and the located line is
   group1 ++ new ++ group3 of its own RuleRxRegex match *)
Theorem update_frame contents id k new out :
  update_contents contents id k new = Ok out ->
  exists i g1 g2 g3 rest,
    locate (split_on 10 contents) id k = Ok (Some i) /\
    rx_match (nth i (split_on 10 contents) []) = Some (g1, g2, g3, rest) /\
    out = join [10] (set_nth i (g1 ++ new ++ g3) (split_on 10 contents)).
Proof.
  unfold update_contents. destruct (locate (split_on 10 contents) id k) as [[i|]| |] eqn:El; cbn [bind]; try discriminate.
  destruct (rx_match (nth i (split_on 10 contents) [])) as [[[[g1 g2] g3] rest]|] eqn:Er; [|discriminate].
  intros H; injection H as <-. exists i, g1, g2, g3, rest. auto.
Qed.

(* --- statements the faithful model refutes (known findings) --- *)
Definition rules_unchained : str := $"SecRule ARGS ""@rx old1"" \
    ""id:942100,\
    severity:'CRITICAL'""
SecRule ARGS ""@rx old2"" \
    ""id:942110,\
    severity:'CRITICAL'""
".
(* C11: a chain offset beyond the chain rewrites the next, unrelated rule (C11-chain-beyond) *)
Theorem update_only_addressed_rule_refuted :
  update_contents rules_unchained $"942100" 1 $"NEW" = Ok ($"SecRule ARGS ""@rx old1"" \
    ""id:942100,\
    severity:'CRITICAL'""
SecRule ARGS ""@rx NEW"" \
    ""id:942110,\
    severity:'CRITICAL'""
").
Proof. vm_compute. reflexivity. Qed.

(* C11: what follows the line continuation on the rewritten line (CR, blanks) is dropped *)
Theorem update_keeps_line_ending_refuted :
  update_contents ($"SecRule ARGS ""@rx old"" \" ++ [13; 10] ++ $"    ""id:942100""" ++ [13; 10]) $"942100" 0 $"NEW"
  = Ok ($"SecRule ARGS ""@rx NEW"" \" ++ [10] ++ $"    ""id:942100""" ++ [13; 10]).
Proof. vm_compute. reflexivity. Qed.

(* C12: a regex containing the operator marker is not read back (C12-marker-in-regex) *)
Theorem read_after_update_refuted :
  exists out, update_contents rules_unchained $"942100" 0 $"\""@rx x" = Ok out /\
              read_current out $"942100" 0 = Ok $"x".
Proof. eexists. split; vm_compute; reflexivity. Qed.

(* compare verdict is plain byte equality *)
Theorem unchanged_iff a b : unchanged a b = true <-> a = b.
Proof. apply str_eqb_eq. Qed.
