(* C09 / C10: the include directive line.  `##!> include FILE[ -- PAIRS]` as format prints it is
   read back with the same file and pairs, so the printed line is a fixed point of processLine. *)
From Coq Require Import String Lia.
From Verif Require Import Base.Str Base.Lines Base.Outcome Model.Patterns Model.ParseLine Model.Format
  Proofs.StrLemmas Proofs.FormatProofs Proofs.FormatIdemProofs Proofs.FormatDefLineProofs.
Open Scope N_scope.

Definition pairs_tail_print (pairs : str) : str := match pairs with [] => [] | _ => $" -- " ++ pairs end.
Definition inc_print (f pairs : str) : str := $"##!> include " ++ f ++ pairs_tail_print pairs.

(* a captured pair list has no white space at either end *)
Definition tight (g : str) : Prop := skip_ws g = g /\ rtrim_ws g = g.

Lemma tight_nil : tight []. Proof. split; reflexivity. Qed.

Lemma pairs_tail_tight r g : pairs_tail r = Some g -> tight g.
Proof.
  unfold pairs_tail. destruct (lit $"--" (skip_ws r)) as [x|].
  - intro H. injection H as <-. split.
    + unfold skip_ws, rtrim_ws. apply drop_while_none. apply trim_right_stops. apply drop_while_stops.
    + unfold rtrim_ws. apply trim_right_idem.
  - destruct (all_ws r); [|discriminate]. intro H. injection H as <-. apply tight_nil.
Qed.

Lemma first_run_split_parts : forall run_rev rest a g,
  forallb nsp run_rev = true -> first_run_split run_rev rest = Some (a, g) ->
  a <> [] /\ forallb nsp a = true /\ tight g.
Proof.
  induction run_rev as [|c rr IH]; intros rest a g Hn H; cbn [first_run_split] in H; [discriminate|].
  destruct (pairs_tail rest) as [g2|] eqn:Ep.
  - injection H as <- <-. repeat split.
    + intro E. apply (f_equal (@length N)) in E. rewrite rv_length in E. discriminate.
    + rewrite rv_rev, forallb_forall. intros x Hx. apply in_rev in Hx. rewrite forallb_forall in Hn. now apply Hn.
    + apply (pairs_tail_tight _ _ Ep).
    + apply (pairs_tail_tight _ _ Ep).
  - cbn [forallb] in Hn. apply andb_true_iff in Hn as [_ Hn]. eapply IH; eauto.
Qed.

Lemma include_parts line f pairs : m_include line = Some (f, pairs) ->
  f <> [] /\ forallb nsp f = true /\ tight pairs.
Proof.
  unfold m_include, include_here. destruct (lit $"##!>" line) as [s1|]; [|discriminate].
  destruct (lit $"include" (skip_ws s1)) as [s2|]; [|discriminate].
  destruct (Nat.eqb _ _); [discriminate|]. intro H.
  apply (first_run_split_parts _ _ _ _) in H; auto.
  rewrite rv_rev, forallb_forall. intros x Hx. apply in_rev in Hx.
  pose proof (take_while_all nsp (skip_ws s2)) as Ha. rewrite forallb_forall in Ha. now apply Ha.
Qed.

Lemma include_head line f pairs : m_include line = Some (f, pairs) ->
  exists s1 r, line = $"##!>" ++ s1 /\ skip_ws s1 = $"include" ++ r /\ skip_ws r <> r.
Proof.
  unfold m_include, include_here. destruct (lit $"##!>" line) as [s1|] eqn:E1; [|discriminate].
  destruct (lit $"include" (skip_ws s1)) as [s2|] eqn:E2; [|discriminate].
  destruct (Nat.eqb (length (skip_ws s2)) (length s2)) eqn:El; [discriminate|]. intros _.
  destruct (lit_inv _ _ _ E1) as [r' ->]. rewrite lit_app in E1. injection E1 as <-.
  destruct (lit_inv _ _ _ E2) as [r2 Hr2]. rewrite Hr2, lit_app in E2. injection E2 as <-.
  exists r', r2. split; [reflexivity|]. split; [exact Hr2|].
  intro E. rewrite E in El. now rewrite Nat.eqb_refl in El.
Qed.

Lemma nsp_sp c : nsp c = true -> sp c = false.
Proof. unfold nsp, sp. now destruct (is_rxspace c). Qed.

Lemma tight_starts g c r : tight g -> g = c :: r -> sp c = false.
Proof.
  intros [Hs _] ->. unfold skip_ws in Hs. cbn [drop_while] in Hs. destruct (sp c) eqn:E; auto.
  exfalso. pose proof (f_equal (@length N) Hs) as Hl. cbn [length] in Hl.
  assert (Hle : forall s, (length (drop_while sp s) <= length s)%nat).
  { induction s as [|x s IHs]; cbn; auto. destruct (sp x); cbn; lia. }
  specialize (Hle r). lia.
Qed.

Lemma inc_print_reads f pairs : f <> [] -> forallb nsp f = true -> tight pairs ->
  m_include (inc_print f pairs) = Some (f, pairs).
Proof.
  intros Hf Hfn Ht. unfold inc_print.
  change ($"##!> include " ++ f ++ pairs_tail_print pairs) with ($"##!>" ++ 32 :: ($"include" ++ 32 :: (f ++ pairs_tail_print pairs))).
  unfold m_include, include_here. rewrite lit_app.
  change (skip_ws (32 :: $"include" ++ 32 :: f ++ pairs_tail_print pairs)) with ($"include" ++ 32 :: (f ++ pairs_tail_print pairs)).
  rewrite lit_app.
  destruct f as [|f0 fr]; [congruence|]. cbn [forallb] in Hfn. apply andb_true_iff in Hfn as [Hf0 Hfr].
  assert (Hs3 : skip_ws (32 :: (f0 :: fr) ++ pairs_tail_print pairs) = (f0 :: fr) ++ pairs_tail_print pairs).
  { unfold skip_ws. cbn [drop_while app]. change (sp 32) with true. cbn iota. now rewrite (nsp_sp _ Hf0). }
  rewrite Hs3.
  replace (Nat.eqb (length ((f0 :: fr) ++ pairs_tail_print pairs)) (length (32 :: (f0 :: fr) ++ pairs_tail_print pairs))) with false
    by (symmetry; apply Nat.eqb_neq; cbn [length]; lia).
  assert (Hstop : stops nsp (pairs_tail_print pairs)) by (destruct pairs; [exact I|reflexivity]).
  rewrite (take_while_app_stop nsp (f0 :: fr) _) by (auto; cbn [forallb]; now rewrite Hf0, Hfr).
  rewrite (drop_while_app_stop nsp (f0 :: fr) _) by (auto; cbn [forallb]; now rewrite Hf0, Hfr).
  (* the whole run is tried first and its remainder satisfies the tail *)
  assert (Hpt : pairs_tail (pairs_tail_print pairs) = Some pairs).
  { destruct pairs as [|p0 pr] eqn:Ep; [reflexivity|].
    unfold pairs_tail_print. change ($" -- " ++ p0 :: pr) with (32 :: $"--" ++ 32 :: p0 :: pr).
    unfold pairs_tail. change (skip_ws (32 :: $"--" ++ 32 :: p0 :: pr)) with ($"--" ++ 32 :: p0 :: pr). rewrite lit_app.
    assert (Hp0 : sp p0 = false) by (eapply tight_starts; eauto).
    assert (Hsk : skip_ws (32 :: p0 :: pr) = p0 :: pr).
    { unfold skip_ws. cbn [drop_while]. change (sp 32) with true. cbn iota. now rewrite Hp0. }
    rewrite Hsk. destruct Ht as [_ Hr]. now rewrite Hr. }
  destruct (rv (f0 :: fr)) as [|c rr] eqn:Erv.
  { apply (f_equal (@length N)) in Erv. rewrite rv_length in Erv. discriminate. }
  cbn [first_run_split]. rewrite Hpt. rewrite <- Erv, rv_involutive. reflexivity.
Qed.

Lemma include_not_other line f pairs : m_include line = Some (f, pairs) ->
  m_block_start line = None /\ m_block_end line = false /\ m_flags line = None /\ m_prefix line = None /\
  m_suffix line = None /\ m_definition line = None /\ m_include_except line = None.
Proof.
  intro H. destruct (include_head _ _ _ H) as (s1 & r & -> & Hs & Hr).
  repeat split; try reflexivity.
  - unfold m_block_start. rewrite lit_app, Hs. reflexivity.
  - unfold m_definition. rewrite lit_app, Hs. reflexivity.
  - unfold m_include_except. rewrite lit_app, Hs.
    change (lit $"include-except" ($"include" ++ r)) with (lit $"-except" r).
    destruct (lit $"-except" r) as [s2|] eqn:E; [|reflexivity].
    exfalso. apply Hr. destruct (lit_inv _ _ _ E) as [r' ->]. reflexivity.
Qed.

Lemma inc_line_again f pairs indent : f <> [] -> forallb nsp f = true -> tight pairs ->
  process_line (inc_print f pairs) indent = (Some (spaces (indent * 2) ++ inc_print f pairs), indent).
Proof.
  intros Hf Hfn Ht. pose proof (inc_print_reads f pairs Hf Hfn Ht) as Hi.
  destruct (include_not_other _ _ _ Hi) as (Hb & He & Hfl & Hp & Hs & Hd & _).
  unfold process_line. change (trim_left is_blank (inc_print f pairs)) with (inc_print f pairs).
  rewrite Hb, He, Hfl, Hp, Hs, Hd, Hi.
  unfold inc_print at 1. destruct pairs; reflexivity.
Qed.

Theorem process_line_idempotent_include line indent out next f pairs :
  trim_left is_blank line = line ->
  m_include line = Some (f, pairs) ->
  process_line line indent = (Some out, next) ->
  process_line (trim_left is_blank out) indent = (Some out, next).
Proof.
  intros Htrim Hi H. destruct (include_parts _ _ _ Hi) as (Hf & Hfn & Ht).
  destruct (include_not_other _ _ _ Hi) as (Hb & He & Hfl & Hp & Hs & Hd & _).
  unfold process_line in H. rewrite Htrim in H.
  destruct line as [|c0 l0] eqn:El; [discriminate|]. rewrite <- El in *.
  rewrite Hb, He, Hfl, Hp, Hs, Hd, Hi in H. injection H as <- <-.
  change (process_line (trim_left is_blank (spaces (indent * 2) ++ inc_print f pairs)) indent =
          (Some (spaces (indent * 2) ++ inc_print f pairs), indent)).
  assert (Hnb : starts_nonblank (inc_print f pairs)) by reflexivity.
  rewrite (trim_spaces _ _ Hnb). now apply inc_line_again.
Qed.

(* ---------- everything except include-except directives ---------- *)
Theorem process_line_idempotent_but_include_except line indent out next :
  trim_left is_blank line = line -> m_include_except line = None ->
  process_line line indent = (Some out, next) ->
  process_line (trim_left is_blank out) indent = (Some out, next).
Proof.
  intros Htrim Hx H. destruct (m_include line) as [[f pairs]|] eqn:Ei.
  - eapply process_line_idempotent_include; eauto.
  - apply (process_line_idempotent_but_includes line); auto. split; auto.
Qed.

Theorem process_lines_idempotent_but_include_except ls : forall indent,
  Forall (fun l => trim_left is_blank l = l /\ m_include_except l = None) ls ->
  process_lines (map (trim_left is_blank) (process_lines ls indent)) indent = process_lines ls indent.
Proof.
  induction ls as [|l ls IH]; intros indent HF; [reflexivity|].
  inversion HF as [|? ? [Ht Hn] HF']; subst. cbn [process_lines].
  destruct (process_line l indent) as [[l'|] i'] eqn:E.
  - cbn [map process_lines]. rewrite (process_line_idempotent_but_include_except _ _ _ _ Ht Hn E). f_equal. now apply IH.
  - destruct (process_line_none _ _ _ E) as [-> ->]. cbn [map process_lines].
    change (process_line (trim_left is_blank []) 0) with (Some (@nil N), 0%nat). cbn iota. f_equal. now apply IH.
Qed.

(* C10: the formatted include line names the same file with the same pairs and is read by no other
   directive pattern - exactly as the original *)
Theorem format_keeps_include line indent out next f pairs :
  trim_left is_blank line = line -> m_include line = Some (f, pairs) ->
  process_line line indent = (Some out, next) ->
  same_reading (trim_left is_blank out) line.
Proof.
  intros Htrim Hi H. destruct (include_parts _ _ _ Hi) as (Hf & Hfn & Ht).
  destruct (include_not_other _ _ _ Hi) as (Hb & He & Hfl & Hp & Hs & Hd & Hx).
  unfold process_line in H. rewrite Htrim in H.
  destruct line as [|c0 l0] eqn:El; [discriminate|]. rewrite <- El in *.
  rewrite Hb, He, Hfl, Hp, Hs, Hd, Hi in H. injection H as <- <-.
  change (same_reading (trim_left is_blank (spaces (indent * 2) ++ inc_print f pairs)) line).
  assert (Hnb : starts_nonblank (inc_print f pairs)) by reflexivity.
  rewrite (trim_spaces _ _ Hnb).
  pose proof (inc_print_reads f pairs Hf Hfn Ht) as Hi'.
  destruct (include_not_other _ _ _ Hi') as (Hb' & He' & Hfl' & Hp' & Hs' & Hd' & Hx').
  constructor; [rewrite Hb, Hb'|rewrite He, He'|rewrite Hfl, Hfl'|rewrite Hp, Hp'|rewrite Hs, Hs'|rewrite Hd, Hd'|rewrite Hi, Hi'|rewrite Hx, Hx']; reflexivity.
Qed.

(* non-vacuity *)
Example include_line_example :
  process_line $"##!>  include   words-1.ra   --   @   [\s<>]  ~  x  " 1 = (Some $"  ##!> include words-1.ra -- @   [\s<>]  ~  x", 1%nat) /\
  m_include $"##!>  include   words-1.ra   --   @   [\s<>]  ~  x  " = Some ($"words-1.ra", $"@   [\s<>]  ~  x") /\
  m_include $"##!> include words-1.ra -- @   [\s<>]  ~  x" = Some ($"words-1.ra", $"@   [\s<>]  ~  x").
Proof. repeat split; vm_compute; reflexivity. Qed.
