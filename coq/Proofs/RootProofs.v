From Coq Require Import String.
From Verif Require Import Base.Str Proofs.StrLemmas Model.Root.
Open Scope nat_scope.

(* non-empty suffixes of the reversed path = ancestors-or-self below "/",
   nearest first *)
Fixpoint tails_ne {A} (l : list A) : list (list A) :=
  match l with [] => [] | _ :: l' => l :: tails_ne l' end.

Definition ancestors (start : path) : list path := map rv (tails_ne (rv start)).

Definition has_ra (has : path -> bool) (d : path) : bool := has (d ++ [ra_name]).

(* findRootDirectory = first hit in the nearest-first list of ancestors *)
Lemma find_root_is_find has start :
  find_root has start = find (has_ra has) (ancestors start).
Proof.
  unfold find_root, ancestors, has_ra. generalize (rv start) as rp.
  induction rp as [|c rp IH]; [reflexivity|].
  cbn [find_root_rev tails_ne map find].
  destruct (has (rv (c :: rp) ++ [ra_name])); auto.
Qed.

Lemma tails_ne_spec {A} (l t : list A) : In t (tails_ne l) <-> t <> [] /\ exists h, l = h ++ t.
Proof.
  induction l as [|c l IH]; cbn [tails_ne In].
  - split; [tauto|]. intros [Hne [h Hh]]. symmetry in Hh. apply app_eq_nil in Hh. tauto.
  - rewrite IH. split.
    + intros [<-|[Hne [h ->]]].
      * split; [discriminate|]. now exists [].
      * split; auto. now exists (c :: h).
    + intros [Hne [h Hh]]. destruct h as [|x h]; cbn in Hh.
      * left. auto.
      * right. inversion Hh; subst. split; eauto.
Qed.

(* the candidates are exactly the non-root ancestors-or-self of the start directory *)
Lemma ancestors_spec start d :
  In d (ancestors start) <-> d <> [] /\ exists rest, start = d ++ rest.
Proof.
  unfold ancestors. rewrite in_map_iff. split.
  - intros (t & <- & Ht). apply tails_ne_spec in Ht as [Hne [h Hh]]. split.
    + intro E. apply Hne. rewrite <- (rv_involutive t), E. reflexivity.
    + exists (rv h). rewrite <- (rv_involutive start), Hh, rv_app. reflexivity.
  - intros [Hne [rest ->]]. exists (rv d). split; [apply rv_involutive|].
    apply tails_ne_spec. split.
    + intro E. apply Hne. rewrite <- (rv_involutive d), E. reflexivity.
    + exists (rv rest). apply rv_app.
Qed.

Lemma tails_ne_lengths {A} (l : list A) l1 t l2 :
  tails_ne l = l1 ++ t :: l2 ->
  (forall t', In t' l1 -> length t < length t') /\ (forall t', In t' l2 -> length t' < length t).
Proof.
  revert l1; induction l as [|c l IH]; intros l1 H; cbn [tails_ne] in H.
  - destruct l1; discriminate.
  - destruct l1 as [|x l1]; cbn in H; injection H as Hx Hrest.
    + subst t. split; [intros ? []|]. intros t' Ht'. rewrite <- Hrest in Ht'.
      apply tails_ne_spec in Ht' as [_ [h ->]]. cbn. rewrite app_length. lia.
    + subst x. destruct (IH _ Hrest) as [H1 H2]. split; auto.
      intros t' [<-|Ht']; auto.
      assert (Hin : In t (tails_ne l)) by (rewrite Hrest; apply in_or_app; right; now left).
      apply tails_ne_spec in Hin as [_ [h ->]]. cbn. rewrite app_length. lia.
Qed.

Lemma find_decomp {A} (f : A -> bool) l x :
  find f l = Some x <-> exists l1 l2, l = l1 ++ x :: l2 /\ f x = true /\ forall y, In y l1 -> f y = false.
Proof.
  induction l as [|a l IH]; cbn [find].
  - split; [discriminate|]. intros (l1 & l2 & H & _). destruct l1; discriminate.
  - destruct (f a) eqn:Ea.
    + split.
      * intros H; injection H as <-. exists [], l. repeat split; auto. intros ? [].
      * intros (l1 & l2 & H & Hx & Hl1). destruct l1 as [|b l1]; cbn in H; injection H as Hb Hl.
        -- now subst.
        -- subst b. rewrite (Hl1 a (or_introl eq_refl)) in Ea. discriminate.
    + rewrite IH. split.
      * intros (l1 & l2 & -> & Hx & Hl1). exists (a :: l1), l2. repeat split; auto.
        intros y [<-|Hy]; auto.
      * intros (l1 & l2 & H & Hx & Hl1). destruct l1 as [|b l1]; cbn in H; injection H as Hb Hl.
        -- subst. congruence.
        -- exists l1, l2. repeat split; auto. intros y Hy. apply Hl1. now right.
Qed.

(* Full statement: the resolved root is the nearest ancestor-or-self (below
   "/") that contains regex-assembly; failure iff there is none. *)
Theorem find_root_spec has start d :
  find_root has start = Some d <->
  (d <> [] /\ exists rest, start = d ++ rest) /\ has_ra has d = true /\
  (forall d', (d' <> [] /\ exists rest, start = d' ++ rest) -> length d < length d' -> has_ra has d' = false).
Proof.
  rewrite find_root_is_find, find_decomp. split.
  - intros (l1 & l2 & Hl & Hd & Hl1).
    assert (Hin : In d (ancestors start)) by (rewrite Hl; apply in_or_app; right; now left).
    split; [now apply ancestors_spec|]. split; auto.
    intros d' Hd' Hlen. apply ancestors_spec in Hd'. rewrite Hl in Hd'.
    apply in_app_or in Hd' as [H1|[<-|H2]]; auto; [lia|].
    exfalso. unfold ancestors in Hl. apply map_eq_app in Hl as (t1 & t2' & Ht & Hm1 & Hm2).
    destruct t2' as [|t t2]; [discriminate|]. cbn in Hm2. injection Hm2 as Ht0 Hm2.
    destruct (tails_ne_lengths _ _ _ _ Ht) as [_ Hlt]. rewrite <- Hm2 in H2.
    apply in_map_iff in H2 as (t' & <- & Ht'). apply Hlt in Ht'. rewrite <- Ht0, !rv_length in Hlen. lia.
  - intros (Hanc & Hd & Hnear). apply ancestors_spec in Hanc.
    apply in_split in Hanc as (l1 & l2 & Hl). exists l1, l2. split; [exact Hl|]. split; auto.
    intros y Hy. apply Hnear.
    + apply ancestors_spec. rewrite Hl. apply in_or_app. now left.
    + unfold ancestors in Hl. apply map_eq_app in Hl as (t1 & t2' & Ht & Hm1 & Hm2).
      destruct t2' as [|t t2]; [discriminate|]. cbn in Hm2. injection Hm2 as Ht0 Hm2.
      destruct (tails_ne_lengths _ _ _ _ Ht) as [Hgt _]. rewrite <- Hm1 in Hy.
      apply in_map_iff in Hy as (t' & <- & Ht'). apply Hgt in Ht'. rewrite <- Ht0, !rv_length. lia.
Qed.

Theorem find_root_none has start :
  find_root has start = None <->
  forall d, (d <> [] /\ exists rest, start = d ++ rest) -> has_ra has d = false.
Proof.
  rewrite find_root_is_find. split.
  - intros H d Hd. apply ancestors_spec in Hd. eapply find_none in H; eauto.
  - intro H. destruct (find (has_ra has) (ancestors start)) as [d|] eqn:E; auto.
    apply find_some in E as [Hin Hd]. apply ancestors_spec in Hin. rewrite (H d Hin) in Hd. discriminate.
Qed.

(* non-vacuity *)
Example find_root_example :
  find_root (fun p => str_eqb (concat p) (concat [$"crs"; $"regex-assembly"]))
            [$"crs"; $"rules"; $"x"] = Some [$"crs"].
Proof. reflexivity. Qed.
