From Coq Require Import String.
From Verif Require Import Base.Str Base.Lines Proofs.StrLemmas.
Open Scope N_scope.

Definition short_line (limit : N) (l : str) : bool := N.of_nat (length l) <? limit.

(* every line shorter than the limit: the scanner delivers all lines, no error *)
Theorem scan_complete limit b :
  forallb (short_line limit) (raw_lines b) = true ->
  scan limit b = (map drop_cr (raw_lines b), false).
Proof.
  unfold scan. generalize (raw_lines b) as ls. induction ls as [|l ls IH]; cbn [scan_raw forallb map]; auto.
  intro H. apply andb_true_iff in H as [Hl Hls]. unfold short_line in Hl. apply N.ltb_lt in Hl.
  destruct (N.leb_spec limit (N.of_nat (length l))); [lia|]. rewrite (IH Hls). reflexivity.
Qed.

(* a too-long line: exactly the lines before the first long one are delivered and the
   scanner is in the error state (which the call sites used to ignore) *)
Theorem scan_stops_at_first_long limit b pre l post :
  raw_lines b = pre ++ l :: post ->
  forallb (short_line limit) pre = true -> short_line limit l = false ->
  scan limit b = (map drop_cr pre, true).
Proof.
  unfold scan. intros -> Hpre Hl. induction pre as [|p pre IH]; cbn [scan_raw app map forallb] in *.
  - unfold short_line in Hl. apply N.ltb_ge in Hl. destruct (N.leb_spec limit (N.of_nat (length l))); [reflexivity|lia].
  - apply andb_true_iff in Hpre as [Hp Hpre]. unfold short_line in Hp. apply N.ltb_lt in Hp.
    destruct (N.leb_spec limit (N.of_nat (length p))); [lia|]. rewrite (IH Hpre). reflexivity.
Qed.

(* conversely: no error means nothing was dropped *)
Theorem scan_no_error_complete limit b ls :
  scan limit b = (ls, false) -> ls = map drop_cr (raw_lines b).
Proof.
  unfold scan. generalize (raw_lines b) as rs. intro rs. revert ls.
  induction rs as [|l rs IH]; cbn [scan_raw map]; intros ls H.
  - now injection H as <-.
  - destruct (limit <=? N.of_nat (length l)); [discriminate|].
    destruct (scan_raw limit rs) as [r e] eqn:E. injection H as <- ->. f_equal. now apply IH.
Qed.

(* a line is never longer than the text it is part of *)
Lemma split_on_piece_length sep s l : In l (split_on sep s) -> (length l <= length s)%nat.
Proof.
  revert l; induction s as [|c s IH]; intros l; cbn [split_on].
  - intros [<-|[]]; auto.
  - destruct (c =? sep).
    + intros [<-|H]; cbn; [lia|]. apply IH in H. lia.
    + destruct (split_on sep s) as [|p ps] eqn:E.
      * intros [<-|[]]. cbn. lia.
      * intros [<-|H]; cbn.
        -- assert (length p <= length s)%nat by (apply IH; now left). lia.
        -- assert (length l <= length s)%nat by (apply IH; now right). lia.
Qed.

Lemma raw_lines_in b l : In l (raw_lines b) -> In l (split_on 10 b).
Proof.
  unfold raw_lines. destruct (rv (split_on 10 b)) as [|x r] eqn:E; auto.
  destruct x as [|c x']; auto. intro H.
  assert (E2 : split_on 10 b = rv ([] :: r)) by (apply (f_equal rv) in E; rewrite rv_involutive in E; exact E).
  rewrite E2. rewrite rv_rev in H |- *. apply in_rev in H. apply in_rev. rewrite rev_involutive. now right.
Qed.

(* an input smaller than the limit is always read completely: with the limit at
   2^63-1 no file that fits in memory can be truncated *)
Theorem scan_below_limit_complete limit b :
  N.of_nat (length b) < limit -> scan limit b = (map drop_cr (raw_lines b), false).
Proof.
  intro H. apply scan_complete. apply forallb_forall. intros l Hl.
  apply raw_lines_in in Hl. apply split_on_piece_length in Hl. unfold short_line. apply N.ltb_lt. lia.
Qed.

(* with the default limit as a parameter the truncation is visible in the model *)
Example scan_truncates_example : scan 8 $"ab
0123456789
cd
" = ([$"ab"], true).
Proof. reflexivity. Qed.
