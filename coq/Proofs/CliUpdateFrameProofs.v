(* C11, whole command on the tree model: a successful `regex update ARG` changes exactly one file -
   the unique rules file of the rule - and in it exactly one line: the old line with the operand
   replaced by what generate printed for the assembly file (and the text after the line continuation
   dropped, finding C11-line-tail).  Every other file, every other line, every other byte stays. *)
From Coq Require Import String.
From Verif Require Import Base.Str Base.Outcome Proofs.StrLemmas Model.RuleId Model.Update Model.Renumber Model.Cli
  Proofs.CliProofs Proofs.UpdateProofs Proofs.RoundTripProofs.
Open Scope N_scope.

Section One.
Variable gen : tree -> path -> outcome str.
Variable bits : N.

Theorem process_rule_exact t id k f t' :
  process_rule gen t id k f = Ok t' ->
  exists regex rf c i g1 g2 rest,
    gen t f = Ok regex /\ glob_rules t id = [rf] /\ is_rules_file rf /\ t_get t rf = Some c /\
    locate (split_on 10 c) id k = Ok (Some i) /\
    nth i (split_on 10 c) [] = g1 ++ g2 ++ closing ++ rest /\
    t' = t_set t rf (join [10] (set_nth i (g1 ++ regex ++ closing) (split_on 10 c))).
Proof.
  unfold process_rule. destruct (gen t f) as [regex| |] eqn:Eg; cbn [bind]; try discriminate.
  destruct (glob_rules t id) as [|rf [|]] eqn:Egl; try discriminate.
  destruct (t_get t rf) as [c|] eqn:Ec; try discriminate.
  destruct (update_contents c id k regex) as [c'| |] eqn:Eu; cbn [bind]; try discriminate.
  intro H. injection H as <-.
  destruct (update_frame _ _ _ _ _ Eu) as (i & g1 & g2 & g3 & rest & Hl & Hr & ->).
  destruct (rx_match_parts _ _ _ _ _ Hr) as (-> & Hline & _).
  exists regex, rf, c, i, g1, g2, rest.
  assert (Hrf : is_rules_file rf) by (apply (glob_rules_are_rules_files t id); rewrite Egl; now left).
  repeat (split; [first [reflexivity | assumption]|]). reflexivity.
Qed.

Theorem update_one_exact t arg t' :
  update_one gen bits t arg = (t', Success) ->
  exists r regex rf c i g1 g2 rest,
    parse_rule_id bits arg = Some r /\
    gen t (d_assembly ++ [r_file r]) = Ok regex /\ glob_rules t (r_id r) = [rf] /\ is_rules_file rf /\ t_get t rf = Some c /\
    locate (split_on 10 c) (r_id r) (r_chain r) = Ok (Some i) /\
    nth i (split_on 10 c) [] = g1 ++ g2 ++ closing ++ rest /\
    t' = t_set t rf (join [10] (set_nth i (g1 ++ regex ++ closing) (split_on 10 c))).
Proof.
  unfold update_one. destruct (parse_rule_id bits arg) as [r|] eqn:Ep; [|discriminate].
  destruct (process_rule gen t (r_id r) (r_chain r) (d_assembly ++ [r_file r])) as [t1| |] eqn:E; try discriminate.
  intro H. injection H as <-.
  destruct (process_rule_exact _ _ _ _ _ E) as (regex & rf & c & i & g1 & g2 & rest & H).
  exists r, regex, rf, c, i, g1, g2, rest. split; auto.
Qed.

(* consequences read off the exact form: other files, and other lines of the rules file *)
Corollary update_one_other_files t arg t' q :
  update_one gen bits t arg = (t', Success) ->
  (forall r, parse_rule_id bits arg = Some r -> glob_rules t (r_id r) <> [q]) -> t_get t' q = t_get t q.
Proof.
  intros H Hq. destruct (update_one_exact _ _ _ H) as (r & regex & rf & c & i & g1 & g2 & rest & Hp & _ & Hg & _ & _ & _ & _ & ->).
  apply t_get_set_other. intro E. subst q. exact (Hq r Hp Hg).
Qed.
End One.
