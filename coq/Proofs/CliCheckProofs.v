(* --check on the tree model (C09, C13): `format --all --check` / `renumber-tests --all --check`
   succeed exactly when the rewriting command would leave every file byte-identical. *)
From Coq Require Import String.
From Verif Require Import Base.Str Base.Outcome Proofs.StrLemmas Model.RuleId Model.Update Model.Renumber Model.Cli
  Proofs.CliProofs Proofs.CliOrderProofs.
Open Scope N_scope.

Lemma t_set_same t p c : t_get t p = Some c -> t_set t p c = t.
Proof.
  induction t as [|[q c0] t IH]; cbn; auto.
  destruct (path_eqb p q) eqn:E.
  - intro H. injection H as ->. reflexivity.
  - intro H. now rewrite IH.
Qed.

Section Check.
Variable fmt : str -> outcome str.
Variable renum : str -> str -> str.

(* every selected, existing file of the walk is already in the layout format gives it *)
Definition all_formatted (files : list path) (t : tree) : Prop :=
  forall f c, In f files -> format_selected f = true -> t_get t f = Some c -> fmt c = Ok c.

Lemma format_check_all_spec files t : format_check_all fmt files t = Success <-> all_formatted files t.
Proof.
  unfold format_check_all, all_formatted. destruct (existsb _ files) eqn:E.
  - split; [discriminate|]. intro H. exfalso. apply existsb_exists in E as (f & Hin & Hf).
    apply andb_true_iff in Hf as [Hs Hf]. destruct (t_get t f) as [c|] eqn:Eg; [|discriminate].
    rewrite (H f c Hin Hs Eg), str_eqb_refl in Hf. discriminate.
  - split; [|reflexivity]. intros _ f c Hin Hs Hg.
    assert (Hn : (format_selected f && match t_get t f with
                                       | Some c => match fmt c with Ok c' => negb (str_eqb c c') | _ => true end
                                       | None => false end)%bool = false).
    { destruct (_ && _)%bool eqn:E2; auto. exfalso.
      assert (existsb (fun f => format_selected f && match t_get t f with
                                       | Some c => match fmt c with Ok c' => negb (str_eqb c c') | _ => true end
                                       | None => false end)%bool files = true) by (apply existsb_exists; eauto).
      congruence. }
    rewrite Hs, Hg in Hn. cbn [andb] in Hn. destruct (fmt c) as [c'| |]; try discriminate.
    destruct (str_eqb c c') eqn:Ec; [|discriminate]. apply str_eqb_eq in Ec. now subst.
Qed.

Lemma format_all_noop files : forall t, all_formatted files t -> format_all fmt files t = (t, Success).
Proof.
  induction files as [|f rest IH]; intros t H; cbn [format_all]; auto.
  assert (Hr : all_formatted rest t) by (intros g c Hin; apply H; now right).
  destruct (format_selected f) eqn:Es; [|auto].
  destruct (t_get t f) as [c|] eqn:Eg; [|auto].
  rewrite (H f c (or_introl eq_refl) Es Eg), (t_set_same _ _ _ Eg). auto.
Qed.

(* C09: --check agrees with format *)
Theorem format_check_agrees_with_format files t : NoDup files ->
  (format_check_all fmt files t = Success <-> format_all fmt files t = (t, Success)).
Proof.
  intro Hnd. rewrite format_check_all_spec. split; [apply format_all_noop|].
  intros H f c Hin Hs Hg. destruct (format_all_is_each_alone fmt files t t f c Hnd H Hin Hg Hs) as (c' & Hc & Hg').
  rewrite Hg in Hg'. injection Hg' as <-. exact Hc.
Qed.

(* ---------- renumber-tests --check ---------- *)
Definition all_numbered (files : list path) (t : tree) : Prop :=
  forall f id c, In f files -> renumber_selected f = Some id -> t_get t f = Some c -> renum id c = c.

Lemma renumber_check_all_spec files t : renumber_check_all renum files t = Success <-> all_numbered files t.
Proof.
  unfold renumber_check_all, all_numbered. destruct (existsb _ files) eqn:E.
  - split; [discriminate|]. intro H. exfalso. apply existsb_exists in E as (f & Hin & Hf).
    destruct (renumber_selected f) as [id|] eqn:Es; [|discriminate].
    destruct (t_get t f) as [c|] eqn:Eg; [|discriminate].
    rewrite (H f id c Hin Es Eg), str_eqb_refl in Hf. discriminate.
  - split; [|reflexivity]. intros _ f id c Hin Hs Hg.
    destruct (str_eqb c (renum id c)) eqn:Ec; [apply str_eqb_eq in Ec; congruence|]. exfalso.
    assert (existsb (fun f => match renumber_selected f, t_get t f with
                              | Some id, Some c => negb (str_eqb c (renum id c))
                              | _, _ => false end) files = true).
    { apply existsb_exists. exists f. split; auto. now rewrite Hs, Hg, Ec. }
    congruence.
Qed.

Lemma renumber_all_noop files : forall t, all_numbered files t -> renumber_all renum files t = t.
Proof.
  induction files as [|f rest IH]; intros t H; cbn [renumber_all]; auto.
  assert (Hr : all_numbered rest t) by (intros g id c Hin; apply H; now right).
  destruct (renumber_selected f) as [id|] eqn:Es; [|auto].
  destruct (t_get t f) as [c|] eqn:Eg; [|auto].
  rewrite (H f id c (or_introl eq_refl) Es Eg), str_eqb_refl. auto.
Qed.

(* C13: --check fails exactly when a rewrite would change some file *)
Theorem renumber_check_agrees_with_renumber files t : NoDup files ->
  (renumber_check_all renum files t = Success <-> renumber_all renum files t = t).
Proof.
  intro Hnd. rewrite renumber_check_all_spec. split; [apply renumber_all_noop|].
  intros H f id c Hin Hs Hg.
  pose proof (renumber_all_is_each_alone renum files t f id c Hnd Hin Hs Hg) as Hr.
  rewrite H, Hg in Hr. now injection Hr as <-.
Qed.
End Check.
