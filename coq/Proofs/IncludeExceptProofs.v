(* C06: the map / delete / sort pipeline of include-except equals a plain list function,
   for every iteration order of the Go map. *)
From Coq Require Import String Permutation Sorted.
From Verif Require Import Base.Str Base.Lines Base.Outcome Proofs.StrLemmas Model.ParseLine Model.Parser Proofs.ParserProofs.
Open Scope N_scope.

Definition mem_str (x : str) (l : list str) : bool := existsb (str_eqb x) l.

Lemma mem_str_in x l : mem_str x l = true <-> In x l.
Proof.
  unfold mem_str. rewrite existsb_exists. split.
  - intros (y & Hy & E). apply str_eqb_eq in E. now subst.
  - intro H. exists x. split; auto. apply str_eqb_refl.
Qed.

(* the specification: every entry once, at the position of its LAST occurrence *)
Fixpoint keep_last (ls : list str) : list str :=
  match ls with
  | [] => []
  | l :: r => if mem_str l r then keep_last r else l :: keep_last r
  end.

(* ... with the index the Go code stores for it *)
Fixpoint kl_idx (ls : list str) (i : nat) : list (str * nat) :=
  match ls with
  | [] => []
  | l :: r => if mem_str l r then kl_idx r (S i) else (l, i) :: kl_idx r (S i)
  end.

Lemma kl_idx_fst ls : forall i, map fst (kl_idx ls i) = keep_last ls.
Proof. induction ls as [|l r IH]; intro i; cbn; auto. destruct (mem_str l r); cbn; now rewrite IH. Qed.

Lemma kl_idx_bounds ls : forall i x, In x (kl_idx ls i) -> (i <= snd x)%nat /\ In (fst x) ls.
Proof.
  induction ls as [|l r IH]; intros i x H; cbn in H; [destruct H|].
  destruct (mem_str l r).
  - apply IH in H as [H1 H2]. split; [lia|now right].
  - destruct H as [<-|H]; [cbn; split; [lia|now left]|]. apply IH in H as [H1 H2]. split; [lia|now right].
Qed.

Definition idx_lt (x y : str * nat) : Prop := (snd x < snd y)%nat.

Lemma kl_idx_sorted ls : forall i, StronglySorted idx_lt (kl_idx ls i).
Proof.
  induction ls as [|l r IH]; intro i; cbn; [constructor|].
  destruct (mem_str l r); [apply IH|]. constructor; [apply IH|].
  apply Forall_forall. intros x Hx. apply kl_idx_bounds in Hx as [Hx _]. unfold idx_lt. cbn. lia.
Qed.

Lemma kl_idx_keys_nodup ls : forall i, NoDup (map fst (kl_idx ls i)).
Proof.
  induction ls as [|l r IH]; intro i; cbn; [constructor|].
  destruct (mem_str l r) eqn:E; [apply IH|]. cbn. constructor; [|apply IH].
  intro H. apply in_map_iff in H as (x & Hf & Hx). apply kl_idx_bounds in Hx as [_ Hx].
  rewrite Hf in Hx. apply mem_str_in in Hx. congruence.
Qed.

(* ---------- the map as the Go code builds it: membership ---------- *)
Lemma str_eqb_sym' a b : str_eqb a b = str_eqb b a.
Proof.
  destruct (str_eqb a b) eqn:E.
  - apply str_eqb_eq in E. subst. symmetry. apply str_eqb_refl.
  - symmetry. apply str_eqb_neq. apply str_eqb_neq in E. congruence.
Qed.

Lemma imap_set_keys m l j : NoDup (map fst m) -> NoDup (map fst (imap_set m l j)) /\
  forall k i, In (k, i) (imap_set m l j) <-> (k = l /\ i = j) \/ (k <> l /\ In (k, i) m).
Proof.
  induction m as [|[k0 i0] m IH]; intro Hnd; cbn [imap_set].
  - split; [repeat constructor; auto|]. intros k i. cbn. split.
    + intros [H|[]]. injection H as <- <-. auto.
    + intros [[-> ->]|[_ []]]. auto.
  - inversion Hnd as [|? ? Hnotin Hnd']; subst. destruct (IH Hnd') as [IH1 IH2].
    destruct (str_eqb l k0) eqn:E.
    + apply str_eqb_eq in E. subst k0. split; [exact Hnd|]. intros k i. cbn [In]. split.
      * intros [H|H]; [injection H as <- <-; auto|]. right. split; [|now right].
        intro Ek. subst k. apply Hnotin. apply in_map_iff. exists (l, i). auto.
      * intros [[-> ->]|[Hne [H|H]]]; [now left| |now right]. injection H as <- <-. congruence.
    + apply str_eqb_neq in E. split.
      * cbn [map fst]. constructor; auto. intro H. apply in_map_iff in H as ([k i] & Hf & Hx). cbn in Hf. subst k.
        apply IH2 in Hx as [[-> _]|[_ Hx]]; [congruence|]. apply Hnotin. apply in_map_iff. exists (k0, i). auto.
      * intros k i. cbn [In]. rewrite IH2. split.
        -- intros [H|[[-> ->]|[Hne H]]]; [injection H as <- <-; right; split; [congruence|now left]|now left|right; split; [auto|now right]].
        -- intros [[-> ->]|[Hne [H|H]]]; [right; now left|left; exact H|right; right; auto].
Qed.

Lemma imap_del_keys m l : NoDup (map fst m) -> NoDup (map fst (imap_del m l)) /\
  forall k i, In (k, i) (imap_del m l) <-> k <> l /\ In (k, i) m.
Proof.
  induction m as [|[k0 i0] m IH]; intro Hnd; cbn [imap_del].
  - split; [constructor|]. intros k i. cbn. tauto.
  - inversion Hnd as [|? ? Hnotin Hnd']; subst. destruct (IH Hnd') as [IH1 IH2].
    destruct (str_eqb l k0) eqn:E.
    + apply str_eqb_eq in E. subst k0. split; [exact Hnd'|]. intros k i. cbn [In]. split.
      * intro H. split; [|now right]. intro Ek. subst k. apply Hnotin. apply in_map_iff. exists (l, i). auto.
      * intros [Hne [H|H]]; [injection H as <- <-; congruence|exact H].
    + apply str_eqb_neq in E. split.
      * cbn [map fst]. constructor; auto. intro H. apply in_map_iff in H as ([k i] & Hf & Hx). cbn in Hf. subst k.
        apply IH2 in Hx as [_ Hx]. apply Hnotin. apply in_map_iff. exists (k0, i). auto.
      * intros k i. cbn [In]. rewrite IH2. split.
        -- intros [H|[Hne H]]; [injection H as <- <-; split; [congruence|now left]|split; [auto|now right]].
        -- intros [Hne [H|H]]; [now left|right; auto].
Qed.

Lemma build_imap_spec ls : forall i0 m, NoDup (map fst m) ->
  NoDup (map fst (build_imap ls i0 m)) /\
  forall k i, In (k, i) (build_imap ls i0 m) <-> In (k, i) (kl_idx ls i0) \/ (~ In k ls /\ In (k, i) m).
Proof.
  induction ls as [|l r IH]; intros i0 m Hnd; cbn [build_imap kl_idx].
  - split; auto. intros k i. cbn. tauto.
  - destruct (imap_set_keys m l i0 Hnd) as [S1 S2]. destruct (IH (S i0) _ S1) as [B1 B2].
    split; [exact B1|]. intros k i. rewrite B2, S2. destruct (mem_str l r) eqn:E.
    + apply mem_str_in in E. split.
      * intros [H|[Hnr [[-> ->]|[Hne H]]]]; [now left|contradiction|].
        right. split; auto. intros [<-|Hin]; [congruence|contradiction].
      * intros [H|[Hn H]]; [now left|]. right. split; [intro; apply Hn; now right|].
        right. split; auto; try (intro; subst; apply Hn; now left).
    + assert (Hl : ~ In l r) by (intro H; apply mem_str_in in H; congruence). cbn [In]. split.
      * intros [H|[Hnr [[-> ->]|[Hne H]]]]; [left; now right|left; now left|].
        right. split; auto. intros [<-|Hin]; [congruence|contradiction].
      * intros [[H|H]|[Hn H]].
        -- injection H as <- <-. right. split; [exact Hl|]. left. split; reflexivity.
        -- now left.
        -- right. split; [intro; apply Hn; now right|]. right. split; auto; try (intro; subst; apply Hn; now left).
Qed.

Lemma fold_del_spec excl : forall m, NoDup (map fst m) ->
  NoDup (map fst (fold_left imap_del excl m)) /\
  forall k i, In (k, i) (fold_left imap_del excl m) <-> ~ In k excl /\ In (k, i) m.
Proof.
  induction excl as [|x excl IH]; intros m Hnd; cbn [fold_left].
  - split; auto. intros k i. cbn. tauto.
  - destruct (imap_del_keys m x Hnd) as [D1 D2]. destruct (IH _ D1) as [F1 F2]. split; [exact F1|].
    intros k i. rewrite F2, D2. cbn [In]. split.
    + intros [Hn [Hne H]]. split; auto. intros [<-|Hin]; [congruence|contradiction].
    + intros [Hn H]. split; [intro; apply Hn; now right|]. split; auto; try (intro; subst; apply Hn; now left).
Qed.

(* ---------- sorting ---------- *)
Lemma sorted_index_injective T x y :
  StronglySorted idx_lt T -> In x T -> In y T -> snd x = snd y -> x = y.
Proof.
  induction 1 as [|z T Hs IH Hall]; intros Hx Hy E; [destruct Hx|].
  rewrite Forall_forall in Hall. destruct Hx as [<-|Hx], Hy as [<-|Hy]; auto.
  - specialize (Hall y Hy). unfold idx_lt in Hall. lia.
  - specialize (Hall x Hx). unfold idx_lt in Hall. lia.
Qed.

Lemma filter_sorted (f : str * nat -> bool) T : StronglySorted idx_lt T -> StronglySorted idx_lt (filter f T).
Proof.
  induction 1 as [|z T Hs IH Hall]; cbn; [constructor|]. destruct (f z); auto. constructor; auto.
  rewrite Forall_forall in *. intros x Hx. apply filter_In in Hx as [Hx _]. auto.
Qed.

Lemma nodup_of_keys (m : list (str * nat)) : NoDup (map fst m) -> NoDup m.
Proof.
  induction m as [|x m IH]; intro H; [constructor|]. inversion H; subst. constructor; auto.
  intro Hin. apply H2. apply in_map. exact Hin.
Qed.

Lemma nodup_map_inj {A B} (f : A -> B) (l : list A) :
  NoDup l -> (forall x y, In x l -> In y l -> f x = f y -> x = y) -> NoDup (map f l).
Proof.
  induction 1 as [|a l Hnotin Hnd IH]; intro Hinj; cbn; [constructor|]. constructor.
  - intro H. apply in_map_iff in H as (y & Hf & Hy). assert (y = a) by (apply Hinj; [now right|now left|auto]).
    subst. contradiction.
  - apply IH. intros x y Hx Hy. apply Hinj; now right.
Qed.

(* ---------- the theorem ---------- *)
Definition not_excluded (excl : list str) (l : str) : bool := negb (mem_str l excl).

Theorem include_except_spec (ordi : list (str * nat) -> list (str * nat)) ls excl :
  (forall m, Permutation m (ordi m)) ->
  string_from_lines (ordi (fold_left imap_del excl (build_imap ls 0 []))) =
  match filter (not_excluded excl) (keep_last ls) with
  | [] => []
  | r => unlines r
  end.
Proof.
  intro Hord.
  set (M := fold_left imap_del excl (build_imap ls 0 [])).
  set (T := filter (fun kv => not_excluded excl (fst kv)) (kl_idx ls 0)).
  destruct (build_imap_spec ls 0 [] (NoDup_nil _)) as [B1 B2].
  destruct (fold_del_spec excl _ B1) as [F1 F2]. fold M in F1, F2.
  assert (HM : forall x, In x M <-> In x T).
  { intros [k i]. unfold T. rewrite F2, B2, filter_In. cbn [fst]. unfold not_excluded.
    rewrite negb_true_iff. split.
    - intros [Hn [H|[_ []]]]. split; auto. destruct (mem_str k excl) eqn:E; auto. apply mem_str_in in E. contradiction.
    - intros [H E]. split; [|now left]. intro Hin. apply mem_str_in in Hin. congruence. }
  assert (HT : StronglySorted idx_lt T) by (apply filter_sorted, kl_idx_sorted).
  assert (Hsnd : NoDup (map snd M)).
  { apply nodup_map_inj; [apply nodup_of_keys; exact F1|].
    intros x y Hx Hy E. apply (sorted_index_injective T); auto; now apply HM. }
  assert (Hsort : sort_by_index (ordi M) = T).
  { apply strict_sorted_unique.
    - apply sorted_strict; [apply sort_sorted|]. eapply Permutation_NoDup; [|exact Hsnd].
      apply Permutation_map. rewrite <- sort_perm. apply Hord.
    - exact HT.
    - intro x. rewrite <- HM. split; intro H.
      + eapply Permutation_in; [symmetry; apply Hord|]. eapply Permutation_in; [symmetry; apply sort_perm|]. exact H.
      + eapply Permutation_in; [apply sort_perm|]. eapply Permutation_in; [apply Hord|]. exact H. }
  assert (Hfst : map fst T = filter (not_excluded excl) (keep_last ls)).
  { unfold T. rewrite <- (kl_idx_fst ls 0). generalize (kl_idx ls 0). intro l.
    induction l as [|[k i] l IH]; cbn; auto. destruct (not_excluded excl k); cbn; now rewrite IH. }
  unfold string_from_lines. destruct (ordi M) as [|x rest] eqn:Eo.
  - (* empty map: T is empty *)
    cbn in Hsort. rewrite <- Hfst, <- Hsort. reflexivity.
  - rewrite Hsort, Hfst. destruct (filter (not_excluded excl) (keep_last ls)) eqn:Ef; auto.
Qed.

(* the three clauses of the property, read off the specification *)
Corollary nothing_excluded_survives excl ls l :
  In l (filter (not_excluded excl) (keep_last ls)) -> ~ In l excl.
Proof.
  intro H. apply filter_In in H as [_ H]. unfold not_excluded in H. apply negb_true_iff in H.
  intro Hin. apply mem_str_in in Hin. congruence.
Qed.

Lemma keep_last_in ls l : In l (keep_last ls) <-> In l ls.
Proof.
  induction ls as [|x r IH]; cbn; [tauto|]. destruct (mem_str x r) eqn:E.
  - rewrite IH. split; [now right|]. intros [<-|H]; auto. now apply mem_str_in.
  - cbn. rewrite IH. tauto.
Qed.

Corollary nothing_else_dropped excl ls l :
  In l ls -> ~ In l excl -> In l (filter (not_excluded excl) (keep_last ls)).
Proof.
  intros H Hn. apply filter_In. split; [now apply keep_last_in|].
  unfold not_excluded. apply negb_true_iff. destruct (mem_str l excl) eqn:E; auto. apply mem_str_in in E. contradiction.
Qed.
