(* Proofs about Model/CmdLine.v (C04): the text regexpStr produces for every word and
   every configured pattern triple. *)
From Coq Require Import String.
From Verif Require Import Base.Str Base.Outcome Proofs.StrLemmas Model.Passes Model.CmdLine.
Open Scope N_scope.

(* interleave = the pieces with the separator between any two adjacent ones *)
Lemma interleave_cons sep x y l : interleave sep (x :: y :: l) = x ++ sep ++ interleave sep (y :: l).
Proof. reflexivity. Qed.

Lemma interleave_nil_sep l : interleave [] l = concat l.
Proof.
  induction l as [|x l IH]; [reflexivity|]. destruct l as [|y l].
  - cbn. now rewrite app_nil_r.
  - rewrite interleave_cons, IH. reflexivity.
Qed.

(* nothing is inserted when the configuration is empty (missing or unreadable file) *)
Definition no_evasion : evasion := {| ev_pattern := []; ev_suffix := []; ev_nospace_suffix := [] |}.

Lemma evasion_for_empty t : evasion_for empty_config t = no_evasion.
Proof. destruct t; reflexivity. Qed.

Lemma compute_suffix_no_evasion_snd input : snd (compute_suffix no_evasion input) = [].
Proof.
  unfold compute_suffix. destruct (Nat.ltb _ 2); [reflexivity|].
  destruct (last_opt input); [|reflexivity].
  destruct (negb _); [|reflexivity].
  destruct (n =? 64); [reflexivity|]. destruct (n =? 126); reflexivity.
Qed.

(* the shape of the whole result for a word without leading quote *)
Theorem regexp_str_shape ev c rest :
  c <> 39 ->
  regexp_str ev (c :: rest) =
  let (stripped, suffix) := compute_suffix ev (c :: rest) in
  interleave (ev_pattern ev) (map regexp_char stripped) ++
  match suffix with [] => [] | _ => ev_pattern ev ++ suffix end.
Proof.
  intro Hc. unfold regexp_str. destruct c as [|p]; [reflexivity|].
  destruct (N.eq_dec (N.pos p) 39) as [E|E]; [congruence|].
  revert E. clear. intro E. repeat (destruct p as [p|p|]; try reflexivity); congruence.
Qed.

Theorem regexp_str_empty_config t c rest :
  c <> 39 ->
  regexp_str (evasion_for empty_config t) (c :: rest) =
  concat (map regexp_char (fst (compute_suffix no_evasion (c :: rest)))).
Proof.
  intro Hc. rewrite evasion_for_empty, (regexp_str_shape _ _ _ Hc).
  pose proof (compute_suffix_no_evasion_snd (c :: rest)) as Hs.
  destruct (compute_suffix no_evasion (c :: rest)) as [st sf]. cbn in Hs. subst sf.
  cbn [ev_pattern no_evasion fst]. now rewrite interleave_nil_sep, app_nil_r.
Qed.

(* a leading quote passes the rest of the line through untouched, whatever is configured *)
Theorem regexp_str_quote ev rest : regexp_str ev (39 :: rest) = rest.
Proof. reflexivity. Qed.

(* the four cases of computeSuffix *)
Theorem compute_suffix_short ev input : (length input < 2)%nat -> compute_suffix ev input = (input, []).
Proof. unfold compute_suffix. intro H. apply Nat.ltb_lt in H. now rewrite H. Qed.

Lemma last_opt_app {A} (l : list A) x : last_opt (l ++ [x]) = Some x.
Proof. unfold last_opt. rewrite rv_app. reflexivity. Qed.

Lemma firstn_app_last {A} (l : list A) x : firstn (length (l ++ [x]) - 1) (l ++ [x]) = l.
Proof. rewrite app_length. cbn [length]. replace (length l + 1 - 1)%nat with (length l) by lia. apply firstn_app_exact. Qed.

Theorem compute_suffix_at ev body :
  body <> [] -> is_escaped (body ++ [64]) (length body) = false ->
  compute_suffix ev (body ++ [64]) = (body, ev_suffix ev).
Proof.
  intros Hne Hesc. unfold compute_suffix.
  assert (Hl : Nat.ltb (length (body ++ [64])) 2 = false).
  { apply Nat.ltb_ge. rewrite app_length. cbn. destruct body; [congruence|cbn; lia]. }
  rewrite Hl, last_opt_app.
  replace (length (body ++ [64%N]) - 1)%nat with (length body) by (rewrite app_length; cbn; lia).
  rewrite Hesc. cbn [negb]. rewrite N.eqb_refl. now rewrite firstn_app_exact.
Qed.

Theorem compute_suffix_tilde ev body :
  body <> [] -> is_escaped (body ++ [126]) (length body) = false ->
  compute_suffix ev (body ++ [126]) = (body, ev_nospace_suffix ev).
Proof.
  intros Hne Hesc. unfold compute_suffix.
  assert (Hl : Nat.ltb (length (body ++ [126])) 2 = false).
  { apply Nat.ltb_ge. rewrite app_length. cbn. destruct body; [congruence|cbn; lia]. }
  rewrite Hl, last_opt_app.
  replace (length (body ++ [126%N]) - 1)%nat with (length body) by (rewrite app_length; cbn; lia).
  rewrite Hesc. cbn [negb]. change (126 =? 64) with false. rewrite N.eqb_refl. now rewrite firstn_app_exact.
Qed.

(* an escaped marker keeps the character and drops the backslash; no suffix is demanded *)
Theorem compute_suffix_escaped ev pre c :
  is_escaped (pre ++ [92; c]) (length pre + 1) = true ->
  compute_suffix ev (pre ++ [92; c]) = (pre ++ [c], []).
Proof.
  intro Hesc. unfold compute_suffix.
  assert (Hl : Nat.ltb (length (pre ++ [92; c])) 2 = false).
  { apply Nat.ltb_ge. rewrite app_length. cbn. lia. }
  rewrite Hl. assert (Hlast : last_opt (pre ++ [92; c]) = Some c).
  { change (pre ++ [92; c]) with (pre ++ [92] ++ [c]). rewrite app_assoc. apply last_opt_app. }
  rewrite Hlast.
  replace (length (pre ++ [92%N; c]) - 1)%nat with (length pre + 1)%nat by (rewrite app_length; cbn; lia).
  rewrite Hesc. cbn [negb].
  replace (length (pre ++ [92%N; c]) - 2)%nat with (length pre) by (rewrite app_length; cbn; lia).
  now rewrite firstn_app_exact.
Qed.

(* any other last character: nothing is stripped, nothing demanded *)
Theorem compute_suffix_other ev body c :
  body <> [] -> c <> 64 -> c <> 126 -> is_escaped (body ++ [c]) (length body) = false ->
  compute_suffix ev (body ++ [c]) = (body ++ [c], []).
Proof.
  intros Hne H1 H2 Hesc. unfold compute_suffix.
  assert (Hl : Nat.ltb (length (body ++ [c])) 2 = false).
  { apply Nat.ltb_ge. rewrite app_length. cbn. destruct body; [congruence|cbn; lia]. }
  rewrite Hl, last_opt_app.
  replace (length (body ++ [c]) - 1)%nat with (length body) by (rewrite app_length; cbn; lia).
  rewrite Hesc. cbn [negb]. apply N.eqb_neq in H1, H2. now rewrite H1, H2.
Qed.

(* escaping of single characters *)
Theorem regexp_char_cases c :
  regexp_char c = (if c =? 46 then $"\." else if c =? 45 then $"\-" else if c =? 32 then $"\s+"
                   else if c <? 128 then [c] else [192 + c / 64; 128 + c mod 64]).
Proof. reflexivity. Qed.

(* unix / windows pick their own triple *)
Theorem pattern_selection c :
  evasion_for c CmdUnix = {| ev_pattern := cf_ev_unix c; ev_suffix := cf_suf_unix c; ev_nospace_suffix := cf_ns_unix c |} /\
  evasion_for c CmdWindows = {| ev_pattern := cf_ev_windows c; ev_suffix := cf_suf_windows c; ev_nospace_suffix := cf_ns_windows c |}.
Proof. split; reflexivity. Qed.

Theorem cmdtype_of_cases t r : cmdtype_of t = Some r -> (t = $"unix" /\ r = CmdUnix) \/ (t = $"windows" /\ r = CmdWindows).
Proof.
  unfold cmdtype_of. destruct (str_eqb t $"unix") eqn:E1.
  - apply str_eqb_eq in E1. intro H. injection H as <-. auto.
  - destruct (str_eqb t $"windows") eqn:E2; [|discriminate].
    apply str_eqb_eq in E2. intro H. injection H as <-. auto.
Qed.
