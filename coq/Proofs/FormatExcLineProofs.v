(* C09 / C10: the include-except directive line.  `##!> include-except FILE EXCLUDES[ -- PAIRS]` as
   format prints it is read back with the same three captures (the lazy exclude-list group
   included), so the printed line is a fixed point of processLine. *)
From Coq Require Import String Lia.
From Verif Require Import Base.Str Base.Lines Base.Outcome Model.Patterns Model.ParseLine Model.Format
  Proofs.StrLemmas Proofs.FormatProofs Proofs.FormatIdemProofs Proofs.FormatDefLineProofs Proofs.FormatIncLineProofs.
Open Scope N_scope.

Definition exc_print (f ex pairs : str) : str := $"##!> include-except " ++ f ++ [32] ++ ex ++ pairs_tail_print pairs.

(* ---------- pairs_tail and white space ---------- *)
Lemma pairs_tail_ws_cons c x : sp c = true -> pairs_tail (c :: x) = pairs_tail x.
Proof. intro H. unfold pairs_tail, skip_ws, all_ws. cbn [drop_while forallb]. now rewrite H. Qed.

Lemma pairs_tail_skip_ws x : pairs_tail (skip_ws x) = pairs_tail x.
Proof.
  induction x as [|c x IH]; [reflexivity|]. unfold skip_ws in *. cbn [drop_while].
  destruct (sp c) eqn:E; [|reflexivity]. now rewrite IH, pairs_tail_ws_cons.
Qed.

Lemma pairs_tail_nil : pairs_tail [] = Some []. Proof. reflexivity. Qed.

Lemma pairs_tail_print_reads g : tight g -> pairs_tail (pairs_tail_print g) = Some g.
Proof.
  intro Ht. destruct g as [|p0 pr] eqn:Ep; [reflexivity|].
  unfold pairs_tail_print. change ($" -- " ++ p0 :: pr) with (32 :: $"--" ++ 32 :: p0 :: pr).
  unfold pairs_tail. change (skip_ws (32 :: $"--" ++ 32 :: p0 :: pr)) with ($"--" ++ 32 :: p0 :: pr). rewrite lit_app.
  assert (Hp0 : sp p0 = false) by (eapply tight_starts; eauto).
  assert (Hsk : skip_ws (32 :: p0 :: pr) = p0 :: pr).
  { unfold skip_ws. cbn [drop_while]. change (sp 32) with true. cbn iota. now rewrite Hp0. }
  rewrite Hsk. destruct Ht as [_ Hr]. now rewrite Hr.
Qed.

Lemma pairs_tail_nonws c x : sp c = false ->
  pairs_tail (c :: x) = if prefixb $"--" (c :: x) then pairs_tail (c :: x) else None.
Proof.
  intro H. destruct (prefixb $"--" (c :: x)) eqn:E; [reflexivity|].
  unfold pairs_tail, skip_ws, all_ws, lit. cbn [drop_while forallb]. rewrite H, E. reflexivity.
Qed.

(* a remainder that did not satisfy the tail in front of the original rest does not satisfy it in
   front of the re-printed rest either *)
Lemma pairs_tail_transfer : forall e2 rem g3, e2 <> [] ->
  pairs_tail (e2 ++ rem) = None -> pairs_tail rem = Some g3 -> pairs_tail (e2 ++ pairs_tail_print g3) = None.
Proof.
  induction e2 as [|c e2 IH]; intros rem g3 Hne Hn Hs; [congruence|]. cbn [app] in *.
  destruct (sp c) eqn:Ec.
  - rewrite pairs_tail_ws_cons in * by exact Ec.
    destruct e2 as [|d e2']; [cbn [app] in Hn; congruence|]. apply (IH rem g3); auto. discriminate.
  - clear IH. rewrite (pairs_tail_nonws c _ Ec).
    assert (Hp : prefixb $"--" (c :: e2 ++ rem) = false).
    { destruct (prefixb $"--" (c :: e2 ++ rem)) eqn:E; auto. exfalso.
      unfold pairs_tail, skip_ws, lit in Hn. cbn [drop_while] in Hn. rewrite Ec, E in Hn. discriminate. }
    assert (Hq : prefixb $"--" (c :: e2 ++ pairs_tail_print g3) = false).
    { change (prefixb $"--" (c :: e2 ++ rem)) with ((45 =? c) && prefixb [45] (e2 ++ rem))%bool in Hp.
      change (prefixb $"--" (c :: e2 ++ pairs_tail_print g3)) with ((45 =? c) && prefixb [45] (e2 ++ pairs_tail_print g3))%bool.
      destruct (45 =? c); cbn [andb] in *; auto.
      destruct e2 as [|d e2']; cbn [app] in *; [destruct g3; reflexivity|].
      cbn [prefixb] in *. exact Hp. }
    now rewrite Hq.
Qed.

(* ---------- the lazy group ---------- *)
Lemma lazy_split_hit acc r g : pairs_tail r = Some g -> lazy_split acc r = (rv acc, g).
Proof. intro H. destruct r; cbn [lazy_split]; rewrite H; reflexivity. Qed.

Lemma rv_cons {A} (c : A) acc : rv (c :: acc) = rv acc ++ [c].
Proof. rewrite !rv_rev. reflexivity. Qed.

Lemma lazy_split_spec : forall r acc g2 g3, lazy_split acc r = (g2, g3) ->
  exists e rem, r = e ++ rem /\ g2 = rv acc ++ e /\ pairs_tail rem = Some g3 /\
    (forall e1 e2, e = e1 ++ e2 -> e2 <> [] -> pairs_tail (e2 ++ rem) = None).
Proof.
  assert (Hnil : forall (e1 e2 : str), [] = e1 ++ e2 -> e2 <> [] -> False).
  { intros e1 e2 E Hne. destruct e1, e2; try discriminate; congruence. }
  induction r as [|c r IH]; intros acc g2 g3 H.
  - cbn [lazy_split] in H. rewrite pairs_tail_nil in H. injection H as <- <-.
    exists [], []. split; [reflexivity|]. split; [now rewrite app_nil_r|]. split; [reflexivity|].
    intros e1 e2 E Hne. destruct (Hnil _ _ E Hne).
  - cbn [lazy_split] in H. destruct (pairs_tail (c :: r)) as [g|] eqn:Ep.
    + injection H as <- <-. exists [], (c :: r). split; [reflexivity|]. split; [now rewrite app_nil_r|]. split; [exact Ep|].
      intros e1 e2 E Hne. destruct (Hnil _ _ E Hne).
    + destruct (IH _ _ _ H) as (e & rem & -> & -> & Hs & Hall).
      exists (c :: e), rem. split; [reflexivity|]. split; [now rewrite rv_cons, <- app_assoc|]. split; [exact Hs|].
      intros e1 e2 E Hne. destruct e1 as [|x e1].
      * cbn [app] in E. subst e2. exact Ep.
      * cbn [app] in E. injection E as <- E. eapply Hall; eauto.
Qed.

Lemma lazy_split_build : forall e acc tail g3, pairs_tail tail = Some g3 ->
  (forall e1 e2, e = e1 ++ e2 -> e2 <> [] -> pairs_tail (e2 ++ tail) = None) ->
  lazy_split acc (e ++ tail) = (rv acc ++ e, g3).
Proof.
  induction e as [|c e IH]; intros acc tail g3 Hs Hall.
  - cbn [app]. rewrite app_nil_r. now apply lazy_split_hit.
  - assert (H0 : pairs_tail (c :: e ++ tail) = None) by (apply (Hall [] (c :: e) eq_refl); discriminate).
    cbn [app lazy_split]. rewrite H0.
    rewrite (IH (c :: acc) tail g3 Hs).
    + now rewrite rv_cons, <- app_assoc.
    + intros e1 e2 E Hne. apply (Hall (c :: e1) e2); auto. cbn [app]. now rewrite E.
Qed.

(* ---------- parts of a match ---------- *)
Lemma include_except_parts line f ex pairs : m_include_except line = Some (f, ex, pairs) ->
  f <> [] /\ forallb nsp f = true /\ tight pairs /\
  exists r rem, stops sp r /\ r = ex ++ rem /\ pairs_tail rem = Some pairs /\
    (forall e1 e2, ex = e1 ++ e2 -> e2 <> [] -> pairs_tail (e2 ++ rem) = None).
Proof.
  unfold m_include_except. destruct (lit $"##!>" line) as [s1|]; [|discriminate].
  destruct (lit $"include-except" (skip_ws s1)) as [s2|]; [|discriminate].
  destruct (Nat.eqb _ _); [discriminate|].
  destruct (take_while nsp (skip_ws s2)) as [|f0 fr] eqn:Ef; [discriminate|].
  destruct (lazy_split [] (skip_ws (drop_while nsp (skip_ws s2)))) as [g2 g3] eqn:El.
  intro H. injection H as <- <- <-.
  destruct (lazy_split_spec _ _ _ _ El) as (e & rem & Hr & Hg2 & Hs & Hall). cbn [rv rev_append app] in Hg2. subst g2.
  split; [discriminate|]. split; [rewrite <- Ef; apply take_while_all|]. split; [eapply pairs_tail_tight; eauto|].
  exists (skip_ws (drop_while nsp (skip_ws s2))), rem. split; [apply drop_while_stops|]. auto.
Qed.

Lemma include_except_head line c : m_include_except line = Some c ->
  exists s1 r, line = $"##!>" ++ s1 /\ skip_ws s1 = $"include-except" ++ r.
Proof.
  unfold m_include_except. destruct (lit $"##!>" line) as [s1|] eqn:E1; [|discriminate].
  destruct (lit $"include-except" (skip_ws s1)) as [s2|] eqn:E2; [|discriminate]. intros _.
  destruct (lit_inv _ _ _ E1) as [r' ->]. rewrite lit_app in E1. injection E1 as <-.
  destruct (lit_inv _ _ _ E2) as [r2 Hr2]. eauto.
Qed.

Lemma include_except_not_other line c : m_include_except line = Some c ->
  m_block_start line = None /\ m_block_end line = false /\ m_flags line = None /\ m_prefix line = None /\
  m_suffix line = None /\ m_definition line = None /\ m_include line = None.
Proof.
  intro H. destruct (include_except_head _ _ H) as (s1 & r & -> & Hs).
  repeat split; try reflexivity.
  - unfold m_block_start. rewrite lit_app, Hs. reflexivity.
  - unfold m_definition. rewrite lit_app, Hs. reflexivity.
  - unfold m_include, include_here. rewrite lit_app, Hs.
    change (lit $"include" ($"include-except" ++ r)) with (Some ($"-except" ++ r)). cbv beta iota zeta.
    assert (Hsk : skip_ws ($"-except" ++ r) = $"-except" ++ r) by reflexivity.
    rewrite Hsk, Nat.eqb_refl. reflexivity.
Qed.

Lemma exc_print_reads f ex pairs rem :
  f <> [] -> forallb nsp f = true -> tight pairs -> stops sp (ex ++ rem) -> pairs_tail rem = Some pairs ->
  (forall e1 e2, ex = e1 ++ e2 -> e2 <> [] -> pairs_tail (e2 ++ rem) = None) ->
  m_include_except (exc_print f ex pairs) = Some (f, ex, pairs).
Proof.
  intros Hf Hfn Ht Hstop Hs Hall. unfold exc_print.
  change ($"##!> include-except " ++ f ++ [32] ++ ex ++ pairs_tail_print pairs)
    with ($"##!>" ++ 32 :: ($"include-except" ++ 32 :: (f ++ 32 :: (ex ++ pairs_tail_print pairs)))).
  unfold m_include_except. rewrite lit_app.
  change (skip_ws (32 :: $"include-except" ++ 32 :: f ++ 32 :: ex ++ pairs_tail_print pairs))
    with ($"include-except" ++ 32 :: (f ++ 32 :: (ex ++ pairs_tail_print pairs))).
  rewrite lit_app.
  destruct f as [|f0 fr]; [congruence|]. cbn [forallb] in Hfn. apply andb_true_iff in Hfn as [Hf0 Hfr].
  set (tl := 32 :: ex ++ pairs_tail_print pairs).
  assert (Hs3 : skip_ws (32 :: (f0 :: fr) ++ tl) = (f0 :: fr) ++ tl).
  { unfold skip_ws. cbn [drop_while app]. change (sp 32) with true. cbn iota. now rewrite (nsp_sp _ Hf0). }
  rewrite Hs3.
  replace (Nat.eqb (length ((f0 :: fr) ++ tl)) (length (32 :: (f0 :: fr) ++ tl))) with false
    by (symmetry; apply Nat.eqb_neq; cbn [length]; lia).
  assert (Hstl : stops nsp tl) by reflexivity.
  rewrite (take_while_app_stop nsp (f0 :: fr) tl) by (auto; cbn [forallb]; now rewrite Hf0, Hfr).
  rewrite (drop_while_app_stop nsp (f0 :: fr) tl) by (auto; cbn [forallb]; now rewrite Hf0, Hfr).
  assert (Hpt : pairs_tail (pairs_tail_print pairs) = Some pairs) by now apply pairs_tail_print_reads.
  (* the text after the file name, white space skipped *)
  assert (Hr : lazy_split [] (skip_ws tl) = (ex, pairs)).
  { unfold tl. destruct ex as [|x0 xr].
    - cbn [app]. rewrite lazy_split_hit with (g := pairs); [reflexivity|].
      change (skip_ws (32 :: pairs_tail_print pairs)) with (skip_ws (pairs_tail_print pairs)).
      now rewrite pairs_tail_skip_ws.
    - assert (Hx0 : sp x0 = false) by exact Hstop.
      assert (Hsk : skip_ws (32 :: (x0 :: xr) ++ pairs_tail_print pairs) = (x0 :: xr) ++ pairs_tail_print pairs).
      { unfold skip_ws. cbn [drop_while app]. change (sp 32) with true. cbn iota. now rewrite Hx0. }
      rewrite Hsk. rewrite (lazy_split_build (x0 :: xr) [] (pairs_tail_print pairs) pairs Hpt); [reflexivity|].
      intros e1 e2 E Hne. eapply pairs_tail_transfer; eauto. }
  rewrite Hr. reflexivity.
Qed.

Lemma exc_line_again f ex pairs rem indent :
  f <> [] -> forallb nsp f = true -> tight pairs -> stops sp (ex ++ rem) -> pairs_tail rem = Some pairs ->
  (forall e1 e2, ex = e1 ++ e2 -> e2 <> [] -> pairs_tail (e2 ++ rem) = None) ->
  process_line (exc_print f ex pairs) indent = (Some (spaces (indent * 2) ++ exc_print f ex pairs), indent).
Proof.
  intros Hf Hfn Ht Hst Hs Hall. pose proof (exc_print_reads f ex pairs rem Hf Hfn Ht Hst Hs Hall) as Hx.
  destruct (include_except_not_other _ _ Hx) as (Hb & He & Hfl & Hp & Hsf & Hd & Hi).
  unfold process_line. change (trim_left is_blank (exc_print f ex pairs)) with (exc_print f ex pairs).
  rewrite Hb, He, Hfl, Hp, Hsf, Hd, Hi, Hx.
  unfold exc_print at 1. destruct pairs; reflexivity.
Qed.

Theorem process_line_idempotent_include_except line indent out next f ex pairs :
  trim_left is_blank line = line ->
  m_include_except line = Some (f, ex, pairs) ->
  process_line line indent = (Some out, next) ->
  process_line (trim_left is_blank out) indent = (Some out, next).
Proof.
  intros Htrim Hx H. destruct (include_except_parts _ _ _ _ Hx) as (Hf & Hfn & Ht & r & rem & Hst & -> & Hs & Hall).
  destruct (include_except_not_other _ _ Hx) as (Hb & He & Hfl & Hp & Hsf & Hd & Hi).
  unfold process_line in H. rewrite Htrim in H.
  destruct line as [|c0 l0] eqn:El; [discriminate|]. rewrite <- El in *.
  rewrite Hb, He, Hfl, Hp, Hsf, Hd, Hi, Hx in H. injection H as <- <-.
  change (process_line (trim_left is_blank (spaces (indent * 2) ++ exc_print f ex pairs)) indent =
          (Some (spaces (indent * 2) ++ exc_print f ex pairs), indent)).
  assert (Hnb : starts_nonblank (exc_print f ex pairs)) by reflexivity.
  rewrite (trim_spaces _ _ Hnb). eapply exc_line_again; eauto.
Qed.

(* ---------- EVERY line ---------- *)
Theorem process_line_idempotent line indent out next :
  trim_left is_blank line = line ->
  process_line line indent = (Some out, next) ->
  process_line (trim_left is_blank out) indent = (Some out, next).
Proof.
  intros Htrim H. destruct (m_include_except line) as [[[f ex] pairs]|] eqn:Ex.
  - eapply process_line_idempotent_include_except; eauto.
  - now apply (process_line_idempotent_but_include_except line).
Qed.

Theorem process_lines_idempotent ls : forall indent,
  Forall (fun l => trim_left is_blank l = l) ls ->
  process_lines (map (trim_left is_blank) (process_lines ls indent)) indent = process_lines ls indent.
Proof.
  induction ls as [|l ls IH]; intros indent HF; [reflexivity|].
  inversion HF as [|? ? Ht HF']; subst. cbn [process_lines].
  destruct (process_line l indent) as [[l'|] i'] eqn:E.
  - cbn [map process_lines]. rewrite (process_line_idempotent _ _ _ _ Ht E). f_equal. now apply IH.
  - destruct (process_line_none _ _ _ E) as [-> ->]. cbn [map process_lines].
    change (process_line (trim_left is_blank []) 0) with (Some (@nil N), 0%nat). cbn iota. f_equal. now apply IH.
Qed.

(* what the formatter's parser hands to processLine is left-trimmed, whatever the file says *)
Corollary process_lines_idempotent_any ls indent :
  let ts := map (trim_left is_blank) ls in
  process_lines (map (trim_left is_blank) (process_lines ts indent)) indent = process_lines ts indent.
Proof.
  cbv zeta. apply process_lines_idempotent. apply Forall_forall. intros l Hin. apply in_map_iff in Hin as (l0 & <- & _).
  unfold trim_left. apply drop_while_idem.
Qed.

(* C10: the formatted include-except line is read exactly as the original by all eight patterns *)
Theorem format_keeps_include_except line indent out next f ex pairs :
  trim_left is_blank line = line -> m_include_except line = Some (f, ex, pairs) ->
  process_line line indent = (Some out, next) ->
  same_reading (trim_left is_blank out) line.
Proof.
  intros Htrim Hx H. destruct (include_except_parts _ _ _ _ Hx) as (Hf & Hfn & Ht & r & rem & Hst & -> & Hs & Hall).
  destruct (include_except_not_other _ _ Hx) as (Hb & He & Hfl & Hp & Hsf & Hd & Hi).
  unfold process_line in H. rewrite Htrim in H.
  destruct line as [|c0 l0] eqn:El; [discriminate|]. rewrite <- El in *.
  rewrite Hb, He, Hfl, Hp, Hsf, Hd, Hi, Hx in H. injection H as <- <-.
  change (same_reading (trim_left is_blank (spaces (indent * 2) ++ exc_print f ex pairs)) line).
  assert (Hnb : starts_nonblank (exc_print f ex pairs)) by reflexivity.
  rewrite (trim_spaces _ _ Hnb).
  pose proof (exc_print_reads f ex pairs rem Hf Hfn Ht Hst Hs Hall) as Hx'.
  destruct (include_except_not_other _ _ Hx') as (Hb' & He' & Hfl' & Hp' & Hsf' & Hd' & Hi').
  constructor; [rewrite Hb, Hb'|rewrite He, He'|rewrite Hfl, Hfl'|rewrite Hp, Hp'|rewrite Hsf, Hsf'|rewrite Hd, Hd'|rewrite Hi, Hi'|rewrite Hx, Hx']; reflexivity.
Qed.

(* non-vacuity: an exclude list of two files, pairs, irregular spacing *)
Example include_except_line_example :
  process_line $"##!>  include-except   words.ra   ex-1   ex-2.ra  --  @  x  " 1
    = (Some $"  ##!> include-except words.ra ex-1   ex-2.ra -- @  x", 1%nat) /\
  m_include_except $"##!>  include-except   words.ra   ex-1   ex-2.ra  --  @  x  " = Some ($"words.ra", $"ex-1   ex-2.ra", $"@  x") /\
  m_include_except $"##!> include-except words.ra ex-1   ex-2.ra -- @  x" = Some ($"words.ra", $"ex-1   ex-2.ra", $"@  x").
Proof. repeat split; vm_compute; reflexivity. Qed.
