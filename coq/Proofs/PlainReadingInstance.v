(* The hypotheses of Proofs/PlainReadingProofs.v are satisfiable, and its theorems say
   something: an instance with a REAL (small) regex semantics.

   Syntax: literal bytes other than ( ) | and backslash, groups (?:...), alternation with |,
   juxtaposition.  Meaning: sets of byte strings.  The optimiser [join] is the naive one: the
   lines joined with | inside a group.  Every law the refinement proof assumes about texts
   (H_sub, H_grp, H_cat, H_alt1, H_alt1_seq, H_join, H_join_shape) is PROVED here for this
   syntax, and the refinement theorem is applied to a concrete program: the text the model
   of the operator hands to the final passes means exactly the two words the file describes. *)
From Coq Require Import String.
From Verif Require Import Base.Str Base.Lines Base.Outcome Proofs.StrLemmas Model.Patterns Model.ParseLine Model.Passes Model.CmdLine Model.Assembler Model.PlainReading Model.ToyRegex Proofs.PlainReadingProofs.
Open Scope N_scope.

(* ---------- the laws ---------- *)
Lemma T_sub s a : DenSeq s a -> Den s a.
Proof. intros (L & H & E). exists L. split; [now constructor|exact E]. Qed.

Lemma T_grp s a : Den s a -> DenSeq (grp s) a.
Proof. intros (L & H & E). exists L. split; [now constructor|exact E]. Qed.

Lemma T_cat s t a b : DenSeq s a -> DenSeq t b -> DenSeq (s ++ t) (l_cat a b).
Proof.
  intros (L & H & E) (K & H' & E'). exists (l_cat L K). split; [now constructor|].
  intro w. unfold l_cat. split; intros (u & v & -> & Hu & Hv); exists u, v; repeat split; auto;
    try (now apply E); now apply E'.
Qed.

Lemma T_alt1 s x : Den s (l_alt [x]) -> Den s x.
Proof.
  intros (L & H & E). exists L. split; [exact H|]. intro w. rewrite E. unfold l_alt. split.
  - intros (y & [<-|[]] & Hy). exact Hy.
  - intro Hx. exists x. split; [now left|exact Hx].
Qed.

Lemma T_alt1_seq s x : DenSeq s x -> DenSeq s (l_alt [x]).
Proof.
  intros (L & H & E). exists L. split; [exact H|]. intro w. rewrite E. unfold l_alt. split.
  - intro Hx. exists x. split; [now left|exact Hx].
  - intros (y & [<-|[]] & Hy). exact Hy.
Qed.

Lemma bar_denotes ls xs : Forall2 Den ls xs -> ls <> [] -> Den (bar ls) (l_alt xs).
Proof.
  induction 1 as [|l x ls xs Hd HF IH]; [congruence|]. intros _.
  destruct HF as [|l2 x2 ls xs Hd2 HF].
  - cbn [bar]. destruct Hd as (L & H & E). exists L. split; [exact H|]. intro w. rewrite E.
    unfold l_alt. split.
    + intro Hx. exists x. split; [now left|exact Hx].
    + intros (y & [<-|[]] & Hy). exact Hy.
  - assert (Hne : l2 :: ls <> []) by discriminate.
    destruct (IH Hne) as (K & HK & EK). destruct Hd as (L & H & E).
    change (bar (l :: l2 :: ls)) with (l ++ [124] ++ bar (l2 :: ls)).
    exists (fun w => L w \/ K w). split; [now constructor|].
    intro w. rewrite E, EK. unfold l_alt. split.
    + intros [Hx|(y & Hin & Hy)].
      * exists x. split; [now left|exact Hx].
      * exists y. split; [now right|exact Hy].
    + intros (y & [<-|Hin] & Hy); [now left|]. right. exists y. split; assumption.
Qed.

Lemma T_join ls r xs : toy_join ls = Some r -> Forall2 Den ls xs -> ls <> [] -> Den r (l_alt xs).
Proof. intros [= <-] HF Hne. apply T_sub, T_grp. now apply bar_denotes. Qed.

Lemma T_join_shape ls r : toy_join ls = Some r -> ls <> [] ->
  r <> [] /\ m_assemble_input r = None /\ m_assemble_output r = None.
Proof. intros [= <-] _. split; [discriminate|split; reflexivity]. Qed.

(* ---------- literal entries ---------- *)
Lemma literal_seq l : l <> [] -> forallb plain_byte l = true -> DenSeq l (l_word l).
Proof.
  induction l as [|c l IH]; [congruence|]. intros _ H. cbn [forallb] in H. apply andb_prop in H as [Hc Hl].
  destruct l as [|c2 l].
  - exists (l_word [c]). split; [now constructor|tauto].
  - assert (Hne : c2 :: l <> []) by discriminate. destruct (IH Hne Hl) as (K & HK & EK).
    exists (l_cat (l_word [c]) K). split.
    + change (c :: c2 :: l) with ([c] ++ c2 :: l). constructor; [now constructor|exact HK].
    + intro w. unfold l_cat, l_word. split.
      * intros (u & v & -> & -> & Hv). apply EK in Hv. unfold l_word in Hv. now subst v.
      * intros ->. exists [c], (c2 :: l). repeat split. apply EK. reflexivity.
Qed.


Lemma literal_ok l : l <> [] -> forallb plain_byte l = true ->
  ok_entry lang l_word toy_seq_level Den DenSeq l.
Proof.
  intros Hne Hp. pose proof (literal_seq l Hne Hp) as Hs. split; [exact Hne|]. split; [now apply T_sub|auto].
Qed.

(* ---------- the refinement theorem, applied ---------- *)

(* a file: two entries, a concatenation marker, an entry; no flags, no prefixes, no suffixes *)

Example toy_plain_reading :
  exists x, plain_body lang l_alt l_cat l_word toy_den_word toy_seq_level toy_cfg toy_lines = Some (Some x) /\
            forall w, x w <-> (w = $"abef" \/ w = $"cdef").
Proof.
  eexists. split; [reflexivity|]. intro w. cbn. unfold l_cat, l_alt, l_word. split.
  - intros (u & v & -> & (x & Hin & Hx) & (y & Hin2 & Hy)).
    destruct Hin2 as [<-|[]]. subst v. destruct Hin as [<-|[<-|[]]]; subst u; auto.
  - intros [->| ->].
    + exists $"ab", $"ef". repeat split.
      * eexists. split; [left; reflexivity|reflexivity].
      * eexists. split; [left; reflexivity|reflexivity].
    + exists $"cd", $"ef". repeat split.
      * eexists. split; [right; left; reflexivity|reflexivity].
      * eexists. split; [left; reflexivity|reflexivity].
Qed.

Lemma toy_lines_ok :
  lines_ok lang l_alt l_cat l_word toy_den_word toy_seq_level toy_cfg Den DenSeq
    ([PPAsm lang (pasm_new lang)], []) toy_lines.
Proof.
  cbn [lines_ok toy_lines]. repeat split; try (intros; exact I); cbn; intros; try discriminate;
    apply literal_ok; try discriminate; reflexivity.
Qed.

(* whatever the model of the operator answers for this file, it is the final passes applied to
   a text that means exactly {abef, cdef} *)
Theorem toy_assemble limit init flag_i flag_s out :
  let p := {| p_buffer := $"ab" ++ [10] ++ $"cd" ++ [10] ++ $"##!=>" ++ [10] ++ $"ef" ++ [10];
              p_flag_i := flag_i; p_flag_s := flag_s; p_prefixes := []; p_suffixes := [] |} in
  scan_lines limit (p_buffer p) = toy_lines ->
  assemble toy_join toy_cfg limit init p = Ok out ->
  exists simplified cleaned L,
    AltP simplified L /\ (forall w, L w <-> (w = $"abef" \/ w = $"cdef")) /\
    final_passes simplified = Ok cleaned /\
    out = match cleaned with [] => [] | _ => flags_prefix p ++ cleaned end.
Proof.
  intros p Hscan H. destruct toy_plain_reading as (x & Hx & Ex).
  destruct (assemble_is_passes_of_plain_reading toy_join toy_cfg lang l_alt l_cat l_word toy_den_word
              toy_seq_level Den DenSeq T_sub T_grp T_cat T_alt1 T_alt1_seq T_join T_join_shape
              limit init p x [] [] out) as (simplified & cleaned & (L & HL & EL) & Hf & Ho).
  - rewrite Hscan. exact toy_lines_ok.
  - rewrite Hscan. exact Hx.
  - constructor.
  - constructor.
  - exact H.
  - exists simplified, cleaned, L. split; [exact HL|]. split; [|split; assumption].
    intro w. rewrite EL. unfold whole. cbn. apply Ex.
Qed.

(* and the model does answer: the run is not vacuous *)
Example toy_assemble_runs :
  let p := {| p_buffer := $"ab" ++ [10] ++ $"cd" ++ [10] ++ $"##!=>" ++ [10] ++ $"ef" ++ [10];
              p_flag_i := false; p_flag_s := false; p_prefixes := []; p_suffixes := [] |} in
  scan_lines 65536 (p_buffer p) = toy_lines /\
  assemble toy_join toy_cfg 65536 [] p = Ok $"(?:(?:(?:(?:(?:(?:ab|cd)))(?:(?:(?:ef))))))".
Proof. split; vm_compute; reflexivity. Qed.
