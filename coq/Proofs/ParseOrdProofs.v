From Coq Require Import String Permutation.
(* C03: the parser's answer does not depend on the iteration order of the directive-pattern map
   nor on that of the inclusion-line map - for ALL files, include files and exclude files.
   (The two remaining map iterations, over suffix pairs and over definitions, are the recorded
   findings C03-chained-suffix-pairs and C03-cyclic-definitions.) *)
From Verif Require Import Base.Str Base.Lines Base.Outcome Proofs.StrLemmas Model.Patterns Model.ParseLine Model.Passes Model.CmdLine Model.Parser Model.Assembler Model.Generate Proofs.ParserProofs Proofs.IncludeExceptProofs.
Open Scope N_scope.

Section S.
Variables o1 o2 : list pname.
Hypothesis Hsame : forall p, In p o1 <-> In p o2.
Variable ords ords2 : smap -> smap.
Variable ordi1 ordi2 : list (str * nat) -> list (str * nat).
Hypothesis Hperm1 : forall m, Permutation m (ordi1 m).
Hypothesis Hperm2 : forall m, Permutation m (ordi2 m).
Variable limit : N.
Variable fs : fsys.

Lemma pl_eq line : parse_line o1 line = parse_line o2 line.
Proof. now apply parse_line_deterministic. Qed.

Lemma parse_ordp_indep : forall fuel vars c,
  parse o1 ords ords2 ordi1 limit fs fuel vars c = parse o2 ords ords2 ordi2 limit fs fuel vars c.
Proof.
  induction fuel as [|f IH]; intros vars c.
  - cbn [parse].
    match goal with |- bind (?L1 _ _) ?K = bind (?L2 _ _) _ => assert (E : forall ls r, L1 r ls = L2 r ls) end.
    { induction ls as [|l ls IHl]; intro r; [reflexivity|].
      rewrite pl_eq. destruct (parse_line o2 (trim_left is_blank l)) as [pl| |]; cbn [bind]; try reflexivity.
      destruct (pl_type pl); cbn [bind]; try reflexivity; try apply IHl.
      destruct (flags_allowed (pl_value pl)); cbn [bind]; [apply IHl|reflexivity]. }
    rewrite E. reflexivity.
  - cbn [parse].
    match goal with |- bind (?L1 _ _) ?K = bind (?L2 _ _) _ => assert (E : forall ls r, L1 r ls = L2 r ls) end.
    { induction ls as [|l ls IHl]; intro r; [reflexivity|].
      rewrite pl_eq. destruct (parse_line o2 (trim_left is_blank l)) as [pl| |]; cbn [bind]; try reflexivity.
      destruct (pl_type pl); cbn [bind]; try reflexivity; try apply IHl.
      + (* include *)
        destruct (lookup_file fs (pl_file pl)) as [c0|]; cbn [bind]; [|reflexivity].
        rewrite IH. destruct (parse o2 ords ords2 ordi2 limit fs f [] c0) as [r1| |]; cbn [bind]; try reflexivity.
        destruct (merge_prefixes_suffixes r1) as [out| |]; cbn [bind]; try reflexivity. apply IHl.
      + (* include-except *)
        destruct (lookup_file fs (pl_file pl)) as [c0|]; cbn [bind]; [|reflexivity].
        rewrite IH. destruct (parse o2 ords ords2 ordi2 limit fs f [] c0) as [r1| |]; cbn [bind]; try reflexivity.
        destruct (merge_prefixes_suffixes r1) as [out| |]; cbn [bind]; try reflexivity.
        change (build_imap (scan_lines limit out) 0 []) with (fold_left imap_del [] (build_imap (scan_lines limit out) 0 [])).
        generalize (@nil str) as excl0. generalize (r_vars r1).
        generalize (pl_excludes pl). intro names. induction names as [|n ns IHn]; intros d excl0.
        * cbn [bind]. rewrite (include_except_spec ordi1 _ _ Hperm1), (include_except_spec ordi2 _ _ Hperm2). apply IHl.
        * destruct (lookup_file fs n) as [c1|]; cbn [bind]; [|reflexivity].
          rewrite IH. destruct (parse o2 ords ords2 ordi2 limit fs f d c1) as [r2| |]; cbn [bind]; try reflexivity.
          destruct (merge_prefixes_suffixes r2) as [out2| |]; cbn [bind]; try reflexivity.
          rewrite <- fold_left_app. apply IHn.
      + destruct (flags_allowed (pl_value pl)); cbn [bind]; [apply IHl|reflexivity]. }
    rewrite E. reflexivity.
Qed.

Theorem generate_ordp_ordi_indep join cfg limit_parse limit_asm contents :
  limit = limit_parse ->
  generate join cfg o1 ords ords2 ordi1 limit_parse limit_asm fs contents =
  generate join cfg o2 ords ords2 ordi2 limit_parse limit_asm fs contents.
Proof. intros <-. unfold generate. now rewrite parse_ordp_indep. Qed.
End S.
