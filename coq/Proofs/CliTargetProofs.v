(* C15: the targets of the single-argument commands. *)
From Coq Require Import String.
From Verif Require Import Base.Str Base.Outcome Proofs.StrLemmas Model.RuleId Model.Update Model.Renumber Model.Cli
  Proofs.CliProofs Proofs.CliUpdateFrameProofs.
Open Scope N_scope.

(* whatever the argument, `format ARG` resolves to a file below regex-assembly *)
Theorem format_target_below_assembly bits arg : under d_assembly (format_target bits arg) = true.
Proof.
  unfold format_target. destruct (parse_rule_id bits _) as [r|]; unfold under.
  - cbn [d_assembly app length Nat.ltb Nat.leb firstn]. now rewrite path_eqb_refl.
  - cbn [d_assembly d_include app length Nat.ltb Nat.leb firstn]. now rewrite path_eqb_refl.
Qed.

Theorem format_one_touches_only_below_assembly fmt bits t arg t' st q :
  format_one fmt bits t arg = (t', st) -> under d_assembly q = false -> t_get t' q = t_get t q.
Proof.
  intros H Hq. destruct (format_one_frame fmt bits t arg t' st H) as [_ Hf]. apply Hf.
  intro E. subst q. rewrite format_target_below_assembly in Hq. discriminate.
Qed.

(* `update ARG` touches at most the one rules file the glob of the rule's prefix selects *)
Theorem update_one_touches_only_the_rules_file_of_the_rule gen bits t arg t' st q :
  update_one gen bits t arg = (t', st) ->
  (forall r, parse_rule_id bits arg = Some r -> glob_rules t (r_id r) <> [q]) -> t_get t' q = t_get t q.
Proof.
  intros H Hq. destruct st.
  - eapply update_one_other_files; eauto.
  - now rewrite (update_one_fail_untouched gen bits t arg t' H).
Qed.
