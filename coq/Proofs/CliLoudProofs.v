(* C16 on the tree model: a failure in ANY file of an --all walk - first, middle or last - makes the
   whole command fail (non-zero exit); nothing it could print for that file is counted as a verdict. *)
From Coq Require Import String.
From Verif Require Import Base.Str Base.Outcome Proofs.StrLemmas Model.RuleId Model.Update Model.Renumber Model.Cli
  Proofs.CliProofs Proofs.CliOrderProofs.
Open Scope N_scope.

Definition failed {A} (o : outcome A) : Prop := match o with Ok _ => False | _ => True end.

Section Loud.
Variable gen : tree -> path -> outcome str.
Variable fmt : str -> outcome str.
Variable bits : N.

(* ---------- compare --all ---------- *)
Lemma collect_fails files : forall t f, In f files -> failed (verdict_of gen bits t f) -> failed (collect gen bits files t).
Proof.
  induction files as [|g rest IH]; intros t f Hin Hf; [destruct Hin|]. cbn [collect].
  destruct Hin as [->|Hin].
  - destruct (verdict_of gen bits t f); cbn [bind failed] in *; try exact I; try destruct Hf.
  - destruct (verdict_of gen bits t g); cbn [bind failed]; try exact I.
    pose proof (IH t f Hin Hf) as H. destruct (collect gen bits rest t); cbn [bind failed] in *; try exact I; destruct H.
Qed.

Theorem compare_all_fails_when_any_file_fails files t f :
  In f files -> failed (verdict_of gen bits t f) ->
  forall github, compare_all_status github (compare_all gen bits files t []) = Fail.
Proof.
  intros Hin Hf github. rewrite compare_all_is_each_alone.
  pose proof (collect_fails files t f Hin Hf) as H. destruct (collect gen bits files t); [destruct H| |]; reflexivity.
Qed.

(* with -o github a single changed rule anywhere in the walk fails the command *)
Theorem compare_all_github_fails_when_any_rule_changed files t vs :
  compare_all gen bits files t [] = Ok vs -> In false vs -> compare_all_status true (Ok vs) = Fail.
Proof.
  intros _ Hin. unfold compare_all_status. cbn [andb].
  assert (E : existsb negb vs = true) by (apply existsb_exists; exists false; auto). now rewrite E.
Qed.

(* ---------- format --all ---------- *)
Theorem format_all_fails_when_any_file_fails files t f c :
  NoDup files -> In f files -> format_selected f = true -> t_get t f = Some c -> failed (fmt c) ->
  exists t', format_all fmt files t = (t', Fail).
Proof.
  intros Hnd Hin Hs Hg Hf. destruct (format_all fmt files t) as [t' [|]] eqn:E; [|eauto].
  exfalso. destruct (format_all_success_inv fmt files t t' Hnd E f c Hin Hs Hg) as [c' Hc]. rewrite Hc in Hf. exact Hf.
Qed.

(* ---------- update --all ---------- *)
Hypothesis Hgen : gen_ignores_rules_files gen.

Lemma update_all_fails files : forall t0 t f id ds,
  (forall g, ~ is_rules_file g -> gen t g = gen t0 g) ->
  In f files -> addressed f = Some (id, ds) -> failed (gen t0 f) ->
  exists t', update_all gen bits files t = (t', Fail).
Proof.
  induction files as [|g rest IH]; intros t0 t f id ds Hsame Hin Ha Hf; [destruct Hin|].
  cbn [update_all]. destruct Hin as [->|Hin].
  - rewrite Ha. destruct (chain_offset bits ds) as [k|]; [|eauto].
    unfold process_rule. rewrite (Hsame f (addressed_not_rules _ _ Ha)).
    destruct (gen t0 f); [destruct Hf| |]; cbn [bind]; eauto.
  - destruct (addressed g) as [[id' ds']|] eqn:Eg; [|eapply IH; eauto].
    destruct (chain_offset bits ds') as [k|]; [|eauto].
    destruct (process_rule gen t id' k g) as [t1| |] eqn:Ep; eauto.
    eapply (IH t0 t1); eauto. intros h Hh.
    unfold process_rule in Ep. destruct (gen t g); cbn [bind] in Ep; try discriminate.
    destruct (glob_rules t id') as [|rf [|]] eqn:Egl; try discriminate.
    destruct (t_get t rf); try discriminate.
    destruct (update_contents _ _ _ _); cbn [bind] in Ep; try discriminate. injection Ep as <-.
    rewrite Hgen; auto. apply (glob_rules_are_rules_files t id'). rewrite Egl. now left.
Qed.

(* a file whose regex cannot be generated - wherever it comes in the walk - makes update --all fail *)
Theorem update_all_fails_when_any_generate_fails files t f id ds :
  In f files -> addressed f = Some (id, ds) -> failed (gen t f) ->
  exists t', update_all gen bits files t = (t', Fail).
Proof. intros. eapply (update_all_fails files t t); eauto. Qed.
End Loud.
