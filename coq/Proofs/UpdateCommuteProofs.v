(* C08 / C11: two updates of different rules in the SAME rules file commute, provided each
   rewritten line still looks the same to the other rule's locator (same_class); the
   complement is the recorded locator finding of C11. *)
From Coq Require Import String.
From Verif Require Import Base.Str Base.Outcome Proofs.StrLemmas Model.Update Proofs.UpdateProofs Proofs.RoundTripProofs.
Open Scope N_scope.

Lemma set_nth_comm i j a b : forall ls, i <> j -> set_nth i a (set_nth j b ls) = set_nth j b (set_nth i a ls).
Proof.
  revert j. induction i as [|i IH]; intros [|j] [|x ls] Hne; cbn; auto; try congruence.
  f_equal. apply IH. congruence.
Qed.

(* the rewritten line contains no newline when the new operand contains none *)
Lemma rewritten_line_no_newline lines i g1 g2 g3 rest new :
  Forall (fun l => ~ In 10 l) lines -> (i < length lines)%nat ->
  rx_match (nth i lines []) = Some (g1, g2, g3, rest) -> ~ In 10 new -> ~ In 10 (g1 ++ new ++ g3).
Proof.
  intros HF Hi Hrx Hnl. destruct (rx_match_parts _ _ _ _ _ Hrx) as (Hg3 & Hline & _).
  assert (Hold : ~ In 10 (nth i lines [])) by (apply (nth_Forall (fun l => ~ In 10 l)); auto).
  rewrite Hline in Hold. intro Hin. apply in_app_or in Hin as [Hin|Hin].
  - apply Hold. apply in_or_app. now left.
  - apply in_app_or in Hin as [Hin|Hin]; [now apply Hnl|].
    apply Hold. apply in_or_app. right. apply in_or_app. right. apply in_or_app. now left.
Qed.

Section Two.
Variables (c id1 id2 n1 n2 : str) (k1 k2 : N) (i1 i2 : nat).
Variables (a1 a2 a3 ar b1 b2 b3 br : str).
Let lines := split_on 10 c.
Hypothesis L1 : locate lines id1 k1 = Ok (Some i1).
Hypothesis L2 : locate lines id2 k2 = Ok (Some i2).
Hypothesis R1 : rx_match (nth i1 lines []) = Some (a1, a2, a3, ar).
Hypothesis R2 : rx_match (nth i2 lines []) = Some (b1, b2, b3, br).
Hypothesis Hne : i1 <> i2.
Hypothesis N1 : ~ In 10 n1.
Hypothesis N2 : ~ In 10 n2.

Lemma update_first : update_contents c id1 k1 n1 = Ok (join [10] (set_nth i1 (a1 ++ n1 ++ a3) lines)).
Proof. unfold update_contents. fold lines. rewrite L1. cbn [bind]. now rewrite R1. Qed.

(* the second update, run on the result of the first, rewrites its own line exactly as it would have alone *)
Lemma update_second_after_first :
  same_class ($"id:" ++ id2) (nth i1 lines []) (a1 ++ n1 ++ a3) ->
  update_contents (join [10] (set_nth i1 (a1 ++ n1 ++ a3) lines)) id2 k2 n2
  = Ok (join [10] (set_nth i2 (b1 ++ n2 ++ b3) (set_nth i1 (a1 ++ n1 ++ a3) lines))).
Proof.
  intro Hclass.
  assert (Hnonempty : lines <> []) by apply split_on_nonempty.
  assert (Hi1 : (i1 < length lines)%nat) by (eapply locate_bound; eauto).
  unfold update_contents. rewrite split_join_lines.
  - rewrite <- (locate_class lines); [|apply same_class_set_nth; auto]. rewrite L2. cbn [bind].
    rewrite set_nth_other by exact Hne. now rewrite R2.
  - now apply set_nth_nonempty.
  - apply Forall_set_nth; [apply split_on_no_sep|].
    apply (rewritten_line_no_newline lines i1 a1 a2 a3 ar n1); auto. apply split_on_no_sep.
Qed.
End Two.

(* THE COMMUTATION: both orders succeed and give the same bytes - each rule's line rewritten as
   the rule's own update would rewrite it, every other line untouched *)
Theorem update_contents_commute c id1 k1 n1 id2 k2 n2 i1 i2 a1 a2 a3 ar b1 b2 b3 br :
  let lines := split_on 10 c in
  locate lines id1 k1 = Ok (Some i1) -> locate lines id2 k2 = Ok (Some i2) ->
  rx_match (nth i1 lines []) = Some (a1, a2, a3, ar) -> rx_match (nth i2 lines []) = Some (b1, b2, b3, br) ->
  i1 <> i2 -> ~ In 10 n1 -> ~ In 10 n2 ->
  same_class ($"id:" ++ id2) (nth i1 lines []) (a1 ++ n1 ++ a3) ->
  same_class ($"id:" ++ id1) (nth i2 lines []) (b1 ++ n2 ++ b3) ->
  exists c1 c2 out,
    update_contents c id1 k1 n1 = Ok c1 /\ update_contents c id2 k2 n2 = Ok c2 /\
    update_contents c1 id2 k2 n2 = Ok out /\ update_contents c2 id1 k1 n1 = Ok out /\
    out = join [10] (set_nth i1 (a1 ++ n1 ++ a3) (set_nth i2 (b1 ++ n2 ++ b3) lines)).
Proof.
  intros lines L1 L2 R1 R2 Hne N1 N2 C1 C2. subst lines.
  exists (join [10] (set_nth i1 (a1 ++ n1 ++ a3) (split_on 10 c))), (join [10] (set_nth i2 (b1 ++ n2 ++ b3) (split_on 10 c))).
  exists (join [10] (set_nth i1 (a1 ++ n1 ++ a3) (set_nth i2 (b1 ++ n2 ++ b3) (split_on 10 c)))).
  split; [|split; [|split; [|split]]].
  - eapply update_first; eauto.
  - eapply update_first; eauto.
  - rewrite (update_second_after_first c id1 id2 n1 n2 k1 k2 i1 i2 a1 a2 a3 ar b1 b2 b3 br); auto.
    rewrite set_nth_comm by (now apply not_eq_sym). reflexivity.
  - rewrite (update_second_after_first c id2 id1 n2 n1 k2 k1 i2 i1 b1 b2 b3 br a1 a2 a3 ar); auto.
  - reflexivity.
Qed.

(* non-vacuity: two neighbouring rules of one file *)
Example update_contents_commute_example :
  let c := $"SecRule ARGS ""@rx old1"" \
    ""id:942100,\
    severity:'CRITICAL'""
SecRule ARGS ""@rx old2"" \
    ""id:942110,\
    severity:'CRITICAL'""
" in
  exists c1 c2 out,
    update_contents c $"942100" 0 $"NEW1" = Ok c1 /\ update_contents c $"942110" 0 $"NEW2" = Ok c2 /\
    update_contents c1 $"942110" 0 $"NEW2" = Ok out /\ update_contents c2 $"942100" 0 $"NEW1" = Ok out.
Proof. cbv zeta. do 3 eexists. split; [|split; [|split]]; vm_compute; reflexivity. Qed.

(* the hypothesis is needed: an operand that mentions the other rule's id changes what the other
   update finds (the C11 locator finding seen from C08: the order of the two updates matters) *)
Example update_order_matters_refuted :
  let c := $"SecRule ARGS ""@rx old1"" \
    ""id:942100,\
    severity:'CRITICAL'""
SecRule ARGS ""@rx old2"" \
    ""id:942110,\
    severity:'CRITICAL'""
" in
  exists c1 c2,
    update_contents c $"942100" 0 $"id:942110" = Ok c1 /\ update_contents c $"942110" 0 $"NEW2" = Ok c2 /\
    update_contents c1 $"942110" 0 $"NEW2" <> update_contents c2 $"942100" 0 $"id:942110".
Proof. cbv zeta. do 2 eexists. split; [|split]; [vm_compute; reflexivity..|vm_compute; discriminate]. Qed.
