(* Soundness of the regex equivalence / inclusion checker (Regex/Equiv.v). *)
From Verif Require Import Base.Str Proofs.StrLemmas Regex.Re Regex.Equiv.
Open Scope N_scope.

(* ---------- nullability ---------- *)
Lemma app_nil_inv {A} (a b : list A) : a ++ b = [] -> a = [] /\ b = [].
Proof. destruct a; cbn; intro H; [auto|discriminate]. Qed.

Lemma null_sound r s e : null r s e = true -> M r s [] e.
Proof.
  induction r as [| | | |rs|a IHa b IHb|a IHa b IHb|a IHa]; cbn; intro H; try discriminate.
  - constructor.
  - subst s. constructor.
  - subst e. constructor.
  - apply andb_true_iff in H as [Ha Hb]. change (@nil N) with (@nil N ++ @nil N).
    constructor; cbn [is_nil]; rewrite ?andb_true_r; auto.
  - apply orb_true_iff in H as [H|H]; [apply MAltL|apply MAltR]; auto.
  - constructor.
Qed.

Lemma null_complete r s w e : M r s w e -> w = [] -> null r s e = true.
Proof.
  induction 1; intro Hw; cbn; auto; try discriminate.
  - apply app_nil_inv in Hw as [-> ->]. cbn [is_nil] in *. rewrite !andb_true_r in *.
    rewrite IHM1, IHM2; auto.
  - rewrite IHM; auto.
  - rewrite IHM; auto. apply orb_true_r.
Qed.

Lemma null_spec r s e : null r s e = true <-> M r s [] e.
Proof. split; [apply null_sound|intro H; eapply null_complete; eauto]. Qed.

(* ---------- derivatives ---------- *)
Lemma deriv_sound c r : forall s w e, M (deriv c r s) false w e -> M r s (c :: w) e.
Proof.
  induction r as [| | | |rs|a IHa b IHb|a IHa b IHb|a IHa]; intros s w e H; cbn [deriv] in H;
    try (inversion H; fail).
  - destruct (in_cls c rs) eqn:E; inversion H; subst. now constructor.
  - inversion H as [| | | | |a' b' s' w' e' H1| a' b' s' w' e' H1| |]; subst.
    + inversion H1 as [| | | |a' b' s' w1 w2 e' Ha Hb| | | |]; subst.
      apply IHa in Ha. change (c :: w1 ++ w2) with ((c :: w1) ++ w2).
      constructor; auto. cbn [is_nil]. now rewrite andb_false_r in *.
    + destruct (null a s false) eqn:En; [|inversion H1].
      apply IHb in H1. apply null_sound in En.
      change (c :: w) with ([] ++ c :: w). constructor; cbn [is_nil].
      * now rewrite andb_false_r.
      * now rewrite andb_true_r.
  - inversion H; subst; [apply MAltL|apply MAltR]; auto.
  - inversion H as [| | | |a' b' s' w1 w2 e' Ha Hb| | | |]; subst.
    apply IHa in Ha. change (c :: w1 ++ w2) with ((c :: w1) ++ w2).
    apply MStarS; [discriminate|exact Ha|exact Hb].
Qed.

Lemma deriv_complete r s w0 e : M r s w0 e -> forall c w, w0 = c :: w -> M (deriv c r s) false w e.
Proof.
  induction 1 as [s e|e|s|rs c0 s e Hc|a b s w1 w2 e Ha IHa Hb IHb|a b s w' e Ha IHa|a b s w' e Hb IHb|a s e|a s w1 w2 e Hne Ha IHa Hs IHs];
    intros c w Hw; cbn [deriv]; try discriminate.
  - injection Hw as <- <-. rewrite Hc. constructor.
  - destruct w1 as [|c1 w1'].
    + cbn in Hw. subst w2. cbn [is_nil] in *. rewrite andb_false_r in Ha. rewrite andb_true_r in Hb, IHb.
      apply MAltR. apply null_spec in Ha. rewrite Ha. now apply IHb.
    + cbn in Hw. injection Hw as <- <-. apply MAltL. constructor.
      * now apply IHa.
      * cbn [is_nil] in Hb. now rewrite andb_false_r in Hb.
  - apply MAltL. now apply IHa.
  - apply MAltR. now apply IHb.
  - destruct w1 as [|c1 w1']; [congruence|]. cbn in Hw. injection Hw as <- <-.
    constructor; [now apply IHa|]. now rewrite andb_false_l.
Qed.

Lemma deriv_spec c r s w e : M r s (c :: w) e <-> M (deriv c r s) false w e.
Proof. split; [intro H; eapply deriv_complete; eauto|apply deriv_sound]. Qed.

(* ---------- syntactic equality ---------- *)
Lemma ranges_eqb_eq a b : ranges_eqb a b = true -> a = b.
Proof.
  revert b; induction a as [|[l1 h1] a IH]; intros [|[l2 h2] b]; cbn; try discriminate; auto.
  intro H. apply andb_true_iff in H as [H H3]. apply andb_true_iff in H as [H1 H2].
  apply N.eqb_eq in H1, H2. apply IH in H3. congruence.
Qed.

Lemma re_eqb_eq x y : re_eqb x y = true -> x = y.
Proof.
  revert y; induction x; intros y; destruct y; cbn; try discriminate; auto.
  - intro H. apply ranges_eqb_eq in H. congruence.
  - intro H. apply andb_true_iff in H as [H1 H2]. f_equal; auto.
  - intro H. apply andb_true_iff in H as [H1 H2]. f_equal; auto.
  - intro H. f_equal; auto.
Qed.

(* ---------- inversion lemmas ---------- *)
Lemma M_void_inv s w e : ~ M Void s w e.
Proof. intro H. inversion H. Qed.
Lemma M_eps_inv s w e : M Eps s w e -> w = [].
Proof. intro H. now inversion H. Qed.
Lemma M_alt_inv a b s w e : M (Alt a b) s w e -> M a s w e \/ M b s w e.
Proof. intro H. inversion H; subst; auto. Qed.
Lemma M_cat_inv a b s w e : M (Cat a b) s w e ->
  exists w1 w2, w = w1 ++ w2 /\ M a s w1 (e && is_nil w2) /\ M b (s && is_nil w1) w2 e.
Proof. intro H. inversion H; subst. eauto. Qed.
Lemma M_star_inv a s w e : M (Star a) s w e ->
  w = [] \/ exists w1 w2, w = w1 ++ w2 /\ w1 <> [] /\ M a s w1 (e && is_nil w2) /\ M (Star a) false w2 e.
Proof. intro H. inversion H; subst; [now left|right; eauto 8]. Qed.

(* ---------- normalisation preserves the language ---------- *)
Definition sem_eq (a b : re) : Prop := forall s w e, M a s w e <-> M b s w e.

Lemma M_alts r s w e : M r s w e <-> exists x, In x (alts r) /\ M x s w e.
Proof.
  induction r; cbn [alts]; try (split; [intro H; eexists; split; [left; reflexivity|exact H]|intros (x & [<-|[]] & H); exact H]).
  - split; [intro H; now apply M_void_inv in H|intros (x & [] & _)].
  - split.
    + intro H. apply M_alt_inv in H as [H|H].
      * apply IHr1 in H as (x & Hx & Hm). exists x. split; auto. apply in_or_app. now left.
      * apply IHr2 in H as (x & Hx & Hm). exists x. split; auto. apply in_or_app. now right.
    + intros (x & Hx & Hm). apply in_app_or in Hx as [Hx|Hx].
      * apply MAltL. apply IHr1. eauto.
      * apply MAltR. apply IHr2. eauto.
Qed.

Lemma mem_re_in x l : mem_re x l = true -> In x l.
Proof.
  induction l as [|y l IH]; cbn; [discriminate|]. intro H. apply orb_true_iff in H as [H|H].
  - left. symmetry. now apply re_eqb_eq.
  - right. auto.
Qed.

Lemma dedup_in l seen x : In x (dedup l seen) -> In x l.
Proof.
  revert seen; induction l as [|y l IH]; intros seen; cbn; auto.
  destruct (mem_re y seen); [right; eauto|]. intros [<-|H]; [now left|right; eauto].
Qed.

Lemma dedup_complete l seen x : In x l -> In x (dedup l seen) \/ In x seen.
Proof.
  revert seen; induction l as [|y l IH]; intros seen; cbn; [tauto|].
  intros [<-|H].
  - destruct (mem_re y seen) eqn:E; [right; now apply mem_re_in|left; now left].
  - destruct (mem_re y seen) eqn:E.
    + apply IH; auto.
    + destruct (IH (y :: seen) H) as [H1|[<-|H1]]; [left; now right|left; now left|now right].
Qed.

Lemma M_alt_of l s w e : M (alt_of l) s w e <-> exists x, In x l /\ M x s w e.
Proof.
  induction l as [|x l IH]; cbn [alt_of].
  - split; [intro H; now apply M_void_inv in H|intros (x & [] & _)].
  - destruct l as [|y l'].
    + split; [intro H; exists x; split; [now left|exact H]|intros (z & [<-|[]] & H); exact H].
    + split.
      * intro H. apply M_alt_inv in H as [H|H].
        -- exists x. split; [now left|auto].
        -- apply IH in H as (z & Hz & Hm). exists z. split; [now right|auto].
      * intros (z & [<-|Hz] & Hm); [now apply MAltL|apply MAltR; apply IH; eauto].
Qed.

Lemma mk_cat_spec a b : sem_eq (mk_cat a b) (Cat a b).
Proof.
  intros s w e. unfold mk_cat.
  assert (VL : forall b, M Void s w e <-> M (Cat Void b) s w e).
  { intro b0. split; intro H; [now apply M_void_inv in H|].
    apply M_cat_inv in H as (w1 & w2 & _ & H & _). now apply M_void_inv in H. }
  assert (VR : forall a, M Void s w e <-> M (Cat a Void) s w e).
  { intro a0. split; intro H; [now apply M_void_inv in H|].
    apply M_cat_inv in H as (w1 & w2 & _ & _ & H). now apply M_void_inv in H. }
  assert (EL : forall b, M b s w e <-> M (Cat Eps b) s w e).
  { intro b0. split; intro H.
    - change w with ([] ++ w). constructor; cbn [is_nil]; [constructor|now rewrite andb_true_r].
    - apply M_cat_inv in H as (w1 & w2 & -> & H1 & H2). apply M_eps_inv in H1. subst w1.
      cbn [is_nil app] in *. now rewrite andb_true_r in H2. }
  assert (ER : forall a, M a s w e <-> M (Cat a Eps) s w e).
  { intro a0. split; intro H.
    - rewrite <- (app_nil_r w). constructor; cbn [is_nil]; [now rewrite andb_true_r|constructor].
    - apply M_cat_inv in H as (w1 & w2 & -> & H1 & H2). apply M_eps_inv in H2. subst w2.
      cbn [is_nil] in *. rewrite app_nil_r. now rewrite andb_true_r in H1. }
  destruct a, b; cbn; try apply VL; try apply VR; try apply EL; try apply ER; reflexivity.
Qed.

Lemma cat_congr a a' b b' : sem_eq a a' -> sem_eq b b' -> sem_eq (Cat a b) (Cat a' b').
Proof.
  intros Ha Hb s w e. split; intro H; apply M_cat_inv in H as (w1 & w2 & -> & H1 & H2);
    constructor; try apply Ha; try apply Hb; auto.
Qed.

Lemma alt_congr a a' b b' : sem_eq a a' -> sem_eq b b' -> sem_eq (Alt a b) (Alt a' b').
Proof.
  intros Ha Hb s w e. split; intro H; apply M_alt_inv in H as [H|H];
    (apply MAltL; apply Ha; assumption) || (apply MAltR; apply Hb; assumption).
Qed.

Lemma star_congr_aux a a' : (forall s w e, M a s w e -> M a' s w e) -> forall s w e, M (Star a) s w e -> M (Star a') s w e.
Proof.
  intros Ha s w e H. remember (Star a) as r eqn:Er. induction H; try discriminate.
  - constructor.
  - injection Er as ->. apply MStarS; auto.
Qed.

Lemma star_congr a a' : sem_eq a a' -> sem_eq (Star a) (Star a').
Proof. intros Ha s w e. split; apply star_congr_aux; intros; apply Ha; auto. Qed.

Lemma star_void_eps s w e : M (Star Void) s w e <-> M Eps s w e.
Proof.
  split; intro H.
  - apply M_star_inv in H as [->|(w1 & w2 & _ & _ & H & _)]; [constructor|now apply M_void_inv in H].
  - apply M_eps_inv in H. subst. constructor.
Qed.

Lemma star_eps_eps s w e : M (Star Eps) s w e <-> M Eps s w e.
Proof.
  split; intro H.
  - apply M_star_inv in H as [->|(w1 & w2 & _ & Hne & H & _)]; [constructor|]. apply M_eps_inv in H. congruence.
  - apply M_eps_inv in H. subst. constructor.
Qed.

Lemma norm_spec r : sem_eq (norm r) r.
Proof.
  induction r as [| | | |rs|a IHa b IHb|a IHa b IHb|a IHa]; cbn [norm]; try (intros s w e; tauto).
  - intros s w e. rewrite (mk_cat_spec _ _ s w e). now apply cat_congr.
  - intros s w e. rewrite M_alt_of. rewrite <- (alt_congr _ _ _ _ IHa IHb s w e).
    rewrite (M_alts (Alt (norm a) (norm b))). split.
    + intros (x & Hx & Hm). exists x. split; auto. eapply dedup_in; eauto.
    + intros (x & Hx & Hm). exists x. split; auto.
      destruct (dedup_complete _ [] x Hx) as [H|[]]; auto.
  - intros s w e. rewrite <- (star_congr _ _ IHa s w e).
    destruct (norm a); try tauto.
    + symmetry. apply star_eps_eps.
    + symmetry. apply star_void_eps.
Qed.

Lemma nderiv_spec c r s w e : M r s (c :: w) e <-> M (nderiv c r s) false w e.
Proof. unfold nderiv. rewrite (norm_spec (deriv c r s) false w e). apply deriv_spec. Qed.

(* ---------- a boolean matcher by derivatives (only used to state the generic theorem) ---------- *)
Fixpoint matchb (r : re) (s : bool) (w : list N) (e : bool) : bool :=
  match w with
  | [] => null r s e
  | c :: w' => matchb (deriv c r s) false w' e
  end.

Lemma matchb_spec w : forall r s e, matchb r s w e = true <-> M r s w e.
Proof.
  induction w as [|c w IH]; intros r s e; cbn [matchb].
  - apply null_spec.
  - rewrite IH. symmetry. apply deriv_spec.
Qed.

Lemma bool_eq_iff (a b : bool) : (a = true <-> b = true) -> a = b.
Proof.
  destruct a, b; intros [H1 H2]; try reflexivity; [symmetry; apply H1; reflexivity|apply H2; reflexivity].
Qed.

Lemma matchb_sem_eq a b : sem_eq a b -> forall s w e, matchb a s w e = matchb b s w e.
Proof. intros H s w e. apply bool_eq_iff. rewrite !matchb_spec. apply H. Qed.

(* ---------- characters of one class have equal derivatives ---------- *)
Definition same_class (rs : list (N * N)) (c d : N) : Prop :=
  forall r, In r rs -> in_range c r = in_range d r.

Lemma in_cls_same rs c d : same_class rs c d -> in_cls c rs = in_cls d rs.
Proof.
  unfold in_cls. induction rs as [|r rs IH]; intro H; cbn; auto.
  rewrite (H r (or_introl eq_refl)). f_equal. apply IH. intros r' Hr'. apply H. now right.
Qed.

Lemma deriv_same c d r : same_class (ranges_of r) c d -> forall s, deriv c r s = deriv d r s.
Proof.
  induction r as [| | | |rs|a IHa b IHb|a IHa b IHb|a IHa]; intros H s; cbn [deriv]; auto.
  - cbn in H. now rewrite (in_cls_same rs c d H).
  - cbn in H. rewrite IHa, IHb; auto; intros r Hr; apply H; apply in_or_app; auto.
  - cbn in H. rewrite IHa, IHb; auto; intros r Hr; apply H; apply in_or_app; auto.
  - cbn in H. rewrite IHa; auto.
Qed.

Lemma same_class_sub rs rs' c d : (forall r, In r rs' -> In r rs) -> same_class rs c d -> same_class rs' c d.
Proof. intros Hsub H r Hr. apply H. auto. Qed.

(* ---------- representatives ---------- *)
(* the greatest element of l that is <= c *)
Fixpoint best (c : N) (l : list N) : option N :=
  match l with
  | [] => None
  | x :: l' =>
    match best c l' with
    | Some d => if (x <=? c) && (d <? x) then Some x else Some d
    | None => if x <=? c then Some x else None
    end
  end.

Lemma best_spec c l :
  match best c l with
  | Some d => In d l /\ d <= c /\ forall b, In b l -> b <= c -> b <= d
  | None => forall b, In b l -> c < b
  end.
Proof.
  induction l as [|x l IH]; cbn [best]; [intros b []|].
  destruct (best c l) as [d|].
  - destruct IH as (Hd & Hdc & Hmax).
    destruct (x <=? c) eqn:Exc; cbn [andb].
    + apply N.leb_le in Exc. destruct (d <? x) eqn:Edx.
      * apply N.ltb_lt in Edx. split; [now left|split; [assumption|]].
        intros b [<-|Hb] Hbc; [lia|]. specialize (Hmax b Hb Hbc). lia.
      * apply N.ltb_ge in Edx. split; [now right|split; [assumption|]].
        intros b [<-|Hb] Hbc; [assumption|auto].
    + apply N.leb_gt in Exc. split; [now right|split; [assumption|]].
      intros b [<-|Hb] Hbc; [lia|auto].
  - destruct (x <=? c) eqn:Exc.
    + apply N.leb_le in Exc. split; [now left|split; [assumption|]].
      intros b [<-|Hb] Hbc; [lia|]. specialize (IH b Hb). lia.
    + apply N.leb_gt in Exc. intros b [<-|Hb]; [assumption|auto].
Qed.

Lemma memN_in x l : memN x l = true <-> In x l.
Proof.
  unfold memN. rewrite existsb_exists. split.
  - intros (y & Hy & E). apply N.eqb_eq in E. now subst.
  - intro H. exists x. split; auto. apply N.eqb_refl.
Qed.

(* every admissible character has a representative of its class in [reps] *)
Lemma rep_exists rs excluded c :
  ~ In c excluded -> exists d, In d (reps rs excluded) /\ same_class rs c d.
Proof.
  intro Hc. pose proof (best_spec c (boundaries rs excluded)) as Hb.
  destruct (best c (boundaries rs excluded)) as [d|].
  2:{ exfalso. specialize (Hb 0). assert (c < 0) by (apply Hb; now left). lia. }
  destruct Hb as (Hd & Hdc & Hmax). exists d. split.
  - unfold reps. apply nodup_In. apply filter_In. split; auto.
    destruct (memN d excluded) eqn:E; auto. apply memN_in in E.
    (* d excluded: then d <> c, so d+1 <= c is a greater boundary *)
    assert (d <> c) by (intro; subst; auto).
    assert (In (d + 1) (boundaries rs excluded)).
    { unfold boundaries. right. apply in_or_app. right. apply in_flat_map. exists d. split; auto. cbn. auto. }
    assert (d + 1 <= d) by (apply Hmax; auto; lia). lia.
  - intros [lo hi] Hr. unfold in_range; cbn [fst snd].
    assert (Hlo : In lo (boundaries rs excluded)).
    { unfold boundaries. right. apply in_or_app. left. apply in_flat_map. exists (lo, hi). split; auto. cbn. auto. }
    assert (Hhi : In (hi + 1) (boundaries rs excluded)).
    { unfold boundaries. right. apply in_or_app. left. apply in_flat_map. exists (lo, hi). split; auto. cbn. auto. }
    assert (E1 : (lo <=? c) = (lo <=? d)).
    { destruct (lo <=? c) eqn:A; symmetry.
      - apply N.leb_le in A. apply N.leb_le. auto.
      - apply N.leb_gt in A. apply N.leb_gt. lia. }
    assert (E2 : (c <=? hi) = (d <=? hi)).
    { destruct (c <=? hi) eqn:A; symmetry.
      - apply N.leb_le in A. apply N.leb_le. lia.
      - apply N.leb_gt in A. apply N.leb_gt.
        assert (hi + 1 <= d) by (apply Hmax; auto; lia). lia. }
    now rewrite E1, E2.
Qed.

(* ---------- the bisimulation argument ---------- *)
Lemma state_eqb_eq x y : state_eqb x y = true -> x = y.
Proof.
  destruct x as [[s1 a1] b1], y as [[s2 a2] b2]. cbn.
  intro H. apply andb_true_iff in H as [H Hb]. apply andb_true_iff in H as [Hs Ha].
  apply Bool.eqb_prop in Hs. apply re_eqb_eq in Ha, Hb. congruence.
Qed.

Lemma mem_state_in x l : mem_state x l = true -> In x l.
Proof.
  unfold mem_state. rewrite existsb_exists. intros (y & Hy & E). apply state_eqb_eq in E. now subst.
Qed.

Lemma ranges_within_sub rs r : ranges_within rs r = true -> forall x, In x (ranges_of r) -> In x rs.
Proof.
  unfold ranges_within. rewrite forallb_forall. intros H x Hx. specialize (H x Hx).
  apply existsb_exists in H as (y & Hy & E). unfold range_eqb in E.
  apply andb_true_iff in E as [E1 E2]. apply N.eqb_eq in E1, E2.
  destruct x, y; cbn in *; subst; auto.
Qed.

Section Sound.
  Variable P : bool -> bool -> bool.
  Variable rs : list (N * N).
  Variable excluded : list N.
  Variable V : list state.
  Hypothesis Hclosed : closed P rs excluded V = true.

  Lemma closed_steps w : forall s a b,
    In (s, a, b) V -> (forall c, In c w -> ~ In c excluded) ->
    forall e, P (matchb a s w e) (matchb b s w e) = true.
  Proof.
    induction w as [|c w IH]; intros s a b Hin Hw e.
    - unfold closed in Hclosed. rewrite forallb_forall in Hclosed.
      specialize (Hclosed _ Hin). cbn in Hclosed.
      apply andb_true_iff in Hclosed as [H _]. apply andb_true_iff in H as [_ Hacc].
      apply andb_true_iff in Hacc as [Ht Hf]. cbn [matchb]. destruct e; auto.
    - pose proof Hclosed as Hc. unfold closed in Hc. rewrite forallb_forall in Hc.
      specialize (Hc _ Hin). cbn beta iota in Hc.
      apply andb_true_iff in Hc as [H Hsucc]. apply andb_true_iff in H as [H _].
      apply andb_true_iff in H as [Hra Hrb].
      destruct (rep_exists rs excluded c) as (d & Hd & Hsame); [apply Hw; now left|].
      cbn [matchb].
      rewrite (deriv_same c d a), (deriv_same c d b);
        try (eapply same_class_sub; [|exact Hsame]; apply ranges_within_sub; assumption).
      rewrite <- (matchb_sem_eq _ _ (norm_spec (deriv d a s))).
      rewrite <- (matchb_sem_eq _ _ (norm_spec (deriv d b s))).
      apply IH; [|intros c' Hc'; apply Hw; now right].
      rewrite forallb_forall in Hsucc. apply mem_state_in. apply Hsucc.
      unfold successors. apply in_map_iff. exists d. split; auto.
  Qed.
End Sound.

Theorem check_sound_generic P excluded fuel r1 r2 V :
  check P excluded fuel r1 r2 = Holds V ->
  forall s w e, (forall c, In c w -> ~ In c excluded) ->
  P (matchb r1 s w e) (matchb r2 s w e) = true.
Proof.
  unfold check. intro H.
  destruct (explore _ _ _ _ _) as [V'| |]; try discriminate.
  destruct (closed _ _ _ V' && _ && _) eqn:E; try discriminate.
  apply andb_true_iff in E as [E Hf]. apply andb_true_iff in E as [Hcl Ht].
  intros s w e Hw.
  rewrite <- (matchb_sem_eq _ _ (norm_spec r1)), <- (matchb_sem_eq _ _ (norm_spec r2)).
  eapply closed_steps; eauto. destruct s; apply mem_state_in; assumption.
Qed.

(* the two instances used as oracles *)
Theorem equivalent_sound excluded fuel r1 r2 V :
  equivalent excluded fuel r1 r2 = Holds V ->
  forall s w e, (forall c, In c w -> ~ In c excluded) -> (M r1 s w e <-> M r2 s w e).
Proof.
  intros H s w e Hw. pose proof (check_sound_generic _ _ _ _ _ _ H s w e Hw) as E.
  apply Bool.eqb_prop in E. rewrite <- !matchb_spec. now rewrite E.
Qed.

Theorem included_sound excluded fuel r1 r2 V :
  included excluded fuel r1 r2 = Holds V ->
  forall s w e, (forall c, In c w -> ~ In c excluded) -> M r1 s w e -> M r2 s w e.
Proof.
  intros H s w e Hw Hm. pose proof (check_sound_generic _ _ _ _ _ _ H s w e Hw) as E.
  apply matchb_spec in Hm. rewrite Hm in E. cbn in E. now apply matchb_spec.
Qed.
