(* C10: the formatted line says what the line said.
   For every line that is not a definition / include / include-except directive, each of the
   eight directive patterns gives the same answer (match or not, and the same captures) on the
   formatted line - indentation stripped, as every reader of the file strips it - as on the
   original line.  What the parser, the assembler and the formatter itself read from the file
   is therefore unchanged by formatting. *)
From Coq Require Import String.
From Verif Require Import Base.Str Base.Lines Base.Outcome Proofs.StrLemmas Model.Patterns Model.ParseLine Model.Format Proofs.FormatProofs Proofs.FormatIdemProofs.
Open Scope N_scope.

Lemma same_reading_refl a : same_reading a a.
Proof. constructor; reflexivity. Qed.

(* a line one marker pattern reads starts with that marker *)
Lemma marker_value_starts m s v : m_marker_value m s = Some v -> exists r, s = m ++ r.
Proof.
  unfold m_marker_value, lit. destruct (prefixb m s) eqn:E; [|discriminate]. intros _.
  now apply prefixb_true_iff.
Qed.

Lemma block_start_starts s name arg : m_block_start s = Some (name, arg) -> exists r, s = $"##!>" ++ r.
Proof.
  unfold m_block_start, lit. destruct (prefixb $"##!>" s) eqn:E; [|discriminate]. intros _.
  now apply prefixb_true_iff.
Qed.

Theorem format_keeps_reading line indent out next :
  trim_left is_blank line = line -> not_a_file_directive line ->
  process_line line indent = (Some out, next) ->
  same_reading (trim_left is_blank out) line.
Proof.
  intros Htrim (Hd & Hi & Hx) H. unfold process_line in H. rewrite Htrim in H.
  destruct line as [|c0 l0] eqn:El.
  - injection H as <- <-. apply same_reading_refl.
  - assert (Hne : line <> []) by (rewrite El; discriminate). rewrite <- El in *. clear El c0 l0.
    assert (Hnb : starts_nonblank line) by (rewrite <- Htrim; apply trim_left_blank_starts).
    destruct (m_block_start line) as [[name arg]|] eqn:Eb.
    + injection H as <- _. destruct (block_start_parts _ _ _ Eb) as [Hname Harg].
      change (trim_left is_blank (spaces (indent * 2) ++ $"##!> " ++ name ++ match arg with [] => [] | _ :: _ => [32] ++ arg end))
        with (trim_left is_blank (spaces (indent * 2) ++ bs_print name arg)).
      assert (Hnb2 : starts_nonblank (bs_print name arg)) by reflexivity.
      rewrite (trim_spaces _ _ Hnb2).
      pose proof (block_start_print_reads name arg Hname Harg) as Hb.
      change ($"##!> " ++ name ++ arg_tail arg) with (bs_print name arg) in Hb.
      destruct (block_start_starts _ _ _ Eb) as [r Hr].
      assert (Hline : m_block_end line = false /\ m_flags line = None /\ m_prefix line = None /\ m_suffix line = None)
        by (rewrite Hr; repeat split; reflexivity).
      destruct Hline as (L1 & L2 & L3 & L4).
      constructor; rewrite ?Eb, ?Hb, ?L1, ?L2, ?L3, ?L4, ?Hd, ?Hi, ?Hx; try reflexivity.
      * destruct Hname as [-> | ->]; reflexivity.
      * destruct Hname as [-> | ->]; reflexivity.
      * destruct Hname as [-> | ->]; reflexivity.
    + destruct (m_block_end line) eqn:Ee.
      * destruct indent as [|i]; [discriminate|]. injection H as <- _.
        rewrite (trim_spaces _ _ Hnb). apply same_reading_refl.
      * destruct (m_flags line) as [v|] eqn:Ef.
        { injection H as <- _. destruct (marker_value_again _ _ _ Ef) as (Hs & Hr & Hn).
          change (trim_left is_blank ($"##!+ " ++ v)) with (35 :: 35 :: 33 :: 43 :: 32 :: v).
          repeat match goal with |- context [trim_left is_blank (35 :: ?t)] => change (trim_left is_blank (35 :: t)) with (35 :: t) end.
          assert (Hf : m_flags (35 :: 35 :: 33 :: 43 :: 32 :: v) = Some v).
          { apply (marker_print_reads $"##!+" v Hs Hr Hn). apply (lit_app $"##!+" (32 :: v)). }
          destruct (marker_value_starts _ _ _ Ef) as [r Hl].
          assert (Hline : m_prefix line = None /\ m_suffix line = None) by (rewrite Hl; split; reflexivity).
          destruct Hline as (L3 & L4).
          constructor; rewrite ?Eb, ?Ee, ?Ef, ?Hf, ?L3, ?L4, ?Hd, ?Hi, ?Hx; reflexivity. }
        destruct (m_prefix line) as [v|] eqn:Ep.
        { injection H as <- _. destruct (marker_value_again _ _ _ Ep) as (Hs & Hr & Hn).
          change (trim_left is_blank ($"##!^ " ++ v)) with (35 :: 35 :: 33 :: 94 :: 32 :: v).
          repeat match goal with |- context [trim_left is_blank (35 :: ?t)] => change (trim_left is_blank (35 :: t)) with (35 :: t) end.
          assert (Hf : m_prefix (35 :: 35 :: 33 :: 94 :: 32 :: v) = Some v).
          { apply (marker_print_reads $"##!^" v Hs Hr Hn). apply (lit_app $"##!^" (32 :: v)). }
          destruct (marker_value_starts _ _ _ Ep) as [r Hl].
          assert (L4 : m_suffix line = None) by (rewrite Hl; reflexivity).
          constructor; rewrite ?Eb, ?Ee, ?Ef, ?Ep, ?Hf, ?L4, ?Hd, ?Hi, ?Hx; reflexivity. }
        destruct (m_suffix line) as [v|] eqn:Es.
        { injection H as <- _. destruct (marker_value_again _ _ _ Es) as (Hs & Hr & Hn).
          change (trim_left is_blank ($"##!$ " ++ v)) with (35 :: 35 :: 33 :: 36 :: 32 :: v).
          repeat match goal with |- context [trim_left is_blank (35 :: ?t)] => change (trim_left is_blank (35 :: t)) with (35 :: t) end.
          assert (Hf : m_suffix (35 :: 35 :: 33 :: 36 :: 32 :: v) = Some v).
          { apply (marker_print_reads $"##!$" v Hs Hr Hn). apply (lit_app $"##!$" (32 :: v)). }
          constructor; rewrite ?Eb, ?Ee, ?Ef, ?Ep, ?Es, ?Hf, ?Hd, ?Hi, ?Hx; reflexivity. }
        rewrite Hd, Hi, Hx in H. injection H as <- _.
        rewrite (trim_spaces _ _ Hnb). apply same_reading_refl.
Qed.

(* ... but not the other way round for what is NOT captured: the block-start pattern does not ask
   for white space after the processor name, so a line the assembler rejects (unknown processor
   assemblex) is re-printed as a block start with an argument - white space only, inside a word
   (known finding C10-blockstart-word-split) *)
Example blockstart_word_split :
  process_line $"##!>assemblex" 0 = (Some $"##!> assemble x", 1%nat) /\
  m_processor_start $"##!>assemblex" = Some ($"assemblex", []) /\
  m_processor_start $"##!> assemble x" = Some ($"assemble", $"x").
Proof. repeat split; vm_compute; reflexivity. Qed.
