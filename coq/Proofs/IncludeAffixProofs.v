(* C05: an include file with its own prefix / suffix lines is the same as typing, in place, the
   local block the property describes - at the level of the whole parser.
     ##!> assemble / p1 / ##!=> / ... / the entries / ##!=> / s1 / ##!=> / ... / ##!<
   For every including file, position and includer state; the include file consists of entries,
   comments, blank lines, prefix lines and suffix lines; the prefix / suffix values are ordinary
   entry lines themselves (a value that is itself a parser directive would be read by the parser
   when typed, but is handed to the assembler as text when included). *)
From Coq Require Import String.
From Verif Require Import Base.Str Base.Lines Base.Outcome Proofs.StrLemmas Model.Patterns Model.ParseLine Model.Passes Model.CmdLine Model.Parser Model.Assembler Model.Generate.
From Verif Require Import Proofs.IncludeInlineProofs.
Open Scope N_scope.

Section S.
Variable ordp : list pname.
Variable ords ords2 : smap -> smap.
Variable ordi : list (str * nat) -> list (str * nat).
Variable limit : N.
Variable fs : fsys.

Notation simple_line := (Parser.simple_line ordp).
Notation affix_file_line := (Parser.affix_file_line ordp).
Notation affix_values := (Parser.affix_values ordp).
Notation reg_fixed := (Parser.reg_fixed ordp).

(* what the parser's loop makes of it *)
Definition acc_line (r : presult) (l : str) : presult :=
  match parse_line ordp (trim_left is_blank l) with
  | Ok pl =>
    match pl_type pl with
    | LRegular => add_text (trim_left is_blank l ++ [10]) r
    | LPrefix => add_prefix (pl_value pl) r
    | LSuffix => add_suffix (pl_value pl) r
    | _ => r
    end
  | _ => r
  end.
Definition acc (r : presult) (ls : list str) : presult := fold_left acc_line ls r.

Lemma acc_vars ls : forall r, r_vars (acc r ls) = r_vars r.
Proof.
  induction ls as [|l ls IH]; intro r; [reflexivity|]. cbn [acc fold_left]. fold (acc (acc_line r l) ls). rewrite IH.
  unfold acc_line. destruct (parse_line ordp (trim_left is_blank l)) as [pl| |]; try reflexivity. destruct (pl_type pl); reflexivity.
Qed.

Lemma acc_flags ls : forall r, r_flag_i (acc r ls) = r_flag_i r /\ r_flag_s (acc r ls) = r_flag_s r.
Proof.
  induction ls as [|l ls IH]; intro r; [split; reflexivity|]. cbn [acc fold_left]. fold (acc (acc_line r l) ls).
  destruct (IH (acc_line r l)) as [-> ->].
  unfold acc_line. destruct (parse_line ordp (trim_left is_blank l)) as [pl| |]; try (split; reflexivity). destruct (pl_type pl); split; reflexivity.
Qed.

Lemma unlines_app a b : unlines (a ++ b) = unlines a ++ unlines b.
Proof. unfold unlines. now rewrite map_app, concat_app. Qed.

Lemma unlines_two x m : unlines [x; m] = x ++ [10] ++ m ++ [10].
Proof. unfold unlines. cbn [map concat]. now rewrite app_nil_r, <- !app_assoc. Qed.

Lemma unlines_flat_map xs : unlines (flat_map (fun p => [p; $"##!=>"]) xs) = concat (map (fun p => p ++ [10] ++ $"##!=>" ++ [10]) xs).
Proof.
  induction xs as [|x xs IH]; [reflexivity|].
  change (flat_map (fun p => [p; $"##!=>"]) (x :: xs)) with ([x; $"##!=>"] ++ flat_map (fun p => [p; $"##!=>"]) xs).
  rewrite unlines_app, unlines_two, IH. reflexivity.
Qed.

Notation is_regular := (Parser.is_regular ordp).
Notation text_lines := (Parser.text_lines ordp).

Lemma acc_parts ls : forall r,
  r_dest (acc r ls) = r_dest r ++ unlines (text_lines ls) /\
  r_prefixes (acc r ls) = r_prefixes r ++ affix_values LPrefix ls /\
  r_suffixes (acc r ls) = r_suffixes r ++ affix_values LSuffix ls.
Proof.
  induction ls as [|l ls IH]; intro r.
  - cbn. now rewrite !app_nil_r.
  - cbn [acc fold_left]. fold (acc (acc_line r l) ls). destruct (IH (acc_line r l)) as (E1 & E2 & E3). rewrite E1, E2, E3.
    unfold Parser.text_lines, Parser.affix_values. cbn [filter flat_map]. unfold acc_line, Parser.is_regular.
    destruct (parse_line ordp (trim_left is_blank l)) as [pl| |]; [|repeat split; reflexivity|repeat split; reflexivity].
    destruct (pl_type pl); cbn [add_text add_prefix add_suffix r_dest r_prefixes r_suffixes map app];
      repeat split; rewrite <- ?app_assoc; try reflexivity.
    unfold unlines. cbn [map concat]. now rewrite <- !app_assoc.
Qed.

Lemma reg_fixed_text_lines ls : Forall reg_fixed ls -> text_lines ls = ls.
Proof.
  induction 1 as [|x xs [G1 G2] _ IH]; [reflexivity|]. unfold Parser.text_lines in *. cbn [filter]. rewrite G1. cbn [map]. now rewrite G2, IH.
Qed.

Lemma reg_fixed_simple l : reg_fixed l -> simple_line l.
Proof.
  intros [H _]. unfold Parser.is_regular in H. destruct (parse_line ordp (trim_left is_blank l)) as [pl| |] eqn:E; try discriminate.
  exists pl. split; [exact E|]. left. destruct (pl_type pl); congruence.
Qed.

Lemma text_lines_reg_fixed ls : Forall reg_fixed (text_lines ls).
Proof.
  unfold Parser.text_lines. induction ls as [|l ls IH]; cbn [filter map]; [constructor|].
  destruct (is_regular l) eqn:E; [|exact IH]. cbn [map]. constructor; [|exact IH].
  assert (T : trim_left is_blank (trim_left is_blank l) = trim_left is_blank l) by (unfold trim_left; apply drop_while_idem).
  split; [|exact T]. unfold Parser.is_regular in *. now rewrite T.
Qed.

Theorem include_affix_is_inline : forall f vars pre line post pl c contents1 contents2,
  parse_line ordp (trim_left is_blank line) = Ok pl -> pl_type pl = LInclude -> pl_pairs pl = None ->
  lookup_file fs (pl_file pl) = Some c -> Forall affix_file_line (scan_lines limit c) ->
  let pfx := affix_values LPrefix (scan_lines limit c) in
  let sfx := affix_values LSuffix (scan_lines limit c) in
  let body := text_lines (scan_lines limit c) in
  (pfx <> [] \/ sfx <> []) ->
  Forall reg_fixed (pfx ++ sfx) -> Forall reg_fixed [$"##!> assemble"; $"##!=>"; $"##!<"] ->
  scan_lines limit contents1 = pre ++ [line] ++ post ->
  scan_lines limit contents2 = pre ++ block_lines pfx body sfx ++ post ->
  parse ordp ords ords2 ordi limit fs (S f) vars contents1 = parse ordp ords ords2 ordi limit fs (S f) vars contents2.
Proof.
  intros f vars pre line post pl c contents1 contents2 Hpl Hty Hpairs Hlook HF pfx sfx body Hne Haff Hmark H1 H2.
  (* the included file, parsed on its own *)
  assert (HFp : parse ordp ords ords2 ordi limit fs f [] c = Ok (acc (presult0 []) (scan_lines limit c))).
  { assert (Hv : r_vars (acc (presult0 []) (scan_lines limit c)) = []) by (rewrite acc_vars; reflexivity).
    destruct f as [|f']; cbn [parse].
    - match goal with |- bind (?L _ _) _ = _ => assert (E : forall ls r, Forall affix_file_line ls -> L r ls = Ok (acc r ls)) end.
      { induction ls as [|l ls IHl]; intros r HFa; [reflexivity|].
        inversion HFa as [|? ? (pl0 & Hp0 & Ht0) HFa']; subst.
        rewrite Hp0. cbn [bind acc fold_left]. unfold acc_line at 2. rewrite Hp0.
        destruct Ht0 as [Ht0|[Ht0|[Ht0|[Ht0|Ht0]]]]; rewrite Ht0; cbn [bind]; now apply IHl. }
      rewrite (E _ _ HF). cbn [bind]. now rewrite Hv.
    - match goal with |- bind (?L _ _) _ = _ => assert (E : forall ls r, Forall affix_file_line ls -> L r ls = Ok (acc r ls)) end.
      { induction ls as [|l ls IHl]; intros r HFa; [reflexivity|].
        inversion HFa as [|? ? (pl0 & Hp0 & Ht0) HFa']; subst.
        rewrite Hp0. cbn [bind acc fold_left]. unfold acc_line at 2. rewrite Hp0.
        destruct Ht0 as [Ht0|[Ht0|[Ht0|[Ht0|Ht0]]]]; rewrite Ht0; cbn [bind]; now apply IHl. }
      rewrite (E _ _ HF). cbn [bind]. now rewrite Hv. }
  (* what the includer receives: the text of the local block *)
  assert (Hmerge : merge_prefixes_suffixes (acc (presult0 []) (scan_lines limit c)) = Ok (unlines (block_lines pfx body sfx))).
  { unfold merge_prefixes_suffixes. destruct (acc_flags (scan_lines limit c) (presult0 [])) as [-> ->]. cbn [presult0 r_flag_i r_flag_s orb].
    destruct (acc_parts (scan_lines limit c) (presult0 [])) as (Ed & Ep & Es). cbn [presult0 r_dest r_prefixes r_suffixes app] in Ed, Ep, Es.
    rewrite Ed, Ep, Es. fold pfx sfx body.
    unfold block_lines. rewrite !unlines_app, !unlines_flat_map.
    destruct pfx as [|p0 ps]; destruct sfx as [|s0 ss]; try (destruct Hne; congruence); reflexivity. }
  assert (Hblock : Forall reg_fixed (block_lines pfx body sfx)).
  { inversion Hmark as [|? ? M1 Hm2]; subst. inversion Hm2 as [|? ? M2 Hm3]; subst. inversion Hm3 as [|? ? M3 _]; subst.
    apply Forall_app in Haff as [Hp Hs]. unfold block_lines.
    assert (Hfm : forall xs, Forall reg_fixed xs -> Forall reg_fixed (flat_map (fun p => [p; $"##!=>"]) xs)).
    { induction 1 as [|x xs Hx _ IH]; cbn [flat_map app]; [constructor|]. constructor; [exact Hx|]. constructor; [exact M2|exact IH]. }
    apply Forall_app; split; [constructor; [exact M1|constructor]|].
    apply Forall_app; split; [now apply Hfm|].
    apply Forall_app; split; [apply text_lines_reg_fixed|].
    apply Forall_app; split; [destruct sfx; [constructor|constructor; [exact M2|constructor]]|].
    apply Forall_app; split; [now apply Hfm|constructor; [exact M3|constructor]]. }
  cbn [parse]. rewrite H1, H2.
  match goal with |- bind (?L _ _) _ = bind (?L' _ _) _ =>
    assert (Happ : forall a b r, L r (a ++ b) = bind (L r a) (fun r' => L r' b));
    [|assert (Esimple : forall ls r, Forall simple_line ls -> L r ls = Ok (add_text (text_of ordp ls) r));
      [|assert (Eline : forall r, L r [line] = Ok (add_text (unlines (block_lines pfx body sfx)) r))]]
  end.
  - induction a as [|x a IHa]; intros b r; [reflexivity|].
    cbn [app]. destruct (parse_line ordp (trim_left is_blank x)) as [plx| |]; cbn [bind]; try reflexivity.
    match goal with |- bind ?X _ = _ => destruct X as [rx| |]; cbn [bind]; try reflexivity end.
    apply IHa.
  - induction ls as [|l ls IHl]; intros r HFa; [now rewrite add_text_nil|].
    inversion HFa as [|? ? (pl0 & Hp0 & Ht0) HFa']; subst.
    rewrite Hp0. cbn [bind]. unfold text_of. cbn [filter]. unfold Parser.is_regular at 1. rewrite Hp0.
    destruct Ht0 as [Ht0|[Ht0|Ht0]]; rewrite Ht0; cbn [bind map concat].
    + rewrite (IHl _ HFa'). now rewrite add_text_add_text.
    + now apply IHl.
    + now apply IHl.
  - intro r. rewrite Hpl. cbn [bind]. rewrite Hty, Hlook. cbn [bind]. rewrite HFp. cbn [bind]. rewrite Hmerge. cbn [bind fst].
    rewrite Hpairs. reflexivity.
  - rewrite !Happ.
    match goal with |- bind (bind ?X _) _ = _ => destruct X as [r0| |] end; cbn [bind]; try reflexivity.
    rewrite !Happ. rewrite Eline.
    assert (Hs : Forall simple_line (block_lines pfx body sfx)) by (eapply Forall_impl; [|exact Hblock]; intros; now apply reg_fixed_simple).
    rewrite (Esimple _ _ Hs).
    assert (Et : text_of ordp (block_lines pfx body sfx) = unlines (block_lines pfx body sfx)).
    { unfold text_of. fold (Parser.text_lines ordp (block_lines pfx body sfx)) || idtac.
      transitivity (unlines (text_lines (block_lines pfx body sfx))).
      - unfold Parser.text_lines, unlines. now rewrite map_map.
      - now rewrite (reg_fixed_text_lines _ Hblock). }
    now rewrite Et.
Qed.

End S.

Section G.
Variable ordp : list pname.
Variable ords ords2 : smap -> smap.
Variable ordi : list (str * nat) -> list (str * nat).
Variable limit : N.
Variable fs : fsys.

Theorem generate_include_affix_inline join cfg limit_asm pre line post pl c contents1 contents2 :
  parse_line ordp (trim_left is_blank line) = Ok pl -> pl_type pl = LInclude -> pl_pairs pl = None ->
  lookup_file fs (pl_file pl) = Some c -> Forall (Parser.affix_file_line ordp) (scan_lines limit c) ->
  let pfx := Parser.affix_values ordp LPrefix (scan_lines limit c) in
  let sfx := Parser.affix_values ordp LSuffix (scan_lines limit c) in
  let body := Parser.text_lines ordp (scan_lines limit c) in
  (pfx <> [] \/ sfx <> []) ->
  Forall (Parser.reg_fixed ordp) (pfx ++ sfx) -> Forall (Parser.reg_fixed ordp) [$"##!> assemble"; $"##!=>"; $"##!<"] ->
  scan_lines limit contents1 = pre ++ [line] ++ post ->
  scan_lines limit contents2 = pre ++ block_lines pfx body sfx ++ post ->
  generate join cfg ordp ords ords2 ordi limit limit_asm fs contents1 =
  generate join cfg ordp ords ords2 ordi limit limit_asm fs contents2.
Proof.
  intros. unfold generate. change include_fuel with (S 39).
  now rewrite (include_affix_is_inline ordp ords ords2 ordi limit fs 39 [] pre line post pl c contents1 contents2).
Qed.
End G.

(* non-vacuity *)
Definition ex5_fs : fsys := {| fs_include := [($"aff.ra", $"##!^ pre
foo
  bar
##!$ post
")]; fs_exclude := []; fs_abs := [] |}.

Example include_affix_example :
  exists pl c,
    parse_line all_pnames (trim_left is_blank $"##!> include aff") = Ok pl /\ pl_type pl = LInclude /\ pl_pairs pl = None /\
    lookup_file ex5_fs (pl_file pl) = Some c /\ Forall (Parser.affix_file_line all_pnames) (scan_lines 65536 c) /\
    Parser.affix_values all_pnames LPrefix (scan_lines 65536 c) = [$"pre"] /\ Parser.affix_values all_pnames LSuffix (scan_lines 65536 c) = [$"post"] /\
    Forall (Parser.reg_fixed all_pnames) ([$"pre"] ++ [$"post"]) /\ Forall (Parser.reg_fixed all_pnames) [$"##!> assemble"; $"##!=>"; $"##!<"] /\
    block_lines [$"pre"] (Parser.text_lines all_pnames (scan_lines 65536 c)) [$"post"] =
      [$"##!> assemble"; $"pre"; $"##!=>"; $"foo"; $"bar"; $"##!=>"; $"post"; $"##!=>"; $"##!<"].
Proof.
  eexists. eexists. split; [vm_compute; reflexivity|]. split; [reflexivity|]. split; [reflexivity|].
  split; [vm_compute; reflexivity|].
  split.
  { vm_compute scan_lines. repeat (apply Forall_cons; [eexists; split; [vm_compute; reflexivity|cbn; tauto]|]). apply Forall_nil. }
  split; [vm_compute; reflexivity|]. split; [vm_compute; reflexivity|].
  split; [repeat (apply Forall_cons; [split; vm_compute; reflexivity|]); apply Forall_nil|].
  split; [repeat (apply Forall_cons; [split; vm_compute; reflexivity|]); apply Forall_nil|].
  vm_compute. reflexivity.
Qed.
