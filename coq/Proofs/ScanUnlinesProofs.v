(* what the scanner reads back from lines written with a newline each *)
From Coq Require Import String.
From Verif Require Import Base.Str Base.Lines Base.Outcome Proofs.StrLemmas Model.Patterns Model.ParseLine Model.Parser Proofs.UpdateProofs Proofs.RoundTripProofs.
Open Scope N_scope.

Lemma split_on_unlines ls : Forall (fun l => ~ In 10 l) ls -> split_on 10 (unlines ls) = ls ++ [[]].
Proof.
  induction 1 as [|l ls Hl _ IH]; [reflexivity|].
  unfold unlines in *. cbn [map concat].
  replace ((l ++ [10]) ++ concat (map (fun l0 : list N => l0 ++ [10]) ls))
    with (l ++ [10] ++ concat (map (fun l0 : list N => l0 ++ [10]) ls)) by (now rewrite <- app_assoc).
  rewrite split_on_app_sep by exact Hl. now rewrite IH.
Qed.

Lemma raw_lines_unlines ls : Forall (fun l => ~ In 10 l) ls -> raw_lines (unlines ls) = ls.
Proof.
  intro H. unfold raw_lines. rewrite (split_on_unlines ls H). rewrite rv_app.
  change (rv [[]] ++ rv ls) with (([] : str) :: rv ls). cbn iota. apply rv_involutive.
Qed.

Theorem scan_lines_unlines limit ls : Forall (clean_line limit) ls -> scan_lines limit (unlines ls) = ls.
Proof.
  intro H. unfold scan_lines, scan.
  rewrite raw_lines_unlines by (eapply Forall_impl; [|exact H]; intros l (Hn & _ & _); exact Hn).
  induction H as [|l ls (Hn & Hd & Hs) _ IH]; [reflexivity|].
  cbn [scan_raw]. destruct (N.leb_spec limit (N.of_nat (length l))); [lia|].
  destruct (scan_raw limit ls) as [r e]. cbn [fst] in *. now rewrite Hd, IH.
Qed.
