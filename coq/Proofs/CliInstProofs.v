(* The instantiated update command (Model/CliInst.v): generate never reads a rules file, hence
   `update --all` generates every regex from the tree as it was before the run. *)
From Coq Require Import String.
From Verif Require Import Base.Str Base.Lines Base.Outcome Model.Patterns Model.ParseLine Model.CmdLine Model.Parser Model.Assembler Model.Generate
  Model.RuleId Model.Update Model.Cli Model.CliInst Proofs.CliProofs Proofs.CliOrderProofs.
From Verif Require Import Gen.Consts.
Open Scope N_scope.

Lemma filter_under_set dir t rf c : under dir rf = false ->
  filter (fun e : path * str => under dir (fst e)) (t_set t rf c) = filter (fun e => under dir (fst e)) t.
Proof.
  intro Hu. induction t as [|[q c0] t IH]; cbn [t_set]; auto.
  destruct (path_eqb rf q) eqn:E; cbn [filter fst].
  - apply path_eqb_eq in E. subst q. now rewrite Hu.
  - now rewrite IH.
Qed.

Lemma rules_file_not_under_two rf a b : is_rules_file rf -> under [a; b] rf = false.
Proof. intros [Hl _]. unfold under. rewrite Hl. reflexivity. Qed.

Lemma fsys_of_tree_set t rf c : is_rules_file rf -> fsys_of_tree (t_set t rf c) = fsys_of_tree t.
Proof.
  intro Hr. unfold fsys_of_tree. now rewrite !filter_under_set by now apply rules_file_not_under_two.
Qed.

Theorem gen_in_tree_ignores_rules_files join cfg : gen_ignores_rules_files (gen_in_tree join cfg).
Proof.
  intros t rf c f Hr Hf. unfold gen_in_tree. rewrite fsys_of_tree_set by exact Hr.
  rewrite t_get_set_other; [reflexivity|]. intro E. subst. auto.
Qed.

(* the instantiated command: every regex `update --all` writes is generated from the untouched tree *)
Theorem cli_update_all_generates_from_the_untouched_tree join cfg t :
  cli_update_all join cfg t = update_all_frozen (gen_in_tree join cfg) parse_uint_bits t (map fst t) t.
Proof.
  unfold cli_update_all. apply update_all_generates_from_the_untouched_tree; [apply gen_in_tree_ignores_rules_files|auto].
Qed.
