(* C02: after useHexBackslashes the text contains no pair of backslashes, for every input. *)
From Coq Require Import String.
From Verif Require Import Base.Str Base.Outcome Proofs.StrLemmas Model.Passes.
Open Scope N_scope.

Fixpoint has_bs_pair (s : str) : bool :=
  match s with
  | a :: ((b :: _) as t) => ((a =? 92) && (b =? 92)) || has_bs_pair t
  | _ => false
  end.

Definition starts_bs (s : str) : bool := match s with c :: _ => c =? 92 | [] => false end.

Lemma has_bs_pair_cons a t : has_bs_pair (a :: t) = ((a =? 92) && starts_bs t) || has_bs_pair t.
Proof. destruct t as [|b t]; cbn; [now rewrite andb_false_r|reflexivity]. Qed.

(* the replacement text \x5c : no pair inside, ends with 'c' *)
Lemma hex_bs_shape : hex_bs = [92; 120; 53; 99].
Proof. reflexivity. Qed.

Lemma pair_after_repl X : has_bs_pair (hex_bs ++ X) = has_bs_pair X.
Proof.
  rewrite hex_bs_shape. cbn [app]. rewrite !has_bs_pair_cons. cbn.
  destruct X as [|c X]; cbn; auto.
Qed.

(* needle \\ at the head of s *)
Lemma prefix_bs_bs s : prefixb bs_bs s = starts_bs s && starts_bs (tl s).
Proof.
  unfold bs_bs. destruct s as [|a [|b s]]; cbn [prefixb starts_bs tl andb]; auto.
  - rewrite (N.eqb_sym 92 a). now rewrite !andb_false_r.
  - rewrite (N.eqb_sym 92 a), (N.eqb_sym 92 b). now rewrite andb_true_r.
Qed.

Lemma aux_head s : starts_bs s = false -> starts_bs (replace_all_aux bs_bs hex_bs s 0) = false.
Proof.
  destruct s as [|c s]; cbn [replace_all_aux]; auto. intro H.
  rewrite prefix_bs_bs. cbn [starts_bs] in *. rewrite H. cbn [andb]. exact H.
Qed.

Lemma aux_no_pair n : forall s, (length s <= n)%nat -> has_bs_pair (replace_all_aux bs_bs hex_bs s 0) = false.
Proof.
  induction n as [|n IH]; intros s Hlen.
  - destruct s; [reflexivity|cbn in Hlen; lia].
  - destruct s as [|c s]; [reflexivity|]. cbn [replace_all_aux]. rewrite prefix_bs_bs.
    cbn [length] in Hlen. destruct (starts_bs (c :: s) && starts_bs (tl (c :: s))) eqn:E.
    + (* a pair: the replacement, then the rest after the second backslash *)
      change (length bs_bs - 1)%nat with 1%nat. rewrite pair_after_repl.
      destruct s as [|d s]; [reflexivity|]. cbn [replace_all_aux]. apply IH. cbn [length] in Hlen. lia.
    + rewrite has_bs_pair_cons, IH by lia. rewrite orb_false_r.
      apply andb_false_iff in E as [E|E].
      * cbn [starts_bs] in E. rewrite E. reflexivity.
      * cbn [tl] in E. rewrite (aux_head s E). now rewrite andb_false_r.
Qed.

Theorem use_hex_backslashes_no_pair s : has_bs_pair (use_hex_backslashes s) = false.
Proof. unfold use_hex_backslashes, replace_all. cbn [bs_bs]. apply (aux_no_pair (length s)). lia. Qed.
