(* Proofs about Model/Passes.v: per-character facts of the output (C02) and
   termination / crash facts of the group scanning (C19). *)
From Coq Require Import String.
From Verif Require Import Base.Str Base.Outcome Proofs.StrLemmas Model.Passes.
Open Scope N_scope.

Definition printable (c : N) : Prop := 32 <= c /\ c <= 126.
Definition printableb (c : N) : bool := (32 <=? c) && (c <=? 126).
Lemma printableb_iff c : printableb c = true <-> printable c.
Proof. unfold printableb, printable. rewrite andb_true_iff, !N.leb_le. tauto. Qed.

(* ---------- hex digits ---------- *)
Lemma hexdigit_printable n : n < 16 -> printable (hexdigit n).
Proof. unfold hexdigit, printable. intro H. destruct (n <? 10) eqn:E; [apply N.ltb_lt in E|apply N.ltb_ge in E]; lia. Qed.

Lemma hex_aux_printable fuel : forall n acc, Forall printable acc -> Forall printable (hex_aux fuel n acc).
Proof.
  induction fuel as [|f IH]; intros n acc Hacc; cbn [hex_aux]; auto.
  assert (Hd : printable (hexdigit (n mod 16))) by (apply hexdigit_printable; apply N.mod_lt; lia).
  destruct (n / 16 =? 0); [constructor; auto|apply IH; constructor; auto].
Qed.
Lemma hex_printable n : Forall printable (hex n).
Proof. unfold hex. apply hex_aux_printable. constructor. Qed.

Ltac prt := repeat (apply Forall_cons || apply Forall_nil); unfold printable; try (cbn; lia); auto.

(* ---------- useHexEscapes: the result is printable ASCII for every byte string ---------- *)
Lemma hex_escape_rune_printable c : Forall printable (hex_escape_rune c).
Proof.
  unfold hex_escape_rune.
  destruct (c <? 32) eqn:E1.
  - apply Forall_app. split; [|apply hex_printable]. prt.
  - destruct (126 <? c) eqn:E2.
    + repeat (apply Forall_app; split); try apply hex_printable; prt.
    + apply N.ltb_ge in E1, E2. prt.
Qed.

Lemma use_hex_escapes_aux_printable fuel : forall s, Forall printable (use_hex_escapes_aux fuel s).
Proof.
  induction fuel as [|f IH]; intro s; cbn [use_hex_escapes_aux]; [constructor|].
  destruct s as [|b s']; [constructor|].
  destruct (decode_rune (b :: s')) as [c w]. apply Forall_app. split; [apply hex_escape_rune_printable|apply IH].
Qed.
Theorem use_hex_escapes_printable s : Forall printable (use_hex_escapes s).
Proof. apply use_hex_escapes_aux_printable. Qed.

(* ---------- the later passes keep the text printable ---------- *)
Lemma escape_dq_aux_printable s : forall prev, Forall printable s -> Forall printable (escape_dq_aux prev s).
Proof.
  induction s as [|c s IH]; intros prev H; cbn [escape_dq_aux]; [constructor|].
  inversion H; subst. apply Forall_app. split; [|apply IH; auto].
  destruct ((c =? 34) && _); prt.
Qed.

Lemma replace_all_aux_forall (P : N -> Prop) needle repl s : forall skip,
  Forall P repl -> Forall P s -> Forall P (replace_all_aux needle repl s skip).
Proof.
  induction s as [|c s IH]; intros skip Hr Hs; cbn [replace_all_aux]; [constructor|].
  inversion Hs; subst. destruct skip; [|apply IH; auto].
  destruct (prefixb needle (c :: s)); [apply Forall_app; split; auto|constructor; auto].
Qed.
Lemma replace_all_forall (P : N -> Prop) needle repl s :
  Forall P repl -> Forall P s -> Forall P (replace_all needle repl s).
Proof. unfold replace_all. destruct needle; auto. apply replace_all_aux_forall. Qed.

Lemma Forall_firstn {A} (P : A -> Prop) n l : Forall P l -> Forall P (firstn n l).
Proof. revert l; induction n; intros [|x l] H; cbn; try constructor; inversion H; auto. Qed.
Lemma Forall_skipn {A} (P : A -> Prop) n l : Forall P l -> Forall P (skipn n l).
Proof. revert l; induction n; intros [|x l] H; cbn; auto; inversion H; auto. Qed.

Lemma remove_group_printable s gs bs ig out :
  Forall printable s -> remove_group s gs bs ig = Ok out -> Forall printable out.
Proof.
  unfold remove_group. intros Hs H.
  destruct (find_group_body_end s bs) as [[idx alt]| |]; cbn [bind] in H; try discriminate.
  destruct (Nat.ltb _ _); try discriminate. destruct (Nat.ltb _ _); try discriminate.
  injection H as <-.
  repeat (apply Forall_app; split); try apply Forall_firstn; try apply Forall_skipn; auto;
    destruct (alt && negb ig); prt.
Qed.

Lemma strip_flag_starts_aux_forall (P : N -> Prop) fuel : forall b s, Forall P s -> Forall P (strip_flag_starts_aux fuel b s).
Proof.
  induction fuel as [|f IH]; intros b s H; cbn [strip_flag_starts_aux]; auto.
  destruct s as [|c s']; [constructor|]. inversion H; subst.
  destruct (flag_group_here 41 (c :: s')).
  - destruct (is_escaped_rev b); [constructor; auto|]. apply IH. apply Forall_skipn; auto.
  - constructor; auto.
Qed.

Lemma strip_flag_groups_printable fuel : forall s from out,
  Forall printable s -> strip_flag_groups fuel s from = Ok out -> Forall printable out.
Proof.
  induction fuel as [|f IH]; intros s from out Hs H; cbn [strip_flag_groups] in H;
    destruct (find_flag_group s from) as [[a b]|]; try discriminate; try (injection H as <-; auto; fail).
  destruct (remove_group s a b false) as [s'| |] eqn:E; cbn [bind] in H; try discriminate.
  eapply IH; [|exact H]. eapply remove_group_printable; eauto.
Qed.

Lemma include_vt_aux_printable fuel : forall s, Forall printable s -> Forall printable (include_vt_aux fuel s).
Proof.
  induction fuel as [|f IH]; intros s Hs; cbn [include_vt_aux]; auto.
  destruct s as [|c s']; [constructor|].
  destruct (prefixb perl_space (c :: s')).
  - assert (Hrest : Forall printable (skipn 9 (c :: s'))) by (apply Forall_skipn; auto).
    assert (Hvt : Forall printable space_vt) by (unfold space_vt; cbn; prt).
    destruct (skipn 9 (c :: s')) as [|d [|x rest']] eqn:Er.
    + apply Forall_app. split; [exact Hvt|apply IH; constructor].
    + apply Forall_app. split; [exact Hvt|apply IH; auto].
    + inversion Hrest as [|? ? Hd Hr2]; subst. inversion Hr2 as [|? ? Hx Hr3]; subst.
      destruct ((d =? 45) && negb (x =? 93)).
      * apply Forall_app. split; [exact Hvt|]. apply Forall_app. split; [prt|apply IH; auto].
      * apply Forall_app. split; [exact Hvt|apply IH; auto].
  - inversion Hs; subst. constructor; auto.
Qed.

Lemma dont_use_flags_printable s out : Forall printable s -> dont_use_flags s = Ok out -> Forall printable out.
Proof.
  unfold dont_use_flags. intros Hs H. eapply strip_flag_groups_printable; [|exact H].
  apply strip_flag_starts_aux_forall. auto.
Qed.

Lemma remove_outermost_printable s out : Forall printable s -> remove_outermost s = Ok out -> Forall printable out.
Proof.
  unfold remove_outermost. intros Hs H. destruct (negb (outer_group_shape s)); [injection H as <-; auto|].
  destruct (find_group_body_end s 3) as [[idx alt]| |]; cbn [bind] in H; try discriminate.
  destruct (Nat.ltb idx (length s)); [injection H as <-; auto|]. eapply remove_group_printable; eauto.
Qed.

Lemma s2l_printable_hex_bs : Forall printable hex_bs.
Proof. unfold hex_bs; cbn; prt. Qed.
Lemma s2l_printable_space_vt : Forall printable space_vt.
Proof. unfold space_vt; cbn; prt. Qed.

(* C02: whatever the last Join returns, the final text is printable ASCII (hence one line) *)
Theorem final_passes_printable t out : final_passes t = Ok out -> Forall printable out.
Proof.
  unfold final_passes. intro H.
  destruct (dont_use_flags _) as [s1| |] eqn:E; cbn [bind] in H; try discriminate.
  eapply remove_outermost_printable; [|exact H].
  eapply dont_use_flags_printable; [|exact E].
  unfold include_vt, use_hex_backslashes.
  apply include_vt_aux_printable.
  apply replace_all_forall; [apply s2l_printable_hex_bs|].
  apply escape_dq_aux_printable. apply use_hex_escapes_printable.
Qed.

Corollary final_passes_single_line t out : final_passes t = Ok out -> ~ In 10 out /\ ~ In 13 out.
Proof.
  intro H. apply final_passes_printable in H. rewrite Forall_forall in H.
  split; intro Hin; apply H in Hin; unfold printable in Hin; lia.
Qed.

(* ---------- escapeDoublequotes: every quote of the result is directly preceded by a backslash ---------- *)
Lemma escape_dq_aux_quote s : forall prev a b,
  escape_dq_aux prev s = a ++ 34 :: b ->
  (a = [] /\ prev = Some 92) \/ exists a', a = a' ++ [92].
Proof.
  induction s as [|c s IH]; intros prev a b H; cbn [escape_dq_aux] in H.
  - destruct a; discriminate.
  - destruct ((c =? 34) && negb match prev with Some 92 => true | _ => false end) eqn:E.
    + (* emitted backslash quote *)
      cbn [app] in H. destruct a as [|x a]; [discriminate|]. injection H as <- H.
      destruct a as [|y a].
      * right. exists []. reflexivity.
      * injection H as <- H. apply IH in H. destruct H as [[_ Hp]|[a' ->]].
        -- exfalso. apply andb_true_iff in E as [E _]. apply N.eqb_eq in E. congruence.
        -- right. exists (92 :: 34 :: a'). reflexivity.
    + cbn [app] in H. destruct a as [|x a].
      * injection H as -> H. left. split; auto.
        rewrite N.eqb_refl in E. cbn in E. destruct prev as [p|]; [|discriminate].
        destruct p as [|p]; [discriminate|].
        destruct (N.eq_dec (N.pos p) 92) as [->|Hne]; auto.
        exfalso. revert E. repeat (destruct p as [p|p|]; try discriminate); congruence.
      * injection H as Hx H. subst x. apply IH in H. destruct H as [[-> Hp]|[a' ->]].
        -- injection Hp as ->. right. exists []. reflexivity.
        -- right. exists (c :: a'). reflexivity.
Qed.

Theorem escape_doublequotes_quote_preceded s a b :
  escape_doublequotes s = a ++ 34 :: b -> exists a', a = a' ++ [92].
Proof.
  intro H. apply escape_dq_aux_quote in H. destruct H as [[_ H]|H]; [discriminate|exact H].
Qed.

(* ... but "preceded by a backslash" is not "escaped": the pass looks at one byte, IsEscaped at
   the parity of the run.  The witness replays on the binary (known finding C02-quote-after-backslash). *)
Definition quotes_escaped (s : str) : bool :=
  let fix go (before_rev rest : str) : bool :=
    match rest with
    | [] => true
    | c :: rest' => (negb (c =? 34) || is_escaped_rev before_rev) && go (c :: before_rev) rest'
    end in go [] s.

Example quotes_escaped_refuted :
  exists t out, final_passes t = Ok out /\ quotes_escaped out = false.
Proof. exists [92; 92; 34]. eexists. split; [vm_compute; reflexivity|vm_compute; reflexivity]. Qed.

(* the white space pass is not confined to bracket expressions: the five characters tab,
   newline, form feed, carriage return, space written as a literal SEQUENCE a\t\n\f\r b come
   out as a\s\x0bb - one white-space character and a vertical tab (known finding
   C01-space-sequence-outside-class) *)
Example space_sequence_outside_class_rewritten :
  final_passes ($"a\t\n\f\r b") = Ok ($"a\s\x0bb").
Proof. vm_compute. reflexivity. Qed.

(* the flag groups the optimiser prints around a dot are stripped: (?s:.) - any character
   including newline - and (?-s:.) - any character but newline - both come out as a bare dot,
   whose meaning is then decided by the leading flag group (known finding C01-dotall-stripped) *)
Example dot_flag_groups_stripped :
  final_passes ($"a(?s:.)b") = Ok ($"a.b") /\ final_passes ($"a(?-s:.)b") = Ok ($"a.b").
Proof. split; vm_compute; reflexivity. Qed.

(* ... and so is the group the printer writes for a character together with its other case:
   (?i:A), i.e. [Aa], comes out as A (known finding C01-casefold-group-stripped) *)
Example casefold_group_stripped : final_passes ($"(?i:A)b") = Ok ($"Ab").
Proof. vm_compute. reflexivity. Qed.

(* ---------- C19: bounds of the group scan, and termination of the flag-group loop ---------- *)
Lemma fgbe_aux_bounds rest : forall before i cnt alt idx alt',
  fgbe_aux before rest i cnt alt = Ok (idx, alt') -> (i < idx <= i + length rest)%nat.
Proof.
  induction rest as [|c rest IH]; intros before i cnt alt idx alt' H; cbn [fgbe_aux] in H; [discriminate|].
  match type of H with context [match ?k with O => _ | S _ => _ end] => destruct k eqn:Ek end.
  - injection H as <- _. cbn [length]. lia.
  - apply IH in H. cbn [length]. lia.
Qed.

Lemma fgbe_aux_no_err rest : forall before i cnt alt code, fgbe_aux before rest i cnt alt <> Err code.
Proof.
  induction rest as [|c rest IH]; intros before i cnt alt code; cbn [fgbe_aux]; [discriminate|].
  match goal with |- context [match ?k with O => _ | S _ => _ end] => destruct k end; [discriminate|apply IH].
Qed.
Lemma find_group_body_end_no_err s start code : find_group_body_end s start <> Err code.
Proof. unfold find_group_body_end. destruct (Nat.ltb _ _); [discriminate|apply fgbe_aux_no_err]. Qed.

Lemma find_group_body_end_bounds s start idx alt :
  find_group_body_end s start = Ok (idx, alt) -> (start < idx <= length s)%nat.
Proof.
  unfold find_group_body_end. destruct (Nat.ltb (length s) start) eqn:E; [discriminate|].
  apply Nat.ltb_ge in E. intro H. apply fgbe_aux_bounds in H. rewrite skipn_length in H. lia.
Qed.

Lemma flag_group_here_len close s n : flag_group_here close s = Some n -> (4 <= n <= length s)%nat.
Proof.
  unfold flag_group_here. destruct (prefixb $"(?" s) eqn:Ep; [|discriminate].
  apply prefixb_true_iff in Ep as [r ->].
  change (skipn 2 ($"(?" ++ r)) with r.
  assert (Hl : length ($"(?" ++ r) = S (S (length r))) by reflexivity. rewrite Hl.
  pose proof (take_drop_while is_flag_char r) as Hsplit.
  destruct (take_while is_flag_char r) as [|f fl] eqn:Et; [discriminate|].
  destruct (drop_while is_flag_char r) as [|c r'] eqn:Ed; [discriminate|].
  destruct (c =? close); [|discriminate]. intro H. injection H as <-.
  rewrite <- Hsplit. cbn [length]. rewrite app_length. cbn [length]. lia.
Qed.

Lemma find_ufg_bounds rest : forall before i a b,
  find_ufg before rest i = Some (a, b) -> (i <= a /\ a + 4 <= b /\ b <= i + length rest)%nat.
Proof.
  induction rest as [|c rest IH]; intros before i a b H; cbn [find_ufg] in H; [discriminate|].
  destruct (flag_group_here 58 (c :: rest)) as [n|] eqn:E.
  - destruct (is_escaped_rev before).
    + apply IH in H. cbn [length]. lia.
    + injection H as <- <-. apply flag_group_here_len in E. cbn [length] in *. lia.
  - apply IH in H. cbn [length]. lia.
Qed.

Lemma find_flag_group_bounds s from a b :
  (from <= length s)%nat -> find_flag_group s from = Some (a, b) -> (from <= a /\ a + 4 <= b /\ b <= length s)%nat.
Proof.
  unfold find_flag_group. intros Hle H. apply find_ufg_bounds in H. rewrite skipn_length in H. lia.
Qed.

(* every removal of a flag group strictly shortens the text *)
Lemma remove_flag_group_shorter s from a b s' :
  (from <= length s)%nat ->
  find_flag_group s from = Some (a, b) -> remove_group s a b false = Ok s' -> (length s' < length s /\ a <= length s')%nat.
Proof.
  intros Hle Hf H. apply find_flag_group_bounds in Hf; auto. unfold remove_group in H.
  destruct (find_group_body_end s b) as [[idx alt]| |] eqn:E; cbn [bind] in H; try discriminate.
  apply find_group_body_end_bounds in E.
  destruct (Nat.ltb (length s) a); try discriminate. destruct (Nat.ltb (idx - 1) b); try discriminate.
  injection H as <-. rewrite !app_length, !firstn_length, !skipn_length.
  assert (L3 : length $"(?:" = 3%nat) by reflexivity. assert (L1 : length $")" = 1%nat) by reflexivity.
  destruct alt; cbn [andb negb]; rewrite ?L3, ?L1; cbn [length]; lia.
Qed.

(* so the model's fuel (length + 1) is never exhausted: the loop of
   dontUseFlagsForMetaCharacters terminates on every input *)
Lemma strip_flag_groups_no_hang fuel : forall s from, (length s < fuel)%nat -> (from <= length s)%nat ->
  strip_flag_groups fuel s from <> Err err_hang.
Proof.
  induction fuel as [|f IH]; intros s from Hlen Hfrom; [lia|]. cbn [strip_flag_groups].
  destruct (find_flag_group s from) as [[a b]|] eqn:Ef; [|discriminate].
  destruct (remove_group s a b false) as [s'| |] eqn:Er; cbn [bind]; try discriminate.
  - pose proof (remove_flag_group_shorter _ _ _ _ _ Hfrom Ef Er) as [H1 H2]. apply IH; lia.
  - unfold remove_group in Er. destruct (find_group_body_end s b) as [[idx alt]| |] eqn:E; cbn [bind] in Er; try discriminate.
    + destruct (Nat.ltb _ _); try discriminate. destruct (Nat.ltb _ _); discriminate.
    + exfalso. eapply find_group_body_end_no_err; eauto.
Qed.

Theorem dont_use_flags_terminates s : dont_use_flags s <> Err err_hang.
Proof. unfold dont_use_flags. apply strip_flag_groups_no_hang; lia. Qed.

Theorem final_passes_terminates t : final_passes t <> Err err_hang.
Proof.
  unfold final_passes. intro H.
  destruct (dont_use_flags _) as [s1| |] eqn:E; cbn [bind] in H; try discriminate.
  - unfold remove_outermost in H. destruct (negb _); try discriminate.
    destruct (find_group_body_end s1 3) as [[idx alt]| |] eqn:E2; cbn [bind] in H; try discriminate.
    + destruct (Nat.ltb _ _); try discriminate. unfold remove_group in H.
      destruct (find_group_body_end s1 3) as [[idx' alt']| |]; cbn [bind] in H; try discriminate.
      destruct (Nat.ltb _ _); try discriminate. destruct (Nat.ltb _ _); discriminate.
    + eapply find_group_body_end_no_err; eauto.
  - injection H as H. apply (dont_use_flags_terminates _ (eq_trans E (f_equal Err H))).
Qed.

(* the case the property names: an ESCAPED parenthesis followed by ?i: is ordinary text
   (repaired in /repo, fix: 818337f; before the repair this was Crash crash_index) *)
Example escaped_paren_is_text :
  dont_use_flags $"\(?i:x" = Ok $"\(?i:x" /\ dont_use_flags $"a(?i:x|y)b\(?i:z" = Ok $"a(?:x|y)b\(?i:z" /\
  dont_use_flags $"(\(?i)" = Ok $"(\(?i)" /\ dont_use_flags $"a(?s)b" = Ok $"ab".
Proof. repeat split; vm_compute; reflexivity. Qed.

(* an UNBALANCED flag group still runs off the end of the text; the optimiser never prints one
   (hypothesis on the Join oracle, checked on every Join answer by the correspondence runs) *)
Example unbalanced_flag_group_crashes : dont_use_flags $"(?i:x" = Crash crash_index.
Proof. vm_compute. reflexivity. Qed.
