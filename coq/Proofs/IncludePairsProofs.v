(* C06, second half: `include F -- k1 v1 k2 v2 ...` of a word-list file is typing the REWRITTEN
   entries in place - whole parser, whole command.  The rewriting is [apply_pairs] in the order in
   which the pair map is iterated ([ords]); lines the rewriting skips (comments, blank lines) do not
   occur among the handed-over entries.  The rewritten entries must be ordinary entry lines again
   (clean, their own left-trimmed form): a replacement that turns an entry into a directive or a
   blank line is outside the statement. *)
From Coq Require Import String.
From Verif Require Import Base.Str Base.Lines Base.Outcome Proofs.StrLemmas Model.Patterns Model.ParseLine Model.Passes Model.CmdLine Model.Parser Model.Assembler Model.Generate.
From Verif Require Import Proofs.IncludeInlineProofs Proofs.ScanUnlinesProofs Proofs.IncludeExceptInlineProofs Proofs.IncludeAffixProofs.
Open Scope N_scope.

Section S.
Variable ordp : list pname.
Variable ords ords2 : smap -> smap.
Variable ordi : list (str * nat) -> list (str * nat).
Variable limit : N.
Variable fs : fsys.

Notation simple_line := (Parser.simple_line ordp).
Notation text_lines := (Parser.text_lines ordp).
Notation reg_fixed := (Parser.reg_fixed ordp).

Notation rewritten := (Parser.rewritten ords).

Theorem include_pairs_wordlist_is_inline : forall f vars pre line post pl c ps contents1 contents2,
  parse_line ordp (trim_left is_blank line) = Ok pl -> pl_type pl = LInclude -> pl_pairs pl = Some ps ->
  lookup_file fs (pl_file pl) = Some c -> Forall simple_line (scan_lines limit c) ->
  let body := text_lines (scan_lines limit c) in
  Forall (clean_line limit) body -> Forall reg_fixed (rewritten ps body) ->
  scan_lines limit contents1 = pre ++ [line] ++ post ->
  scan_lines limit contents2 = pre ++ rewritten ps body ++ post ->
  parse ordp ords ords2 ordi limit fs (S f) vars contents1 = parse ordp ords ords2 ordi limit fs (S f) vars contents2.
Proof.
  intros f vars pre line post pl c ps contents1 contents2 Hpl Hty Hpairs Hlook Hsim body Hclean Hrw H1 H2.
  cbn [parse]. rewrite H1, H2.
  match goal with |- bind (?L _ _) _ = bind (?L' _ _) _ =>
    assert (Happ : forall a b r, L r (a ++ b) = bind (L r a) (fun r' => L r' b));
    [|assert (Esimple : forall ls r, Forall simple_line ls -> L r ls = Ok (add_text (text_of ordp ls) r));
      [|assert (Eline : forall r, L r [line] = Ok (add_text (unlines (rewritten ps body)) r))]]
  end.
  - induction a as [|x a IHa]; intros b r; [reflexivity|].
    cbn [app]. destruct (parse_line ordp (trim_left is_blank x)) as [plx| |]; cbn [bind]; try reflexivity.
    match goal with |- bind ?X _ = _ => destruct X as [rx| |]; cbn [bind]; try reflexivity end.
    apply IHa.
  - induction ls as [|l ls IHl]; intros r HFa; [now rewrite add_text_nil|].
    inversion HFa as [|? ? (pl0 & Hp0 & Ht0) HFa']; subst.
    rewrite Hp0. cbn [bind]. unfold text_of. cbn [filter]. unfold Parser.is_regular at 1. rewrite Hp0.
    destruct Ht0 as [Ht0|[Ht0|Ht0]]; rewrite Ht0; cbn [bind map concat].
    + rewrite (IHl _ HFa'). now rewrite add_text_add_text.
    + now apply IHl.
    + now apply IHl.
  - intro r. rewrite Hpl. cbn [bind]. rewrite Hty, Hlook. cbn [bind].
    rewrite (wordlist_parse ordp ords ords2 ordi limit fs f c Hsim). cbn [bind]. rewrite merge_wordlist. cbn [bind fst].
    rewrite Hpairs. unfold replace_suffixes. fold body. unfold Parser.rewritten in *. rewrite (scan_lines_unlines limit body Hclean). reflexivity.
  - rewrite !Happ.
    match goal with |- bind (bind ?X _) _ = _ => destruct X as [r0| |] end; cbn [bind]; try reflexivity.
    rewrite !Happ. rewrite Eline.
    assert (Hs : Forall simple_line (rewritten ps body)) by (eapply Forall_impl; [|exact Hrw]; intros; now apply reg_fixed_simple).
    rewrite (Esimple _ _ Hs).
    assert (Et : text_of ordp (rewritten ps body) = unlines (rewritten ps body)).
    { transitivity (unlines (text_lines (rewritten ps body))).
      - unfold text_of, Parser.text_lines, unlines. now rewrite map_map.
      - now rewrite (reg_fixed_text_lines ordp _ Hrw). }
    now rewrite Et.
Qed.

Theorem generate_include_pairs_wordlist_inline join cfg limit_asm pre line post pl c ps contents1 contents2 :
  parse_line ordp (trim_left is_blank line) = Ok pl -> pl_type pl = LInclude -> pl_pairs pl = Some ps ->
  lookup_file fs (pl_file pl) = Some c -> Forall simple_line (scan_lines limit c) ->
  Forall (clean_line limit) (text_lines (scan_lines limit c)) -> Forall reg_fixed (rewritten ps (text_lines (scan_lines limit c))) ->
  scan_lines limit contents1 = pre ++ [line] ++ post ->
  scan_lines limit contents2 = pre ++ rewritten ps (text_lines (scan_lines limit c)) ++ post ->
  generate join cfg ordp ords ords2 ordi limit limit_asm fs contents1 =
  generate join cfg ordp ords ords2 ordi limit limit_asm fs contents2.
Proof.
  intros. unfold generate. change include_fuel with (S 39).
  now rewrite (include_pairs_wordlist_is_inline 39 [] pre line post pl c ps contents1 contents2).
Qed.

End S.

(* non-vacuity *)
Definition ex6b_fs : fsys := {| fs_include := [($"cmds.ra", $"curl@
wget@
nc
")]; fs_exclude := []; fs_abs := [] |}.

Example include_pairs_example :
  exists pl c ps,
    parse_line all_pnames (trim_left is_blank $"##!> include cmds -- @ [\s<>]") = Ok pl /\ pl_type pl = LInclude /\ pl_pairs pl = Some ps /\
    lookup_file ex6b_fs (pl_file pl) = Some c /\ Forall (Parser.simple_line all_pnames) (scan_lines 65536 c) /\
    Forall (clean_line 65536) (Parser.text_lines all_pnames (scan_lines 65536 c)) /\
    Parser.rewritten (fun m => m) ps (Parser.text_lines all_pnames (scan_lines 65536 c)) = [$"curl[\s<>]"; $"wget[\s<>]"; $"nc"] /\
    Forall (Parser.reg_fixed all_pnames) (Parser.rewritten (fun m => m) ps (Parser.text_lines all_pnames (scan_lines 65536 c))).
Proof.
  eexists. eexists. eexists. split; [vm_compute; reflexivity|]. split; [reflexivity|]. split; [reflexivity|].
  split; [vm_compute; reflexivity|].
  split.
  { vm_compute scan_lines. repeat (apply Forall_cons; [eexists; split; [vm_compute; reflexivity|cbn; tauto]|]). apply Forall_nil. }
  split.
  { vm_compute. repeat (apply Forall_cons; [repeat split; try reflexivity; try lia; intro H; repeat (destruct H as [H|H]; [discriminate|]); exact H|]). apply Forall_nil. }
  split; [vm_compute; reflexivity|].
  vm_compute Parser.rewritten. repeat (apply Forall_cons; [split; vm_compute; reflexivity|]). apply Forall_nil.
Qed.
