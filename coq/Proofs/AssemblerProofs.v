(* Proofs about Model/Assembler.v (C01, C02, C08). *)
From Coq Require Import String.
From Verif Require Import Base.Str Base.Lines Base.Outcome Proofs.StrLemmas Model.Patterns Model.ParseLine Model.Passes Model.CmdLine Model.Assembler.
From Verif Require Import Proofs.PassesProofs.
Open Scope N_scope.

Section WithJoin.
Variable join : list str -> option str.
Variable cfg : config.

(* every assembled alternation is wrapped in a non-capturing group before it is concatenated *)
Theorem run_assemble_grouped lines r :
  run_assemble join lines = Ok r ->
  (lines = [] /\ r = []) \/ exists j, join lines = Some j /\ r = $"(?:" ++ j ++ $")".
Proof.
  unfold run_assemble. destruct lines as [|l ls]; [intro H; injection H as <-; auto|].
  destruct (join (l :: ls)) as [j|]; [|discriminate]. intro H. injection H as <-. right. eauto.
Qed.

(* the result of a block is empty, or one group, or two groups (output buffer, last alternation) *)
Theorem wrap_completed_cases output regex :
  wrap_completed output regex = [] \/
  wrap_completed output regex = grp output ++ grp regex \/
  wrap_completed output regex = grp output \/
  wrap_completed output regex = grp regex.
Proof. destruct output, regex; cbn; auto. Qed.

(* Run overwrites the package-level processor stack before it reads it: whatever an earlier
   run in the same process left behind cannot influence the result (C08) *)
Theorem assemble_ignores_globals limit g g' p :
  assemble join cfg limit g p = assemble join cfg limit g' p.
Proof. reflexivity. Qed.

(* flags: only i and s, in sorted order, as one leading group *)
Theorem flags_prefix_cases p :
  flags_prefix p = [] \/ flags_prefix p = $"(?i)" \/ flags_prefix p = $"(?s)" \/ flags_prefix p = $"(?is)".
Proof. unfold flags_prefix. destruct (p_flag_i p), (p_flag_s p); cbn; auto. Qed.

(* the final text: empty, or the sorted flag prefix followed by printable ASCII *)
Theorem complete_shape p stash lines out :
  complete join p stash lines = Ok out ->
  out = [] \/ exists body, out = flags_prefix p ++ body /\ body <> [] /\ Forall printable body.
Proof.
  unfold complete. destruct (pre_simplify join p stash lines) as [res| |]; cbn [bind]; try discriminate.
  destruct res as [|c res]; [intro H; injection H as <-; auto|].
  destruct (join _) as [simp|].
  2:{ intro H. discriminate H. }
  destruct (final_passes simp) as [cl| |] eqn:E; cbn [bind]; try (intro H; discriminate).
  destruct cl as [|c0 cl]; intro H; injection H as <-; [auto|].
  right. exists (c0 :: cl). split; [reflexivity|]. split; [discriminate|]. eapply final_passes_printable; eauto.
Qed.

End WithJoin.

(* the one place where the "wrapped before concatenated" rule is broken: a segment with exactly
   one pending line is copied RAW into the output buffer, so an entry with a top-level
   alternation swallows its neighbour (known finding C01-single-line-raw).  With a Join
   that only inserts the bars, a|b / ##!=> / c / ##!=> / d gives (?:a|bc) followed by d:
   a, or bc - not (a|b)c. *)
Definition bar_join (ls : list str) : option str := Some (join [124] ls).
Example single_line_segment_copied_raw :
  asm_flush bar_join {| a_lines := [$"c"]; a_output := $"a|b" |} = Ok {| a_lines := []; a_output := $"a|bc" |} /\
  assemble bar_join empty_config 1000 []
    {| p_buffer := $"a|b" ++ [10] ++ $"##!=>" ++ [10] ++ $"c" ++ [10] ++ $"##!=>" ++ [10] ++ $"d" ++ [10];
       p_flag_i := false; p_flag_s := false; p_prefixes := []; p_suffixes := [] |}
  = Ok $"(?:(?:a|bc)(?:(?:d)))".
Proof. split; vm_compute; reflexivity. Qed.
