(* C12, whole command on the tree model: after a successful `regex update ARG` / one step of
   `update --all`, `regex compare` of the same rule on the resulting tree says "unchanged";
   and when compare says "unchanged", update rewrites the rule's line to itself (up to the text
   after the line continuation, finding C11-line-tail). *)
From Coq Require Import String.
From Verif Require Import Base.Str Base.Outcome Proofs.StrLemmas Model.RuleId Model.Update Model.Renumber Model.Cli
  Proofs.CliProofs Proofs.CliOrderProofs Proofs.UpdateProofs Proofs.RoundTripProofs.
Open Scope N_scope.

Section RoundTrip.
Variable gen : tree -> path -> outcome str.
Hypothesis Hgen : gen_ignores_rules_files gen.

(* the operand condition of C12_compare_reads_what_update_wrote, for the rule's file in the tree *)
Definition writable_operand (t : tree) (id : str) (k : N) (regex : str) : Prop :=
  ~ In 10 regex /\
  forall rf c i g1 g2 g3 rest,
    glob_rules t id = [rf] -> t_get t rf = Some c ->
    locate (split_on 10 c) id k = Ok (Some i) ->
    rx_match (nth i (split_on 10 c) []) = Some (g1, g2, g3, rest) ->
    operand_clean g1 regex /\ same_class ($"id:" ++ id) (nth i (split_on 10 c) []) (g1 ++ regex ++ g3).

Theorem compare_after_process_rule t id k f t' regex :
  ~ is_rules_file f -> gen t f = Ok regex -> writable_operand t id k regex ->
  process_rule gen t id k f = Ok t' ->
  compare_rule gen t' id k f = Ok (Some true).
Proof.
  intros Hf Hg [Hnl Hcond] H. unfold process_rule in H. rewrite Hg in H. cbn [bind] in H.
  destruct (glob_rules t id) as [|rf [|]] eqn:Eg; try discriminate.
  destruct (t_get t rf) as [c|] eqn:Ec; try discriminate.
  destruct (update_contents c id k regex) as [c'| |] eqn:Eu; cbn [bind] in H; try discriminate.
  injection H as <-.
  assert (Hrf : is_rules_file rf) by (apply (glob_rules_are_rules_files t id); rewrite Eg; now left).
  unfold compare_rule. rewrite Hgen by auto. rewrite Hg. cbn [bind].
  rewrite glob_rules_set, Eg. rewrite (t_get_set_same _ _ _ _ Ec).
  rewrite (read_after_update c id k regex c' Eu Hnl).
  - cbn [bind]. unfold unchanged. now rewrite str_eqb_refl.
  - intros i g1 g2 g3 rest HL HR. eapply Hcond; eauto.
Qed.

(* the single-rule command *)
Theorem compare_after_update_one bits t arg t' r regex :
  parse_rule_id bits arg = Some r ->
  gen t (d_assembly ++ [r_file r]) = Ok regex -> writable_operand t (r_id r) (r_chain r) regex ->
  update_one gen bits t arg = (t', Success) ->
  compare_rule gen t' (r_id r) (r_chain r) (d_assembly ++ [r_file r]) = Ok (Some true).
Proof.
  intros Hp Hg Hw H. unfold update_one in H. rewrite Hp in H.
  destruct (process_rule gen t (r_id r) (r_chain r) (d_assembly ++ [r_file r])) as [t1| |] eqn:E; try discriminate.
  injection H as <-. eapply compare_after_process_rule; eauto.
  intros [_ Hd]. cbn in Hd. discriminate.
Qed.
End RoundTrip.

(* ---------- vice versa: compare says "unchanged" => update writes the line it read ---------- *)
Theorem update_when_unchanged c id k regex cur :
  read_current c id k = Ok cur -> unchanged cur regex = true ->
  exists i g1 g3 rest,
    nth i (split_on 10 c) [] = g1 ++ regex ++ g3 ++ rest /\
    update_contents c id k regex = Ok (join [10] (set_nth i (g1 ++ regex ++ g3) (split_on 10 c))).
Proof.
  intros Hr Hu. apply unchanged_iff in Hu. subst cur. unfold read_current in Hr. unfold update_contents.
  destruct (locate (split_on 10 c) id k) as [[i|]| |]; cbn [bind] in *; try discriminate.
  destruct (rx_match (nth i (split_on 10 c) [])) as [[[[g1 g2] g3] rest]|] eqn:Erx; try discriminate.
  injection Hr as ->. destruct (rx_match_parts _ _ _ _ _ Erx) as (-> & Hline & _).
  exists i, g1, closing, rest. split; [exact Hline|reflexivity].
Qed.

Lemma set_nth_self i : forall (ls : list str), set_nth i (nth i ls []) ls = ls.
Proof. induction i as [|i IH]; intros [|x ls]; cbn; auto. now rewrite IH. Qed.

(* ... so a rule whose line ends with the line continuation is left byte-identical *)
Theorem update_when_unchanged_is_identity c id k regex cur :
  read_current c id k = Ok cur -> unchanged cur regex = true ->
  (forall i g1 g2 g3 rest, locate (split_on 10 c) id k = Ok (Some i) ->
     rx_match (nth i (split_on 10 c) []) = Some (g1, g2, g3, rest) -> rest = []) ->
  update_contents c id k regex = Ok c.
Proof.
  intros Hr Hu Hrest. apply unchanged_iff in Hu. subst cur. unfold read_current in Hr. unfold update_contents.
  destruct (locate (split_on 10 c) id k) as [[i|]| |] eqn:EL; cbn [bind] in *; try discriminate.
  destruct (rx_match (nth i (split_on 10 c) [])) as [[[[g1 g2] g3] rest]|] eqn:Erx; try discriminate.
  injection Hr as ->. destruct (rx_match_parts _ _ _ _ _ Erx) as (-> & Hline & _).
  rewrite (Hrest _ _ _ _ _ eq_refl Erx), app_nil_r in Hline. rewrite <- Hline, set_nth_self.
  now rewrite split_join.
Qed.
