(* C06: include-except of word-list files is typing the surviving lines in place - at the level of
   the whole parser.  For every including file, every position, every includer state and every
   iteration order of the inclusion-line map: if the include file and the exclude files consist
   of entries, comments and blank lines (clean lines: no carriage return at the end, shorter than
   the scanner limit), parsing the file with the directive gives exactly the result of parsing the
   file with, in its place, the entries of the include file that are not among the excluded ones,
   each once, in the order of their last occurrence. *)
From Coq Require Import String Permutation.
From Verif Require Import Base.Str Base.Lines Base.Outcome Proofs.StrLemmas Model.Patterns Model.ParseLine Model.Passes Model.CmdLine Model.Parser Model.Assembler Model.Generate.
From Verif Require Import Proofs.ParserProofs Proofs.IncludeExceptProofs Proofs.IncludeInlineProofs Proofs.ScanUnlinesProofs.
Open Scope N_scope.

Section S.
Variable ordp : list pname.
Variable ords ords2 : smap -> smap.
Variable ordi : list (str * nat) -> list (str * nat).
Hypothesis Hperm : forall m, Permutation m (ordi m).
Variable limit : N.
Variable fs : fsys.

Notation simple_line := (Parser.simple_line ordp).
Notation is_regular := (Parser.is_regular ordp).
Notation text_lines := (Parser.text_lines ordp).
Notation good_file := (Parser.good_file ordp limit fs).
Notation excluded_lines := (Parser.excluded_lines ordp limit).
Notation text_of := (text_of ordp).

Lemma text_of_unlines ls : text_of ls = unlines (text_lines ls).
Proof. unfold IncludeInlineProofs.text_of, Parser.text_lines, unlines. now rewrite map_map. Qed.

Lemma trim_left_idem l : trim_left is_blank (trim_left is_blank l) = trim_left is_blank l.
Proof. unfold trim_left. apply drop_while_idem. Qed.

(* the handed-over lines are entries again, and are what they contribute *)
Lemma text_lines_simple ls : Forall simple_line (text_lines ls).
Proof.
  unfold Parser.text_lines. induction ls as [|l ls IH]; cbn [filter map]; [constructor|].
  destruct (is_regular l) eqn:E; [|exact IH]. cbn [map]. constructor; [|exact IH].
  unfold Parser.is_regular in E.
  destruct (parse_line ordp (trim_left is_blank l)) as [pl| |] eqn:Ep; try discriminate.
  exists pl. rewrite trim_left_idem. split; [exact Ep|]. left. destruct (pl_type pl); congruence.
Qed.

Lemma text_lines_fixed ls : text_lines (text_lines ls) = text_lines ls.
Proof.
  unfold Parser.text_lines. induction ls as [|l ls IH]; cbn [filter map]; [reflexivity|].
  destruct (is_regular l) eqn:E; [|exact IH]. cbn [map filter].
  assert (E2 : is_regular (trim_left is_blank l) = true).
  { unfold Parser.is_regular in *. now rewrite trim_left_idem. }
  rewrite E2. cbn [map]. now rewrite trim_left_idem, IH.
Qed.

Lemma filter_sub_text_lines (f : str -> bool) ls : text_lines (filter f (text_lines ls)) = filter f (text_lines ls).
Proof.
  assert (G : forall xs, Forall (fun x => is_regular x = true /\ trim_left is_blank x = x) xs -> text_lines xs = xs).
  { induction 1 as [|x xs [H1 H2] _ IH]; [reflexivity|]. unfold Parser.text_lines in *. cbn [filter]. rewrite H1. cbn [map]. now rewrite H2, IH. }
  apply G. apply Forall_forall. intros x Hx. apply filter_In in Hx as [Hx _].
  unfold Parser.text_lines in Hx. apply in_map_iff in Hx as (l & <- & Hl). apply filter_In in Hl as [_ Hl].
  split; [|apply trim_left_idem]. unfold Parser.is_regular in *. now rewrite trim_left_idem.
Qed.

Lemma keep_last_sub ls x : In x (keep_last ls) -> In x ls.
Proof. apply keep_last_in. Qed.


(* a word-list file parsed on its own: its text, nothing else (as in IncludeInlineProofs, restated
   with the file's lines handed over as [text_lines]) *)
Lemma wordlist_parse f c : Forall simple_line (scan_lines limit c) ->
  parse ordp ords ords2 ordi limit fs f [] c = Ok (add_text (unlines (text_lines (scan_lines limit c))) (presult0 [])).
Proof.
  intro Hs. rewrite <- text_of_unlines.
  destruct f as [|f']; cbn [parse].
  - match goal with |- bind (?L _ _) _ = _ => assert (E : forall ls r, Forall simple_line ls -> L r ls = Ok (add_text (text_of ls) r)) end.
    { induction ls as [|l ls IHl]; intros r HFa; [now rewrite add_text_nil|].
      inversion HFa as [|? ? (pl0 & Hp0 & Ht0) HFa']; subst.
      rewrite Hp0. cbn [bind]. unfold IncludeInlineProofs.text_of. cbn [filter]. unfold Parser.is_regular at 1. rewrite Hp0.
      destruct Ht0 as [Ht0|[Ht0|Ht0]]; rewrite Ht0; cbn [bind map concat].
      - rewrite (IHl _ HFa'). now rewrite add_text_add_text.
      - now apply IHl.
      - now apply IHl. }
    rewrite (E _ _ Hs). reflexivity.
  - match goal with |- bind (?L _ _) _ = _ => assert (E : forall ls r, Forall simple_line ls -> L r ls = Ok (add_text (text_of ls) r)) end.
    { induction ls as [|l ls IHl]; intros r HFa; [now rewrite add_text_nil|].
      inversion HFa as [|? ? (pl0 & Hp0 & Ht0) HFa']; subst.
      rewrite Hp0. cbn [bind]. unfold IncludeInlineProofs.text_of. cbn [filter]. unfold Parser.is_regular at 1. rewrite Hp0.
      destruct Ht0 as [Ht0|[Ht0|Ht0]]; rewrite Ht0; cbn [bind map concat].
      - rewrite (IHl _ HFa'). now rewrite add_text_add_text.
      - now apply IHl.
      - now apply IHl. }
    rewrite (E _ _ Hs). reflexivity.
Qed.

Lemma merge_wordlist t : merge_prefixes_suffixes (add_text t (presult0 [])) = Ok t.
Proof. reflexivity. Qed.

Theorem include_except_wordlists_is_inline : forall f vars pre line post pl cF cXs contents1 contents2,
  parse_line ordp (trim_left is_blank line) = Ok pl -> pl_type pl = LIncludeExcept -> pl_pairs pl = None ->
  good_file (pl_file pl) cF -> Forall2 good_file (pl_excludes pl) cXs ->
  let kept := filter (not_excluded (excluded_lines cXs)) (keep_last (text_lines (scan_lines limit cF))) in
  scan_lines limit contents1 = pre ++ [line] ++ post ->
  scan_lines limit contents2 = pre ++ kept ++ post ->
  parse ordp ords ords2 ordi limit fs (S f) vars contents1 = parse ordp ords ords2 ordi limit fs (S f) vars contents2.
Proof.
  intros f vars pre line post pl cF cXs contents1 contents2 Hpl Hty Hpairs (HlookF & HsimF & HcleanF) HX kept H1 H2.
  set (lsF := text_lines (scan_lines limit cF)) in *.
  cbn [parse]. rewrite H1, H2.
  match goal with |- bind (?L _ _) _ = bind (?L' _ _) _ =>
    assert (Happ : forall a b r, L r (a ++ b) = bind (L r a) (fun r' => L r' b));
    [|assert (Esimple : forall ls r, Forall simple_line ls -> L r ls = Ok (add_text (text_of ls) r));
      [|assert (Eline : forall r, L r [line] = Ok (add_text (unlines kept) r))]]
  end.
  - induction a as [|x a IHa]; intros b r; [reflexivity|].
    cbn [app]. destruct (parse_line ordp (trim_left is_blank x)) as [plx| |]; cbn [bind]; try reflexivity.
    match goal with |- bind ?X _ = _ => destruct X as [rx| |]; cbn [bind]; try reflexivity end.
    apply IHa.
  - induction ls as [|l ls IHl]; intros r HFa; [now rewrite add_text_nil|].
    inversion HFa as [|? ? (pl0 & Hp0 & Ht0) HFa']; subst.
    rewrite Hp0. cbn [bind]. unfold IncludeInlineProofs.text_of. cbn [filter]. unfold Parser.is_regular at 1. rewrite Hp0.
    destruct Ht0 as [Ht0|[Ht0|Ht0]]; rewrite Ht0; cbn [bind map concat].
    + rewrite (IHl _ HFa'). now rewrite add_text_add_text.
    + now apply IHl.
    + now apply IHl.
  - intro r. rewrite Hpl. cbn [bind]. rewrite Hty, HlookF. cbn [bind].
    rewrite (wordlist_parse f cF HsimF). cbn [bind]. rewrite merge_wordlist. cbn [bind r_vars add_text presult0].
    fold lsF. rewrite (scan_lines_unlines limit lsF HcleanF).
    (* the exclude files, one after the other *)
    change (build_imap lsF 0 []) with (fold_left imap_del [] (build_imap lsF 0 [])).
    assert (Hgo : forall names cs, Forall2 good_file names cs -> forall excl0,
      (fix go (names : list str) (m : list (str * nat)) (defs : smap) {struct names} : outcome (list (str * nat)) :=
         match names with
         | [] => Ok m
         | n :: ns =>
           do r <- match lookup_file fs n with
                   | Some c => do r0 <- parse ordp ords ords2 ordi limit fs f defs c;
                               do out <- merge_prefixes_suffixes r0; Ok (out, r_vars r0)
                   | None => Err err_no_file
                   end;
           let '(content, defs') := r in
           go ns (fold_left imap_del (scan_lines limit content) m) defs'
         end) names (fold_left imap_del excl0 (build_imap lsF 0 [])) [] =
      Ok (fold_left imap_del (excl0 ++ excluded_lines cs) (build_imap lsF 0 []))).
    { induction 1 as [|n c ns cs (Hl & Hs & Hc) _ IHn]; intro excl0.
      - unfold Parser.excluded_lines. cbn [map concat]. now rewrite app_nil_r.
      - rewrite Hl. cbn [bind]. rewrite (wordlist_parse f c Hs). cbn [bind]. rewrite merge_wordlist. cbn [bind r_vars add_text presult0].
        rewrite (scan_lines_unlines limit _ Hc). rewrite <- fold_left_app. rewrite IHn.
        unfold Parser.excluded_lines. cbn [map concat]. now rewrite app_assoc. }
    rewrite (Hgo _ _ HX []). cbn [bind app].
    rewrite (include_except_spec ordi lsF (excluded_lines cXs) Hperm). fold kept.
    rewrite Hpairs. unfold replace_suffixes.
    destruct kept as [|k ks] eqn:Ek; [|reflexivity].
    cbn [unlines map concat]. reflexivity.
  - rewrite !Happ.
    match goal with |- bind (bind ?X _) _ = _ => destruct X as [r0| |] end; cbn [bind]; try reflexivity.
    rewrite !Happ. rewrite Eline.
    assert (Hk : Forall simple_line kept).
    { apply Forall_forall. intros x Hx. unfold kept in Hx. apply filter_In in Hx as [Hx _]. apply (proj1 (keep_last_in _ _)) in Hx.
      pose proof (text_lines_simple (scan_lines limit cF)) as Hall. rewrite Forall_forall in Hall. apply Hall. unfold lsF in Hx. exact Hx. }
    rewrite (Esimple _ _ Hk). rewrite text_of_unlines.
    assert (Hfix : text_lines kept = kept).
    { assert (G : forall xs, Forall (fun x => is_regular x = true /\ trim_left is_blank x = x) xs -> text_lines xs = xs).
      { induction 1 as [|x xs [G1 G2] _ IH]; [reflexivity|]. unfold Parser.text_lines in *. cbn [filter]. rewrite G1. cbn [map]. now rewrite G2, IH. }
      apply G. apply Forall_forall. intros x Hx. unfold kept in Hx. apply filter_In in Hx as [Hx _]. apply (proj1 (keep_last_in _ _)) in Hx.
      unfold lsF, Parser.text_lines in Hx. apply in_map_iff in Hx as (l & <- & Hl). apply filter_In in Hl as [_ Hl].
      split; [|apply trim_left_idem]. unfold Parser.is_regular in *. now rewrite trim_left_idem. }
    now rewrite Hfix.
Qed.

(* ... and the whole command *)
Theorem generate_include_except_wordlists_inline join cfg limit_asm pre line post pl cF cXs contents1 contents2 :
  parse_line ordp (trim_left is_blank line) = Ok pl -> pl_type pl = LIncludeExcept -> pl_pairs pl = None ->
  good_file (pl_file pl) cF -> Forall2 good_file (pl_excludes pl) cXs ->
  scan_lines limit contents1 = pre ++ [line] ++ post ->
  scan_lines limit contents2 =
    pre ++ filter (not_excluded (excluded_lines cXs)) (keep_last (text_lines (scan_lines limit cF))) ++ post ->
  generate join cfg ordp ords ords2 ordi limit limit_asm fs contents1 =
  generate join cfg ordp ords ords2 ordi limit limit_asm fs contents2.
Proof.
  intros. unfold generate. change include_fuel with (S 39).
  now rewrite (include_except_wordlists_is_inline 39 [] pre line post pl cF cXs contents1 contents2).
Qed.

End S.

(* non-vacuity: a repeated entry, an excluded entry, a comment and a blank line *)
Definition ex6_fs : fsys := {| fs_include := [($"words.ra", $"ls
cat
##! a comment
ls

time
")]; fs_exclude := [($"skip.ra", $"cat
")]; fs_abs := [] |}.

Example include_except_wordlists_example :
  exists pl cF cX,
    parse_line all_pnames (trim_left is_blank $"##!> include-except words skip") = Ok pl /\ pl_type pl = LIncludeExcept /\ pl_pairs pl = None /\
    Parser.good_file all_pnames 65536 ex6_fs (pl_file pl) cF /\ Forall2 (Parser.good_file all_pnames 65536 ex6_fs) (pl_excludes pl) [cX] /\
    filter (not_excluded (Parser.excluded_lines all_pnames 65536 [cX])) (keep_last (Parser.text_lines all_pnames (scan_lines 65536 cF))) = [$"ls"; $"time"].
Proof.
  eexists. eexists. eexists. split; [vm_compute; reflexivity|]. split; [reflexivity|]. split; [reflexivity|].
  assert (Hsimple : forall l pl, parse_line all_pnames (trim_left is_blank l) = Ok pl ->
            (pl_type pl = LRegular \/ pl_type pl = LEmpty \/ pl_type pl = LComment) -> Parser.simple_line all_pnames l)
    by (intros l pl0 H1 H2; exists pl0; auto).
  split; [|split].
  - split; [vm_compute; reflexivity|]. split.
    + vm_compute scan_lines. repeat (apply Forall_cons; [eapply Hsimple; [vm_compute; reflexivity|cbn; auto]|]). apply Forall_nil.
    + vm_compute. repeat (apply Forall_cons; [repeat split; try reflexivity; try lia; intro H; repeat (destruct H as [H|H]; [discriminate|]); exact H|]). apply Forall_nil.
  - apply Forall2_cons; [|apply Forall2_nil]. split; [vm_compute; reflexivity|]. split.
    + vm_compute scan_lines. repeat (apply Forall_cons; [eapply Hsimple; [vm_compute; reflexivity|cbn; auto]|]). apply Forall_nil.
    + vm_compute. repeat (apply Forall_cons; [repeat split; try reflexivity; try lia; intro H; repeat (destruct H as [H|H]; [discriminate|]); exact H|]). apply Forall_nil.
  - vm_compute. reflexivity.
Qed.
