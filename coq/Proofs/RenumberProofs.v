From Coq Require Import String.
From Verif Require Import Base.Str Base.Lines Proofs.StrLemmas Model.Renumber.
Open Scope N_scope.

(* ---- the shared index is max(ids seen, titles seen) ---- *)
Definition inv (st : counters) : Prop := idx st = N.max (idc st) (tic st).

Lemma inv0 : inv counters0.
Proof. reflexivity. Qed.

Lemma step_inv rule st line : inv st -> inv (fst (step_line rule st line)).
Proof.
  unfold inv, step_line. intro H.
  destruct (match_key key_id line) as [g|]; destruct (match_key key_title _) as [g'|]; cbn;
    repeat match goal with |- context [if ?a <? ?b then _ else _] => destruct (N.ltb_spec a b) end; cbn in *; lia.
Qed.

Lemma rewrite_inv rule ls : forall st, inv st ->
  forall pre l post, ls = pre ++ l :: post ->
  exists st', inv st' /\
    rewrite_lines rule st ls =
    rewrite_lines rule st pre ++ snd (step_line rule st' l) :: rewrite_lines rule (fst (step_line rule st' l)) post.
Proof.
  induction ls as [|x ls IH]; intros st Hst pre l post E.
  - destruct pre; discriminate.
  - destruct pre as [|p pre]; cbn in E; injection E as -> ->.
    + exists st. split; auto. cbn. destruct (step_line rule st l); reflexivity.
    + cbn [rewrite_lines]. destruct (step_line rule st p) as [st1 p'] eqn:Es.
      assert (H1 : inv st1) by (change st1 with (fst (st1, p')); rewrite <- Es; now apply step_inv).
      destruct (IH st1 H1 pre l post eq_refl) as (st' & Hst' & Eq).
      exists st'. split; auto. rewrite Eq. reflexivity.
Qed.

(* ---- lines without a key are copied ---- *)
Lemma step_untouched rule st line :
  match_key key_id line = None -> match_key key_title line = None ->
  step_line rule st line = (st, line).
Proof. unfold step_line. intros -> ->. reflexivity. Qed.

(* ---- what the pattern captures ---- *)
Lemma match_key_shape key s g :
  match_key key s = Some g ->
  exists pre c rest, g = pre ++ key /\ s = g ++ c :: rest /\ is_rxspace c = true.
Proof.
  revert g; induction s as [|x s IH]; intros g; cbn [match_key]; [discriminate|].
  destruct (match_key key s) as [g'|] eqn:E.
  - intros H; injection H as <-. destruct (IH g' eq_refl) as (pre & c & rest & -> & -> & Hc).
    exists (x :: pre), c, rest. repeat split; auto.
  - destruct (key_here key (x :: s)) eqn:Ek; [|discriminate].
    intros H; injection H as <-. unfold key_here in Ek. apply andb_true_iff in Ek as [Hp Hs].
    apply prefixb_true_iff in Hp as [r Hr]. rewrite Hr in Hs |- *.
    rewrite skipn_app_exact in Hs. destruct r as [|c rest]; [discriminate|].
    exists [], c, rest. repeat split; auto.
Qed.

(* ---- the number written on a test_id line ---- *)
Definition id_number (st : counters) : N := N.max (idc st + 1) (tic st).
Definition title_number (st : counters) : N := N.max (idc st) (tic st + 1).

Lemma step_id_line rule st line g :
  inv st -> match_key key_id line = Some g ->
  match_key key_title (g ++ [32] ++ dec (id_number st)) = None ->
  step_line rule st line =
  ({| idx := id_number st; idc := idc st + 1; tic := tic st |}, g ++ [32] ++ dec (id_number st)).
Proof.
  unfold inv, id_number. intros Hinv Hm Ht. unfold step_line. rewrite Hm.
  assert (E : (if idx st <? idc st + 1 then idx st + 1 else idx st) = N.max (idc st + 1) (tic st)).
  { destruct (N.ltb_spec (idx st) (idc st + 1)); lia. }
  rewrite E. rewrite Ht. reflexivity.
Qed.

Lemma step_title_line rule st line g :
  inv st -> match_key key_id line = None -> match_key key_title line = Some g ->
  step_line rule st line =
  ({| idx := title_number st; idc := idc st; tic := tic st + 1 |},
   g ++ [32] ++ rule ++ [45] ++ dec (title_number st)).
Proof.
  unfold inv, title_number. intros Hinv Hi Ht. unfold step_line. rewrite Hi, Ht.
  assert (E : (if idx st <? tic st + 1 then idx st + 1 else idx st) = N.max (idc st) (tic st + 1)).
  { destruct (N.ltb_spec (idx st) (tic st + 1)); lia. }
  rewrite E. reflexivity.
Qed.

(* files that use one kind of key only: the n-th key line shows n *)
Corollary id_only_number st : tic st = 0 -> id_number st = idc st + 1.
Proof. unfold id_number. lia. Qed.
Corollary title_only_number st : idc st = 0 -> title_number st = tic st + 1.
Proof. unfold title_number. lia. Qed.
(* tests that carry both fields: the numbers agree as long as the counts are balanced *)
Corollary balanced_id_number st : tic st <= idc st + 1 -> id_number st = idc st + 1.
Proof. unfold id_number. lia. Qed.
Corollary balanced_title_number st : idc st <= tic st + 1 -> title_number st = tic st + 1.
Proof. unfold title_number. lia. Qed.

(* ---- the full statement "the n-th test_id is n" is refuted by the model
        (shared index; known finding C13-mixed-fields) ---- *)
Definition mixed_witness : str := $"- test_title: a
- test_title: b
- test_id: c
".
Theorem nth_id_is_n_refuted :
  process_yaml 65536 $"920100" mixed_witness =
  $"- test_title: 920100-1
- test_title: 920100-2
- test_id: 2
".
Proof. vm_compute. reflexivity. Qed.

(* ---- end of file ---- *)
Lemma format_eof_ws_shape lines :
  exists kept, format_eof_ws lines = kept ++ [[]] /\
    (kept = [] \/ exists k l, kept = k ++ [l] /\ blank_line l = false).
Proof.
  unfold format_eof_ws. exists (rv (drop_while_l blank_line (rv lines))). split; auto.
  remember (rv lines) as r. clear Heqr lines.
  induction r as [|x r IH]; cbn [drop_while_l]; [left; reflexivity|].
  destruct (blank_line x) eqn:E; auto.
  right. exists (rv r), x. split; auto. rewrite (rv_rev (x :: r)), (rv_rev r). reflexivity.
Qed.

Lemma split_on_no_sep sep s l : In l (split_on sep s) -> ~ In sep l.
Proof.
  revert l; induction s as [|c s IH]; intros l; cbn [split_on].
  - intros [<-|[]] [].
  - destruct (N.eqb_spec c sep) as [->|Hne].
    + intros [<-|H]; [intros []|now apply IH].
    + destruct (split_on sep s) as [|p ps] eqn:E.
      * intros [<-|[]] [H|[]]. congruence.
      * intros [<-|H].
        -- intros [H|H]; [congruence|]. apply (IH p); [now left|exact H].
        -- apply IH. now right.
Qed.

Lemma join_snoc sep k l : k <> [] -> join sep (k ++ [l]) = join sep k ++ sep ++ l.
Proof.
  induction k as [|x k IH]; [congruence|]. intros _. destruct k as [|y k].
  - reflexivity.
  - cbn [app join] in *. rewrite IH by discriminate. now rewrite <- !app_assoc.
Qed.

Lemma in_rv_drop {A} (f : A -> bool) (l : list A) x : In x (rv (drop_while_l f (rv l))) -> In x l.
Proof.
  rewrite !rv_rev. intro H. apply in_rev in H. apply in_rev.
  revert H. generalize (rev l). intro r. induction r as [|y r IH]; cbn; auto.
  destruct (f y); auto.
Qed.

(* The rewritten file is empty (blank-only input) or ends with exactly one
   newline: "body ++ [c; 10]" with c not a newline. *)
Theorem process_yaml_final_newline limit rule contents :
  process_yaml limit rule contents = [] \/
  exists body c, process_yaml limit rule contents = body ++ [c; 10] /\ c <> 10.
Proof.
  unfold process_yaml. set (out := unlines _).
  destruct (format_eof_ws_shape (split_on 10 out)) as (kept & E & [->|(k & l & -> & Hl)]).
  - left. rewrite E. reflexivity.
  - right. rewrite E.
    assert (Hin : In l (split_on 10 out)).
    { unfold format_eof_ws in E. apply app_inj_tail in E as [E _].
      apply (in_rv_drop blank_line). rewrite E. apply in_or_app. right. now left. }
    apply split_on_no_sep in Hin.
    destruct l as [|x l'] using rev_ind; [discriminate|]. clear IHl'.
    assert (Hx : x <> 10) by (intro; subst; apply Hin; apply in_or_app; right; now left).
    rewrite join_snoc by (destruct k; discriminate). cbn [app].
    destruct k as [|k0 k'].
    + cbn [app join]. exists l', x. split; auto. now rewrite <- app_assoc.
    + rewrite join_snoc by discriminate.
      exists (join [10] (k0 :: k') ++ [10] ++ l'), x. split; auto.
      now rewrite <- !app_assoc.
Qed.

Example process_yaml_example :
  process_yaml 65536 $"920100" $"  - test_title: x
    test_id: 7
  - test_id:  foo

  " = $"  - test_title: 920100-1
    test_id: 1
  - test_id: 2
".
Proof. vm_compute. reflexivity. Qed.
