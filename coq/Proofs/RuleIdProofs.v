From Coq Require Import String.
From Verif Require Import Base.Str Proofs.StrLemmas Model.RuleId.
Open Scope N_scope.

Definition chain_part (K : option str) : str :=
  match K with None => [] | Some ds => $"-chain" ++ ds end.

Definition ext_ok (e : str) : Prop := e = [] \/ e = $".ra".

(* the accepted grammar: six digits, optional -chain<digits>, optional .ra *)
Definition shape (s d : str) (K : option str) (e : str) : Prop :=
  s = d ++ chain_part K ++ e /\ length d = 6%nat /\ forallb is_digit d = true /\ ext_ok e /\
  match K with None => True | Some ds => ds <> [] /\ forallb is_digit ds = true end.

Definition K_of (ds : str) : option str := match ds with [] => None | _ => Some ds end.

Lemma ext_stops e : ext_ok e -> stops is_digit e.
Proof. intros [->| ->]; simpl; auto. Qed.

Lemma ext_eqb e : ext_ok e <-> (str_eqb e [] || str_eqb e $".ra")%bool = true.
Proof.
  unfold ext_ok. rewrite orb_true_iff, !str_eqb_eq. tauto.
Qed.

Lemma ext_not_chain e : ext_ok e -> prefixb $"-chain" e = false.
Proof. intros [->| ->]; reflexivity. Qed.

Lemma match_sound s d ds :
  match_rule_id_file_name s = Some (d, ds) -> exists e, shape s d (K_of ds) e.
Proof.
  unfold match_rule_id_file_name.
  destruct (Nat.eqb (length (firstn 6 s)) 6 && forallb is_digit (firstn 6 s))%bool eqn:E6; [|discriminate].
  apply andb_true_iff in E6 as [Hlen Hdig]. apply Nat.eqb_eq in Hlen.
  pose proof (firstn_skipn 6 s) as Hsplit.
  destruct (prefixb $"-chain" (skipn 6 s)) eqn:Ep.
  - apply prefixb_true_iff in Ep as [r Hr].
    assert (Hr2 : skipn 6 (skipn 6 s) = r) by (rewrite Hr; reflexivity).
    rewrite Hr2.
    destruct (take_while is_digit r) as [|c cs] eqn:Et; [discriminate|].
    destruct (str_eqb (drop_while is_digit r) [] || str_eqb (drop_while is_digit r) $".ra")%bool eqn:Ee; [|discriminate].
    intros H; inversion H; subst d ds; clear H.
    exists (drop_while is_digit r). unfold shape. simpl K_of. cbn [chain_part].
    repeat split; auto.
    + rewrite <- Et. rewrite <- app_assoc. rewrite take_drop_while. rewrite <- Hr. auto.
    + now apply ext_eqb.
    + discriminate.
    + rewrite <- Et. apply take_while_all.
  - destruct (str_eqb (skipn 6 s) [] || str_eqb (skipn 6 s) $".ra")%bool eqn:Ee; [|discriminate].
    intros H; inversion H; subst d ds; clear H.
    exists (skipn 6 s). unfold shape. simpl. repeat split; auto. now apply ext_eqb.
Qed.

Lemma match_complete s d K e :
  shape s d K e ->
  match_rule_id_file_name s = Some (d, match K with None => [] | Some ds => ds end).
Proof.
  intros (Hs & Hlen & Hdig & He & HK). unfold match_rule_id_file_name.
  assert (F : firstn 6 s = d) by (rewrite Hs, <- Hlen; apply firstn_app_exact).
  assert (S6 : skipn 6 s = chain_part K ++ e) by (rewrite Hs, <- Hlen; apply skipn_app_exact).
  rewrite F, S6, Hlen, Hdig. simpl andb. cbv iota.
  destruct K as [ds|]; cbn [chain_part].
  - destruct HK as [Hne Hds].
    rewrite <- app_assoc. rewrite prefixb_app.
    replace (skipn 6 ($"-chain" ++ ds ++ e)) with (ds ++ e) by reflexivity.
    rewrite (take_while_app_stop _ _ _ Hds (ext_stops _ He)).
    rewrite (drop_while_app_stop _ _ _ Hds (ext_stops _ He)).
    destruct ds as [|c cs]; [congruence|].
    apply ext_eqb in He. rewrite He. reflexivity.
  - cbn [app]. rewrite (ext_not_chain _ He). apply ext_eqb in He. rewrite He. reflexivity.
Qed.

(* ---- the full statement for parseRuleId ---- *)

Definition chain_value_ok (bits : N) (K : option str) (k : N) : Prop :=
  match K with
  | None => k = 0
  | Some ds => dec_value ds < 2 ^ bits /\ k = dec_value ds
  end.

Lemma ends_in_digit d K :
  length d = 6%nat -> forallb is_digit d = true ->
  match K with None => True | Some ds => ds <> [] /\ forallb is_digit ds = true end ->
  exists l c, d ++ chain_part K = l ++ [c] /\ is_digit c = true.
Proof.
  intros Hlen Hd HK. destruct K as [ds|]; cbn [chain_part].
  - destruct HK as [Hne Hds]. destruct (forallb_last _ _ Hds Hne) as (l & c & -> & Hc).
    exists (d ++ $"-chain" ++ l), c. split; auto. now rewrite <- !app_assoc.
  - rewrite app_nil_r. apply forallb_last; auto. destruct d; simpl in *; congruence.
Qed.

Lemma no_ext_suffix d K :
  length d = 6%nat -> forallb is_digit d = true ->
  match K with None => True | Some ds => ds <> [] /\ forallb is_digit ds = true end ->
  suffixb $".ra" (d ++ chain_part K) = false.
Proof.
  intros Hlen Hd HK. destruct (ends_in_digit d K Hlen Hd HK) as (l & c & -> & Hc).
  destruct (suffixb $".ra" (l ++ [c])) eqn:E; auto.
  change $".ra" with ($".r" ++ [97]) in E. apply suffixb_last in E. subst c. discriminate.
Qed.

Lemma file_name_of s d K e :
  shape s d K e ->
  (if suffixb $".ra" s then s else s ++ $".ra") = d ++ chain_part K ++ $".ra".
Proof.
  intros (Hs & Hlen & Hd & He & HK). destruct He as [->| ->].
  - rewrite app_nil_r in Hs. subst s. rewrite (no_ext_suffix d K Hlen Hd HK).
    now rewrite <- app_assoc.
  - subst s. rewrite app_assoc, suffixb_app. reflexivity.
Qed.

Theorem parse_rule_id_spec bits s id file k :
  parse_rule_id bits s = Some {| r_id := id; r_file := file; r_chain := k |} <->
  exists d K e, shape s d K e /\ chain_value_ok bits K k /\
                id = d /\ file = d ++ chain_part K ++ $".ra".
Proof.
  unfold parse_rule_id. split.
  - destruct (match_rule_id_file_name s) as [[d ds]|] eqn:Em; [|discriminate].
    apply match_sound in Em as [e Hsh].
    destruct (chain_offset bits ds) as [k'|] eqn:Ek; [|discriminate].
    intros H; injection H as Hid Hfile Hk; subst id k' file.
    exists d, (K_of ds), e. split; [exact Hsh|]. split; [|split; [reflexivity|]].
    + destruct ds as [|c cs]; cbn [K_of chain_value_ok chain_offset] in *.
      * now inversion Ek.
      * unfold parse_uint in Ek. destruct (dec_value (c :: cs) <? 2 ^ bits) eqn:El; [|discriminate].
        apply N.ltb_lt in El. inversion Ek. split; auto.
    + eapply file_name_of; eauto.
  - intros (d & K & e & Hsh & Hk & -> & ->).
    rewrite (match_complete _ _ _ _ Hsh). rewrite (file_name_of _ _ _ _ Hsh).
    destruct K as [ds|]; cbn [chain_value_ok] in Hk.
    + destruct Hk as [Hlt ->]. destruct Hsh as (_ & _ & _ & _ & Hne & _).
      destruct ds as [|c cs]; [congruence|]. cbn [chain_offset parse_uint].
      apply N.ltb_lt in Hlt. rewrite Hlt. reflexivity.
    + subst k. reflexivity.
Qed.

(* rejection of every other shape is the contrapositive of the -> direction;
   spelled out: *)
Corollary parse_rule_id_rejects bits s :
  (forall d K e k, shape s d K e -> ~ chain_value_ok bits K k) ->
  parse_rule_id bits s = None.
Proof.
  intro H. destruct (parse_rule_id bits s) as [[id file k]|] eqn:E; auto.
  apply parse_rule_id_spec in E as (d & K & e & Hsh & Hk & _). exfalso. eapply H; eauto.
Qed.

(* the chain offset is never wrapped or truncated: it is the decimal value
   of the digits, and that value fits the configured width *)
Corollary chain_offset_in_range bits s r :
  parse_rule_id bits s = Some r -> r_chain r < 2 ^ bits.
Proof.
  destruct r as [id file k]. intro H. apply parse_rule_id_spec in H as (d & K & e & _ & Hk & _).
  destruct K; cbn in *.
  - destruct Hk as [H ->]. exact H.
  - subst k. apply N.neq_0_lt_0. apply N.pow_nonzero. discriminate.
Qed.

(* shapes are unambiguous: one argument has one reading *)
Lemma shape_unique s d K e d' K' e' : shape s d K e -> shape s d' K' e' -> d = d' /\ K = K' /\ e = e'.
Proof.
  intros H H'. pose proof (match_complete _ _ _ _ H) as M. pose proof (match_complete _ _ _ _ H') as M'.
  rewrite M in M'. inversion M'; subst d'. split; auto.
  assert (K = K').
  { destruct H as (_ & _ & _ & _ & HK). destruct H' as (_ & _ & _ & _ & HK').
    destruct K as [ds|], K' as [ds'|]; auto.
    - congruence.
    - destruct HK as [Hne _]. subst ds. congruence.
    - destruct HK' as [Hne _]. subst ds'. congruence. }
  subst K'. split; auto.
  destruct H as (Hs & _). destruct H' as (Hs' & _). rewrite Hs in Hs'.
  apply app_inv_head in Hs'. apply app_inv_head in Hs'. auto.
Qed.

(* non-vacuity: a concrete accepted and a concrete rejected argument *)
Example accepted_example :
  parse_rule_id 8 $"942100-chain12.ra" =
  Some {| r_id := $"942100"; r_file := $"942100-chain12.ra"; r_chain := 12 |}.
Proof. reflexivity. Qed.
Example rejected_example_256 : parse_rule_id 8 $"942100-chain256" = None.
Proof. reflexivity. Qed.
Example rejected_example_wrap : parse_rule_id 8 $"942100-chain18446744073709551871" = None.
Proof. reflexivity. Qed.
