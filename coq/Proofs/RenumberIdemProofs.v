(* C13: renumbering twice is renumbering once.
   On the lines of a file in which no line carries both keys (the property's quantifier: key
   lines are plain `key: value` lines) and for a rule id without the letter t (rule ids are
   digits), rewriting the rewritten lines with the same starting counters gives the same lines:
   the key and everything before it is kept, the number written is a function of the counters,
   and the counters move exactly as they did the first time. *)
From Coq Require Import String.
From Verif Require Import Base.Str Base.Lines Proofs.StrLemmas Model.Renumber Proofs.RenumberProofs.
Open Scope N_scope.

(* ---------- decimal numerals are digits ---------- *)
Lemma dec_aux_digits fuel : forall n acc, forallb is_digit acc = true -> forallb is_digit (dec_aux fuel n acc) = true.
Proof.
  induction fuel as [|f IH]; intros n acc H; cbn [dec_aux]; [exact H|].
  assert (Hd : is_digit (digit_of (n mod 10)) = true).
  { unfold is_digit, digit_of. assert (Hm : n mod 10 < 10) by (apply N.mod_lt; discriminate).
    revert Hm. generalize (n mod 10). intros m Hm. apply andb_true_iff. split; apply N.leb_le; lia. }
  assert (H' : forallb is_digit (digit_of (n mod 10) :: acc) = true) by (cbn [forallb]; now rewrite Hd, H).
  destruct (n / 10 =? 0); [exact H'|]. now apply IH.
Qed.

Lemma dec_digits n : forallb is_digit (dec n) = true.
Proof. unfold dec. now apply dec_aux_digits. Qed.

(* ---------- match_key by positions ---------- *)
Lemma match_key_none_iff key s : match_key key s = None <-> forall p, key_here key (skipn p s) = false.
Proof.
  induction s as [|x s IH].
  - split; [|reflexivity]. intros _ p. rewrite skipn_nil. unfold key_here. destruct key; reflexivity.
  - cbn [match_key]. destruct (match_key key s) as [g|] eqn:E.
    + split; [discriminate|]. intro H. exfalso.
      assert (Hn : Some g = None) by (apply IH; intro p; apply (H (S p))). discriminate.
    + destruct IH as [IH1 _]. specialize (IH1 eq_refl).
      destruct (key_here key (x :: s)) eqn:Ek.
      * split; [discriminate|]. intro H. specialize (H 0%nat). cbn in H. congruence.
      * split; [|reflexivity]. intros _ [|p]; [exact Ek|apply IH1].
Qed.

Lemma match_key_first_char k0 krest s : ~ In k0 s -> match_key (k0 :: krest) s = None.
Proof.
  intro H. apply match_key_none_iff. intro p. unfold key_here.
  destruct (skipn p s) as [|c r] eqn:E; [reflexivity|]. cbn [prefixb].
  destruct (N.eqb_spec k0 c) as [->|]; [|reflexivity]. exfalso. apply H.
  rewrite <- (firstn_skipn p s), E. apply in_or_app. right. now left.
Qed.

(* the key, then what was in front of it, is found again in front of a tail without the key *)
Lemma rematch_after key pre t :
  key <> [] -> match_key key (tl (key ++ 32 :: t)) = None ->
  match_key key (pre ++ key ++ 32 :: t) = Some (pre ++ key).
Proof.
  intros Hk Hn. induction pre as [|x pre IH].
  - cbn [app]. destruct key as [|k0 krest]; [congruence|]. cbn [app tl] in Hn. cbn [app match_key]. rewrite Hn.
    assert (Hh : key_here (k0 :: krest) (k0 :: krest ++ 32 :: t) = true).
    { unfold key_here. change (k0 :: krest ++ 32 :: t) with ((k0 :: krest) ++ 32 :: t).
      rewrite prefixb_app, skipn_app_exact. reflexivity. }
    now rewrite Hh.
  - cbn [app match_key]. now rewrite IH.
Qed.

(* after the rest of either key, a tail without the letter t holds no key *)
Lemma key_id_lit : key_id = [116; 101; 115; 116; 95; 105; 100; 58]. Proof. reflexivity. Qed.
Lemma key_title_lit : key_title = [116; 101; 115; 116; 95; 116; 105; 116; 108; 101; 58]. Proof. reflexivity. Qed.

Ltac tail_none Ht := rewrite ?key_id_lit, ?key_title_lit in *; cbn [tl] in Ht; cbn [app tl match_key]; rewrite Ht; reflexivity.

Lemma no_key_after_id t : ~ In 116 t -> match_key key_id (tl (key_id ++ 32 :: t)) = None.
Proof. intro H. pose proof (match_key_first_char 116 (tl key_id) t H) as Ht. tail_none Ht. Qed.

Lemma no_key_after_title t : ~ In 116 t -> match_key key_title (tl (key_title ++ 32 :: t)) = None.
Proof. intro H. pose proof (match_key_first_char 116 (tl key_title) t H) as Ht. tail_none Ht. Qed.

Lemma no_title_in_id_tail t : ~ In 116 t -> match_key key_title (tl (key_id ++ 32 :: t)) = None.
Proof. intro H. pose proof (match_key_first_char 116 (tl key_title) t H) as Ht. tail_none Ht. Qed.

Lemma no_id_in_title_tail t : ~ In 116 t -> match_key key_id (tl (key_title ++ 32 :: t)) = None.
Proof. intro H. pose proof (match_key_first_char 116 (tl key_id) t H) as Ht. tail_none Ht. Qed.

Lemma digits_no_t s : forallb is_digit s = true -> ~ In 116 s.
Proof.
  intros H Hin. rewrite forallb_forall in H. specialize (H _ Hin). discriminate.
Qed.

Lemma prepend_no_first k0 kr pre s : ~ In k0 pre -> match_key (k0 :: kr) s = None -> match_key (k0 :: kr) (pre ++ s) = None.
Proof.
  intros Hp Hs. induction pre as [|x pre IH]; [exact Hs|].
  cbn [app match_key]. rewrite IH by (intro Hin; apply Hp; now right).
  unfold key_here. cbn [prefixb]. destruct (N.eqb_spec k0 x) as [->|]; [|reflexivity].
  exfalso. apply Hp. now left.
Qed.

Lemma no_title_in_id_line t : ~ In 116 t -> match_key key_title (key_id ++ 32 :: t) = None.
Proof. intro H. pose proof (match_key_first_char 116 (tl key_title) t H) as Ht. tail_none Ht. Qed.

Lemma no_id_in_title_line t : ~ In 116 t -> match_key key_id (key_title ++ 32 :: t) = None.
Proof. intro H. pose proof (match_key_first_char 116 (tl key_id) t H) as Ht. tail_none Ht. Qed.

(* ---------- the three kinds of lines of the property's quantifier ---------- *)
Lemma key_id_nonempty : key_id <> []. Proof. discriminate. Qed.
Lemma key_title_nonempty : key_title <> []. Proof. discriminate. Qed.

(* a rewritten line is rewritten to itself, with the same movement of the counters *)
Lemma step_line_again rule st l : ~ In 116 rule -> plain_line l ->
  step_line rule st (snd (step_line rule st l)) = step_line rule st l.
Proof.
  intros Hr [(indent & Hi & Hm)|[(Hn & indent & Hi & Hm)|(Hn & Ht)]].
  - (* a test_id line *)
    set (n := if idx st <? idc st + 1 then idx st + 1 else idx st).
    assert (Hd : ~ In 116 (dec n)) by (apply digits_no_t, dec_digits).
    assert (Ht1 : match_key key_title ((indent ++ key_id) ++ [32] ++ dec n) = None).
    { rewrite <- app_assoc. change (key_title) with (116 :: tl key_title). apply prepend_no_first; [exact Hi|].
      change (116 :: tl key_title) with key_title. cbn [app]. now apply no_title_in_id_line. }
    assert (Hre : match_key key_id ((indent ++ key_id) ++ [32] ++ dec n) = Some (indent ++ key_id)).
    { rewrite <- app_assoc. cbn [app]. apply rematch_after; [exact key_id_nonempty|now apply no_key_after_id]. }
    assert (E : step_line rule st l =
                ({| idx := n; idc := idc st + 1; tic := tic st |}, (indent ++ key_id) ++ [32] ++ dec n)).
    { unfold step_line. rewrite Hm. fold n. rewrite Ht1. reflexivity. }
    rewrite E. cbn [snd]. unfold step_line. rewrite Hre. fold n. rewrite Ht1. reflexivity.
  - (* a test_title line *)
    set (n := if idx st <? tic st + 1 then idx st + 1 else idx st).
    assert (Hd : ~ In 116 (rule ++ [45] ++ dec n)).
    { intro Hin. apply in_app_or in Hin as [Hin|Hin]; [now apply Hr|].
      cbn [app] in Hin. destruct Hin as [Hin|Hin]; [discriminate|]. revert Hin. apply digits_no_t, dec_digits. }
    assert (Hid : match_key key_id ((indent ++ key_title) ++ [32] ++ rule ++ [45] ++ dec n) = None).
    { rewrite <- app_assoc. change key_id with (116 :: tl key_id). apply prepend_no_first; [exact Hi|].
      change (116 :: tl key_id) with key_id. cbn [app]. now apply no_id_in_title_line. }
    assert (Hre : match_key key_title ((indent ++ key_title) ++ [32] ++ rule ++ [45] ++ dec n) = Some (indent ++ key_title)).
    { rewrite <- app_assoc. cbn [app]. apply rematch_after; [exact key_title_nonempty|now apply no_key_after_title]. }
    assert (E : step_line rule st l =
                ({| idx := n; idc := idc st; tic := tic st + 1 |}, (indent ++ key_title) ++ [32] ++ rule ++ [45] ++ dec n)).
    { unfold step_line. rewrite Hn, Hm. fold n. reflexivity. }
    rewrite E. cbn [snd]. unfold step_line. rewrite Hid, Hre. fold n. reflexivity.
  - (* any other line *)
    rewrite (step_untouched _ _ _ Hn Ht). cbn [snd]. now apply step_untouched.
Qed.

(* THE LINES OF A FILE: renumbering the renumbered lines changes nothing *)
Theorem rewrite_lines_idempotent rule : ~ In 116 rule -> forall ls st, Forall plain_line ls ->
  rewrite_lines rule st (rewrite_lines rule st ls) = rewrite_lines rule st ls.
Proof.
  intros Hr. induction ls as [|l ls IH]; intros st HF; [reflexivity|].
  inversion HF as [|? ? Hl HF']; subst.
  cbn [rewrite_lines]. destruct (step_line rule st l) as [st1 l1] eqn:E1.
  cbn [rewrite_lines].
  pose proof (step_line_again rule st l Hr Hl) as Ha. rewrite E1 in Ha. cbn [snd] in Ha. rewrite Ha.
  f_equal. now apply IH.
Qed.

(* non-vacuity: a file of the quantifier, with indentation, list dashes, both keys and other lines *)
Example idempotent_example :
  let ls := [$"- test_title: old"; $"  desc: ""t"""; $"  - test_id: 7"; $"    test_id:  x"; $""] in
  Forall plain_line ls /\
  rewrite_lines $"942100" counters0 ls = [$"- test_title: 942100-1"; $"  desc: ""t"""; $"  - test_id: 1"; $"    test_id: 2"; $""].
Proof.
  split; [|vm_compute; reflexivity].
  apply Forall_cons.
  { right; left. split; [reflexivity|]. exists $"- ". split; [|reflexivity]. intros [H|[H|[]]]; discriminate. }
  apply Forall_cons; [right; right; split; reflexivity|].
  apply Forall_cons.
  { left. exists $"  - ". split; [|reflexivity]. intro H. repeat (destruct H as [H|H]; [discriminate|]). exact H. }
  apply Forall_cons.
  { left. exists $"    ". split; [|reflexivity]. intro H. repeat (destruct H as [H|H]; [discriminate|]). exact H. }
  apply Forall_cons; [right; right; split; reflexivity|]. apply Forall_nil.
Qed.
