From Coq Require Import String.
From Verif Require Import Base.Str Base.Lines Proofs.StrLemmas Model.Copyright.
Open Scope N_scope.

Lemma replace_matches_none m s :
  (forall t, m t = None) -> replace_matches m s 0 = s.
Proof. intro H. induction s as [|c s IH]; cbn; auto. rewrite H. congruence. Qed.

(* a pattern that matches at no suffix of the line leaves it unchanged *)
Lemma replace_matches_nowhere m s :
  (forall pre t, s = pre ++ t -> m t = None) -> replace_matches m s 0 = s.
Proof.
  induction s as [|c s IH]; intro H; cbn; auto.
  rewrite (H [] (c :: s) eq_refl). f_equal. apply IH.
  intros pre t ->. apply (H (c :: pre)). reflexivity.
Qed.

(* a line that carries none of the five markers is copied *)
Theorem update_line_untouched v y line :
  prefixb ver_prefix1 line = false -> prefixb ver_prefix2 line = false ->
  prefixb year_a line = false -> prefixb sig_a line = false ->
  (forall pre t, line = pre ++ t -> prefixb short_a t = false) ->
  (forall pre t, line = pre ++ t -> prefixb secver_a t = false) ->
  update_line v y line = line.
Proof.
  intros H1 H2 H3 H4 H5 H6. unfold update_line.
  assert (E1 : repl_version v line = line) by (unfold repl_version; now rewrite H1, H2).
  rewrite E1.
  rewrite (replace_matches_nowhere (m_short _) line)
    by (intros pre t E; unfold m_short; now rewrite (H5 pre t E)).
  assert (E3 : repl_year y line = line) by (unfold repl_year; now rewrite H3).
  rewrite E3.
  rewrite (replace_matches_nowhere (m_secver _) line)
    by (intros pre t E; unfold m_secver; now rewrite (H6 pre t E)).
  unfold repl_sig. now rewrite H4.
Qed.

(* the header version marker shows exactly the new version *)
Theorem repl_version_shows v rest :
  rest <> [] ->
  repl_version v (ver_prefix1 ++ rest) = ver_prefix1 ++ v /\
  repl_version v (ver_prefix2 ++ rest) = ver_prefix2 ++ v.
Proof.
  intro Hne. unfold repl_version. rewrite !prefixb_app.
  assert (L : forall p, Nat.eqb (length (p ++ rest)) (length p) = false).
  { intro p. apply Nat.eqb_neq. rewrite app_length. destruct rest; [congruence|cbn; lia]. }
  rewrite !L. cbn [andb negb].
  split; [reflexivity|].
  destruct (prefixb ver_prefix1 (ver_prefix2 ++ rest)) eqn:E; [|reflexivity].
  apply prefixb_true_iff in E as [r Hr]. discriminate.
Qed.

(* ... and the rewritten header line is a fixed point *)
Corollary repl_version_idem v line : v <> [] -> repl_version v (repl_version v line) = repl_version v line.
Proof.
  intro Hv.
  assert (C : repl_version v line = ver_prefix1 ++ v \/ repl_version v line = ver_prefix2 ++ v \/
              (repl_version v line = line /\ forall w, repl_version w line = line)).
  { unfold repl_version.
    destruct (prefixb ver_prefix1 line && _)%bool; auto.
    destruct (prefixb ver_prefix2 line && _)%bool; auto. }
  destruct C as [E|[E|[E E']]]; rewrite E.
  - apply (repl_version_shows v v Hv).
  - apply (repl_version_shows v v Hv).
  - apply E'.
Qed.

(* copyright line: exactly the year changes *)
Theorem repl_year_shows y d t :
  length d = 4%nat -> forallb is_digit d = true -> year_tail_ok t = true ->
  repl_year y (year_a ++ d ++ t) = year_a ++ y ++ t.
Proof.
  intros Hl Hd Ht. unfold repl_year. cbv zeta. rewrite prefixb_app, !skipn_app_exact.
  assert (F : firstn 4 (d ++ t) = d) by (rewrite <- Hl; apply firstn_app_exact).
  assert (S : skipn 4 (d ++ t) = t) by (rewrite <- Hl; apply skipn_app_exact).
  rewrite F, S, Hl, Hd, Ht. reflexivity.
Qed.

(* every output line is terminated: the file ends with a newline *)
Theorem update_rules_lines limit v y contents :
  update_rules limit v y contents = unlines (map (update_line v y) (scan_lines limit contents)).
Proof. reflexivity. Qed.

(* The statement "repeating the command changes nothing / earlier accepted
   versions do not matter" is false of the faithful model for versions outside
   x.y.z[-lowercase] (known finding C14-version-forms): *)
Definition c14_witness : str := $"    ver:'OWASP_CRS/4.0.0',\
".
Theorem update_not_idempotent_refuted :
  let once := update_rules 65536 $"4.1.0-RC1" $"2025" c14_witness in
  update_rules 65536 $"4.1.0-RC1" $"2025" once <> once.
Proof. vm_compute. discriminate. Qed.

Example update_rules_example :
  update_rules 65536 $"4.1.0" $"2025" $"# OWASP CRS ver.4.0.0
# Copyright (c) 2021-2024 CRS project. All rights reserved.
    ver:'OWASP_CRS/4.0.0-rc1',\
    setvar:tx.crs_setup_version=400" = $"# OWASP CRS ver.4.1.0
# Copyright (c) 2021-2025 CRS project. All rights reserved.
    ver:'OWASP_CRS/4.1.0',\
    setvar:tx.crs_setup_version=410
".
Proof. vm_compute. reflexivity. Qed.
