(* C01: the text the operator builds denotes the plain reading of the program.

   Refinement proof: the concrete machine of Model/Assembler.v (text, Join oracle) simulates
   the abstract machine of Model/PlainReading.v (denotations).  The laws assumed about regex
   TEXT are facts about RE2 syntax and about the optimiser, not about /repo:
     H_sub   a sequence-level text is a text
     H_grp   (?:s) is sequence-level and means what s means
     H_cat   juxtaposing two sequence-level texts concatenates their meanings
     H_join  Join of texts means the alternation of their meanings
   and the entries are assumed to mean what the plain reading says they mean. *)
From Coq Require Import String.
From Verif Require Import Base.Str Base.Lines Base.Outcome Proofs.StrLemmas Model.Patterns Model.ParseLine Model.Passes Model.CmdLine Model.Assembler Model.PlainReading.
Open Scope N_scope.

Section Refinement.
Variable join : list str -> option str.
Variable cfg : config.
Variable A : Type.
Variable aalt : list A -> A.
Variable acat : A -> A -> A.
Variable den_line : str -> A.
Variable den_word : evasion -> str -> A.
Variable seq_level : str -> bool.

Variable Den : str -> A -> Prop.        (* the text, read as a whole expression, means a *)
Variable DenSeq : str -> A -> Prop.     (* ... and may be juxtaposed with other such texts *)

Hypothesis H_sub : forall s a, DenSeq s a -> Den s a.
Hypothesis H_grp : forall s a, Den s a -> DenSeq (grp s) a.
Hypothesis H_cat : forall s t a b, DenSeq s a -> DenSeq t b -> DenSeq (s ++ t) (acat a b).
(* the alternation of one thing is that thing *)
Hypothesis H_alt1 : forall s x, Den s (aalt [x]) -> Den s x.
Hypothesis H_alt1_seq : forall s x, DenSeq s x -> DenSeq s (aalt [x]).
Hypothesis H_join : forall ls r xs, join ls = Some r -> Forall2 Den ls xs -> ls <> [] -> Den r (aalt xs).
(* the optimiser's result for non-empty input is not empty and is not a marker line *)
Hypothesis H_join_shape : forall ls r, join ls = Some r -> ls <> [] ->
  r <> [] /\ m_assemble_input r = None /\ m_assemble_output r = None.

Notation pasm := (pasm A).
Notation pproc := (pproc A).
Notation pstash := (pstash A).
Notation ok_entry := (ok_entry A den_line seq_level Den DenSeq).
Notation ok_word := (ok_word A den_word Den).
Notation line_ok := (line_ok A den_line den_word seq_level Den DenSeq).
Notation lines_ok := (lines_ok A aalt acat den_line den_word seq_level cfg Den DenSeq).
Notation cat_opt := (cat_opt A acat).
Notation whole := (whole A acat).

(* ---------- relations ---------- *)
Definition Rline (l : str) (e : bool * A) : Prop :=
  l <> [] /\ Den l (snd e) /\ (fst e = true -> DenSeq l (snd e)).

Definition Rout (output : str) (o : option A) : Prop :=
  match o with
  | None => output = []
  | Some x => output <> [] /\ DenSeq output x
  end.

Definition Rasm (a : asm) (pa : pasm) : Prop :=
  Forall2 Rline (a_lines a) (p_pending A pa) /\ Rout (a_output a) (p_out A pa).

Definition Rstash (st : smap) (ps : pstash) : Prop :=
  Forall2 (fun kt kv => fst kt = fst kv /\ Rout (snd kt) (snd kv)) st ps.

Definition Rproc (p : proc) (pp : pproc) : Prop :=
  match p, pp with
  | PAsm a, PPAsm _ pa => Rasm a pa
  | PCmd ev ls, PPCmd _ ev' ws => ev = ev' /\ Forall2 (fun l w => l <> [] /\ Den l w) ls ws
  | _, _ => False
  end.

(* ---------- texts ---------- *)
Lemma grp_nonempty s : grp s <> [].
Proof. unfold grp. discriminate. Qed.

Lemma app_nonempty_l {X} (a b : list X) : a <> [] -> a ++ b <> [].
Proof. destruct a; [congruence|discriminate]. Qed.
Lemma app_nonempty_r {X} (a b : list X) : b <> [] -> a ++ b <> [].
Proof. destruct a; [auto|discriminate]. Qed.

Lemma grp_not_marker s : m_assemble_input (grp s) = None /\ m_assemble_output (grp s) = None.
Proof. split; reflexivity. Qed.

(* appending a sequence-level text to the buffer *)
Lemma Rout_append output o t x :
  Rout output o -> t <> [] -> DenSeq t x -> Rout (output ++ t) (ocat A acat o x).
Proof.
  unfold Rout, ocat. destruct o as [y|].
  - intros [Hne Hd] Ht Hx. split; [now apply app_nonempty_l|now apply H_cat].
  - intros -> Ht Hx. cbn. split; auto.
Qed.

(* ---------- runAssemble on related lines ---------- *)
Lemma Forall2_Den_of_Rline ls ps : Forall2 Rline ls ps -> Forall2 Den ls (map snd ps).
Proof. induction 1 as [|l e ls ps [_ [H _]] _ IH]; cbn; constructor; auto. Qed.

Lemma run_assemble_rel ls ps r :
  Forall2 Rline ls ps -> run_assemble join ls = Ok r ->
  (ls = [] /\ ps = [] /\ r = []) \/ (ls <> [] /\ ps <> [] /\ r <> [] /\ DenSeq r (aalt (map snd ps))).
Proof.
  intros HR H. unfold run_assemble in H. destruct ls as [|l ls].
  - inversion HR; subst. injection H as <-. auto.
  - destruct (join (l :: ls)) as [j|] eqn:Ej; [|discriminate]. injection H as <-. right.
    inversion HR; subst. split; [discriminate|]. split; [discriminate|]. split; [apply grp_nonempty|].
    apply H_grp. eapply H_join; [exact Ej| |discriminate]. apply Forall2_Den_of_Rline. now constructor.
Qed.

(* ---------- flush ---------- *)
Lemma flush_rel a pa a' :
  Rasm a pa -> asm_flush join a = Ok a' ->
  forall pa', pflush A aalt acat pa = Some pa' -> Rasm a' pa'.
Proof.
  intros [HL HO] H pa' Hp. unfold asm_flush in H. unfold pflush in Hp.
  destruct a as [ls out]; destruct pa as [ps po]; cbn [a_lines a_output p_pending p_out] in *.
  destruct HL as [|l e ls ps HR1 HL'].
  - (* nothing pending *)
    cbn in H. injection H as <-. injection Hp as <-. split; cbn; [constructor|].
    now rewrite app_nil_r.
  - destruct HL' as [|l2 e2 ls ps HR2 HL''].
    + (* exactly one line: copied raw *)
      destruct e as [sq x]. destruct sq; [|discriminate].
      injection Hp as <-. cbn in H. injection H as <-. split; cbn; [constructor|].
      rewrite app_nil_r. destruct HR1 as (Hne & _ & Hs). apply Rout_append; [exact HO|exact Hne|apply H_alt1_seq; now apply Hs].
    + (* two or more: joined and grouped *)
      assert (Hp' : pa' = {| p_pending := []; p_out := ocat A acat po (aalt (map snd (e :: e2 :: ps))) |}).
      { destruct e as [sq x]. injection Hp as <-. reflexivity. }
      subst pa'. cbn [a_lines a_output] in H.
      assert (HL : Forall2 Rline (l :: l2 :: ls) (e :: e2 :: ps)) by (constructor; [exact HR1|constructor; [exact HR2|exact HL'']]).
      destruct (run_assemble join (l :: l2 :: ls)) as [r| |] eqn:Er; cbn [bind] in H; try discriminate.
      injection H as <-. split; cbn [a_lines a_output p_pending p_out]; [constructor|].
      destruct (run_assemble_rel _ _ _ HL Er) as [(E & _)|(_ & _ & Hr & Hd)]; [discriminate|].
      now apply Rout_append.
Qed.

Lemma flush_defined a pa a' :
  Rasm a pa -> asm_flush join a = Ok a' -> forall pa', pflush A aalt acat pa = Some pa' -> a_lines a' = [].
Proof.
  intros _ H _ _. unfold asm_flush in H.
  destruct (run_assemble join _) as [r| |]; cbn [bind] in H; try discriminate. now injection H as <-.
Qed.

(* ---------- stash ---------- *)
Lemma stash_get_rel st ps k : Rstash st ps ->
  match smap_get st k, ps_get A ps k with
  | None, None => True
  | Some t, Some v => Rout t v
  | _, _ => False
  end.
Proof.
  induction 1 as [|[k1 t] [k2 v] st ps [Hk Ho] _ IH]; cbn; auto.
  cbn in Hk. subst k2. destruct (str_eqb k k1); auto.
Qed.

Lemma stash_set_rel st ps k t v : Rstash st ps -> Rout t v -> Rstash (smap_set st k t) (ps_set A ps k v).
Proof.
  induction 1 as [|[k1 t1] [k2 v1] st ps [Hk Ho] Hrest IH]; intro Hn; cbn.
  - constructor; [split; auto|constructor].
  - cbn in Hk. subst k2. destruct (str_eqb k k1).
    + constructor; [split; auto|exact Hrest].
    + constructor; [split; auto|apply IH; auto].
Qed.

(* ---------- one line at an Assemble processor ---------- *)

Lemma asm_line_rel a pa st ps line a' st' :
  Rasm a pa -> Rstash st ps ->
  (m_assemble_input line = None -> m_assemble_output line = None -> ok_entry line) ->
  asm_process_line join a st line = Ok (a', st') ->
  forall pa' ps', pasm_line A aalt acat den_line seq_level pa ps line = Some (pa', ps') ->
  Rasm a' pa' /\ Rstash st' ps'.
Proof.
  intros HR HS Hok H pa' ps' Hp. unfold asm_process_line in H. unfold pasm_line in Hp.
  destruct (m_assemble_input line) as [ident|] eqn:Ei.
  - (* store *)
    unfold asm_store in H. unfold pstore in Hp. destruct ident as [|c ident]; [discriminate|].
    destruct (asm_flush join a) as [a1| |] eqn:Ef; cbn [bind] in H; try discriminate.
    destruct (pflush A aalt acat pa) as [pa1|] eqn:Epf; [|discriminate].
    injection H as <- <-. injection Hp as <- <-.
    destruct (flush_rel _ _ _ HR Ef _ Epf) as [HL1 HO1]. split.
    + split; cbn; auto.
    + apply stash_set_rel; auto.
  - destruct (m_assemble_output line) as [ident|] eqn:Eo.
    + (* append *)
      unfold asm_append in H.
      destruct (pappend A aalt acat pa ps ident) as [pa1|] eqn:Epa; [|discriminate]. injection Hp as <- <-.
      unfold pappend in Epa. destruct ident as [|c ident].
      * destruct (asm_flush join a) as [a1| |] eqn:Ef; cbn [bind] in H; try discriminate.
        injection H as <- <-. split; auto. eapply flush_rel; eauto.
      * destruct (asm_flush join a) as [a1| |] eqn:Ef; cbn [bind] in H; try discriminate.
        destruct (pflush A aalt acat pa) as [pa0|] eqn:Epf; [|discriminate].
        destruct (flush_rel _ _ _ HR Ef _ Epf) as [HL1 HO1].
        pose proof (stash_get_rel st ps (c :: ident) HS) as Hg.
        destruct (smap_get st (c :: ident)) as [t|]; [|discriminate].
        destruct (ps_get A ps (c :: ident)) as [v|]; [|destruct Hg].
        injection H as <- <-. split; auto. destruct v as [s|].
        -- injection Epa as <-. destruct Hg as [Hne Hd]. split; cbn; auto. now apply Rout_append.
        -- injection Epa as <-. cbn in Hg. subst t. split; cbn; auto. now rewrite app_nil_r.
    + (* an entry *)
      injection H as <- <-. injection Hp as <- <-. split; auto.
      destruct HR as [HL HO]. split; cbn; auto. apply Forall2_app; auto.
      constructor; [|constructor]. destruct (Hok eq_refl eq_refl) as (H1 & H2 & H3). repeat split; auto.
Qed.

(* ---------- completion of an Assemble processor ---------- *)
Lemma asm_complete_rel a pa res :
  Rasm a pa -> asm_complete join a = Ok res ->
  match pasm_complete A aalt acat pa with
  | None => res = []
  | Some x => exists t, res = [t] /\ DenSeq t x /\ t <> [] /\ m_assemble_input t = None /\ m_assemble_output t = None
  end.
Proof.
  intros [HL HO] H. unfold asm_complete in H.
  destruct (run_assemble join (a_lines a)) as [r| |] eqn:Er; cbn [bind] in H; try discriminate.
  unfold pasm_complete. unfold Rout in HO.
  destruct (run_assemble_rel _ _ _ HL Er) as [(E1 & E2 & E3)|(N1 & N2 & Hr & Hd)].
  - rewrite E2. subst r. destruct (p_out A pa) as [o|].
    + destruct HO as [Hne Ho]. destruct (a_output a) as [|c out] eqn:Eout; [congruence|].
      cbn [wrap_completed] in H. injection H as <-. exists (grp (c :: out)).
      split; [reflexivity|]. split; [apply H_grp; now apply H_sub|]. split; [apply grp_nonempty|split; reflexivity].
    + rewrite HO in H. cbn in H. now injection H as <-.
  - destruct (p_pending A pa) as [|e ps] eqn:Ep; [congruence|]. destruct r as [|c r]; [congruence|].
    destruct (p_out A pa) as [o|].
    + destruct HO as [Hne Ho]. destruct (a_output a) as [|c2 out] eqn:Eout; [congruence|].
      cbn [wrap_completed] in H. injection H as <-. exists (grp (c2 :: out) ++ grp (c :: r)).
      split; [reflexivity|]. split; [apply H_cat; [apply H_grp; now apply H_sub|apply H_grp; now apply H_sub]|].
      split; [apply app_nonempty_l, grp_nonempty|split; reflexivity].
    + rewrite HO in H. cbn [wrap_completed] in H. injection H as <-. exists (grp (c :: r)).
      split; [reflexivity|]. split; [apply H_grp; now apply H_sub|]. split; [apply grp_nonempty|split; reflexivity].
Qed.

(* ---------- processors ---------- *)


Notation pstep := (pstep A aalt acat den_line den_word seq_level cfg).
Notation prun := (prun A aalt acat den_line den_word seq_level cfg).


Lemma proc_line_rel p pp st ps line p' st' :
  Rproc p pp -> Rstash st ps -> line_ok [pp] line ->
  proc_process_line join p st line = Ok (p', st') ->
  forall pp' ps', pproc_line A aalt acat den_line den_word seq_level pp ps line = Some (pp', ps') ->
  Rproc p' pp' /\ Rstash st' ps'.
Proof.
  intros HR HS Hok H pp' ps' Hp. destruct p as [a|ev ls]; destruct pp as [pa|ev' ws]; cbn [Rproc] in HR; try (now destruct HR).
  - cbn [proc_process_line] in H. cbn [pproc_line] in Hp.
    destruct (asm_process_line join a st line) as [[a1 st1]| |] eqn:Ea; cbn [bind] in H; try discriminate.
    injection H as <- <-.
    destruct (pasm_line A aalt acat den_line seq_level pa ps line) as [[pa1 ps1]|] eqn:Ep; [|discriminate].
    injection Hp as <- <-. cbn [Rproc]. eapply asm_line_rel; eauto.
  - destruct HR as [<- H0]. cbn [proc_process_line] in H. cbn [pproc_line] in Hp. destruct line as [|c line].
    + injection H as <- <-. injection Hp as <- <-. split; auto. cbn [Rproc]. split; auto.
    + injection H as <- <-. injection Hp as <- <-. split; auto. cbn [Rproc]. split; auto.
      apply Forall2_app; auto. constructor; [|constructor]. apply Hok. discriminate.
Qed.

(* a completed block: nothing, or one line that is an entry of the parent *)
Lemma proc_complete_rel p pp res :
  Rproc p pp -> proc_complete join p = Ok res ->
  forall e, pproc_complete A aalt acat pp = Some e ->
  match e with
  | None => res = []
  | Some e1 => exists t, res = [t] /\ Rline t e1 /\ m_assemble_input t = None /\ m_assemble_output t = None
  end.
Proof.
  intros HR H e He. destruct p as [a|ev ls]; destruct pp as [pa|ev' ws]; cbn [Rproc] in HR; try (now destruct HR).
  - cbn [proc_complete] in H. cbn [pproc_complete] in He. injection He as <-.
    pose proof (asm_complete_rel _ _ _ HR H) as Hc.
    destruct (pasm_complete A aalt acat pa) as [x|]; auto.
    destruct Hc as (t & -> & Hd & Hne & Hi & Ho). exists t. repeat split; auto.
  - destruct HR as [<- H0]. cbn [proc_complete] in H. cbn [pproc_complete] in He.
    destruct ws as [|w ws]; [discriminate|]. injection He as <-.
    destruct (join ls) as [r|] eqn:Ej; [|discriminate]. injection H as <-.
    assert (Hls : ls <> []) by (inversion H0; discriminate).
    destruct (H_join_shape _ _ Ej Hls) as (Hne & Hi & Ho).
    exists r. split; [reflexivity|]. split; [|split; auto]. split; [exact Hne|]. split; [|discriminate].
    cbn [snd]. eapply H_join; eauto.
    clear -H0. induction H0 as [|l w0 ls ws0 [_ Hd] _ IH]; constructor; auto.
Qed.

Lemma proc_receive_rel p pp st ps res e p' st' :
  Rproc p pp -> Rstash st ps ->
  match e with
  | None => res = []
  | Some e1 => exists t, res = [t] /\ Rline t e1 /\ m_assemble_input t = None /\ m_assemble_output t = None
  end ->
  proc_consume join p st res = Ok (p', st') ->
  forall pp', pproc_receive A pp e = Some pp' -> Rproc p' pp' /\ Rstash st' ps.
Proof.
  intros HR HS He H pp' Hp. destruct e as [[sq x]|].
  - destruct He as (t & -> & HRl & Hi & Ho). cbn [proc_consume] in H.
    destruct pp as [pa|ev' ws]; [|discriminate]. injection Hp as <-.
    destruct p as [a|ev ls]; cbn [Rproc] in HR; [|now destruct HR].
    cbn [proc_process_line] in H. unfold asm_process_line in H. rewrite Hi, Ho in H. cbn [bind] in H.
    injection H as <- <-. split; auto. cbn [Rproc]. destruct HR as [HL HO]. split; cbn; auto.
    apply Forall2_app; auto.
  - subst res. cbn [proc_consume] in H. injection H as <- <-. injection Hp as <-. auto.
Qed.

(* ---------- one line of the operator's loop ---------- *)
Definition Rstack := Forall2 Rproc.

Lemma start_rel stack pstack name arg stack' :
  Rstack stack pstack -> start_preprocessor cfg stack name arg = Ok stack' ->
  forall pstack', pstart A cfg pstack name arg = Some pstack' -> Rstack stack' pstack'.
Proof.
  intros HR H pstack' Hp. unfold start_preprocessor in H. unfold pstart in Hp.
  destruct (str_eqb name $"assemble").
  - injection H as <-. injection Hp as <-. constructor; auto. cbn. split; cbn; constructor.
  - destruct (str_eqb name $"cmdline"); [|discriminate].
    destruct (cmdtype_of arg) as [t|]; [|discriminate].
    injection H as <-. injection Hp as <-. constructor; auto. cbn. split; auto.
Qed.

Lemma step_rel stack pstack st ps line stack' st' :
  Rstack stack pstack -> Rstash st ps ->
  (m_processor_start line = None -> m_block_end line = false -> line_ok pstack line) ->
  step_line join cfg (stack, st) line = Ok (stack', st') ->
  forall pstack' ps', pstep (pstack, ps) line = Some (pstack', ps') ->
  Rstack stack' pstack' /\ Rstash st' ps'.
Proof.
  intros HR HS Hok H pstack' ps' Hp. unfold step_line in H. unfold PlainReading.pstep in Hp.
  destruct (m_processor_start line) as [[name arg]|] eqn:Es.
  - destruct (start_preprocessor cfg stack name arg) as [s1| |] eqn:E1; cbn [bind] in H; try discriminate.
    destruct (pstart A cfg pstack name arg) as [s2|] eqn:E2; [|discriminate].
    injection H as <- <-. injection Hp as <- <-. split; auto. eapply start_rel; eauto.
  - destruct (m_block_end line) eqn:Ee.
    + destruct HR as [|p pp stack pstack HRp HRrest]; [discriminate|].
      destruct HRrest as [|parent pparent rest prest HRpar HRrest]; [discriminate|].
      destruct (proc_complete join p) as [res| |] eqn:Ec; cbn [bind] in H; try discriminate.
      destruct (pproc_complete A aalt acat pp) as [e|] eqn:Epc; [|discriminate].
      destruct (proc_consume join parent st res) as [[parent1 st1]| |] eqn:Econs; cbn [bind] in H; try discriminate.
      destruct (pproc_receive A pparent e) as [pparent1|] eqn:Epr; [|discriminate].
      injection H as <- <-. injection Hp as <- <-.
      pose proof (proc_complete_rel _ _ _ HRp Ec _ Epc) as Hres.
      destruct (proc_receive_rel _ _ _ _ _ _ _ _ HRpar HS Hres Econs _ Epr) as [H1 H2].
      split; auto. constructor; auto.
    + destruct HR as [|p pp stack pstack HRp HRrest]; [discriminate|].
      destruct (proc_process_line join p st line) as [[p1 st1]| |] eqn:Epl; cbn [bind] in H; try discriminate.
      destruct (pproc_line A aalt acat den_line den_word seq_level pp ps line) as [[pp1 ps1]|] eqn:Epp; [|discriminate].
      injection H as <- <-. injection Hp as <- <-.
      assert (Hok1 : line_ok [pp] line).
      { specialize (Hok eq_refl eq_refl). unfold line_ok in *. destruct pp; exact Hok. }
      destruct (proc_line_rel _ _ _ _ _ _ _ HRp HS Hok1 Epl _ _ Epp) as [H1 H2].
      split; auto. constructor; auto.
Qed.

(* ---------- the whole loop ---------- *)
Lemma run_rel lines : forall stack pstack st ps stack' st',
  Rstack stack pstack -> Rstash st ps -> lines_ok (pstack, ps) lines ->
  run_lines join cfg (stack, st) lines = Ok (stack', st') ->
  forall pstack' ps', prun (pstack, ps) lines = Some (pstack', ps') ->
  Rstack stack' pstack' /\ Rstash st' ps'.
Proof.
  induction lines as [|l ls IH]; intros stack pstack st ps stack' st' HR HS Hok H pstack' ps' Hp.
  - cbn in H, Hp. injection H as <- <-. injection Hp as <- <-. auto.
  - cbn [run_lines] in H. cbn [PlainReading.prun] in Hp. cbn [lines_ok] in Hok. destruct Hok as [Hl Hrest].
    destruct (step_line join cfg (stack, st) l) as [[stack1 st1]| |] eqn:Es; cbn [bind] in H; try discriminate.
    destruct (pstep (pstack, ps) l) as [[pstack1 ps1]|] eqn:Ep; [|discriminate].
    destruct (step_rel _ _ _ _ _ _ _ HR HS Hl Es _ _ Ep) as [H1 H2].
    eapply IH; eauto.
Qed.

(* ---------- C01, the body of the file ----------
   Whenever the plain reading of the lines is defined and says the file means x, and the
   operator's loop and final pass succeed, the text handed to the simplification step is a
   sequence-level text meaning x (the alternation of the single block the file is). *)
Theorem body_text_denotes_plain_reading lines top rest st ls text x :
  lines_ok ([PPAsm A (pasm_new A)], []) lines ->
  plain_body A aalt acat den_line den_word seq_level cfg lines = Some (Some x) ->
  run_lines join cfg ([PAsm asm_new], []) lines = Ok (top :: rest, st) ->
  proc_complete join top = Ok ls ->
  run_final_pass join st ls = Ok text ->
  rest = [] /\ text <> [] /\ DenSeq text x.
Proof.
  intros Hok Hplain Hrun Hc Hf. unfold plain_body in Hplain.
  destruct (prun ([PPAsm A (pasm_new A)], []) lines) as [[pstack ps]|] eqn:Ep; [|discriminate].
  assert (HR0 : Rstack [PAsm asm_new] [PPAsm A (pasm_new A)]).
  { constructor; [|constructor]. cbn. split; cbn; constructor. }
  assert (HS0 : Rstash [] []) by constructor.
  destruct (run_rel _ _ _ _ _ _ _ HR0 HS0 Hok Hrun _ _ Ep) as [HR HS].
  destruct pstack as [|[pa|ev ws] [|q pstack]]; try discriminate. injection Hplain as Hx.
  inversion HR as [|? ? ? ? HRtop HRrest]; subst. inversion HRrest; subst. split; [reflexivity|].
  assert (Hpc : pproc_complete A aalt acat (PPAsm A pa) = Some (Some (true, x))).
  { cbn. now rewrite Hx. }
  destruct (proc_complete_rel _ _ _ HRtop Hc _ Hpc) as (t & -> & (Hne & Hd & Hs) & Hi & Ho).
  unfold run_final_pass in Hf. cbn [proc_consume proc_process_line] in Hf.
  unfold asm_process_line in Hf. rewrite Hi, Ho in Hf. cbn [bind fst asm_new a_lines a_output app] in Hf.
  unfold asm_complete in Hf. cbn [a_lines a_output run_assemble] in Hf.
  destruct (join [t]) as [r|] eqn:Ej; [|discriminate]. cbn [bind wrap_completed grp] in Hf.
  cbn in Hf. injection Hf as <-. rewrite app_nil_r. split; [discriminate|].
  change (DenSeq (grp (grp r)) x). apply H_grp, H_sub, H_grp. apply H_alt1. eapply H_join; [exact Ej| |discriminate].
  constructor; [exact Hd|constructor].
Qed.

(* ---------- prefixes and suffixes (##!^ / ##!$ lines) ----------
   The operator pastes the prefix texts before and the suffix texts after the body text; the
   body text is grouped when both are present.  Prefix and suffix texts are pasted raw, so
   they are asked to be sequence-level. *)

Lemma suffixes_denote ls xs : Forall2 DenSeq ls xs ->
  match cat_opt xs with None => concat ls = [] | Some s => DenSeq (concat ls) s end.
Proof.
  induction 1 as [|l x ls xs Hd _ IH]; cbn [cat_opt concat]; [reflexivity|].
  destruct (cat_opt xs) as [y|].
  - now apply H_cat.
  - rewrite IH, app_nil_r. exact Hd.
Qed.

Lemma prefixes_denote ls xs t y : Forall2 DenSeq ls xs -> DenSeq t y ->
  DenSeq (concat ls ++ t) (fold_right acat y xs).
Proof.
  induction 1 as [|l x ls xs Hd _ IH]; intro Ht; cbn [concat fold_right app]; [exact Ht|].
  rewrite <- app_assoc. apply H_cat; auto.
Qed.

Theorem pre_simplify_denotes p st ls body x pxs sxs text :
  run_final_pass join st ls = Ok body -> DenSeq body x ->
  Forall2 DenSeq (p_prefixes p) pxs -> Forall2 DenSeq (p_suffixes p) sxs ->
  pre_simplify join p st ls = Ok text ->
  DenSeq text (whole pxs x sxs).
Proof.
  intros Hb Hx HP HS H. unfold pre_simplify in H. rewrite Hb in H. cbn [bind] in H. injection H as <-.
  unfold whole. apply prefixes_denote; [exact HP|].
  pose proof (suffixes_denote _ _ HS) as Hs.
  set (body' := match p_prefixes p, p_suffixes p, body with
                | _ :: _, _ :: _, _ :: _ => grp body
                | _, _, _ => body
                end).
  assert (Hb' : DenSeq body' x).
  { unfold body'. destruct (p_prefixes p), (p_suffixes p), body; try exact Hx. apply H_grp. now apply H_sub. }
  destruct (cat_opt sxs) as [s|].
  - now apply H_cat.
  - rewrite Hs, app_nil_r. exact Hb'.
Qed.

(* ---------- C01 up to the simplification step ----------
   The operator (Assembler.assemble/complete) hands Join a single text; what Join returns
   - the text the final textual passes then rewrite - means the plain reading of the file:
   the concatenation of the prefixes, the body and the suffixes. *)
Theorem simplified_text_denotes_plain_reading limit p st top rest ls x pxs sxs text simplified :
  let lines := scan_lines limit (p_buffer p) in
  lines_ok ([PPAsm A (pasm_new A)], []) lines ->
  plain_body A aalt acat den_line den_word seq_level cfg lines = Some (Some x) ->
  Forall2 DenSeq (p_prefixes p) pxs -> Forall2 DenSeq (p_suffixes p) sxs ->
  run_lines join cfg ([PAsm asm_new], []) lines = Ok (top :: rest, st) ->
  proc_complete join top = Ok ls ->
  pre_simplify join p st ls = Ok text ->
  join [text] = Some simplified ->
  Den simplified (whole pxs x sxs).
Proof.
  intros lines Hok Hplain HP HS Hrun Hc Hpre Hj.
  destruct (run_final_pass join st ls) as [body| |] eqn:Eb;
    try (unfold pre_simplify in Hpre; rewrite Eb in Hpre; discriminate).
  destruct (body_text_denotes_plain_reading _ _ _ _ _ _ _ Hok Hplain Hrun Hc Eb) as (_ & _ & Hx).
  pose proof (pre_simplify_denotes _ _ _ _ _ _ _ _ Eb Hx HP HS Hpre) as Ht.
  apply H_alt1. eapply H_join; [exact Hj| |discriminate]. constructor; [now apply H_sub|constructor].
Qed.

Lemma pre_simplify_nonempty p st ls body text :
  run_final_pass join st ls = Ok body -> body <> [] -> pre_simplify join p st ls = Ok text -> text <> [].
Proof.
  intros Hb Hne H. unfold pre_simplify in H. rewrite Hb in H. cbn [bind] in H. injection H as <-.
  apply app_nonempty_r, app_nonempty_l.
  destruct (p_prefixes p), (p_suffixes p), body; try exact Hne; try congruence. apply grp_nonempty.
Qed.

(* the same, stated on the operator's entry point: its result is the flag group followed by
   the final textual passes applied to a text that means the plain reading *)
Theorem assemble_is_passes_of_plain_reading limit init p x pxs sxs out :
  let lines := scan_lines limit (p_buffer p) in
  lines_ok ([PPAsm A (pasm_new A)], []) lines ->
  plain_body A aalt acat den_line den_word seq_level cfg lines = Some (Some x) ->
  Forall2 DenSeq (p_prefixes p) pxs -> Forall2 DenSeq (p_suffixes p) sxs ->
  assemble join cfg limit init p = Ok out ->
  exists simplified cleaned,
    Den simplified (whole pxs x sxs) /\
    final_passes simplified = Ok cleaned /\
    out = match cleaned with [] => [] | _ => flags_prefix p ++ cleaned end.
Proof.
  intros lines Hok Hplain HP HS H. unfold assemble in H. fold lines in H.
  destruct (run_lines join cfg ([PAsm asm_new], []) lines) as [[stack st]| |] eqn:Er; cbn [bind] in H; try discriminate.
  destruct stack as [|top rest]; [discriminate|].
  destruct (proc_complete join top) as [ls| |] eqn:Ec; cbn [bind] in H; try discriminate.
  destruct (complete join p st ls) as [o| |] eqn:Eo; cbn [bind] in H; try discriminate.
  unfold complete in Eo.
  destruct (pre_simplify join p st ls) as [text| |] eqn:Ep; cbn [bind] in Eo; try discriminate.
  destruct (run_final_pass join st ls) as [body| |] eqn:Eb;
    try (unfold pre_simplify in Ep; rewrite Eb in Ep; discriminate).
  destruct (body_text_denotes_plain_reading _ _ _ _ _ _ _ Hok Hplain Er Ec Eb) as (-> & Hne & Hx).
  pose proof (pre_simplify_nonempty _ _ _ _ _ Eb Hne Ep) as Htne.
  destruct text as [|c text]; [congruence|].
  match type of Eo with match ?j with _ => _ end = _ => destruct j as [simplified|] eqn:Ej end; [|discriminate Eo].
  destruct (final_passes simplified) as [cleaned| |] eqn:Ef; cbn [bind] in Eo; try discriminate Eo.
  exists simplified, cleaned. split; [|split; [exact Ef|]].
  - eapply simplified_text_denotes_plain_reading; eauto.
  - injection H as <-. destruct cleaned; now injection Eo as <-.
Qed.

End Refinement.
