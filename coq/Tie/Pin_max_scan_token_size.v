(* Pin of a generated definition: written by `vh gen --pin-dir` from the sources at the
   time the models and proofs were written; re-proved by reflexivity against the
   regenerated Gen/*.v on every run. *)
From Verif Require Import Base.Str Gen.Consts.
Open Scope N_scope.

(* bufio.MaxScanTokenSize of the Go toolchain that builds /repo *)
Lemma pinned : Gen.Consts.max_scan_token_size =
  65536.
Proof. reflexivity. Qed.
