(* Pin of a generated definition: written by `vh gen --pin-dir` from the sources at the
   time the models and proofs were written; re-proved by reflexivity against the
   regenerated Gen/*.v on every run. *)
From Verif Require Import Base.Str Gen.Lits.
Open Scope N_scope.

(* regex/operators/assembler.go func Operator_removeOutermostNonCapturingGroup: ^\(\?:.*\)$ | #3 | #1 | #1 | #0 | #3 *)
Lemma pinned : Gen.Lits.lits_regex_operators_assembler_Operator_removeOutermostNonCapturingGroup =
  [[94; 92; 40; 92; 63; 58; 46; 42; 92; 41; 36];
    [35; 51];
    [35; 49];
    [35; 49];
    [35; 48];
    [35; 51]].
Proof. reflexivity. Qed.
