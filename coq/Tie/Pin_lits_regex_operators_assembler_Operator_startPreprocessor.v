(* Pin of a generated definition: written by `vh gen --pin-dir` from the sources at the
   time the models and proofs were written; re-proved by reflexivity against the
   regenerated Gen/*.v on every run. *)
From Verif Require Import Base.Str Gen.Lits.
Open Scope N_scope.

(* regex/operators/assembler.go func Operator_startPreprocessor: assemble | cmdline | #0 *)
Lemma pinned : Gen.Lits.lits_regex_operators_assembler_Operator_startPreprocessor =
  [[97; 115; 115; 101; 109; 98; 108; 101];
    [99; 109; 100; 108; 105; 110; 101];
    [35; 48]].
Proof. reflexivity. Qed.
