(* Pin of a generated definition: written by `vh gen --pin-dir` from the sources at the
   time the models and proofs were written; re-proved by reflexivity against the
   regenerated Gen/*.v on every run. *)
From Verif Require Import Base.Str Gen.Lits.
Open Scope N_scope.

(* regex/operators/assembler.go perlSpaceClass = \t\n\f\r  *)
Lemma pinned : Gen.Lits.const_regex_operators_assembler_perlSpaceClass =
  [92; 116; 92; 110; 92; 102; 92; 114; 32].
Proof. reflexivity. Qed.
