(* Pin of a generated definition: written by `vh gen --pin-dir` from the sources at the
   time the models and proofs were written; re-proved by reflexivity against the
   regenerated Gen/*.v on every run. *)
From Verif Require Import Base.Str Gen.Lits.
Open Scope N_scope.

(* cmd/regex_update.go func createUpdateCommand: #1 | #0 | #0 | #0 | #0 *)
Lemma pinned : Gen.Lits.lits_cmd_regex_update_createUpdateCommand =
  [[35; 49];
    [35; 48];
    [35; 48];
    [35; 48];
    [35; 48]].
Proof. reflexivity. Qed.
