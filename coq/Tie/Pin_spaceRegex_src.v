(* Pin of a generated definition: written by `vh gen --pin-dir` from the sources at the
   time the models and proofs were written; re-proved by reflexivity against the
   regenerated Gen/*.v on every run. *)
From Verif Require Import Base.Str Gen.Patterns.
Open Scope N_scope.

(* regex/parser/parser.go: \s+ *)
Lemma pinned : Gen.Patterns.spaceRegex_src =
  [92; 115; 43].
Proof. reflexivity. Qed.
