(* Pin of a generated definition: written by `vh gen --pin-dir` from the sources at the
   time the models and proofs were written; re-proved by reflexivity against the
   regenerated Gen/*.v on every run. *)
From Verif Require Import Base.Str Gen.Lits.
Open Scope N_scope.

(* regex/processors/assemble.go func Assemble_store: #0 |  *)
Lemma pinned : Gen.Lits.lits_regex_processors_assemble_Assemble_store =
  [[35; 48];
    []].
Proof. reflexivity. Qed.
