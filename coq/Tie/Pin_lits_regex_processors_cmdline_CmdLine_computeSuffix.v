(* Pin of a generated definition: written by `vh gen --pin-dir` from the sources at the
   time the models and proofs were written; re-proved by reflexivity against the
   regenerated Gen/*.v on every run. *)
From Verif Require Import Base.Str Gen.Lits.
Open Scope N_scope.

(* regex/processors/cmdline.go func CmdLine_computeSuffix:  | #2 | #1 | #1 | #'@' | #'~' | #1 | #2 | #1 *)
Lemma pinned : Gen.Lits.lits_regex_processors_cmdline_CmdLine_computeSuffix =
  [[];
    [35; 50];
    [35; 49];
    [35; 49];
    [35; 39; 64; 39];
    [35; 39; 126; 39];
    [35; 49];
    [35; 50];
    [35; 49]].
Proof. reflexivity. Qed.
