(* Pin of a generated definition: written by `vh gen --pin-dir` from the sources at the
   time the models and proofs were written; re-proved by reflexivity against the
   regenerated Gen/*.v on every run. *)
From Verif Require Import Base.Str Gen.Consts.
Open Scope N_scope.

(* regex/operators/assembler.go func Operator.complete, calls on the receiver in order: runFinalPass runSimplificationAssembly useHexEscapes escapeDoublequotes useHexBackslashes includeVerticalTabInSpaceClass dontUseFlagsForMetaCharacters removeOutermostNonCapturingGroup *)
Lemma pinned : Gen.Consts.calls_regex_operators_assembler_Operator_complete =
  [[114; 117; 110; 70; 105; 110; 97; 108; 80; 97; 115; 115];
    [114; 117; 110; 83; 105; 109; 112; 108; 105; 102; 105; 99; 97; 116; 105; 111; 110; 65; 115; 115; 101; 109; 98; 108; 121];
    [117; 115; 101; 72; 101; 120; 69; 115; 99; 97; 112; 101; 115];
    [101; 115; 99; 97; 112; 101; 68; 111; 117; 98; 108; 101; 113; 117; 111; 116; 101; 115];
    [117; 115; 101; 72; 101; 120; 66; 97; 99; 107; 115; 108; 97; 115; 104; 101; 115];
    [105; 110; 99; 108; 117; 100; 101; 86; 101; 114; 116; 105; 99; 97; 108; 84; 97; 98; 73; 110; 83; 112; 97; 99; 101; 67; 108; 97; 115; 115];
    [100; 111; 110; 116; 85; 115; 101; 70; 108; 97; 103; 115; 70; 111; 114; 77; 101; 116; 97; 67; 104; 97; 114; 97; 99; 116; 101; 114; 115];
    [114; 101; 109; 111; 118; 101; 79; 117; 116; 101; 114; 109; 111; 115; 116; 78; 111; 110; 67; 97; 112; 116; 117; 114; 105; 110; 103; 71; 114; 111; 117; 112]].
Proof. reflexivity. Qed.
