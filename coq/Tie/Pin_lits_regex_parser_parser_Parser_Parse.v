(* Pin of a generated definition: written by `vh gen --pin-dir` from the sources at the
   time the models and proofs were written; re-proved by reflexivity against the
   regenerated Gen/*.v on every run. *)
From Verif Require Import Base.Str Gen.Lits.
Open Scope N_scope.

(* regex/parser/parser.go func Parser_Parse: #0 |  	 |  | \n | \n |  | #0 *)
Lemma pinned : Gen.Lits.lits_regex_parser_parser_Parser_Parse =
  [[35; 48];
    [32; 9];
    [];
    [10];
    [10];
    [];
    [35; 48]].
Proof. reflexivity. Qed.
