(* Pin of a generated definition: written by `vh gen --pin-dir` from the sources at the
   time the models and proofs were written; re-proved by reflexivity against the
   regenerated Gen/*.v on every run. *)
From Verif Require Import Base.Str Gen.Patterns.
Open Scope N_scope.

(* regex/definitions.go: ^(##!>\s*define\s+([a-zA-Z0-9-_]+)\s+)(\S+)\s*$ *)
Lemma pinned : Gen.Patterns.DefinitionRegex_src =
  [94; 40; 35; 35; 33; 62; 92; 115; 42; 100; 101; 102; 105; 110; 101; 92; 115; 43; 40; 91; 97; 45; 122; 65; 45; 90; 48; 45; 57; 45; 95; 93; 43; 41; 92; 115; 43; 41; 40; 92; 83; 43; 41; 92; 115; 42; 36].
Proof. reflexivity. Qed.
