(* Pin of a generated definition: written by `vh gen --pin-dir` from the sources at the
   time the models and proofs were written; re-proved by reflexivity against the
   regenerated Gen/*.v on every run. *)
From Verif Require Import Base.Str Gen.Lits.
Open Scope N_scope.

(* regex/parser/parser.go func parseFile: .ra | .ra *)
Lemma pinned : Gen.Lits.lits_regex_parser_parser_parseFile =
  [[46; 114; 97];
    [46; 114; 97]].
Proof. reflexivity. Qed.
