(* Pin of a generated definition: written by `vh gen --pin-dir` from the sources at the
   time the models and proofs were written; re-proved by reflexivity against the
   regenerated Gen/*.v on every run. *)
From Verif Require Import Base.Str Gen.Patterns.
Open Scope N_scope.

(* regex/definitions.go: ^(# OWASP (ModSecurity Core Rule Set|CRS) ver\.)(.+)$ *)
Lemma pinned : Gen.Patterns.CRSVersionRegex_src =
  [94; 40; 35; 32; 79; 87; 65; 83; 80; 32; 40; 77; 111; 100; 83; 101; 99; 117; 114; 105; 116; 121; 32; 67; 111; 114; 101; 32; 82; 117; 108; 101; 32; 83; 101; 116; 124; 67; 82; 83; 41; 32; 118; 101; 114; 92; 46; 41; 40; 46; 43; 41; 36].
Proof. reflexivity. Qed.
