(* Pin of a generated definition: written by `vh gen --pin-dir` from the sources at the
   time the models and proofs were written; re-proved by reflexivity against the
   regenerated Gen/*.v on every run. *)
From Verif Require Import Base.Str Gen.Lits.
Open Scope N_scope.

(* regex/parser/parser.go func Parser_parseLine: #0 | #0 | #1 | #2 | #1 | #3 | #2 | #2 | #3 | #1 | #1 | #1 *)
Lemma pinned : Gen.Lits.lits_regex_parser_parser_Parser_parseLine =
  [[35; 48];
    [35; 48];
    [35; 49];
    [35; 50];
    [35; 49];
    [35; 51];
    [35; 50];
    [35; 50];
    [35; 51];
    [35; 49];
    [35; 49];
    [35; 49]].
Proof. reflexivity. Qed.
