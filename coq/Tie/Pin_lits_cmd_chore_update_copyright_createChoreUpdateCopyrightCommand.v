(* Pin of a generated definition: written by `vh gen --pin-dir` from the sources at the
   time the models and proofs were written; re-proved by reflexivity against the
   regenerated Gen/*.v on every run. *)
From Verif Require Import Base.Str Gen.Lits.
Open Scope N_scope.

(* cmd/chore_update_copyright.go func createChoreUpdateCopyrightCommand:  *)
Lemma pinned : Gen.Lits.lits_cmd_chore_update_copyright_createChoreUpdateCopyrightCommand =
  [[]].
Proof. reflexivity. Qed.
