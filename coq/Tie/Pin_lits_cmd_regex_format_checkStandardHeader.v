(* Pin of a generated definition: written by `vh gen --pin-dir` from the sources at the
   time the models and proofs were written; re-proved by reflexivity against the
   regenerated Gen/*.v on every run. *)
From Verif Require Import Base.Str Gen.Lits.
Open Scope N_scope.

(* cmd/regex_format.go func checkStandardHeader: #3 | %s\n%s\n%s | #0 | #1 | #2 *)
Lemma pinned : Gen.Lits.lits_cmd_regex_format_checkStandardHeader =
  [[35; 51];
    [37; 115; 10; 37; 115; 10; 37; 115];
    [35; 48];
    [35; 49];
    [35; 50]].
Proof. reflexivity. Qed.
