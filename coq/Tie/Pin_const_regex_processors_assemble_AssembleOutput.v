(* Pin of a generated definition: written by `vh gen --pin-dir` from the sources at the
   time the models and proofs were written; re-proved by reflexivity against the
   regenerated Gen/*.v on every run. *)
From Verif Require Import Base.Str Gen.Lits.
Open Scope N_scope.

(* regex/processors/assemble.go AssembleOutput = ^\s*##!=>\s*(.* )$ *)
Lemma pinned : Gen.Lits.const_regex_processors_assemble_AssembleOutput =
  [94; 92; 115; 42; 35; 35; 33; 61; 62; 92; 115; 42; 40; 46; 42; 41; 36].
Proof. reflexivity. Qed.
