(* Pin of a generated definition: written by `vh gen --pin-dir` from the sources at the
   time the models and proofs were written; re-proved by reflexivity against the
   regenerated Gen/*.v on every run. *)
From Verif Require Import Base.Str Gen.Lits.
Open Scope N_scope.

(* context/context.go func NewWithConfiguration: /rules | /regex-assembly | /regex-assembly/include | /regex-assembly/exclude | /tests/regression/tests *)
Lemma pinned : Gen.Lits.lits_context_context_NewWithConfiguration =
  [[47; 114; 117; 108; 101; 115];
    [47; 114; 101; 103; 101; 120; 45; 97; 115; 115; 101; 109; 98; 108; 121];
    [47; 114; 101; 103; 101; 120; 45; 97; 115; 115; 101; 109; 98; 108; 121; 47; 105; 110; 99; 108; 117; 100; 101];
    [47; 114; 101; 103; 101; 120; 45; 97; 115; 115; 101; 109; 98; 108; 121; 47; 101; 120; 99; 108; 117; 100; 101];
    [47; 116; 101; 115; 116; 115; 47; 114; 101; 103; 114; 101; 115; 115; 105; 111; 110; 47; 116; 101; 115; 116; 115]].
Proof. reflexivity. Qed.
