(* Pin of a generated definition: written by `vh gen --pin-dir` from the sources at the
   time the models and proofs were written; re-proved by reflexivity against the
   regenerated Gen/*.v on every run. *)
From Verif Require Import Base.Str Gen.Lits.
Open Scope N_scope.

(* regex/parser/include_except_builder.go func inclusionLineSlice_Len:  *)
Lemma pinned : Gen.Lits.lits_regex_parser_include_except_builder_inclusionLineSlice_Len =
  [].
Proof. reflexivity. Qed.
