(* Pin of a generated definition: written by `vh gen --pin-dir` from the sources at the
   time the models and proofs were written; re-proved by reflexivity against the
   regenerated Gen/*.v on every run. *)
From Verif Require Import Base.Str Gen.Patterns.
Open Scope N_scope.

(* regex/definitions.go: ^##!>\s*include\s+(\S+)(?:\s*--\s*(.*?))?\s*$ *)
Lemma pinned : Gen.Patterns.IncludeRegex_src =
  [94; 35; 35; 33; 62; 92; 115; 42; 105; 110; 99; 108; 117; 100; 101; 92; 115; 43; 40; 92; 83; 43; 41; 40; 63; 58; 92; 115; 42; 45; 45; 92; 115; 42; 40; 46; 42; 63; 41; 41; 63; 92; 115; 42; 36].
Proof. reflexivity. Qed.
