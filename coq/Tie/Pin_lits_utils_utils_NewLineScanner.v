(* Pin of a generated definition: written by `vh gen --pin-dir` from the sources at the
   time the models and proofs were written; re-proved by reflexivity against the
   regenerated Gen/*.v on every run. *)
From Verif Require Import Base.Str Gen.Lits.
Open Scope N_scope.

(* utils/utils.go func NewLineScanner:  *)
Lemma pinned : Gen.Lits.lits_utils_utils_NewLineScanner =
  [].
Proof. reflexivity. Qed.
