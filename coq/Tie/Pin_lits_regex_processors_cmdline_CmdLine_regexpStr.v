(* Pin of a generated definition: written by `vh gen --pin-dir` from the sources at the
   time the models and proofs were written; re-proved by reflexivity against the
   regenerated Gen/*.v on every run. *)
From Verif Require Import Base.Str Gen.Lits.
Open Scope N_scope.

(* regex/processors/cmdline.go func CmdLine_regexpStr: ' | #0 | #1 | #0 | #0 *)
Lemma pinned : Gen.Lits.lits_regex_processors_cmdline_CmdLine_regexpStr =
  [[39];
    [35; 48];
    [35; 49];
    [35; 48];
    [35; 48]].
Proof. reflexivity. Qed.
