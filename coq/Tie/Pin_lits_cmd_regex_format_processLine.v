(* Pin of a generated definition: written by `vh gen --pin-dir` from the sources at the
   time the models and proofs were written; re-proved by reflexivity against the
   regenerated Gen/*.v on every run. *)
From Verif Require Import Base.Str Gen.Lits.
Open Scope N_scope.

(* cmd/regex_format.go func processLine:  	 | #0 | ##!> %s | #1 | #2 | #0 |   | #2 | #1 | #0 | #0 | #1 | ##!+ %s | #1 | #0 | ##!^ %s | #1 | #0 | ##!$ %s | #1 | #0 | ##!> define %s %s | #2 | #3 | ##!> include %s | #1 | #2 | #0 |  -- %s | #2 | ##!> include-except %s %s | #1 | #2 | #3 | #0 |  -- %s | #3 |   | #2 *)
Lemma pinned : Gen.Lits.lits_cmd_regex_format_processLine =
  [[32; 9];
    [35; 48];
    [35; 35; 33; 62; 32; 37; 115];
    [35; 49];
    [35; 50];
    [35; 48];
    [32];
    [35; 50];
    [35; 49];
    [35; 48];
    [35; 48];
    [35; 49];
    [35; 35; 33; 43; 32; 37; 115];
    [35; 49];
    [35; 48];
    [35; 35; 33; 94; 32; 37; 115];
    [35; 49];
    [35; 48];
    [35; 35; 33; 36; 32; 37; 115];
    [35; 49];
    [35; 48];
    [35; 35; 33; 62; 32; 100; 101; 102; 105; 110; 101; 32; 37; 115; 32; 37; 115];
    [35; 50];
    [35; 51];
    [35; 35; 33; 62; 32; 105; 110; 99; 108; 117; 100; 101; 32; 37; 115];
    [35; 49];
    [35; 50];
    [35; 48];
    [32; 45; 45; 32; 37; 115];
    [35; 50];
    [35; 35; 33; 62; 32; 105; 110; 99; 108; 117; 100; 101; 45; 101; 120; 99; 101; 112; 116; 32; 37; 115; 32; 37; 115];
    [35; 49];
    [35; 50];
    [35; 51];
    [35; 48];
    [32; 45; 45; 32; 37; 115];
    [35; 51];
    [32];
    [35; 50]].
Proof. reflexivity. Qed.
