(* Pin of a generated definition: written by `vh gen --pin-dir` from the sources at the
   time the models and proofs were written; re-proved by reflexivity against the
   regenerated Gen/*.v on every run. *)
From Verif Require Import Base.Str Gen.Lits.
Open Scope N_scope.

(* regex/operators/assembler.go func Operator_useHexBackslashes: \\ | \x5c *)
Lemma pinned : Gen.Lits.lits_regex_operators_assembler_Operator_useHexBackslashes =
  [[92; 92];
    [92; 120; 53; 99]].
Proof. reflexivity. Qed.
