(* Pin of a generated definition: written by `vh gen --pin-dir` from the sources at the
   time the models and proofs were written; re-proved by reflexivity against the
   regenerated Gen/*.v on every run. *)
From Verif Require Import Base.Str Gen.Lits.
Open Scope N_scope.

(* internal/updater/updater.go func getUpdaterAndLatestVersionFromGitHub: crs-toolchain-checksums.txt | coreruleset/crs-toolchain *)
Lemma pinned : Gen.Lits.lits_internal_updater_updater_getUpdaterAndLatestVersionFromGitHub =
  [[99; 114; 115; 45; 116; 111; 111; 108; 99; 104; 97; 105; 110; 45; 99; 104; 101; 99; 107; 115; 117; 109; 115; 46; 116; 120; 116];
    [99; 111; 114; 101; 114; 117; 108; 101; 115; 101; 116; 47; 99; 114; 115; 45; 116; 111; 111; 108; 99; 104; 97; 105; 110]].
Proof. reflexivity. Qed.
