(* Pin of a generated definition: written by `vh gen --pin-dir` from the sources at the
   time the models and proofs were written; re-proved by reflexivity against the
   regenerated Gen/*.v on every run. *)
From Verif Require Import Base.Str Gen.Lits.
Open Scope N_scope.

(* regex/processors/cmdline.go func CmdLine_regexpChar:  | #'.' | \. | #'-' | \- |   | \s+ *)
Lemma pinned : Gen.Lits.lits_regex_processors_cmdline_CmdLine_regexpChar =
  [[];
    [35; 39; 46; 39];
    [92; 46];
    [35; 39; 45; 39];
    [92; 45];
    [32];
    [92; 115; 43]].
Proof. reflexivity. Qed.
