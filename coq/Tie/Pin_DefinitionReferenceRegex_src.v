(* Pin of a generated definition: written by `vh gen --pin-dir` from the sources at the
   time the models and proofs were written; re-proved by reflexivity against the
   regenerated Gen/*.v on every run. *)
From Verif Require Import Base.Str Gen.Patterns.
Open Scope N_scope.

(* regex/definitions.go: {{([a-zA-Z0-9-_]+)}} *)
Lemma pinned : Gen.Patterns.DefinitionReferenceRegex_src =
  [123; 123; 40; 91; 97; 45; 122; 65; 45; 90; 48; 45; 57; 45; 95; 93; 43; 41; 125; 125].
Proof. reflexivity. Qed.
