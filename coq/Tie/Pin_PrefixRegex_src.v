(* Pin of a generated definition: written by `vh gen --pin-dir` from the sources at the
   time the models and proofs were written; re-proved by reflexivity against the
   regenerated Gen/*.v on every run. *)
From Verif Require Import Base.Str Gen.Patterns.
Open Scope N_scope.

(* regex/definitions.go: ^##!\^\s*(.*\S)\s*$ *)
Lemma pinned : Gen.Patterns.PrefixRegex_src =
  [94; 35; 35; 33; 92; 94; 92; 115; 42; 40; 46; 42; 92; 83; 41; 92; 115; 42; 36].
Proof. reflexivity. Qed.
