(* Pin of a generated definition: written by `vh gen --pin-dir` from the sources at the
   time the models and proofs were written; re-proved by reflexivity against the
   regenerated Gen/*.v on every run. *)
From Verif Require Import Base.Str Gen.Lits.
Open Scope N_scope.

(* context/context.go func New: /regex-assembly *)
Lemma pinned : Gen.Lits.lits_context_context_New =
  [[47; 114; 101; 103; 101; 120; 45; 97; 115; 115; 101; 109; 98; 108; 121]].
Proof. reflexivity. Qed.
