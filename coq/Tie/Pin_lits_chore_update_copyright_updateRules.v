(* Pin of a generated definition: written by `vh gen --pin-dir` from the sources at the
   time the models and proofs were written; re-proved by reflexivity against the
   regenerated Gen/*.v on every run. *)
From Verif Require Import Base.Str Gen.Lits.
Open Scope N_scope.

(* chore/update_copyright.go func updateRules: ${1}%s | \d+ | #1 |  | ${1}%s | ${1}%s${3} | ${1}%s | ${1}%s | #'\n' *)
Lemma pinned : Gen.Lits.lits_chore_update_copyright_updateRules =
  [[36; 123; 49; 125; 37; 115];
    [92; 100; 43];
    [35; 49];
    [];
    [36; 123; 49; 125; 37; 115];
    [36; 123; 49; 125; 37; 115; 36; 123; 51; 125];
    [36; 123; 49; 125; 37; 115];
    [36; 123; 49; 125; 37; 115];
    [35; 39; 92; 110; 39]].
Proof. reflexivity. Qed.
