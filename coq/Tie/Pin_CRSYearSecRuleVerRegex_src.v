(* Pin of a generated definition: written by `vh gen --pin-dir` from the sources at the
   time the models and proofs were written; re-proved by reflexivity against the
   regenerated Gen/*.v on every run. *)
From Verif Require Import Base.Str Gen.Patterns.
Open Scope N_scope.

(* regex/definitions.go: (ver:'OWASP_CRS/)(\d+\.\d+\.\d+(-[a-z0-9-]+)?) *)
Lemma pinned : Gen.Patterns.CRSYearSecRuleVerRegex_src =
  [40; 118; 101; 114; 58; 39; 79; 87; 65; 83; 80; 95; 67; 82; 83; 47; 41; 40; 92; 100; 43; 92; 46; 92; 100; 43; 92; 46; 92; 100; 43; 40; 45; 91; 97; 45; 122; 48; 45; 57; 45; 93; 43; 41; 63; 41].
Proof. reflexivity. Qed.
