(* Pin of a generated definition: written by `vh gen --pin-dir` from the sources at the
   time the models and proofs were written; re-proved by reflexivity against the
   regenerated Gen/*.v on every run. *)
From Verif Require Import Base.Str Gen.Lits.
Open Scope N_scope.

(* cmd/regex.go func parseRuleId: #1 | #0 | #0 | #0 | #1 | #0 | #2 | #10 | #8 | #0 | .ra | .ra *)
Lemma pinned : Gen.Lits.lits_cmd_regex_parseRuleId =
  [[35; 49];
    [35; 48];
    [35; 48];
    [35; 48];
    [35; 49];
    [35; 48];
    [35; 50];
    [35; 49; 48];
    [35; 56];
    [35; 48];
    [46; 114; 97];
    [46; 114; 97]].
Proof. reflexivity. Qed.
