(* Pin of a generated definition: written by `vh gen --pin-dir` from the sources at the
   time the models and proofs were written; re-proved by reflexivity against the
   regenerated Gen/*.v on every run. *)
From Verif Require Import Base.Str Gen.Patterns.
Open Scope N_scope.

(* regex/definitions.go: ^##!>\s*(assemble|cmdline)\s*(\S+)? *)
Lemma pinned : Gen.Patterns.ProcessorBlockStartRegex_src =
  [94; 35; 35; 33; 62; 92; 115; 42; 40; 97; 115; 115; 101; 109; 98; 108; 101; 124; 99; 109; 100; 108; 105; 110; 101; 41; 92; 115; 42; 40; 92; 83; 43; 41; 63].
Proof. reflexivity. Qed.
