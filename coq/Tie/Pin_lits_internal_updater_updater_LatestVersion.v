(* Pin of a generated definition: written by `vh gen --pin-dir` from the sources at the
   time the models and proofs were written; re-proved by reflexivity against the
   regenerated Gen/*.v on every run. *)
From Verif Require Import Base.Str Gen.Lits.
Open Scope N_scope.

(* internal/updater/updater.go func LatestVersion:  *)
Lemma pinned : Gen.Lits.lits_internal_updater_updater_LatestVersion =
  [[]].
Proof. reflexivity. Qed.
