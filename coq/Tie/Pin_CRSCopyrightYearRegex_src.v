(* Pin of a generated definition: written by `vh gen --pin-dir` from the sources at the
   time the models and proofs were written; re-proved by reflexivity against the
   regenerated Gen/*.v on every run. *)
From Verif Require Import Base.Str Gen.Patterns.
Open Scope N_scope.

(* regex/definitions.go: ^(# Copyright \(c\) 2021-)(\d{4})( (Core Rule Set|CRS) project. All rights reserved.)$ *)
Lemma pinned : Gen.Patterns.CRSCopyrightYearRegex_src =
  [94; 40; 35; 32; 67; 111; 112; 121; 114; 105; 103; 104; 116; 32; 92; 40; 99; 92; 41; 32; 50; 48; 50; 49; 45; 41; 40; 92; 100; 123; 52; 125; 41; 40; 32; 40; 67; 111; 114; 101; 32; 82; 117; 108; 101; 32; 83; 101; 116; 124; 67; 82; 83; 41; 32; 112; 114; 111; 106; 101; 99; 116; 46; 32; 65; 108; 108; 32; 114; 105; 103; 104; 116; 115; 32; 114; 101; 115; 101; 114; 118; 101; 100; 46; 41; 36].
Proof. reflexivity. Qed.
