(* Pin of a generated definition: written by `vh gen --pin-dir` from the sources at the
   time the models and proofs were written; re-proved by reflexivity against the
   regenerated Gen/*.v on every run. *)
From Verif Require Import Base.Str Gen.Consts.
Open Scope N_scope.

(* cmd/regex_format.go processFile: utils.NewLineScanner *)
Lemma pinned : Gen.Consts.scan_limit_format_process_file =
  9223372036854775807.
Proof. reflexivity. Qed.
