(* Pin of a generated definition: written by `vh gen --pin-dir` from the sources at the
   time the models and proofs were written; re-proved by reflexivity against the
   regenerated Gen/*.v on every run. *)
From Verif Require Import Base.Str Gen.Consts.
Open Scope N_scope.

(* regex/operators/assembler.go assemble: utils.NewLineScanner *)
Lemma pinned : Gen.Consts.scan_limit_assembler_assemble =
  9223372036854775807.
Proof. reflexivity. Qed.
