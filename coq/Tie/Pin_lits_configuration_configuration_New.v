(* Pin of a generated definition: written by `vh gen --pin-dir` from the sources at the
   time the models and proofs were written; re-proved by reflexivity against the
   regenerated Gen/*.v on every run. *)
From Verif Require Import Base.Str Gen.Lits.
Open Scope N_scope.

(* configuration/configuration.go func New:  *)
Lemma pinned : Gen.Lits.lits_configuration_configuration_New =
  [].
Proof. reflexivity. Qed.
