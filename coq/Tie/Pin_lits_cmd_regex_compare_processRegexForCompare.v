(* Pin of a generated definition: written by `vh gen --pin-dir` from the sources at the
   time the models and proofs were written; re-proved by reflexivity against the
   regenerated Gen/*.v on every run. *)
From Verif Require Import Base.Str Gen.Lits.
Open Scope N_scope.

(* cmd/regex_compare.go func processRegexForCompare: #3 | %s/*-%s-* | #1 | #0 *)
Lemma pinned : Gen.Lits.lits_cmd_regex_compare_processRegexForCompare =
  [[35; 51];
    [37; 115; 47; 42; 45; 37; 115; 45; 42];
    [35; 49];
    [35; 48]].
Proof. reflexivity. Qed.
