(* Pin of a generated definition: written by `vh gen --pin-dir` from the sources at the
   time the models and proofs were written; re-proved by reflexivity against the
   regenerated Gen/*.v on every run. *)
From Verif Require Import Base.Str Gen.Lits.
Open Scope N_scope.

(* cmd/regex_format.go func processFile:  | #0 | \n | #'i' | %s not properly formatted *)
Lemma pinned : Gen.Lits.lits_cmd_regex_format_processFile =
  [[];
    [35; 48];
    [10];
    [35; 39; 105; 39];
    [37; 115; 32; 110; 111; 116; 32; 112; 114; 111; 112; 101; 114; 108; 121; 32; 102; 111; 114; 109; 97; 116; 116; 101; 100]].
Proof. reflexivity. Qed.
