(* Pin of a generated definition: written by `vh gen --pin-dir` from the sources at the
   time the models and proofs were written; re-proved by reflexivity against the
   regenerated Gen/*.v on every run. *)
From Verif Require Import Base.Str Gen.Lits.
Open Scope N_scope.

(* regex/parser/parser.go includePatternName = include *)
Lemma pinned : Gen.Lits.const_regex_parser_parser_includePatternName =
  [105; 110; 99; 108; 117; 100; 101].
Proof. reflexivity. Qed.
