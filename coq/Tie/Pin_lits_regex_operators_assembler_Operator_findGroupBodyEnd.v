(* Pin of a generated definition: written by `vh gen --pin-dir` from the sources at the
   time the models and proofs were written; re-proved by reflexivity against the
   regenerated Gen/*.v on every run. *)
From Verif Require Import Base.Str Gen.Lits.
Open Scope N_scope.

(* regex/operators/assembler.go func Operator_findGroupBodyEnd: #1 | #0 | #'(' | #')' | #'|' | #1 | #2 *)
Lemma pinned : Gen.Lits.lits_regex_operators_assembler_Operator_findGroupBodyEnd =
  [[35; 49];
    [35; 48];
    [35; 39; 40; 39];
    [35; 39; 41; 39];
    [35; 39; 124; 39];
    [35; 49];
    [35; 50]].
Proof. reflexivity. Qed.
