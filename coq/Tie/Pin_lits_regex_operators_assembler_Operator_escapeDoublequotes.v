(* Pin of a generated definition: written by `vh gen --pin-dir` from the sources at the
   time the models and proofs were written; re-proved by reflexivity against the
   regenerated Gen/*.v on every run. *)
From Verif Require Import Base.Str Gen.Lits.
Open Scope N_scope.

(* regex/operators/assembler.go func Operator_escapeDoublequotes: #0 | #''' | \' | #0 | #''' | #1 | #'\\' | \' *)
Lemma pinned : Gen.Lits.lits_regex_operators_assembler_Operator_escapeDoublequotes =
  [[35; 48];
    [35; 39; 34; 39];
    [92; 34];
    [35; 48];
    [35; 39; 34; 39];
    [35; 49];
    [35; 39; 92; 92; 39];
    [92; 34]].
Proof. reflexivity. Qed.
