(* Pin of a generated definition: written by `vh gen --pin-dir` from the sources at the
   time the models and proofs were written; re-proved by reflexivity against the
   regenerated Gen/*.v on every run. *)
From Verif Require Import Base.Str Gen.Patterns.
Open Scope N_scope.

(* regex/definitions.go: (.*test_title:)\s+(.*$) *)
Lemma pinned : Gen.Patterns.TestTitleRegex_src =
  [40; 46; 42; 116; 101; 115; 116; 95; 116; 105; 116; 108; 101; 58; 41; 92; 115; 43; 40; 46; 42; 36; 41].
Proof. reflexivity. Qed.
