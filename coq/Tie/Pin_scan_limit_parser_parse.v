(* Pin of a generated definition: written by `vh gen --pin-dir` from the sources at the
   time the models and proofs were written; re-proved by reflexivity against the
   regenerated Gen/*.v on every run. *)
From Verif Require Import Base.Str Gen.Consts.
Open Scope N_scope.

(* regex/parser/parser.go Parse: utils.NewLineScanner *)
Lemma pinned : Gen.Consts.scan_limit_parser_parse =
  9223372036854775807.
Proof. reflexivity. Qed.
