(* Pin of a generated definition: written by `vh gen --pin-dir` from the sources at the
   time the models and proofs were written; re-proved by reflexivity against the
   regenerated Gen/*.v on every run. *)
From Verif Require Import Base.Str Gen.Lits.
Open Scope N_scope.

(* util/renumber_tests.go func TestNumberingError_Error: Tests are not properly numbered *)
Lemma pinned : Gen.Lits.lits_util_renumber_tests_TestNumberingError_Error =
  [[84; 101; 115; 116; 115; 32; 97; 114; 101; 32; 110; 111; 116; 32; 112; 114; 111; 112; 101; 114; 108; 121; 32; 110; 117; 109; 98; 101; 114; 101; 100]].
Proof. reflexivity. Qed.
