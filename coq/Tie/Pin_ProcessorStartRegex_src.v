(* Pin of a generated definition: written by `vh gen --pin-dir` from the sources at the
   time the models and proofs were written; re-proved by reflexivity against the
   regenerated Gen/*.v on every run. *)
From Verif Require Import Base.Str Gen.Patterns.
Open Scope N_scope.

(* regex/definitions.go: ^##!>\s*([a-z]+)(?:\s+([a-z]+))? *)
Lemma pinned : Gen.Patterns.ProcessorStartRegex_src =
  [94; 35; 35; 33; 62; 92; 115; 42; 40; 91; 97; 45; 122; 93; 43; 41; 40; 63; 58; 92; 115; 43; 40; 91; 97; 45; 122; 93; 43; 41; 41; 63].
Proof. reflexivity. Qed.
