(* Pin of a generated definition: written by `vh gen --pin-dir` from the sources at the
   time the models and proofs were written; re-proved by reflexivity against the
   regenerated Gen/*.v on every run. *)
From Verif Require Import Base.Str Gen.Patterns.
Open Scope N_scope.

(* regex/definitions.go: ^(\d{6})(?:-chain(\d+))?(?:\.ra)?$ *)
Lemma pinned : Gen.Patterns.RuleIdFileNameRegex_src =
  [94; 40; 92; 100; 123; 54; 125; 41; 40; 63; 58; 45; 99; 104; 97; 105; 110; 40; 92; 100; 43; 41; 41; 63; 40; 63; 58; 92; 46; 114; 97; 41; 63; 36].
Proof. reflexivity. Qed.
