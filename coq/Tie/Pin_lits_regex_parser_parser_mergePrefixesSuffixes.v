(* Pin of a generated definition: written by `vh gen --pin-dir` from the sources at the
   time the models and proofs were written; re-proved by reflexivity against the
   regenerated Gen/*.v on every run. *)
From Verif Require Import Base.Str Gen.Lits.
Open Scope N_scope.

(* regex/parser/parser.go func mergePrefixesSuffixes: #0 | #0 | #0 | ##!> assemble\n | \n##!=>\n | #13 | \n | #0 | ##!=>\n | \n##!=>\n | ##!<\n *)
Lemma pinned : Gen.Lits.lits_regex_parser_parser_mergePrefixesSuffixes =
  [[35; 48];
    [35; 48];
    [35; 48];
    [35; 35; 33; 62; 32; 97; 115; 115; 101; 109; 98; 108; 101; 10];
    [10; 35; 35; 33; 61; 62; 10];
    [35; 49; 51];
    [10];
    [35; 48];
    [35; 35; 33; 61; 62; 10];
    [10; 35; 35; 33; 61; 62; 10];
    [35; 35; 33; 60; 10]].
Proof. reflexivity. Qed.
