(* Pin of a generated definition: written by `vh gen --pin-dir` from the sources at the
   time the models and proofs were written; re-proved by reflexivity against the
   regenerated Gen/*.v on every run. *)
From Verif Require Import Base.Str Gen.Patterns.
Open Scope N_scope.

(* regex/definitions.go: ^(SecComponentSignature 'OWASP_CRS/)(\d+\.\d+\.\d+(-[a-z0-9-]+)?) *)
Lemma pinned : Gen.Patterns.CRSVersionComponentSignatureRegex_src =
  [94; 40; 83; 101; 99; 67; 111; 109; 112; 111; 110; 101; 110; 116; 83; 105; 103; 110; 97; 116; 117; 114; 101; 32; 34; 79; 87; 65; 83; 80; 95; 67; 82; 83; 47; 41; 40; 92; 100; 43; 92; 46; 92; 100; 43; 92; 46; 92; 100; 43; 40; 45; 91; 97; 45; 122; 48; 45; 57; 45; 93; 43; 41; 63; 41].
Proof. reflexivity. Qed.
