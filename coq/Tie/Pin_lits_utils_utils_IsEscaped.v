(* Pin of a generated definition: written by `vh gen --pin-dir` from the sources at the
   time the models and proofs were written; re-proved by reflexivity against the
   regenerated Gen/*.v on every run. *)
From Verif Require Import Base.Str Gen.Lits.
Open Scope N_scope.

(* utils/utils.go func IsEscaped: #0 | #1 | #0 | #'\\' | #2 | #0 *)
Lemma pinned : Gen.Lits.lits_utils_utils_IsEscaped =
  [[35; 48];
    [35; 49];
    [35; 48];
    [35; 39; 92; 92; 39];
    [35; 50];
    [35; 48]].
Proof. reflexivity. Qed.
