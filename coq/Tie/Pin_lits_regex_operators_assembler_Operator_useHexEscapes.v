(* Pin of a generated definition: written by `vh gen --pin-dir` from the sources at the
   time the models and proofs were written; re-proved by reflexivity against the
   regenerated Gen/*.v on every run. *)
From Verif Require Import Base.Str Gen.Lits.
Open Scope N_scope.

(* regex/operators/assembler.go func Operator_useHexEscapes: #32 | \x%x | #126 | \x{%x} *)
Lemma pinned : Gen.Lits.lits_regex_operators_assembler_Operator_useHexEscapes =
  [[35; 51; 50];
    [92; 120; 37; 120];
    [35; 49; 50; 54];
    [92; 120; 123; 37; 120; 125]].
Proof. reflexivity. Qed.
