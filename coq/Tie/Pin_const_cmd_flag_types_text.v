(* Pin of a generated definition: written by `vh gen --pin-dir` from the sources at the
   time the models and proofs were written; re-proved by reflexivity against the
   regenerated Gen/*.v on every run. *)
From Verif Require Import Base.Str Gen.Lits.
Open Scope N_scope.

(* cmd/flag_types.go text = text *)
Lemma pinned : Gen.Lits.const_cmd_flag_types_text =
  [116; 101; 120; 116].
Proof. reflexivity. Qed.
