(* Pin of a generated definition: written by `vh gen --pin-dir` from the sources at the
   time the models and proofs were written; re-proved by reflexivity against the
   regenerated Gen/*.v on every run. *)
From Verif Require Import Base.Str Gen.Lits.
Open Scope N_scope.

(* cmd/flag_types.go gitHub = github *)
Lemma pinned : Gen.Lits.const_cmd_flag_types_gitHub =
  [103; 105; 116; 104; 117; 98].
Proof. reflexivity. Qed.
