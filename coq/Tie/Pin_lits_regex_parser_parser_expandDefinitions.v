(* Pin of a generated definition: written by `vh gen --pin-dir` from the sources at the
   time the models and proofs were written; re-proved by reflexivity against the
   regenerated Gen/*.v on every run. *)
From Verif Require Import Base.Str Gen.Lits.
Open Scope N_scope.

(* regex/parser/parser.go func expandDefinitions: {{ | }} | {{ | }} *)
Lemma pinned : Gen.Lits.lits_regex_parser_parser_expandDefinitions =
  [[123; 123];
    [125; 125];
    [123; 123];
    [125; 125]].
Proof. reflexivity. Qed.
