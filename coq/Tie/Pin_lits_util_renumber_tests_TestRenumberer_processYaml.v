(* Pin of a generated definition: written by `vh gen --pin-dir` from the sources at the
   time the models and proofs were written; re-proved by reflexivity against the
   regenerated Gen/*.v on every run. *)
From Verif Require Import Base.Str Gen.Lits.
Open Scope N_scope.

(* util/renumber_tests.go func TestRenumberer_processYaml: #0 | #0 | #0 | #1 |   | #1 |   | - | #'\n' | \n | \n *)
Lemma pinned : Gen.Lits.lits_util_renumber_tests_TestRenumberer_processYaml =
  [[35; 48];
    [35; 48];
    [35; 48];
    [35; 49];
    [32];
    [35; 49];
    [32];
    [45];
    [35; 39; 92; 110; 39];
    [10];
    [10]].
Proof. reflexivity. Qed.
