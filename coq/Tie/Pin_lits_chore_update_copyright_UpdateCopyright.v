(* Pin of a generated definition: written by `vh gen --pin-dir` from the sources at the
   time the models and proofs were written; re-proved by reflexivity against the
   regenerated Gen/*.v on every run. *)
From Verif Require Import Base.Str Gen.Lits.
Open Scope N_scope.

(* chore/update_copyright.go func UpdateCopyright: .conf | .example *)
Lemma pinned : Gen.Lits.lits_chore_update_copyright_UpdateCopyright =
  [[46; 99; 111; 110; 102];
    [46; 101; 120; 97; 109; 112; 108; 101]].
Proof. reflexivity. Qed.
