(* Pin of a generated definition: written by `vh gen --pin-dir` from the sources at the
   time the models and proofs were written; re-proved by reflexivity against the
   regenerated Gen/*.v on every run. *)
From Verif Require Import Base.Str Gen.Patterns.
Open Scope N_scope.

(* regex/operators/assembler.go: \\t\\n\\f\\r (?:-[^\]])? *)
Lemma pinned : Gen.Patterns.perlSpaceClassRegexp_src =
  [92; 92; 116; 92; 92; 110; 92; 92; 102; 92; 92; 114; 32; 40; 63; 58; 45; 91; 94; 92; 93; 93; 41; 63].
Proof. reflexivity. Qed.
