(* Pin of a generated definition: written by `vh gen --pin-dir` from the sources at the
   time the models and proofs were written; re-proved by reflexivity against the
   regenerated Gen/*.v on every run. *)
From Verif Require Import Base.Str Gen.Patterns.
Open Scope N_scope.

(* regex/definitions.go: ^\s*##!(?:[^^$+><=]|$) *)
Lemma pinned : Gen.Patterns.CommentRegex_src =
  [94; 92; 115; 42; 35; 35; 33; 40; 63; 58; 91; 94; 94; 36; 43; 62; 60; 61; 93; 124; 36; 41].
Proof. reflexivity. Qed.
