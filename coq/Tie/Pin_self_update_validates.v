(* Pin of a generated definition: written by `vh gen --pin-dir` from the sources at the
   time the models and proofs were written; re-proved by reflexivity against the
   regenerated Gen/*.v on every run. *)
From Verif Require Import Base.Str Gen.Consts.
Open Scope N_scope.

(* internal/updater/updater.go Updater: UpdateTo on the configured updater (validator runs) *)
Lemma pinned : Gen.Consts.self_update_validates =
  true.
Proof. reflexivity. Qed.
