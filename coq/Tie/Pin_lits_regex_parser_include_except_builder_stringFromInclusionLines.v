(* Pin of a generated definition: written by `vh gen --pin-dir` from the sources at the
   time the models and proofs were written; re-proved by reflexivity against the
   regenerated Gen/*.v on every run. *)
From Verif Require Import Base.Str Gen.Lits.
Open Scope N_scope.

(* regex/parser/include_except_builder.go func stringFromInclusionLines: #0 |  | #1 | #0 | \n | #20 | #0 | #1 | \n | \n *)
Lemma pinned : Gen.Lits.lits_regex_parser_include_except_builder_stringFromInclusionLines =
  [[35; 48];
    [];
    [35; 49];
    [35; 48];
    [10];
    [35; 50; 48];
    [35; 48];
    [35; 49];
    [10];
    [10]].
Proof. reflexivity. Qed.
