(* Pin of a generated definition: written by `vh gen --pin-dir` from the sources at the
   time the models and proofs were written; re-proved by reflexivity against the
   regenerated Gen/*.v on every run. *)
From Verif Require Import Base.Str Gen.Lits.
Open Scope N_scope.

(* cmd/regex_format.go func findUppercaseNonEscaped: (?:^|[^\\])\[.+?[^\\]\] | #1 | #1 | #0 | #1 | #0 | #1 | #'A' | #'Z' | #1 *)
Lemma pinned : Gen.Lits.lits_cmd_regex_format_findUppercaseNonEscaped =
  [[40; 63; 58; 94; 124; 91; 94; 92; 92; 93; 41; 92; 91; 46; 43; 63; 91; 94; 92; 92; 93; 92; 93];
    [35; 49];
    [35; 49];
    [35; 48];
    [35; 49];
    [35; 48];
    [35; 49];
    [35; 39; 65; 39];
    [35; 39; 90; 39];
    [35; 49]].
Proof. reflexivity. Qed.
