(* Pin of a generated definition: written by `vh gen --pin-dir` from the sources at the
   time the models and proofs were written; re-proved by reflexivity against the
   regenerated Gen/*.v on every run. *)
From Verif Require Import Base.Str Gen.Lits.
Open Scope N_scope.

(* cmd/flag_types.go func findRootDirectory: regex-assembly | #1 |  *)
Lemma pinned : Gen.Lits.lits_cmd_flag_types_findRootDirectory =
  [[114; 101; 103; 101; 120; 45; 97; 115; 115; 101; 109; 98; 108; 121];
    [35; 49];
    []].
Proof. reflexivity. Qed.
