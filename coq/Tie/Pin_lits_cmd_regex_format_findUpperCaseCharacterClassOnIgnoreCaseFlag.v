(* Pin of a generated definition: written by `vh gen --pin-dir` from the sources at the
   time the models and proofs were written; re-proved by reflexivity against the
   regenerated Gen/*.v on every run. *)
From Verif Require Import Base.Str Gen.Lits.
Open Scope N_scope.

(* cmd/regex_format.go func findUpperCaseCharacterClassOnIgnoreCaseFlag:  | #3 |  | #3 | #0 | = | \n%s\n%s^ [HERE]\n *)
Lemma pinned : Gen.Lits.lits_cmd_regex_format_findUpperCaseCharacterClassOnIgnoreCaseFlag =
  [[];
    [35; 51];
    [];
    [35; 51];
    [35; 48];
    [61];
    [10; 37; 115; 10; 37; 115; 94; 32; 91; 72; 69; 82; 69; 93; 10]].
Proof. reflexivity. Qed.
