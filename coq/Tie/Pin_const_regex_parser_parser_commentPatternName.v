(* Pin of a generated definition: written by `vh gen --pin-dir` from the sources at the
   time the models and proofs were written; re-proved by reflexivity against the
   regenerated Gen/*.v on every run. *)
From Verif Require Import Base.Str Gen.Lits.
Open Scope N_scope.

(* regex/parser/parser.go commentPatternName = comment *)
Lemma pinned : Gen.Lits.const_regex_parser_parser_commentPatternName =
  [99; 111; 109; 109; 101; 110; 116].
Proof. reflexivity. Qed.
