(* Pin of a generated definition: written by `vh gen --pin-dir` from the sources at the
   time the models and proofs were written; re-proved by reflexivity against the
   regenerated Gen/*.v on every run. *)
From Verif Require Import Base.Str Gen.Patterns.
Open Scope N_scope.

(* regex/definitions.go: (setvar:tx.crs_setup_version=)(\d+) *)
Lemma pinned : Gen.Patterns.ShortCRSVersionRegex_src =
  [40; 115; 101; 116; 118; 97; 114; 58; 116; 120; 46; 99; 114; 115; 95; 115; 101; 116; 117; 112; 95; 118; 101; 114; 115; 105; 111; 110; 61; 41; 40; 92; 100; 43; 41].
Proof. reflexivity. Qed.
