(* Pin of a generated definition: written by `vh gen --pin-dir` from the sources at the
   time the models and proofs were written; re-proved by reflexivity against the
   regenerated Gen/*.v on every run. *)
From Verif Require Import Base.Str Gen.Lits.
Open Scope N_scope.

(* regex/parser/include_except_builder.go func replaceSuffixes: ^(?:##!|\s*$) | '' | #'\n' *)
Lemma pinned : Gen.Lits.lits_regex_parser_include_except_builder_replaceSuffixes =
  [[94; 40; 63; 58; 35; 35; 33; 124; 92; 115; 42; 36; 41];
    [34; 34];
    [35; 39; 92; 110; 39]].
Proof. reflexivity. Qed.
