(* Pin of a generated definition: written by `vh gen --pin-dir` from the sources at the
   time the models and proofs were written; re-proved by reflexivity against the
   regenerated Gen/*.v on every run. *)
From Verif Require Import Base.Str Gen.Consts.
Open Scope N_scope.

(* bit size passed to strconv.ParseUint in cmd/regex.go parseRuleId *)
Lemma pinned : Gen.Consts.parse_uint_bits =
  8.
Proof. reflexivity. Qed.
