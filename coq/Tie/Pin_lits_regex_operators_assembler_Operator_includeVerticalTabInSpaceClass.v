(* Pin of a generated definition: written by `vh gen --pin-dir` from the sources at the
   time the models and proofs were written; re-proved by reflexivity against the
   regenerated Gen/*.v on every run. *)
From Verif Require Import Base.Str Gen.Lits.
Open Scope N_scope.

(* regex/operators/assembler.go func Operator_includeVerticalTabInSpaceClass: \t\n\f\r  | \s\x0b *)
Lemma pinned : Gen.Lits.lits_regex_operators_assembler_Operator_includeVerticalTabInSpaceClass =
  [[92; 116; 92; 110; 92; 102; 92; 114; 32];
    [92; 115; 92; 120; 48; 98]].
Proof. reflexivity. Qed.
