(* Pin of a generated definition: written by `vh gen --pin-dir` from the sources at the
   time the models and proofs were written; re-proved by reflexivity against the
   regenerated Gen/*.v on every run. *)
From Verif Require Import Base.Str Gen.Lits.
Open Scope N_scope.

(* regex/processors/cmdline.go func CmdLineTypeFromString: unix | windows *)
Lemma pinned : Gen.Lits.lits_regex_processors_cmdline_CmdLineTypeFromString =
  [[117; 110; 105; 120];
    [119; 105; 110; 100; 111; 119; 115]].
Proof. reflexivity. Qed.
