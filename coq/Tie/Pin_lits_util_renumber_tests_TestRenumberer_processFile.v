(* Pin of a generated definition: written by `vh gen --pin-dir` from the sources at the
   time the models and proofs were written; re-proved by reflexivity against the
   regenerated Gen/*.v on every run. *)
From Verif Require Import Base.Str Gen.Lits.
Open Scope N_scope.

(* util/renumber_tests.go func TestRenumberer_processFile: #1 *)
Lemma pinned : Gen.Lits.lits_util_renumber_tests_TestRenumberer_processFile =
  [[35; 49]].
Proof. reflexivity. Qed.
