(* Pin of a generated definition: written by `vh gen --pin-dir` from the sources at the
   time the models and proofs were written; re-proved by reflexivity against the
   regenerated Gen/*.v on every run. *)
From Verif Require Import Base.Str Gen.Lits.
Open Scope N_scope.

(* context/context.go func Context_RulesDir:  *)
Lemma pinned : Gen.Lits.lits_context_context_Context_RulesDir =
  [].
Proof. reflexivity. Qed.
