(* Pin of a generated definition: written by `vh gen --pin-dir` from the sources at the
   time the models and proofs were written; re-proved by reflexivity against the
   regenerated Gen/*.v on every run. *)
From Verif Require Import Base.Str Gen.Lits.
Open Scope N_scope.

(* regex/processors/assemble.go func Assemble_ProcessLine: #0 | #1 | #0 | #1 |  | Failed to append output with name %s | Failed to append output of previous block *)
Lemma pinned : Gen.Lits.lits_regex_processors_assemble_Assemble_ProcessLine =
  [[35; 48];
    [35; 49];
    [35; 48];
    [35; 49];
    [];
    [70; 97; 105; 108; 101; 100; 32; 116; 111; 32; 97; 112; 112; 101; 110; 100; 32; 111; 117; 116; 112; 117; 116; 32; 119; 105; 116; 104; 32; 110; 97; 109; 101; 32; 37; 115];
    [70; 97; 105; 108; 101; 100; 32; 116; 111; 32; 97; 112; 112; 101; 110; 100; 32; 111; 117; 116; 112; 117; 116; 32; 111; 102; 32; 112; 114; 101; 118; 105; 111; 117; 115; 32; 98; 108; 111; 99; 107]].
Proof. reflexivity. Qed.
