(* Pin of a generated definition: written by `vh gen --pin-dir` from the sources at the
   time the models and proofs were written; re-proved by reflexivity against the
   regenerated Gen/*.v on every run. *)
From Verif Require Import Base.Str Gen.Lits.
Open Scope N_scope.

(* regex/operators/operators.go func NewProcessorStack:  *)
Lemma pinned : Gen.Lits.lits_regex_operators_operators_NewProcessorStack =
  [].
Proof. reflexivity. Qed.
