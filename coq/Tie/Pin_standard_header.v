(* Pin of a generated definition: written by `vh gen --pin-dir` from the sources at the
   time the models and proofs were written; re-proved by reflexivity against the
   regenerated Gen/*.v on every run. *)
From Verif Require Import Base.Str Gen.Consts.
Open Scope N_scope.

(* cmd/regex_format.go regexAssemblyStandardHeader *)
Lemma pinned : Gen.Consts.standard_header =
  [35; 35; 33; 32; 80; 108; 101; 97; 115; 101; 32; 114; 101; 102; 101; 114; 32; 116; 111; 32; 116; 104; 101; 32; 100; 111; 99; 117; 109; 101; 110; 116; 97; 116; 105; 111; 110; 32; 97; 116; 10; 35; 35; 33; 32; 104; 116; 116; 112; 115; 58; 47; 47; 99; 111; 114; 101; 114; 117; 108; 101; 115; 101; 116; 46; 111; 114; 103; 47; 100; 111; 99; 115; 47; 100; 101; 118; 101; 108; 111; 112; 109; 101; 110; 116; 47; 114; 101; 103; 101; 120; 95; 97; 115; 115; 101; 109; 98; 108; 121; 47; 46; 10].
Proof. reflexivity. Qed.
