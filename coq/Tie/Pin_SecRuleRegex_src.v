(* Pin of a generated definition: written by `vh gen --pin-dir` from the sources at the
   time the models and proofs were written; re-proved by reflexivity against the
   regenerated Gen/*.v on every run. *)
From Verif Require Import Base.Str Gen.Patterns.
Open Scope N_scope.

(* regex/definitions.go: \s*SecRule *)
Lemma pinned : Gen.Patterns.SecRuleRegex_src =
  [92; 115; 42; 83; 101; 99; 82; 117; 108; 101].
Proof. reflexivity. Qed.
