(* Pin of a generated definition: written by `vh gen --pin-dir` from the sources at the
   time the models and proofs were written; re-proved by reflexivity against the
   regenerated Gen/*.v on every run. *)
From Verif Require Import Base.Str Gen.Lits.
Open Scope N_scope.

(* cmd/regex_format.go func processAll: .ra *)
Lemma pinned : Gen.Lits.lits_cmd_regex_format_processAll =
  [[46; 114; 97]].
Proof. reflexivity. Qed.
