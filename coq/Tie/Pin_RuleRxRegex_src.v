(* Pin of a generated definition: written by `vh gen --pin-dir` from the sources at the
   time the models and proofs were written; re-proved by reflexivity against the
   regenerated Gen/*.v on every run. *)
From Verif Require Import Base.Str Gen.Patterns.
Open Scope N_scope.

(* regex/definitions.go: (.*'!?@rx )(.* )(' \\) *)
Lemma pinned : Gen.Patterns.RuleRxRegex_src =
  [40; 46; 42; 34; 33; 63; 64; 114; 120; 32; 41; 40; 46; 42; 41; 40; 34; 32; 92; 92; 41].
Proof. reflexivity. Qed.
