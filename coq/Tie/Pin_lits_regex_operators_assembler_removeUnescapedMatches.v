(* Pin of a generated definition: written by `vh gen --pin-dir` from the sources at the
   time the models and proofs were written; re-proved by reflexivity against the
   regenerated Gen/*.v on every run. *)
From Verif Require Import Base.Str Gen.Lits.
Open Scope N_scope.

(* regex/operators/assembler.go func removeUnescapedMatches: #0 | #0 | #0 | #1 | #1 | #1 *)
Lemma pinned : Gen.Lits.lits_regex_operators_assembler_removeUnescapedMatches =
  [[35; 48];
    [35; 48];
    [35; 48];
    [35; 49];
    [35; 49];
    [35; 49]].
Proof. reflexivity. Qed.
