(* Pin of a generated definition: written by `vh gen --pin-dir` from the sources at the
   time the models and proofs were written; re-proved by reflexivity against the
   regenerated Gen/*.v on every run. *)
From Verif Require Import Base.Str Gen.Lits.
Open Scope N_scope.

(* cmd/self_update.go func createSelfUpdateCommand: dev |  |  |  *)
Lemma pinned : Gen.Lits.lits_cmd_self_update_createSelfUpdateCommand =
  [[100; 101; 118];
    [];
    [];
    []].
Proof. reflexivity. Qed.
