(* Pin of a generated definition: written by `vh gen --pin-dir` from the sources at the
   time the models and proofs were written; re-proved by reflexivity against the
   regenerated Gen/*.v on every run. *)
From Verif Require Import Base.Str Gen.Lits.
Open Scope N_scope.

(* cmd/regex_format.go func formatEndOfFile: #1 | #0 |  |  | #0 |  | #1 |  *)
Lemma pinned : Gen.Lits.lits_cmd_regex_format_formatEndOfFile =
  [[35; 49];
    [35; 48];
    [];
    [];
    [35; 48];
    [];
    [35; 49];
    []].
Proof. reflexivity. Qed.
