#!/bin/bash
# usage: goal.sh File.v LINE  -> prints the goals just before LINE (1-based) of the file
f=$1; n=$2
head -n $((n-1)) $f > /tmp/goal_tmp.v
echo "Show. Abort." >> /tmp/goal_tmp.v
cd /verif/coq && timeout 120 coqc -Q . Verif /tmp/goal_tmp.v 2>&1 | tail -${3:-40}
