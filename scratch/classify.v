From Coq Require Import String.
From Verif Require Import Base.Str Base.Outcome Proofs.StrLemmas Model.Patterns Model.ParseLine Proofs.ParserProofs.
Open Scope N_scope.

(* what the head of the line looks like when a pattern claims it *)
Lemma lit_some p s r : lit p s = Some r -> s = p ++ r.
Proof.
  unfold lit. destruct (prefixb p s) eqn:E; [|discriminate]. intro H. injection H as <-.
  apply prefixb_true_iff in E as [r ->]. now rewrite skipn_app_exact.
Qed.

Definition head4 (s : str) : option N := nth_error s 3.
Definition starts_marker (s : str) : Prop := exists r, s = $"##!" ++ r.

Lemma marker_value_head m s v : m_marker_value m s = Some v -> exists r, s = m ++ r.
Proof. unfold m_marker_value. destruct (lit m s) as [r|] eqn:E; [|discriminate]. intros _. exists r. now apply lit_some. Qed.

Lemma include_here_head s r : include_here s = Some r -> exists s1, s = $"##!>" ++ s1 /\ exists s2, skip_ws s1 = $"include" ++ s2 /\ exists c s3, s2 = c :: s3 /\ sp c = true.
Proof.
  unfold include_here. destruct (lit $"##!>" s) as [s1|] eqn:E1; [|discriminate].
  destruct (lit $"include" (skip_ws s1)) as [s2|] eqn:E2; [|discriminate].
  destruct (Nat.eqb (length (skip_ws s2)) (length s2)) eqn:El; [discriminate|]. intros _.
  exists s1. split; [now apply lit_some|]. exists s2. split; [now apply lit_some|].
  destruct s2 as [|c s3]; [discriminate|]. exists c, s3. split; auto.
  unfold skip_ws in El. cbn [drop_while] in El. destruct (sp c) eqn:Ec; auto.
  rewrite Nat.eqb_refl in El. discriminate.
Qed.
