#!/bin/bash
f=$1; n=$2
head -n $((n-1)) $f > /tmp/goal_tmp.v
echo "Show. Abort." >> /tmp/goal_tmp.v
cd /verif/scratch/tmpq && timeout 120 coqc -Q /verif/coq Verif -Q . Verif /tmp/goal_tmp.v 2>&1 | tail -${3:-40}
