(* C07: on tokens, expandDefinitions computes the full substitution for EVERY iteration
   order of its two map loops, provided the definitions are acyclic. *)
From Coq Require Import String.
From Verif Require Import Base.Str Proofs.StrLemmas Model.ParseLine Model.DefsTok.
Open Scope N_scope.

Definition defined (d : tdefs) (n : str) : Prop := tlookup d n <> None.
Definition refs (ts : list tok) (n : str) : Prop := In (R n) ts.

(* acyclic: a rank that strictly decreases along references between defined names *)
Definition ranked (rank : str -> nat) (d : tdefs) : Prop :=
  forall m v n, tlookup d m = Some v -> refs v n -> defined d n -> (rank n < rank m)%nat.

(* ---------- basic facts ---------- *)
Lemma full_app f d a b : full f d (a ++ b) = full f d a ++ full f d b.
Proof. destruct f; cbn [full]; [reflexivity|apply flat_map_app]. Qed.

Lemma full_cons f d t ts : full f d (t :: ts) = full f d [t] ++ full f d ts.
Proof. change (t :: ts) with ([t] ++ ts). apply full_app. Qed.

Lemma subst1_app n v a b : subst1 n v (a ++ b) = subst1 n v a ++ subst1 n v b.
Proof. apply flat_map_app. Qed.

Lemma str_eqb_sym a b : str_eqb a b = str_eqb b a.
Proof.
  destruct (str_eqb a b) eqn:E.
  - apply str_eqb_eq in E. subst. symmetry. apply str_eqb_refl.
  - symmetry. apply str_eqb_neq. apply str_eqb_neq in E. congruence.
Qed.

(* keys of the map are untouched by the first loop *)
Lemma tlookup_map d g n :
  tlookup (map (fun kv => (fst kv, g (snd kv))) d) n = option_map g (tlookup d n).
Proof.
  induction d as [|[k v] d IH]; cbn; [reflexivity|]. destruct (str_eqb n k); auto.
Qed.

Lemma defined_step d n m : defined (step_defs d n) m <-> defined d m.
Proof.
  unfold step_defs, defined. destruct (tlookup d n) as [v|]; [|tauto].
  rewrite tlookup_map. destruct (tlookup d m); cbn; split; congruence.
Qed.

(* ---------- the expansion of a text without defined references is the text ---------- *)
Definition closed_text (d : tdefs) (ts : list tok) : Prop := forall n, refs ts n -> ~ defined d n.

Lemma full_closed f d ts : closed_text d ts -> full f d ts = ts.
Proof.
  destruct f; [reflexivity|]. cbn [full]. induction ts as [|t ts IH]; intro H; [reflexivity|].
  cbn [flat_map]. rewrite IH by (intros n Hn; apply H; now right). destruct t as [c|n]; [reflexivity|].
  destruct (tlookup d n) eqn:E; [|reflexivity].
  exfalso. apply (H n); [now left|unfold defined; congruence].
Qed.

(* ---------- stabilisation: beyond the rank, more fuel changes nothing ---------- *)
Lemma full_stable rank d : ranked rank d -> forall f ts,
  (forall n, refs ts n -> defined d n -> (rank n < f)%nat) -> full (S f) d ts = full f d ts.
Proof.
  intros Hr f. induction f as [|f IH]; intros ts Hb.
  - (* fuel 0: no defined reference at all *)
    change (full 0 d ts) with ts. apply full_closed. intros n Hn Hd. specialize (Hb n Hn Hd). lia.
  - cbn [full]. induction ts as [|t ts IHts]; [reflexivity|]. cbn [flat_map].
    rewrite IHts by (intros n Hn; apply Hb; now right). f_equal.
    destruct t as [c|n]; [reflexivity|]. destruct (tlookup d n) as [v|] eqn:E; [|reflexivity].
    change (flat_map _ v) with (full (S f) d v). apply IH.
    intros k Hk Hdk. assert (rank n < S f)%nat by (apply Hb; [now left|unfold defined; congruence]).
    specialize (Hr n v k E Hk Hdk). lia.
Qed.

Lemma full_stable_le rank d : ranked rank d -> forall f g ts, (f <= g)%nat ->
  (forall n, refs ts n -> defined d n -> (rank n < f)%nat) -> full g d ts = full f d ts.
Proof.
  intros Hr f g ts Hle Hb. induction Hle as [|g Hle IH]; [reflexivity|].
  rewrite (full_stable rank d Hr g ts); [exact IH|]. intros n Hn Hd. specialize (Hb n Hn Hd). lia.
Qed.

(* ---------- one substitution step does not change the full expansion ---------- *)
(* w stands for a (partially substituted) value of n: same expansion as the original value *)
Lemma full_subst1 rank d : ranked rank d -> forall F n vn w ts,
  tlookup d n = Some vn ->
  (forall k, refs vn k -> defined d k -> (rank k < F)%nat) ->
  (forall k, refs w k -> defined d k -> (rank k < F)%nat) ->
  full F d w = full F d vn ->
  full (S F) d (subst1 n w ts) = full (S F) d ts.
Proof.
  intros Hr F n vn w ts Hn Hbv Hbw Hw. induction ts as [|t ts IH]; [reflexivity|].
  cbn [subst1 flat_map]. fold (subst1 n w ts). rewrite full_app, IH. rewrite (full_cons (S F) d t ts). f_equal.
  destruct t as [c|m]; cbn [subst_tok]; [reflexivity|].
  destruct (str_eqb m n) eqn:E; [|reflexivity]. apply str_eqb_eq in E. subst m.
  (* full (S F) d w = full F d w = full F d vn = full (S F) d [R n] *)
  rewrite (full_stable rank d Hr F w Hbw), Hw. cbn [full flat_map]. rewrite Hn, app_nil_r. reflexivity.
Qed.

(* ---------- the invariant of the first loop ---------- *)
Record inv (rank : str -> nat) (F : nat) (d0 d : tdefs) (done : list str) : Prop := {
  inv_keys : forall m, defined d m <-> defined d0 m;
  inv_rank : forall m v k, tlookup d m = Some v -> refs v k -> defined d0 k -> (rank k < rank m)%nat;
  inv_gone : forall m v k, tlookup d m = Some v -> In k done -> defined d0 k -> ~ refs v k;
  inv_full : forall m v v0, tlookup d m = Some v -> tlookup d0 m = Some v0 -> full F d0 v = full F d0 v0
}.

Lemma refs_subst1 n w ts k : refs (subst1 n w ts) k -> (refs ts k /\ k <> n) \/ (refs ts n /\ refs w k).
Proof.
  unfold refs, subst1. intro H. apply in_flat_map in H as (t & Ht & Hk).
  destruct t as [c|m]; cbn [subst_tok] in Hk.
  - destruct Hk as [Hk|[]]. discriminate.
  - destruct (str_eqb m n) eqn:E.
    + apply str_eqb_eq in E. subst m. right. auto.
    + destruct Hk as [Hk|[]]. injection Hk as <-. left. split; auto. apply str_eqb_neq in E. exact E.
Qed.

Lemma inv_step rank F d0 d done n :
  ranked rank d0 -> (forall k, defined d0 k -> (rank k < F)%nat) ->
  inv rank F d0 d done -> inv rank F d0 (step_defs d n) (n :: done).
Proof.
  intros Hr HF [Hk Hrk Hg Hf]. unfold step_defs. destruct (tlookup d n) as [w|] eqn:En.
  2:{ (* n is not defined: nothing happens, and "gone" holds vacuously for n *)
      constructor; auto. intros m v k Hm [<-|Hin] Hd; [|eauto].
      exfalso. apply (proj2 (Hk k)) in Hd. unfold defined in Hd. congruence. }
  assert (Hdn : defined d0 n) by (apply Hk; unfold defined; congruence).
  destruct (tlookup d0 n) as [vn|] eqn:En0; [|unfold defined in Hdn; congruence].
  assert (Hwn : ~ refs w n).
  { intro Hc. specialize (Hrk n w n En Hc Hdn). lia. }
  constructor.
  - intro m. unfold defined. rewrite tlookup_map. specialize (Hk m). unfold defined in Hk.
    destruct (tlookup d m); cbn; split; intro H; try congruence; apply Hk; congruence.
  - intros m v k Hm Href Hd. rewrite tlookup_map in Hm. destruct (tlookup d m) as [vm|] eqn:Em; [|discriminate].
    injection Hm as <-. apply refs_subst1 in Href as [[H1 _]|[H1 H2]]; [eauto|].
    assert (rank n < rank m)%nat by eauto. assert (rank k < rank n)%nat by eauto. lia.
  - intros m v k Hm Hin Hd Href. rewrite tlookup_map in Hm. destruct (tlookup d m) as [vm|] eqn:Em; [|discriminate].
    injection Hm as <-. apply refs_subst1 in Href as [[H1 Hne]|[H1 H2]].
    + destruct Hin as [<-|Hin]; [congruence|]. eapply Hg; eauto.
    + destruct Hin as [<-|Hin]; [auto|]. eapply (Hg n w k); eauto.
  - intros m v v0 Hm Hm0. rewrite tlookup_map in Hm. destruct (tlookup d m) as [vm|] eqn:Em; [|discriminate].
    injection Hm as <-. rewrite <- (Hf m vm v0 Em Hm0).
    destruct F as [|F']; [exfalso; specialize (HF n Hdn); lia|].
    apply (full_subst1 rank d0 Hr F' n vn w vm En0).
    + intros k Hk1 Hk2. specialize (Hr n vn k En0 Hk1 Hk2). specialize (HF n Hdn). lia.
    + intros k Hk1 Hk2. specialize (Hrk n w k En Hk1 Hk2). specialize (HF n Hdn). lia.
    + (* full F' d0 w = full F' d0 vn from the invariant at S F' by stabilisation *)
      pose proof (Hf n w vn En En0) as E.
      rewrite (full_stable rank d0 Hr F' w) in E.
      2:{ intros k Hk1 Hk2. specialize (Hrk n w k En Hk1 Hk2). specialize (HF n Hdn). lia. }
      rewrite (full_stable rank d0 Hr F' vn) in E; [exact E|].
      intros k Hk1 Hk2. specialize (Hr n vn k En0 Hk1 Hk2). specialize (HF n Hdn). lia.
Qed.

Lemma inv_init rank F d0 : ranked rank d0 -> inv rank F d0 d0 [].
Proof.
  intro Hr. constructor; try tauto.
  - intros m v k Hm Hk Hd. eapply Hr; eauto.
  - intros m v v0 H1 H2. congruence.
Qed.

Lemma inv_loop1 rank F d0 : ranked rank d0 -> (forall k, defined d0 k -> (rank k < F)%nat) ->
  forall o1 d done, inv rank F d0 d done -> inv rank F d0 (loop1 o1 d) (rev o1 ++ done).
Proof.
  intros Hr HF o1. induction o1 as [|n o1 IH]; intros d done Hinv; cbn [loop1 fold_left rev app]; [exact Hinv|].
  rewrite <- app_assoc. cbn [app]. apply (IH (step_defs d n) (n :: done)). now apply inv_step.
Qed.

(* after the first loop (over every defined name) every value is its own full expansion *)
Lemma loop1_resolved rank F d0 o1 : ranked rank d0 -> (forall k, defined d0 k -> (rank k < F)%nat) ->
  (forall k, defined d0 k -> In k o1) ->
  forall m v v0, tlookup (loop1 o1 d0) m = Some v -> tlookup d0 m = Some v0 ->
  closed_text d0 v /\ v = full F d0 v0.
Proof.
  intros Hr HF Hcov m v v0 Hm Hm0.
  pose proof (inv_loop1 rank F d0 Hr HF o1 d0 [] (inv_init rank F d0 Hr)) as [Hk Hrk Hg Hf].
  assert (Hcl : closed_text d0 v).
  { intros k Hk1 Hk2. apply (Hg m v k Hm); auto. apply in_or_app. left. apply in_rev. rewrite rev_involutive. auto. }
  split; auto. rewrite <- (Hf m v v0 Hm Hm0). symmetry. now apply full_closed.
Qed.

(* ---------- the second loop ---------- *)
Lemma loop2_spec rank F d0 d : ranked rank d0 -> (forall k, defined d0 k -> (rank k < F)%nat) ->
  (forall m, defined d m <-> defined d0 m) ->
  (forall m v v0, tlookup d m = Some v -> tlookup d0 m = Some v0 -> closed_text d0 v /\ v = full F d0 v0) ->
  forall o2 src done,
  (forall k, In k done -> defined d0 k -> ~ refs src k) ->
  full (S F) d0 (loop2 o2 d src) = full (S F) d0 src /\
  (forall k, In k (rev o2 ++ done) -> defined d0 k -> ~ refs (loop2 o2 d src) k).
Proof.
  intros Hr HF Hkeys Hres o2. induction o2 as [|n o2 IH]; intros src done Hdone; cbn [loop2 fold_left rev app].
  - split; auto.
  - fold (loop2 o2 d (step_src d src n)). rewrite <- app_assoc. cbn [app].
    unfold step_src at 1 3. destruct (tlookup d n) as [w|] eqn:En.
    + assert (Hdn : defined d0 n) by (apply Hkeys; unfold defined; congruence).
      destruct (tlookup d0 n) as [vn|] eqn:En0; [|unfold defined in Hdn; congruence].
      destruct (Hres n w vn En En0) as [Hcl Hw].
      destruct (IH (subst1 n w src) (n :: done)) as [E1 E2].
      { intros k [<-|Hin] Hd Href; apply refs_subst1 in Href as [[H1 H2]|[H1 H2]]; try congruence.
        - apply (Hcl k H2 Hd).
        - apply (Hdone k Hin Hd H1).
        - apply (Hcl k H2 Hd). }
      split; [|exact E2]. rewrite E1.
      apply (full_subst1 rank d0 Hr F n vn w src En0).
      * intros k Hk1 Hk2. specialize (Hr n vn k En0 Hk1 Hk2). specialize (HF n Hdn). lia.
      * intros k Hk1 Hk2. exfalso. apply (Hcl k Hk1 Hk2).
      * rewrite (full_closed F d0 w Hcl). rewrite Hw.
        (* full F d0 vn is closed, hence a fixed point; and equals itself *)
        reflexivity.
    + destruct (IH src (n :: done)) as [E1 E2]; [|split; auto].
      intros k [<-|Hin] Hd; [|auto]. exfalso. apply (proj2 (Hkeys k)) in Hd. unfold defined in Hd. congruence.
Qed.

(* ---------- C07: the result is the full substitution, whatever the iteration orders ---------- *)
Theorem tok_expand_is_full_subst rank F d0 o1 o2 src :
  ranked rank d0 -> (forall k, defined d0 k -> (rank k < F)%nat) ->
  (forall k, defined d0 k -> In k o1) -> (forall k, defined d0 k -> In k o2) ->
  tok_expand o1 o2 d0 src = full (S F) d0 src.
Proof.
  intros Hr HF H1 H2. unfold tok_expand.
  pose proof (inv_loop1 rank F d0 Hr HF o1 d0 [] (inv_init rank F d0 Hr)) as Hinv.
  destruct (loop2_spec rank F d0 (loop1 o1 d0) Hr HF (inv_keys _ _ _ _ _ Hinv)
              (fun m v v0 => loop1_resolved rank F d0 o1 Hr HF H1 m v v0) o2 src []) as [E Hgone].
  { intros k []. }
  rewrite <- E. symmetry. apply full_closed.
  intros k Hk Hd. apply (Hgone k); auto. apply in_or_app. left. apply in_rev. rewrite rev_involutive. auto.
Qed.

Corollary tok_expand_order_independent rank F d0 o1 o2 o1' o2' src :
  ranked rank d0 -> (forall k, defined d0 k -> (rank k < F)%nat) ->
  (forall k, defined d0 k -> In k o1) -> (forall k, defined d0 k -> In k o2) ->
  (forall k, defined d0 k -> In k o1') -> (forall k, defined d0 k -> In k o2') ->
  tok_expand o1 o2 d0 src = tok_expand o1' o2' d0 src.
Proof. intros. rewrite !(tok_expand_is_full_subst rank F); auto. Qed.

(* references to undefined names stay as they are *)
Theorem undefined_reference_untouched f d n : ~ defined d n -> full f d [R n] = [R n].
Proof. intro H. apply full_closed. intros k [Hk|[]] Hd. injection Hk as <-. auto. Qed.
