(* internal/updater/updater.go: Updater / getLatestVersionFromGitHub, together with the
   behaviour of the go-selfupdate entry points it calls (DetectLatest with a checksum
   validator configured, Release.LessOrEqual, and the install call).

   What the library does is an oracle with stated behaviour (validated against the real
   library through a local fake release service); what /repo decides - which install
   entry point is called, with or without the validator - is [validate], regenerated
   from the source on every run (Gen/Consts.v self_update_validates). *)
From Coq Require Import String.
From Verif Require Import Base.Str Base.Outcome.
Open Scope N_scope.

Section SelfUpdate.
Variable ver : Type.
Variable vle : ver -> ver -> bool.              (* semver precedence: v1 <= v2 *)
Variable hash : str -> str.                     (* SHA-256, hex *)
Variable recorded : str -> str -> option str.   (* checksum file text -> asset name -> recorded hash *)
Variable decompress : str -> str -> option str. (* asset name -> asset bytes -> executable payload *)

Record release := {
  r_ver : option ver;                 (* None: the tag carries no semantic version *)
  r_draft : bool;
  r_pre : bool;
  r_asset : option (str * option str);   (* asset for this OS/arch: name, bytes (None = download fails) *)
  r_sums : option (option str)           (* checksum file: absent | present (None = download fails) *)
}.

Definition candidate (r : release) : bool :=
  negb (r_draft r) && negb (r_pre r) &&
  match r_ver r, r_asset r with Some _, Some _ => true | _, _ => false end.

Definition newer_than (r best : release) : bool :=
  match r_ver r, r_ver best with
  | Some v, Some b => negb (vle v b)           (* strictly greater *)
  | _, _ => false
  end.

(* findReleaseAndAssetForArch: the greatest candidate, the first among equals *)
Fixpoint pick (best : option release) (rels : list release) : option release :=
  match rels with
  | [] => best
  | r :: rest =>
    if candidate r then
      match best with
      | None => pick (Some r) rest
      | Some b => if newer_than r b then pick (Some r) rest else pick best rest
      end
    else pick best rest
  end.

Inductive detected := NotFound | NoValidationAsset | Found (r : release).

(* DetectLatest with the checksum validator configured: the release must carry the checksum file *)
Definition detect (rels : list release) : detected :=
  match pick None rels with
  | None => NotFound
  | Some r => match r_sums r with None => NoValidationAsset | Some _ => Found r end
  end.

(* Release.LessOrEqual(current): an unparsable current version (development build) is older *)
Definition less_or_equal (r : release) (current : option ver) : bool :=
  match r_ver r, current with
  | Some v, Some c => vle v c
  | _, _ => false
  end.

Inductive result := Installed (r : release) | UpToDate | Failed.

(* the install step. validate = false: package-level selfupdate.UpdateTo (download, decompress,
   replace); validate = true: the configured updater's UpdateTo (additionally checks the bytes
   against the checksum file before anything is replaced) *)
Definition install (validate : bool) (r : release) (exe : str) : result * str :=
  match r_asset r with
  | Some (name, Some bytes) =>
    let verified :=
      if validate then
        match r_sums r with
        | Some (Some text) =>
          match recorded text name with
          | Some h => str_eqb h (hash bytes)
          | None => false
          end
        | _ => false
        end
      else true in
    if verified then
      match decompress name bytes with
      | Some payload => (Installed r, payload)
      | None => (Failed, exe)
      end
    else (Failed, exe)
  | _ => (Failed, exe)
  end.

(* Updater: [rels] = None when the release listing cannot be fetched *)
Definition self_update (validate : bool) (current : option ver) (exe : str) (rels : option (list release)) : result * str :=
  match rels with
  | None => (Failed, exe)
  | Some rs =>
    match detect rs with
    | NotFound | NoValidationAsset => (Failed, exe)
    | Found r =>
      if less_or_equal r current then (UpToDate, exe)
      else install validate r exe
    end
  end.

End SelfUpdate.
