#!/usr/bin/env python3
"""Writes MANIFEST.json from lib/props.py (claimed properties) and properties.jsonl."""
import json, os, sys
V = os.path.dirname(os.path.dirname(os.path.abspath(__file__)))
sys.path.insert(0, os.path.join(V, "lib"))
from props import PROPS, NOT_APPLICABLE  # noqa

ids = [json.loads(l)["id"] for l in open(os.path.join(V, "properties.jsonl"))]
checks = []
for pid in ids:
    if pid not in PROPS:
        continue
    c = PROPS[pid]
    checks.append({
        "property_id": pid,
        "quick_cmd": f"./check {pid} --tier quick",
        "thorough_cmd": f"./check {pid} --tier thorough",
        "evidence_file": f"/verif/evidence/{pid}.json",
        "replay_cmd_template": f"./check {pid} --replay {{path}}",
        "engine": "coq-model+correspondence",
        "level_claimed": {"category": "proof", "text": c["level_text"], "design_ref": c.get("design_ref", "DESIGN.md section 5 " + pid)},
        "level_note": c["level_note"],
        "technique": c.get("technique", "machine-checked proof in Coq 8.16 about an executable Gallina model, tied to the code by differential correspondence runs (extracted OCaml) and source-regenerated pins"),
    })
na = [{"property_id": p, "reason": r} for p, r in NOT_APPLICABLE.items()]
for pid in ids:
    if pid not in PROPS and pid not in NOT_APPLICABLE:
        na.append({"property_id": pid, "reason": "not yet claimed: check under construction (see DESIGN.md section 8)"})
m = {
    "version": 1,
    "setup_cmd": "./lib/build.sh",
    "hooks": {
        "guard": "verif",
        "enable": "go build -tags verif (lib/build.sh builds /repo's CLI and the harness with the tag)",
        "baseline_off_cmd": "cd /repo && GOFLAGS=-mod=mod GOPROXY=off GOSUMDB=off go test -vet=off -count=1 ./...",
        "source_commits": json.load(open(os.path.join(V, "hooks.json")))["source_commits"],
        "add_only": True,
    },
    "engines": [{"name": "coq-model+correspondence", "path": "/verif/check", "serves_properties": [c["property_id"] for c in checks],
                 "kind_free_text": "Coq 8.16.1 development (coq/), translator + correspondence harness (harness/, Go), extracted model driver (ocaml/), orchestrated by ./check"}],
    "checks": checks,
    "not_applicable": na,
    "notes": "See DESIGN.md. Every check rebuilds /repo with -tags verif, regenerates coq/Gen from the sources, re-checks the property's theorems and pins, runs the correspondence suites and the property oracles; known findings are in known_findings.json.",
}
json.dump(m, open(os.path.join(V, "MANIFEST.json"), "w"), indent=1)
print("MANIFEST.json:", len(checks), "checks,", len(na), "not claimed")
