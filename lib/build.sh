#!/bin/bash
# Rebuild everything a check needs from /repo's current working tree:
# the CLI binary and the harness (build tag verif), the generated part of the
# Coq model (coq/Gen), the Coq development (full .vo build) and the extracted
# model driver.  Serialised by a lock; idempotent and incremental.
set -u
export GOFLAGS=-mod=mod GOPROXY=off GOSUMDB=off GOTOOLCHAIN=local CARGO_NET_OFFLINE=true PIP_NO_INDEX=1
V=/verif
mkdir -p $V/build/extract $V/coq/Gen
exec 9>$V/build/.lock
flock 9
fail() { echo "BUILD-FAILED: $1" ; exit 3; }

cp /repo/go.sum $V/harness/go.sum 2>/dev/null
(cd /repo && go build -tags verif -o $V/build/crs-toolchain . ) > $V/build/go-bin.log 2>&1 || { echo "GO-BUILD-FAILED repo"; cat $V/build/go-bin.log | tail -20; exit 4; }
(cd $V/harness && go build -tags verif -o $V/build/vh . ) > $V/build/go-vh.log 2>&1 || { echo "GO-BUILD-FAILED harness"; tail -20 $V/build/go-vh.log; exit 4; }

# translator: regenerate coq/Gen/*.v from the Go sources (only rewritten when changed)
$V/build/vh gen --repo /repo --out $V/coq/Gen > $V/build/gen.log 2>&1 || { echo "GEN-FAILED"; tail -20 $V/build/gen.log; exit 5; }

cd $V/coq
{ echo "-Q . Verif"; echo "-arg -w -arg -notation-overridden,-deprecated-hint-without-locality,-deprecated-instance-without-locality,-large-nat";
  find Base Regex Gen Model Proofs Tie Props -name '*.v' 2>/dev/null | LC_ALL=C sort; } > _CoqProject.new
if cmp -s _CoqProject.new _CoqProject; then rm -f _CoqProject.new; else mv _CoqProject.new _CoqProject; fi
if [ ! -f Makefile ] || [ _CoqProject -nt Makefile ]; then
  coq_makefile -f _CoqProject -o Makefile > /dev/null 2>&1 || fail coq_makefile
fi
# -k: keep going, so that the set of produced .vo tells which obligations still check
timeout 3000 make -k -j16 > $V/build/coq.log 2>&1
echo $? > $V/build/coq.status

# extraction + driver (only when a model .vo is newer than the driver)
need=0
[ -x $V/build/driver ] || need=1
if [ $need = 0 ]; then
  for f in $V/coq/Base/*.vo $V/coq/Regex/*.vo $V/coq/Model/*.vo $V/coq/Gen/*.vo $V/coq/Extract/Extract.v $V/ocaml/driver.ml; do
    [ "$f" -nt $V/build/driver ] && need=1
  done
fi
if [ $need = 1 ]; then
  cd $V/build/extract
  rm -f model.ml model.mli
  timeout 600 coqc -Q $V/coq Verif $V/coq/Extract/Extract.v > $V/build/extract.log 2>&1 || { echo "EXTRACT-FAILED"; tail -20 $V/build/extract.log; exit 6; }
  cp $V/ocaml/driver.ml .
  ocamlfind ocamlopt -package unix -linkpkg model.mli model.ml driver.ml -o $V/build/driver.new > $V/build/ocaml.log 2>&1 || { echo "OCAML-BUILD-FAILED"; tail -20 $V/build/ocaml.log; exit 7; }
  mv $V/build/driver.new $V/build/driver
fi
exit 0
