#!/bin/bash
# usage: lib/try_mutant.sh <patch.diff> <PROP> [<PROP>...]
# applies a seeded change to /repo, runs the quick checks, restores /repo
patch=$1; shift
cd /repo || exit 2
git diff --quiet || { echo "REPO-DIRTY"; exit 2; }
git apply "$patch" || { echo "PATCH-FAILED"; exit 2; }
for p in "$@"; do
  out=$(cd /verif && VERIF_SEED=1 ./check $p --tier quick 2>&1 | grep -E "^(OK|VIOLATION|check:)" | tail -2 | tr '\n' ' ')
  echo "RESULT $patch $p :: $out"
done
git -C /repo checkout -- . && git -C /repo clean -fdq -- . ':!mutants'
git -C /repo status --short | head -3
