#!/bin/bash
out=/tmp/mut/thorough_sel.log; : > $out
cd /verif
for p in "$@"; do
  res=$(VERIF_SEED=1 timeout 3000 ./check $p --tier thorough 2>&1 | grep -E "^(OK|VIOLATION|check:|Traceback|BUILD)" | tail -1)
  echo "$p $res" >> $out
  case "$res" in VIOLATION*) cp /verif/replays/$p-1.json /tmp/mut/thorough-$p.json 2>/dev/null;; esac
done
echo ALL-DONE >> $out
