#!/bin/bash
out=/tmp/mut/soak.log; : > $out
cd /verif
for seed in 2 3 4; do
for i in 01 02 03 04 05 06 07 08 09 10 11 12 13 14 15 16 17 18 19 20; do
  res=$(VERIF_SEED=$seed timeout 2400 ./check C$i --tier quick 2>&1 | grep -E "^(OK|VIOLATION|check:)" | tail -1)
  echo "seed=$seed C$i $res" >> $out
  case "$res" in VIOLATION*) cp /verif/replays/C$i-$seed.json /tmp/mut/soak-C$i-$seed.json 2>/dev/null;; esac
done
done
echo ALL-DONE >> $out
