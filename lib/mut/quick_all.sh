#!/bin/bash
out=/tmp/mut/quick_all.log; : > $out
cd /verif
for i in 01 02 03 04 05 06 07 08 09 10 11 12 13 14 15 16 17 18 19 20; do
  res=$(VERIF_SEED=1 timeout 2400 ./check C$i --tier quick 2>&1 | grep -E "^(OK|VIOLATION|check:)" | tail -1)
  echo "C$i $res" >> $out
done
echo ALL-DONE >> $out
