#!/bin/bash
export GOFLAGS=-mod=mod GOPROXY=off GOSUMDB=off GOTOOLCHAIN=local
for p in "$@"; do for k in 1 2; do
  WT_PREFIX=/tmp/w7- ID_OFFSET=10 timeout 3000 python3 /verif/lib/confirm_mutant.py $p $k >> /tmp/mut/confirm7.log 2>&1
done; done
echo DONE "$@" >> /tmp/mut/confirm7.log
