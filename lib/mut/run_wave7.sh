#!/bin/bash
out=/tmp/mut/wave7_results.log; : > $out
for d in /verif/seeded/C*-11 /verif/seeded/C*-12; do
  id=$(basename $d); prop=${id%-*}
  cd /repo && git diff --quiet || { echo "REPO-DIRTY" >> $out; exit 2; }
  if ! git apply --check $d/patch.diff 2>/dev/null; then echo "$id $prop PATCH-NO-LONGER-APPLIES" >> $out; continue; fi
  git apply $d/patch.diff
  res=$(cd /verif && VERIF_SEED=1 timeout 1200 ./check $prop --tier quick 2>&1 | grep -E "^(OK|VIOLATION|check:|Traceback|BUILD)" | tail -1)
  git -C /repo checkout -- . ; git -C /repo clean -fdq
  echo "$id $prop $res" >> $out
done
cd /verif && ./lib/build.sh > /dev/null 2>&1
echo ALL-DONE >> $out
