#!/bin/bash
# Applies every seeded change to /repo, runs the quick check of its property, restores /repo.
# Output: one line per change in $1 (default /tmp/mut/seeded_results.log)
out=${1:-/tmp/mut/seeded_results.log}
: > $out
for d in /verif/seeded/C*-*; do
  id=$(basename $d); prop=${id%-*}
  cd /repo && git diff --quiet || { echo "REPO-DIRTY" >> $out; exit 2; }
  if ! git apply --check $d/patch.diff 2>/dev/null; then echo "$id $prop PATCH-NO-LONGER-APPLIES" >> $out; continue; fi
  git apply $d/patch.diff
  res=$(cd /verif && VERIF_SEED=1 timeout 2400 ./check $prop --tier quick 2>&1 | grep -E "^(OK|VIOLATION|check:)" | tail -1)
  git -C /repo checkout -- . ; git -C /repo clean -fdq
  echo "$id $prop $res" >> $out
done
cd /verif && ./lib/build.sh
