#!/usr/bin/env python3
"""Runs /repo's test suite with the verif guard OFF and compares with /root/.vp/BASELINE.json (stable_pass)."""
import json, os, subprocess, sys
env = dict(os.environ, GOFLAGS="-mod=mod", GOPROXY="off", GOSUMDB="off", GOTOOLCHAIN="local")
p = subprocess.run(["go", "test", "-json", "-vet=off", "-count=1", "-timeout", "25m", "./..."], cwd="/repo", env=env,
                   stdout=subprocess.PIPE, stderr=subprocess.STDOUT, text=True)
status = {}
for line in p.stdout.splitlines():
    try:
        e = json.loads(line)
    except Exception:
        continue
    if e.get("Action") in ("pass", "fail") and e.get("Test"):
        status[e["Package"] + "::" + e["Test"]] = e["Action"]
base = json.load(open("/root/.vp/BASELINE.json"))
missing = [t for t in base["stable_pass"] if status.get(t) != "pass"]
print(f"baseline: {len(base['stable_pass']) - len(missing)}/{len(base['stable_pass'])} stable tests pass")
for t in missing[:20]:
    print("  NOT PASSING:", t, status.get(t))
sys.exit(1 if missing else 0)
