#!/bin/bash
# Rewrites the pin lemmas coq/Tie/Pin_*.v from /repo's CURRENT sources.  Run by hand after
# a deliberate change of /repo (hook or fix: commit) once models and proofs are adapted.
set -e
export GOFLAGS=-mod=mod GOPROXY=off GOSUMDB=off GOTOOLCHAIN=local
cd /verif/harness && cp /repo/go.sum . && go build -tags verif -o /verif/build/vh .
/verif/build/vh gen --repo /repo --out /verif/coq/Gen --pin-dir /verif/coq/Tie > /dev/null
cd /verif && git status --short coq/Tie | head -40
