"""Per-property configuration of ./check: correspondence/oracle suites, extra trusted-base lines."""

TRUSTED_BASE = [
    "Coq 8.16.1 kernel (coqc, full .vo build); vm_compute used only in closed Examples; no native_compute",
    "no Axiom/Parameter/Admitted in the development (grep gate on every run)",
    "translator harness/gen.go (go/parser): regenerates coq/Gen/{Patterns,Lits,Consts}.v from /repo on every run; pin lemmas coq/Tie/Pin_*.v re-proved by reflexivity",
    "extraction: Require Extraction + ExtrOcamlBasic only (bool, option, unit, list, prod, sumbool, sumor, andb, orb mapped to OCaml); N/positive/nat stay Coq datatypes; OCaml 4.13.1; ocaml/driver.ml converts encodings only",
    "correspondence harness (/verif/harness, Go, build tag verif) and its generators; models are hand-written transcriptions of the Go functions named in the Gallina files",
]

PROPS = {
    "C18": {
        "suites": ["rule_id", "find_root", "generate", "tree_frame"],
        "trusted": ["cobra/pflag flag parsing and filepath.Abs are not modelled; os.Stat is the predicate `has`"],
        "level_text": "Kernel-checked theorems (all argument strings, all start directories and file-system predicates) about Gallina transcriptions of parseRuleId and findRootDirectory: acceptance iff the grammar NNNNNN[-chainK][.ra] with K below 2^bits (bits read from the source), resolution of id/file/offset, no wrap-around, nearest-ancestor root; tied to the code by pins on the regenerated pattern/literals and by differential runs of the extracted model against the real functions.",
        "level_note": "Trusted: Coq kernel, translator, extraction, harness generators. Modelled, not verified: the Go functions themselves (hand transcription, checked by correspondence); cobra flag handling, filepath.Abs and os.Stat are outside the model; generate-from-stdin equality is exercised through the CLI only.",
        "assumptions": ["a cleaned absolute path is the list of its components; the file system does not change during the command"],
    },
}

PROPS["C13"] = {
    "suites": ["renumber", "tree_frame"],
    "level_text": "Kernel-checked theorems for all byte contents and all counter states about a Gallina transcription of processYaml/formatEndOfFile: the shared index is max(ids, titles) in every reachable state, the number written on every key line, lines without a key are copied unchanged, the output is empty or ends with exactly one newline; IDEMPOTENCE PROVED on the line lists of the property's quantifier (plain key lines, any starting counters); the unguarded 'n-th test_id is n' is refuted by a model witness that replays on the code (known finding). Tied by pins on the two patterns and the function literals and by differential runs against processYaml.",
    "level_note": "Trusted: Coq kernel, translator, extraction, harness. Modelled: processYaml, formatEndOfFile, processFile's write decision; bufio.Scanner is the model Base/Lines.v (validated in suite scan). bytes.TrimSpace is modelled for ASCII white space only (generators avoid U+0085/U+00A0). File-level idempotence (scanner, end-of-file handling) and --check agreement are decided per generated file by the oracle; the theorem is on line lists.",
    "assumptions": ["lines handled by the regexps contain no newline (guaranteed by the scanner)", "no Unicode white space beyond ASCII at line ends"],
}
PROPS["C14"] = {
    "suites": ["copyright", "tree_frame"],
    "level_text": "Kernel-checked theorems for all lines/versions/years about a Gallina transcription of updateRules (five ReplaceAllString passes): text without markers is copied, the header and copyright markers show exactly V and Y and are fixed points; idempotence for all accepted versions is refuted by a model witness replayed on the code (known finding C14-version-forms). Tied by pins on the five patterns and by differential runs against updateRules with histories of invocations.",
    "level_note": "Trusted: Coq kernel, translator, extraction, harness. Modelled: updateRules; semver.NewVersion is an oracle (the real validateSemver decides which versions the oracle runs use); template expansion assumes no '$' in version/year; '.' in the patterns is modelled on bytes (generators put no multi-byte rune at those positions); time.Now default year not modelled.",
    "assumptions": ["version strings contain no '$'", "four-digit years"],
}

PROPS["C09"] = {
    "suites": ["patterns", "process_line", "format_file"],
    "level_text": "Kernel-checked theorems for all lines, indents and captures about Gallina transcriptions of processLine, formatEndOfFile, checkStandardHeader and the whole byte-level format function: indentation law (2 spaces per open block, column 0 for flag/prefix/suffix lines, body never starts with a blank), end-of-file shape, header test; idempotence PROVED at the level of lines and line lists (processLine on its own output, indentation stripped again, prints the same line and moves the indent the same way, every starting indent, error lines included) for all lines except definition/include/include-except directives (partial); idempotence over all byte contents is refuted by a model witness that replays on the binary (known finding). Tied by pins on eight patterns, the header constant and the function literals, by function-level differential runs (12 directive matchers, processLine) and by CLI runs of format / format --check on generated files compared byte for byte with the model.",
    "level_note": "Trusted: Coq kernel, translator, extraction, harness. Modelled: processLine, formatEndOfFile, checkStandardHeader, processFile's data flow, the format-only parser incl. its two panics; Go map iteration order of parseLine is an explicit order argument (both extreme orders are evaluated, the binary must agree with one). The upper-case lint of --check is observed, not modelled. Idempotence/canonical form on files with at least one entry and --check agreement are decided per generated file by the oracle.",
    "assumptions": ["no Unicode white space beyond ASCII in TrimSpace positions", "files are read and written atomically by the OS"],
}
PROPS["C10"] = {
    "suites": ["process_line", "format_file"],
    "level_text": "Kernel-checked theorem that every line no directive pattern claims (entries, comments, markers) keeps its text byte for byte for all lines and indents; for every line that is not a definition/include/include-except directive all eight directive patterns give the same answer (match and captures) on the formatted line as on the original (partial); the directive cases are shown NOT to be white-space-only by model witnesses that replay on the binary (known finding C10-formatter-drops-text). Per generated file the oracle compares generate before/after format and the white-space-stripped line sequences on the real binary. Tied as C09.",
    "level_note": "Trusted as C09. The equality generate(format x) = generate x is decided per generated file on the binary (the compiler is modelled separately, see C01), not yet by a theorem.",
    "assumptions": ["as C09"],
}

PROPS["C11"] = {
    "suites": ["update_cli"],
    "level_text": "Kernel-checked theorems for all file contents, ids, offsets and regexes about a Gallina transcription of updateRegex (locate loop incl. uint8 counter, RuleRxRegex delimitation, split/join): the split/join round trip preserves every byte, exactly one line is replaced and it is group1+new+group3 of its own match, all other lines are identical; the parts of the statement the code violates (offset beyond the chain, text after the continuation, id text elsewhere) are refuted by model witnesses replayed on the binary (known findings). Tied by pins on RuleRxRegex/SecRuleRegex and the function literals and by CLI runs of update on generated CRS rules files compared byte for byte with the model.",
    "level_note": "Trusted: Coq kernel, translator, extraction, harness. Modelled: updateRegex; the generated regex is taken from the real generate; filepath.Glob file choice and os.WriteFile are exercised through the CLI, not modelled here (see C15). 'the located line is the addressed rule' is decided per generated file by the structural oracle (the generator knows the rule structure), not by a theorem.",
    "assumptions": ["rule ids are six ASCII digits (regexp.MustCompile of id:NNNNNN is a literal search)"],
}
PROPS["C12"] = {
    "suites": ["update_cli", "compare_history"],
    "level_text": "Kernel-checked theorems: compare's verdict is byte equality; update and compare use the same location and operand delimitation for all inputs; ROUND TRIP PROVED: for every rules file, id, offset and new operand without newline in which no operator marker ends and which leaves the line in the same class for the locator, compare's reader returns exactly what update wrote and the verdict is 'unchanged' exactly for that byte string; a marker cannot straddle the end of group 1 (so 'no marker inside the operand' suffices); read-after-update for every regex is refuted by a model witness (regex containing the operator marker) replayed on the binary (known finding). Histories update->compare, update->update, flip-one-byte->compare run on the binary for every generated tree; the model's read_current is compared with compare's verdict.",
    "level_note": "Trusted as C11. The diff layout printed by compare and its exit status mapping are observed on the binary, not modelled. The locator-class premise of the round-trip theorem (the new line mentions id:<id> and SecRule exactly when the old one did) is checked per generated case.",
    "assumptions": ["as C11"],
}

PROPS["C17"] = {
    "suites": ["scan", "long_lines"],
    "level_text": "The size limit is part of the model: Base/Lines.v scan takes the scanner limit as a parameter. Kernel-checked theorems for all limits and inputs: below the limit everything is delivered, at the limit exactly the prefix before the first long line is delivered with the error state set, no error implies completeness, an input shorter than the limit is never truncated; per-site line-for-line accounting of the rewriting commands. The limit each of the eight reading sites uses is regenerated from the Go source on every run (bufio default vs utils.NewLineScanner) and proved to be 2^63-1. Tied by differential runs of the scanner model against bufio.Scanner around 65536 bytes and of the site models on inputs with lines up to 300 KB (1 MiB thorough), and by an oracle on the binary (fails loudly or accounts for every line after the long one).",
    "level_note": "Trusted: Coq kernel, translator (reads which scanner constructor each site calls), extraction, harness. bufio.Scanner itself is the validated model scan; memory exhaustion on inputs near 2^63 bytes is outside the model. generate's accounting for entries inside the optimiser is checked by the oracle only.",
    "assumptions": ["inputs are smaller than 2^63-1 bytes"],
}

GEN_TRUST = ["rassemble-go and regexp/syntax are not modelled: rassemble.Join is an oracle argument of the model, served to the extracted model by the very module version /repo's go.mod pins (harness joinsrv); YAML decoding of toolchain.yaml is outside the model (the six strings are inputs)",
             "regex text -> Regex.Re terms: Go's own regexp/syntax parser plus harness/rx.go (conversion to the checker's prefix form); word boundaries and multi-line anchors are outside the modelled fragment (such outputs are counted, not compared)",
             "a Differs verdict of the checker is reported only after Go's regexp engine confirms the distinguishing string on both expressions"]

PROPS["C01"] = {
    "suites": ["passes", "generate", "plain_tree"],
    "trusted": GEN_TRUST,
    "level_text": "Kernel-checked soundness theorem of a derivative-based equivalence/inclusion checker for regular expressions with begin/end-of-text assertions (for all expressions, all contexts, all subject strings over the compared alphabet); kernel-checked structure theorems about a Gallina transcription of the whole generate pipeline (parser, include handling, definition expansion, Assemble/CmdLine processors, processor stack, complete, the six string passes) with rassemble.Join as an oracle: every alternation is grouped before concatenation, block results have one of four shapes, the final text is the sorted flag prefix plus printable text; REFINEMENT THEOREM (simulation proof over all programs, optimisers and notions of meaning obeying seven laws about regex text): the text the operator hands to the final passes means prefixes . plain reading . suffixes, where the plain reading is a machine over meanings that never looks at regex text; the laws are proved for a small regex syntax with set-of-strings semantics (instance theorem), for RE2 they are premises checked per program by the oracle; the call order of the final passes in complete() is regenerated from the AST and pinned; the single-pending-line case is refuted by a model witness that replays on the binary (known finding); the space-range defect of includeVerticalTabInSpaceClass found by the equivalence oracle is repaired in /repo (fix: df79445). Tied by pins on all literals/patterns of the modelled functions, by function-level differential runs of every pass and by end-to-end runs of generated programs through the binary and the model (byte equality of stdout, error class). Per generated program the proved-sound checker decides language equality between the real output and the program's plain reading for ALL subject strings (translation validation); the plain-reading machine of the refinement theorem itself (instantiated with syntax trees, extracted) is compared with the harness's structural reading on the buffer the real parser produces (suite plain_tree).",
    "level_note": "Trusted: Coq kernel, translator, extraction, harness generators, Go's regexp/syntax as the definition of RE2 syntax. The optimiser (rassemble-go) is not modelled: that its results preserve the language is decided per generated program by the verified checker, not proved for all programs. Out-of-fuel verdicts of the checker are counted as no verdict. Programs: <= 14 items, depth <= 3.",
    "assumptions": ["the alphabet compared excludes the vertical tab, as the property prescribes", "entries contain no inline flag groups and no word boundaries"],
}
PROPS["C02"] = {
    "suites": ["passes", "generate"],
    "trusted": GEN_TRUST,
    "level_text": "Kernel-checked theorems for ALL texts the optimiser could return: after the pass chain the output is printable ASCII on one line (any byte string, valid UTF-8 or not, is hex-escaped), every double quote is directly preceded by a backslash, the flag prefix is one of (?i) (?s) (?is) or absent; 'every quote is escaped' is refuted by a model witness (quote after an even run of backslashes) that replays on the binary (known finding). Tied by pins on the six passes and complete, by function-level differential runs on regex-like and hostile byte strings and by end-to-end runs; the remaining per-character facts (no backslash pair, \\s always with \\x0b, no inline flag group, RE2-parsable) are decided per generated output by the oracle.",
    "level_note": "Trusted as C01. Not proved (oracle only): absence of a backslash pair after useHexBackslashes, VT next to every \\s, absence of inline flag groups, parsability.",
    "assumptions": ["as C01"],
}
PROPS["C03"] = {
    "suites": ["expand_defs", "replace_suffixes", "fuzz_generate", "generate", "generate_defs", "c06_except"],
    "trusted": GEN_TRUST,
    "level_text": "Go map iteration is an explicit order argument of the model. Kernel-checked theorems for all orders: every line is claimed by at most one of the seven directive patterns (proved from the matchers; holds since IncludeRegex is anchored, a genuine defect repaired by fix: 597d59c), hence line classification is the same for every iteration order; WHOLE-COMMAND THEOREM: for all main, include and exclude files the result of generate does not depend on the iteration order of the pattern map nor of the inclusion-line map (any permutations); suffix replacement is order-independent for non-interfering pair lists; the include-except sort undoes any iteration order of the line map; the flag prefix is sorted; a run does not read process state left by an earlier run. The part the code violates (chained replacement pairs) is refuted by a model witness that replays on the binary (known finding); cyclic definitions are a further recorded finding. Tied by pins and by differential runs in which the Go result must lie in the model's result set over all orders; every generated program is additionally executed three times in fresh processes (stdin and file path) and all outputs must be equal.",
    "level_note": "Trusted as C01. Schedules are proved for the modelled map loops only; other runtime sources of nondeterminism are sampled by repeated fresh executions. Order independence of definition expansion is decided per generated case (model result set over all 576 order pairs), not yet by a theorem.",
    "assumptions": ["as C01"],
}
PROPS["C04"] = {
    "suites": ["cmdline_fn", "generate_cmdline"],
    "trusted": GEN_TRUST,
    "level_text": "Kernel-checked theorems for all words and all configured pattern triples about Gallina transcriptions of regexpStr, regexpChar, computeSuffix and NewCmdLine's pattern selection: the result is the escaped characters with the evasion pattern between any two adjacent ones, trailing @/~ demand the (no-space) suffix pattern, escaped markers keep the character, '.', '-' and space are escaped as stated, a leading quote passes the line through, an empty configuration inserts nothing, unix/windows select their own triple; plus the soundness theorem of the inclusion checker. Tied by pins and function-level differential runs; per generated program (toolchain.yaml CRS-like, partial, empty, malformed, absent) the verified checker decides that the real output's language equals the plain reading in which every word is its characters interleaved with the evasion pattern.",
    "level_note": "Trusted as C01; YAML decoding is outside the model. Survival of the pattern text through the optimiser is decided per generated program. Words over letters, digits, . - _ space with optional markers, as the property quantifies.",
    "assumptions": ["configured patterns have no top-level alternation (CRS-like)"],
}
PROPS["C19"] = {
    "suites": ["passes", "generate", "fuzz_generate"],
    "trusted": GEN_TRUST,
    "level_text": "Every unchecked index/slice of the string passes is a Crash outcome of the model, the unbounded for-loop is fuelled. Kernel-checked theorems: the flag-group loop terminates on every input (each removal strictly shortens the text, fuel never exhausted), the group scan returns positions inside the text; the case the property itself names (escaped parenthesis followed by ?i:) was a genuine index-out-of-range defect found by this check and is repaired in /repo (fix: 818337f): the model now proves it is treated as text; an unbalanced flag group (never printed by the optimiser) remains the one modelled crash. Tied by pins and by differential runs of every pass incl. crash behaviour (Go panic <-> model Crash) on regex-like and hostile texts; token-level fuzzing of the binary (stdin and include files) with a timeout looks for runtime errors and hangs.",
    "level_note": "Trusted as C01. Panics inside rassemble-go / regexp/syntax / yaml are outside the model; only the fuzz run looks for them. Include cycles end with a loud failure (file-descriptor exhaustion), observed only.",
    "assumptions": ["inputs up to 4 KiB in the fuzz run"],
}

PROPS["C05"] = {
    "suites": ["generate_include", "c05_inline"],
    "trusted": GEN_TRUST,
    "level_text": "WHOLE-COMMAND THEOREM for word-list include files (entries, comments, blank lines): for every includer, position, includer state and map order, generate of the file with the include line equals generate of the file with the lines typed in place and for include files with their OWN prefix/suffix lines: generate of the file with the include line equals generate of the file with the local block (##!> assemble / prefix / ##!=> / entries / ##!=> / suffix / ##!=> / ##!<) typed in place, provided the prefix/suffix values are ordinary entry lines (partial: include files with own definitions or nested includes are covered by the lemmas below and the by-hand inlining oracle). Kernel-checked theorems about the Gallina transcription of parseFile/mergePrefixesSuffixes for all parser results: a file without prefixes, suffixes and flags hands over exactly its own parsed text (no wrapping), prefixes/suffixes are emitted as a local assemble block around the file's own text, a flags line makes the include fail, the include directory is searched before the exclude directory and .ra is appended exactly when missing. Tied by pins and by end-to-end runs of the including programs through binary and model. Per generated case the binary's output for the including program is compared with its output for the program in which the harness typed the lines in place (bytes; where the text differs, the verified equivalence checker), at top level, inside assemble and inside cmdline blocks; and with the plain reading.",
    "level_note": "Trusted as C01. The whole-parser statement 'parse(pre ++ include F ++ post) = parse(pre ++ own_buffer F ++ post)' is decided per generated case, not yet by a theorem. Include cycles are outside (C19).",
    "assumptions": ["include files exist and do not include themselves"],
}
PROPS["C06"] = {
    "suites": ["replace_suffixes", "c06_except"],
    "trusted": GEN_TRUST,
    "level_text": "WHOLE-COMMAND THEOREM for word-list files (entries, comments, blank lines; clean lines): for every includer, position, includer state and map order, generate of the file with `include-except F X1..Xn` equals generate of the file with, in the directive's place, the entries of F that are not entries of any Xi, each once, in the order of their last occurrence and `include F -- k v ...` of a word-list file equals typing the rewritten entries (apply_pairs in the iteration order of the pair map) provided they are ordinary entry lines again (partial: pairs on include-except and own definitions/prefixes/suffixes in the files by the lemmas below and the by-hand oracle). Kernel-checked theorems for all line maps, pair lists and iteration orders: sorting by the unique index gives one result for every iteration order of the line map (so the surviving entries keep F's order), an entry that ends in no key is untouched, an entry that ends in exactly one key gets exactly that ending replaced or deleted, comments/directives/blank lines are skipped, no pair list means no change; chained pairs are refuted by a model witness (known finding). Tied by pins, function-level differential runs of replaceSuffixes (Go result in the model's result set over all orders) and end-to-end runs. Per generated case the binary's output is compared with its output for the program in which the harness did the set difference and the rewrite by hand.",
    "level_note": "Trusted as C01. 'exactly the entries of F that occur in no Xi' for the whole map/delete/sort pipeline is decided per generated case (by-hand program), the theorem covers the sort and the rewrite.",
    "assumptions": ["pair lists are non-interfering in the by-hand comparison"],
}
PROPS["C07"] = {
    "suites": ["expand_defs", "generate_defs", "c07_defs"],
    "trusted": GEN_TRUST,
    "level_text": "Kernel-checked theorems about the Gallina transcription of expandDefinitions/mergo.Merge for all texts and maps: text that references none of the defined names (in particular references to undefined names) is unchanged, a name keeps its first definition. Tied by pins and by differential runs in which Go's result must lie in the model's result set over all 576 orders of the two map loops. Per generated program the binary's output is compared with its output for every permutation/placement of the definition lines and for the program in which the harness substituted the values itself (bytes). A genuine defect found by this check (references in prefix/suffix lines were not expanded) is repaired in /repo (fix: 8bfbde6).",
    "level_note": "Trusted as C01. Order independence of the expansion for acyclic, brace-safe definitions is decided per generated case by exhaustive enumeration of iteration orders in the model (<= 4 names) and on the binary by permuted programs; not yet a theorem for all definition graphs.",
    "assumptions": ["acyclic definitions, no computed names (the property's own quantifier)"],
}

TREE_TRUST = ["cobra/pflag argument handling, filepath.WalkDir/Glob and os.WriteFile are not modelled: the model works on the list of regular files in WalkDir order; the correspondence runs compare the changed files and the exit status of the binary with the model on generated trees",
              "symbolic links, permissions and concurrent modification are outside; the snapshots cover the scratch directory (CRS root plus a sibling tree outside it)"]
PROPS["C08"] = {
    "suites": ["tree_all", "tree_frame", "tree_faults"],
    "trusted": GEN_TRUST + TREE_TRUST,
    "level_text": "Kernel-checked theorems about Model/Cli.v and the assembler model for all trees, walks and per-file behaviours: a run does not read the package-level processor state an earlier run left; format --all leaves every selected file exactly as formatting it alone would and every other file untouched, for every order of the walk; update --all writes rules files only, so what generate reads for one assembly file is never changed by processing another. Tied by pins, by tree-level differential runs of update/format/renumber/copyright --all against the model (changed files byte for byte, exit status) and by the oracle: --all on one copy of a generated tree vs. every order of single invocations on other copies (whole-tree bytes; multiset of per-rule lines for compare).",
    "level_note": "Trusted as C01/C15. The commutation of single-rule updates within one rules file is decided per generated tree (all orders, <= 6), not by a theorem: the line locator can be confused by regex text (see C11).",
    "assumptions": ["every single invocation succeeds (a failing run ends the process)"],
}
PROPS["C15"] = {
    "suites": ["tree_frame"],
    "trusted": TREE_TRUST,
    "level_text": "Kernel-checked frame theorems about Model/Cli.v for all trees, all walks and all per-file behaviours: update (single and --all) changes rules files only, format --all changes .ra files below regex-assembly only, format ARG changes only the resolved target, renumber-tests changes only files whose name matches the test-file pattern below tests/regression/tests and skips unchanged files, update-copyright changes *.conf/*.example only; no command creates or deletes a file; a write leaves every other file's bytes alone. 'format touches .ra files only' is refuted for the single-file argument by a model witness that replays on the binary (known finding). Tied by pins on the walks, filters and name patterns and by tree-level differential runs; the oracle snapshots the whole scratch directory (root + a sibling tree) before and after every command and flag combination and checks the property's target list directly.",
    "level_note": "Trusted: Coq kernel, translator, extraction, harness. Inspecting commands (generate, compare, --check modes, version, completion) have no write in the model by construction; that the binary does not write either is decided by the snapshots.",
    "assumptions": ["regular files only"],
}
PROPS["C16"] = {
    "suites": ["tree_faults", "fuzz_generate", "tree_frame"],
    "trusted": GEN_TRUST + TREE_TRUST,
    "level_text": "Kernel-checked theorems about Model/Cli.v: a failing single-rule update and a failing single-file format leave the tree identical; compare produces a verdict only when exactly one rules file matches (the zero-exit on a missing/ambiguous rules file was a genuine defect, repaired in /repo by fix: e2f7323); 'every target file byte-identical after a failure' is refuted for update --all by a model witness that replays on the binary (known finding). The error class of every modelled failure path of generate (join error, unknown processor, bad cmdline type, stack errors, unknown/missing stored name, unsupported flag, uneven pair list, flags in include, missing file) is part of the pipeline model and is compared with the binary on malformed inputs. Tied by pins and differential runs; the oracle injects one fault of every listed class at every position into generated trees and observes exit status, stdout and the whole-tree snapshot.",
    "level_note": "Trusted as C01/C15. cobra's own argument errors and zerolog's Fatal/Panic exit mapping are taken from the libraries and validated by the runs.",
    "assumptions": ["single faults"],
}

PROPS["C20"] = {
    "suites": ["self_update"],
    "trusted": ["go-selfupdate, go-github, semver, TLS, archive formats and the atomic replacement of the executable are not modelled: DetectLatest (with validator), Release.LessOrEqual, the two UpdateTo entry points, ChecksumValidator.findChecksum and SHA-256 are oracles with stated behaviour (section variables of the theorems; the line format of the checksum file is transcribed as recorded_goreleaser), validated on every run against the real library through a local TLS-intercepting stand-in for api.github.com/github.com (HTTPS_PROXY + SSL_CERT_FILE, CA generated at run time) driving the UNMODIFIED binary built from /repo",
                "translator: which UpdateTo entry point Updater calls is read from the Go AST (Gen/Consts.v self_update_validates)"],
    "level_text": "Kernel-checked theorems about Model/SelfUpdate.v for all catalogues, running versions, version orders and fault patterns (failing listing, failing downloads, corrupt archive): whatever is installed is the decompressed asset for this platform of a published non-draft release that is not <= the running version (an incomparable version counts as older) and - provided the code installs through the validating updater, which is regenerated from the source and pinned - its bytes hash to the value the release's checksum file records for it; in every other situation the executable is byte-identical; a checksum mismatch, a missing checksum file and a not-newer release never install. The defect this check found (install through the non-validating package-level UpdateTo) is repaired in /repo (fix: 1c39816); its model witness is kept. Tied by pins and by runs of the unmodified binary (three running versions) against generated catalogues served by the local stand-in: sha256 of the executable copy before/after, exit status, requests; compared with the model and with the property directly.",
    "level_note": "Trusted: Coq kernel, translator, extraction, harness, and the oracle models of the library calls named above. Library internals, TLS and the atomicity of the replacement are exercised, not proved.",
    "assumptions": ["semver precedence as implemented by Masterminds/semver (used as ranks)", "linux/amd64 sandbox"],
}

NOT_APPLICABLE = {}
