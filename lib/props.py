"""Per-property configuration of ./check: correspondence/oracle suites, extra trusted-base lines."""

TRUSTED_BASE = [
    "Coq 8.16.1 kernel (coqc, full .vo build); vm_compute used only in closed Examples; no native_compute",
    "no Axiom/Parameter/Admitted in the development (grep gate on every run)",
    "translator harness/gen.go (go/parser): regenerates coq/Gen/{Patterns,Lits,Consts}.v from /repo on every run; pin lemmas coq/Tie/Pin_*.v re-proved by reflexivity",
    "extraction: Require Extraction + ExtrOcamlBasic only (bool, option, unit, list, prod, sumbool, sumor, andb, orb mapped to OCaml); N/positive/nat stay Coq datatypes; OCaml 4.13.1; ocaml/driver.ml converts encodings only",
    "correspondence harness (/verif/harness, Go, build tag verif) and its generators; models are hand-written transcriptions of the Go functions named in the Gallina files",
]

PROPS = {
    "C18": {
        "suites": ["rule_id", "find_root"],
        "trusted": ["cobra/pflag flag parsing and filepath.Abs are not modelled; os.Stat is the predicate `has`"],
        "level_text": "Kernel-checked theorems (all argument strings, all start directories and file-system predicates) about Gallina transcriptions of parseRuleId and findRootDirectory: acceptance iff the grammar NNNNNN[-chainK][.ra] with K below 2^bits (bits read from the source), resolution of id/file/offset, no wrap-around, nearest-ancestor root; tied to the code by pins on the regenerated pattern/literals and by differential runs of the extracted model against the real functions.",
        "level_note": "Trusted: Coq kernel, translator, extraction, harness generators. Modelled, not verified: the Go functions themselves (hand transcription, checked by correspondence); cobra flag handling, filepath.Abs and os.Stat are outside the model; generate-from-stdin equality is exercised through the CLI only.",
        "assumptions": ["a cleaned absolute path is the list of its components; the file system does not change during the command"],
    },
}

NOT_APPLICABLE = {}
