#!/usr/bin/env python3
"""confirm_mutant.py <PROP> <K> [--keep]
Confirms a seeded change in its scratch worktree /tmp/wt-<PROP> (checked out at /repo's HEAD):
  1. demonstration passes on the unchanged tree
  2. with the patch: builds (also -tags verif), the existing suite fails only the six network tests,
     the demonstration fails
and, when all of that holds, copies it to /verif/seeded/<PROP>-<K>/ (patch.diff, demo, README.md, meta.json).
"""
import json, os, re, shutil, subprocess, sys

ENV = dict(os.environ, GOFLAGS="-mod=mod", GOPROXY="off", GOSUMDB="off", GOTOOLCHAIN="local")
NETWORK = {"TestRunSelfUpdateTestSuite", "TestRunUpdaterTestSuite"}


def sh(cmd, cwd, timeout=900):
    r = subprocess.run(cmd, shell=True, cwd=cwd, env=ENV, stdout=subprocess.PIPE, stderr=subprocess.STDOUT, text=True, timeout=timeout)
    return r.returncode, r.stdout


def demo_commands(wt, k):
    d = os.path.join(wt, "mutants", str(k))
    for name in ("run_demo.sh", "demo.sh"):
        if os.path.exists(os.path.join(d, name)):
            return [f"bash mutants/{k}/{name}"], None
    text = open(os.path.join(d, "README.md")).read() + "\n" + open(os.path.join(d, "demo_test.go")).read()
    cp = re.search(r"cp mutants/%s/demo_test\.go (\S+)" % k, text)
    dest = None
    if cp:
        dest = cp.group(1).rstrip("`.,)")
        if dest.endswith("/"):
            dest += "demo_test.go"
    else:
        m = re.search(r"[Cc]opy (?:it |this file )?to `?([\w/\.]+_test\.go)`?", text)
        if m:
            dest = m.group(1)
    gt = None
    for m in re.finditer(r"(go test [^\n`]*)", text):
        c = m.group(1).strip()
        if "-run" in c or "./mutants/" in c:
            gt = c.split("->")[0].split("#")[0].strip()
            gt = re.sub(r"^cd \S+ && ", "", gt)
            break
    if gt is None:
        return None, None
    cmds = []
    if dest and "./mutants/" not in gt:
        cmds.append(f"cp mutants/{k}/demo_test.go {dest}")
    cmds.append(gt)
    return cmds, (dest if dest and "./mutants/" not in gt else None)


def run_demo(wt, cmds, dest):
    try:
        rc, out = 0, ""
        for c in cmds:
            rc, o = sh(c, wt, timeout=1500)
            out += f"$ {c}\n{o[-1500:]}\n"
            if rc != 0:
                break
        return rc, out
    finally:
        if dest and os.path.exists(os.path.join(wt, dest)):
            os.remove(os.path.join(wt, dest))


def main():
    prop, k = sys.argv[1], sys.argv[2]
    prefix = os.environ.get("WT_PREFIX", "/tmp/wt-")
    offset = int(os.environ.get("ID_OFFSET", "0"))
    wt = f"{prefix}{prop}"
    head = subprocess.run("git -C /repo rev-parse HEAD", shell=True, stdout=subprocess.PIPE, text=True).stdout.strip()
    sh("git checkout -q -- . ; git checkout -q --detach " + head, wt)
    patch = os.path.join(wt, "mutants", str(k), "patch.diff")
    cmds, dest = demo_commands(wt, k)
    report = {"property": prop, "mutant": k, "repo_head": head, "demo_commands": cmds}
    if not cmds:
        print("NO-DEMO-COMMAND", prop, k)
        return 2
    rc0, out0 = run_demo(wt, cmds, dest)
    report["demo_on_unchanged_tree"] = {"exit": rc0, "tail": out0[-600:]}
    rc, out = sh(f"git apply --check {patch} && git apply {patch}", wt)
    if rc != 0:
        print("PATCH-DOES-NOT-APPLY", prop, k, out[-300:])
        sh("git checkout -q -- .", wt)
        return 2
    try:
        rcb, outb = sh("go build ./... && go build -tags verif ./...", wt)
        rct, outt = sh("go test -vet=off -count=1 ./... 2>&1 | grep -E '^(--- FAIL|FAIL|ok|panic)'", wt)
        failed = set(re.findall(r"--- FAIL: (\w+)", outt))
        report["build"] = rcb
        report["suite_failures_with_patch"] = sorted(failed)
        rc1, out1 = run_demo(wt, cmds, dest)
        report["demo_with_patch"] = {"exit": rc1, "tail": out1[-600:]}
    finally:
        sh("git checkout -q -- . ; git clean -fdq -- . ':!mutants'", wt)
    ok = rc0 == 0 and rcb == 0 and failed <= NETWORK and rc1 != 0
    report["confirmed"] = ok
    print(("CONFIRMED" if ok else "NOT-CONFIRMED"), prop, k, f"demo clean={rc0} build={rcb} suite_fail={sorted(failed)} demo patched={rc1}")
    if ok:
        dst = f"/verif/seeded/{prop}-{int(k) + offset}"
        os.makedirs(dst, exist_ok=True)
        for f in os.listdir(os.path.join(wt, "mutants", str(k))):
            if f.endswith((".diff", ".go", ".sh", ".md")):
                shutil.copy(os.path.join(wt, "mutants", str(k), f), dst)
        meta_path = os.path.join(dst, "meta.json")
        meta = json.load(open(meta_path)) if os.path.exists(meta_path) else {}
        meta.update({"breaks_property": prop, "confirmed_in_scratch_worktree": report})
        json.dump(meta, open(meta_path, "w"), indent=1)
    else:
        json.dump(report, open(f"/tmp/mut/notconfirmed-{prop}-{k}.json", "w"), indent=1)
    return 0 if ok else 1


if __name__ == "__main__":
    sys.exit(main())
