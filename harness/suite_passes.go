package main

import (
	"fmt"
	"sort"
	"strconv"
	"strings"
	"time"

	"github.com/coreruleset/crs-toolchain/v2/regex"
	"github.com/coreruleset/crs-toolchain/v2/regex/operators"
	"github.com/coreruleset/crs-toolchain/v2/regex/parser"
	"github.com/coreruleset/crs-toolchain/v2/regex/processors"
	"github.com/coreruleset/crs-toolchain/v2/utils"
)

func init() {
	register("passes", suitePasses)
	register("cmdline_fn", suiteCmdlineFn)
	register("expand_defs", suiteExpandDefs)
	register("replace_suffixes", suiteReplaceSuffixes)
}

// fragments of regex text as rassemble / regexp/syntax print it, plus hostile ones
var rxFrags = []string{"a", "b", "foo", "(?:", ")", "(", "|", "\\(", "\\)", "\\\\", "\\", "\"", "\\\"", "[", "]", "[^a]", "[a-z]", "\\t\\n\\f\\r ", "[\\t\\n\\f\\r ]", "[\\t\\n\\f\\r -/]",
	"(?i:", "(?s:", "(?-s:", "(?i)", "(?s)", "(?m:", "(?U:", "(?-m:", "(?is:", "(?:)", "(?i:x|y)", "(?s:.)", ".", "*", "+", "?", "^", "$", "\\x5c", "\\x{e9}", "\\x0b", "é", "\x01", "\x7f", "\xff", "\xc3", " ", "\t", "\n",
	"\\s", "\\S", "\\d", "\\b", "{2,3}", "x|y", "\\(?i:x", "(?", "?i:", "@", "~", "'", "-", "\\.", "\\-"}

// texts the optimiser's printer produces around flag groups, kept as a fixed corpus: a group with
// an alternation at offset 0 followed by more text, groups nested in the outer (?-s: ) group, two
// groups in a row with a backslash in front, a group in a text without ^ $ .
var passCorpus = []string{"(?i:a|b)c", "(?s:.c|d)y.", "(?-s:(?s:.c|d)y.)", "(?i:ab)cd", "(?s)foo(?i:BAR)", "pre(?i:SELECT|UNION)",
	"ab\\.c(?i:d)ef(?s:.)", "(?s)ab\\.c(?i:d)ef(?s:.)", "x(?i:a)(?s:.)\\(?m:y", "(?i:a)(?s:.)b\\.(?m:^)c", "(?m:^)a|(?s:.)b", "(?-s:.)(?s:.)x\\(?i:y(?i:z)",
	"\\\\(?i:a)\\(?s:.)", "(?i:(?s:.)a|b)c(?m:$)", "a(?i:b)c\\\\d(?s:.)e",
	// groups that set one flag and clear another (an anchor and a dot in one alternation are printed so)
	"(?m-s:^a.c|b)", "(?m-s:^a.c)", "x(?m-s:^.)y", "(?i-s:a.)b", "(?s-m:.$)", "(?s)(?m-s:^a.c|b)"}

func genRxText(r *Rng) string {
	n := r.Range(0, 9)
	var sb strings.Builder
	for i := 0; i < n; i++ {
		sb.WriteString(r.Pick(rxFrags))
	}
	s := sb.String()
	if r.Chance(1, 4) {
		s = "(?:" + s + ")"
	}
	if r.Chance(1, 10) {
		s = r.Mutate(s, "()|\\\"?:is-", 2)
	}
	return s
}

// well-formed regex text: printed by Go's own printer after parsing
func genRxPrinted(r *Rng) string {
	for i := 0; i < 20; i++ {
		t := genEntryText(r)
		if re, err := syntaxParse(t, false, false); err == nil {
			return re.String()
		}
	}
	return "a"
}

// passHangs: how often a pass did not return; a pass that hung twice is not called again (a
// hung call keeps spinning in its goroutine)
var passHangs = map[string]int{}

func callPassOnce(f func() string) (out string) {
	defer func() {
		if p := recover(); p != nil {
			out = "CRASH"
		}
	}()
	return "OK\t" + hx(f())
}

// callPass: "" = not called (the pass hung twice before)
func callPass(name string, f func() string) string {
	if passHangs[name] >= 2 {
		return ""
	}
	ch := make(chan string, 1)
	go func() { ch <- callPassOnce(f) }()
	select {
	case out := <-ch:
		return out
	case <-time.After(5 * time.Second):
		passHangs[name]++
		return "HANG"
	}
}

func suitePasses(env *Env, res *Result) {
	res.Rule = "regex-like texts built from printer fragments, flag groups, escapes, quotes, control and non-ASCII bytes (25% printed by Go's regexp/syntax from generated entries, 10% byte mutants) x every string pass of operators/assembler.go and utils.IsEscaped/regex.IsEscaped/findGroupBodyEnd/removeGroup at generated positions; Go function (panic = CRASH) vs. Gallina model; non-trivial = the pass changes the text or crashes"
	r := NewRng(env.Seed + 11)
	n := env.N(1200, 30000)
	var cases []CorrCase
	add := func(name string, in string, impl string, extra ...string) {
		if impl == "" {
			return
		}
		if impl == "HANG" {
			res.addFailure(Failure{Kind: "C19", Shape: "pass_hang", Input: map[string]interface{}{"pass": name, "text": in, "extra": extra}, Detail: name + " did not return within 5 s"})
		}
		class := ""
		if impl != "OK\t"+hx(in) {
			class = name
		}
		f := append([]string{"pass", name, hx(in)}, extra...)
		cases = append(cases, CorrCase{Fields: f, Impl: impl, Human: name + " " + strconv.Quote(in) + " " + strings.Join(extra, " "), Class: class})
	}
	for i := 0; i < n+len(passCorpus); i++ {
		var t string
		if i < len(passCorpus) {
			t = passCorpus[i]
		} else if r.Chance(1, 4) {
			t = genRxPrinted(r)
		} else {
			t = genRxText(r)
		}
		add("escape_dq", t, callPass("escape_dq", func() string { return operators.VerifEscapeDoublequotes(t) }))
		add("hex_bs", t, callPass("hex_bs", func() string { return operators.VerifUseHexBackslashes(t) }))
		add("include_vt", t, callPass("include_vt", func() string { return operators.VerifIncludeVerticalTabInSpaceClass(t) }))
		add("hex_escapes", t, callPass("hex_escapes", func() string { return operators.VerifUseHexEscapes(t) }))
		add("dont_use_flags", t, callPass("dont_use_flags", func() string { return operators.VerifDontUseFlagsForMetaCharacters(t) }))
		add("remove_outermost", t, callPass("remove_outermost", func() string { return operators.VerifRemoveOutermostNonCapturingGroup(t) }))
		// the chain as complete() runs it
		add("final_passes", t, callPass("final_passes", func() string {
			s := operators.VerifUseHexEscapes(t)
			s = operators.VerifEscapeDoublequotes(s)
			s = operators.VerifUseHexBackslashes(s)
			s = operators.VerifIncludeVerticalTabInSpaceClass(s)
			s = operators.VerifDontUseFlagsForMetaCharacters(s)
			return operators.VerifRemoveOutermostNonCapturingGroup(s)
		}))
		if len(t) > 0 {
			pos := r.Intn(len(t) + 1)
			e1 := utils.IsEscaped(t, pos)
			e2 := regex.IsEscaped(t, pos)
			impl := strconv.FormatBool(e1)
			if e1 != e2 {
				impl = "DIFFERENT-IMPLEMENTATIONS"
			}
			cls := ""
			if e1 {
				cls = "is_escaped"
			}
			cases = append(cases, CorrCase{Fields: []string{"pass", "is_escaped", hx(t), strconv.Itoa(pos)}, Impl: impl, Human: "is_escaped " + strconv.Quote(t) + " " + strconv.Itoa(pos), Class: cls})
			start := r.Intn(len(t) + 2)
			impl = func() (out string) {
				defer func() {
					if p := recover(); p != nil {
						out = "CRASH"
					}
				}()
				e, a := operators.VerifFindGroupBodyEnd(t, start)
				return fmt.Sprintf("OK\t%d\t%v", e, a)
			}()
			cases = append(cases, CorrCase{Fields: []string{"pass", "find_group_body_end", hx(t), strconv.Itoa(start)}, Impl: impl, Human: "find_group_body_end " + strconv.Quote(t) + " " + strconv.Itoa(start), Class: "fgbe"})
			gs := r.Intn(len(t) + 1)
			bs := gs + r.Intn(len(t)-gs+1)
			ign := r.Chance(1, 2)
			add("remove_group", t, callPass("remove_group", func() string { return operators.VerifRemoveGroup(t, gs, bs, ign) }), strconv.Itoa(gs), strconv.Itoa(bs), strconv.FormatBool(ign))
		}
	}
	outs := compareWithModel(env, res, cases)
	judgePassMismatches(env, res, cases, outs)
}

// A pass on which the code and the model disagree is judged on the property itself: the model is
// the faithful transcription of the unchanged code, so its output is what the code used to
// produce.  If the code's output now means something else (C01: decided by the verified checker,
// confirmed on Go's engine), or breaks the shape the rule line needs while the model's output has
// it (C02), that input is a failing input; a harmless rewrite produces neither.
func judgePassMismatches(env *Env, res *Result, cases []CorrCase, outs []string) {
	if outs == nil {
		return
	}
	type jc struct {
		name, in, impl, model string
	}
	var todo []jc
	for i, c := range cases {
		if len(todo) >= 60 {
			break
		}
		if outs[i] == c.Impl || len(c.Fields) < 3 || c.Fields[0] != "pass" {
			continue
		}
		switch c.Fields[1] {
		case "escape_dq", "hex_bs", "include_vt", "hex_escapes", "dont_use_flags", "remove_outermost", "final_passes":
		default:
			continue
		}
		if !strings.HasPrefix(c.Impl, "OK\t") || !strings.HasPrefix(outs[i], "OK\t") {
			continue
		}
		todo = append(todo, jc{c.Fields[1], unhx(c.Fields[2]), unhx(strings.TrimPrefix(c.Impl, "OK\t")), unhx(strings.TrimPrefix(outs[i], "OK\t"))})
	}
	var eq [][]string
	var eqIdx []int
	for k, t := range todo {
		input := map[string]interface{}{"pass": t.name, "text": t.in, "code_output": t.impl, "model_output_of_the_unchanged_code": t.model}
		// C02: the shape of the text that is pasted into the rule line
		if t.name == "final_passes" || t.name == "dont_use_flags" {
			good := map[string]bool{}
			for _, f := range checkOutputShape(t.model, "") {
				good[f] = true
			}
			for _, f := range checkOutputShape(t.impl, "") {
				if !good[f] {
					res.addFailure(Failure{Kind: "C02", Shape: f, Input: input, Detail: "the pass now leaves " + strconv.Quote(clip(t.impl, 200)) + " where it used to give " + strconv.Quote(clip(t.model, 200))})
				}
			}
		}
		r1, e1 := textToRX(t.impl, false, false)
		r2, e2 := textToRX(t.model, false, false)
		if e1 != nil || e2 != nil {
			continue
		}
		eq = append(eq, []string{"equiv", "11", eqFuel(env), r1, r2})
		eqIdx = append(eqIdx, k)
	}
	if len(eq) == 0 {
		return
	}
	vs, err := runDriverParallel(env, eq, 8)
	if err != nil {
		return
	}
	for j, v := range vs {
		t := todo[eqIdx[j]]
		if !strings.HasPrefix(v, "DIFFERS") {
			continue
		}
		w, _ := wordOfVerdict(v)
		for _, ctx := range [][2]bool{{true, true}, {true, false}, {false, true}, {false, false}} {
			a, e1 := matchExact(t.impl, w, ctx[0], ctx[1])
			b, e2 := matchExact(t.model, w, ctx[0], ctx[1])
			if e1 == nil && e2 == nil && a != b {
				res.addFailure(Failure{Kind: "C01", Shape: "c01_pass_changes_language", Input: map[string]interface{}{"pass": t.name, "text": t.in, "code_output": t.impl, "model_output_of_the_unchanged_code": t.model, "witness": w},
					Detail: fmt.Sprintf("subject %q (at start %v, at end %v): the code's output matches %v, the unchanged code's output matches %v", w, ctx[0], ctx[1], a, b)})
				break
			}
		}
	}
}

var cmdWords = []string{"''x", "''", "'''\\s*sh", "ls", "cat", "nc.traditional", "apt-get", "python3", "time", "a b", "w@", "w~", "w\\@", "w\\~", "w\\\\@", "@", "~", "\\@", "'lit.eral", "'", "x", "", "g++", "7z", "c99", "a  b", "é", "-", ".", "a\\", "a@b", "ab@@", "foo\\", "\\", "'x@"}
var evasionPatterns = []string{"", "[^ a-z0-9]*", "[\\x5c'\\\"]*", "_av-u_", "[\"\\^]*", "(?:\\s|<|>).*", "[^a-z]?", "a|b", "(?:x|y)", " [\\s,;]* ", "\\b", "\t_s_\n"}

func genCmdWord(r *Rng) string {
	if r.Chance(2, 3) {
		return r.Pick(cmdWords)
	}
	n := r.Range(1, 8)
	b := make([]byte, n)
	alpha := "abcxyz019.-_ @~\\'"
	for i := range b {
		b[i] = alpha[r.Intn(len(alpha))]
	}
	return string(b)
}

func suiteCmdlineFn(env *Env, res *Result) {
	res.Rule = "command words (CRS-like words, markers @ ~ and their escapes, leading quote, spaces, dots, dashes, backslashes, random words over the same alphabet) x triples of configured patterns (empty, CRS-like, with top-level alternation, with surrounding white space): regexpStr and computeSuffix vs. the Gallina model; non-trivial = output differs from input"
	r := NewRng(env.Seed + 12)
	n := env.N(1500, 40000)
	var cases []CorrCase
	for i := 0; i < n; i++ {
		w := genCmdWord(r)
		ev, sf, ns := r.Pick(evasionPatterns), r.Pick(evasionPatterns), r.Pick(evasionPatterns)
		out := processors.VerifRegexpStr(ev, sf, ns, w)
		// C04 on the function itself: a leading ' passes the rest of the line through untouched
		if strings.HasPrefix(w, "'") && out != w[1:] {
			res.addFailure(Failure{Kind: "C04", Shape: "c04_verbatim_line_changed", Input: map[string]interface{}{"word": w, "evasion": ev},
				Detail: fmt.Sprintf("regexpStr(%q) = %q, the property asks for %q", w, out, w[1:])})
		}
		cls := ""
		if out != w {
			cls = "regexp_str"
		}
		cases = append(cases, CorrCase{Fields: []string{"regexp_str", hx(ev), hx(sf), hx(ns), hx(w)}, Impl: "OK\t" + hx(out), Human: "regexpStr " + strconv.Quote(w) + " ev=" + strconv.Quote(ev), Class: cls})
		a, b := processors.VerifComputeSuffix(ev, sf, ns, w)
		cls = ""
		if a != w {
			cls = "compute_suffix"
		}
		cases = append(cases, CorrCase{Fields: []string{"compute_suffix", hx(ev), hx(sf), hx(ns), hx(w)}, Impl: "OK\t" + hx(a) + "\t" + hx(b), Human: "computeSuffix " + strconv.Quote(w), Class: cls})
	}
	outs := compareWithModel(env, res, cases)
	judgeWordMismatches(env, res, cases, outs)
}

// A command word on which regexpStr and the model disagree is judged on the property: the model's
// text is what the unchanged code makes of the word.  If the code's text is no longer an
// expression, or means something else (verified checker, confirmed on Go's engine), that word is
// a failing input of C04.
func judgeWordMismatches(env *Env, res *Result, cases []CorrCase, outs []string) {
	if outs == nil {
		return
	}
	type jc struct{ word, ev, impl, model string }
	var todo []jc
	for i, c := range cases {
		if len(todo) >= 60 {
			break
		}
		if outs[i] == c.Impl || c.Fields[0] != "regexp_str" || !strings.HasPrefix(c.Impl, "OK\t") || !strings.HasPrefix(outs[i], "OK\t") {
			continue
		}
		todo = append(todo, jc{unhx(c.Fields[4]), unhx(c.Fields[1]), unhx(strings.TrimPrefix(c.Impl, "OK\t")), unhx(strings.TrimPrefix(outs[i], "OK\t"))})
	}
	var eq [][]string
	var eqIdx []int
	for k, t := range todo {
		input := map[string]interface{}{"word": t.word, "evasion": t.ev, "code_output": t.impl, "model_output_of_the_unchanged_code": t.model}
		r2, e2 := textToRX(t.model, false, false)
		if e2 != nil {
			continue // the configured pattern itself is not an expression
		}
		r1, e1 := textToRX(t.impl, false, false)
		if e1 != nil {
			if e1 != errUnsupported {
				res.addFailure(Failure{Kind: "C04", Shape: "c04_word_regex_not_parsable", Input: input, Detail: e1.Error()})
			}
			continue
		}
		eq = append(eq, []string{"equiv", "11", eqFuel(env), r1, r2})
		eqIdx = append(eqIdx, k)
	}
	if len(eq) == 0 {
		return
	}
	vs, err := runDriverParallel(env, eq, 8)
	if err != nil {
		return
	}
	for j, v := range vs {
		t := todo[eqIdx[j]]
		if !strings.HasPrefix(v, "DIFFERS") {
			continue
		}
		w, _ := wordOfVerdict(v)
		for _, ctx := range [][2]bool{{true, true}, {true, false}, {false, true}, {false, false}} {
			a, e1 := matchExact(t.impl, w, ctx[0], ctx[1])
			b, e2 := matchExact(t.model, w, ctx[0], ctx[1])
			if e1 == nil && e2 == nil && a != b {
				res.addFailure(Failure{Kind: "C04", Shape: "c04_word_regex_changes_language", Input: map[string]interface{}{"word": t.word, "evasion": t.ev, "code_output": t.impl, "model_output_of_the_unchanged_code": t.model, "witness": w},
					Detail: fmt.Sprintf("subject %q: the code's text matches %v, the unchanged code's text matches %v", w, a, b)})
				break
			}
		}
	}
}

func smapArg(m map[string]string, keys []string) string {
	if len(keys) == 0 {
		return "."
	}
	parts := make([]string, len(keys))
	for i, k := range keys {
		parts[i] = hx(k) + "=" + hx(m[k])
	}
	return strings.Join(parts, ",")
}

var defNames = []string{"a", "b", "c", "name", "x-1", "A_b", "ab"}

// genDefs returns definitions; acyclic and brace-safe unless hostile
func genDefs(r *Rng, hostile bool) (map[string]string, []string) {
	n := r.Range(0, 4)
	names := []string{}
	m := map[string]string{}
	for len(names) < n {
		nm := r.Pick(defNames)
		if _, ok := m[nm]; ok {
			continue
		}
		names = append(names, nm)
		m[nm] = ""
	}
	for i, nm := range names {
		var sb strings.Builder
		k := r.Range(1, 3)
		for j := 0; j < k; j++ {
			switch r.Intn(5) {
			case 0:
				// reference to a later name (acyclic by index), or any name when hostile
				if hostile && len(names) > 0 {
					sb.WriteString("{{" + r.Pick(names) + "}}")
				} else if i+1 < len(names) {
					sb.WriteString("{{" + names[i+1+r.Intn(len(names)-i-1)] + "}}")
				} else {
					sb.WriteString("z")
				}
			case 1:
				sb.WriteString(r.Pick([]string{"[a-z]+", "\\d{2,3}", "x{1}", "(?:p|q)", "{{undefined}}", "a{2}"}))
			case 2:
				if hostile {
					sb.WriteString(r.Pick([]string{"{{", "}}", "{", "}", "{{a", "b}}", "{{{{a}}}}"}))
				} else {
					sb.WriteString("w")
				}
			default:
				sb.WriteString(r.Pick([]string{"foo", "bar", ".", "\\s", "é"}))
			}
		}
		m[nm] = sb.String()
	}
	return m, names
}

func genDefSource(r *Rng, names []string, hostile bool) string {
	var sb strings.Builder
	lines := r.Range(1, 4)
	for i := 0; i < lines; i++ {
		k := r.Range(1, 4)
		for j := 0; j < k; j++ {
			switch r.Intn(4) {
			case 0:
				if len(names) > 0 {
					sb.WriteString("{{" + r.Pick(names) + "}}")
				}
			case 1:
				sb.WriteString(r.Pick([]string{"{{nope}}", "x{2,3}", "{", "}", "a"}))
			case 2:
				if hostile {
					sb.WriteString(r.Pick([]string{"{{", "}}", "{{{{a}}}}", "{{a}", "{a}}"}))
				}
			default:
				sb.WriteString(r.Pick([]string{"foo", "b|c", "(?:x)", "\\{\\{a\\}\\}"}))
			}
		}
		sb.WriteString("\n")
	}
	return sb.String()
}

func expandWithTimeout(src string, vars map[string]string) (string, bool) {
	ch := make(chan string, 1)
	go func() { ch <- parser.VerifExpandDefinitions(src, vars) }()
	select {
	case o := <-ch:
		return o, false
	case <-time.After(3 * time.Second):
		return "", true
	}
}

func suiteExpandDefs(env *Env, res *Result) {
	res.Rule = "0..4 definitions (acyclic reference chains, values with quantifier braces, undefined references; 25% hostile: cycles, self references, stray and nested braces) x sources with references at any position: expandDefinitions (Go map order) vs. the set of results of the Gallina model over all orders of both loops (all 576 order pairs of both loops); non-trivial = some reference is replaced"
	r := NewRng(env.Seed + 13)
	n := env.N(1200, 30000)
	var cases []CorrCase
	var hostiles []bool
	var inputs [][2]interface{}
	for i := 0; i < n; i++ {
		hostile := r.Chance(1, 4)
		m, names := genDefs(r, hostile)
		src := genDefSource(r, names, hostile)
		if len(names) > 0 && r.Chance(1, 8) {
			// a prefix or suffix line is expanded on its own, without a line break: the text IS the reference
			src = r.Pick([]string{"", "a", "\\b"}) + "{{" + r.Pick(names) + "}}"
		}
		cp := map[string]string{}
		for k, v := range m {
			cp[k] = v
		}
		out, hung := expandWithTimeout(src, cp)
		if hung {
			res.addFailure(Failure{Kind: "C19", Shape: "expand_definitions_hang", Input: map[string]interface{}{"definitions": m, "source": src}, Detail: "expandDefinitions did not return within 3 s"})
			cases = append(cases, CorrCase{Fields: []string{"expand_defs", smapArg(m, names), hx(src), "hostile"}, Impl: "HANG", Human: fmt.Sprintf("expand %q in %q", m, src), Class: "hang"})
			hostiles = append(hostiles, true)
			inputs = append(inputs, [2]interface{}{m, src})
			continue
		}
		cls := ""
		if out != src {
			cls = "expand"
			if hostile {
				cls = "expand-hostile"
			}
		}
		mode := "safe"
		if hostile {
			mode = "hostile"
		}
		cases = append(cases, CorrCase{Fields: []string{"expand_defs", smapArg(m, names), hx(src), mode}, Impl: "OK\t" + hx(out), Human: fmt.Sprintf("expand %q in %q", m, src), Class: cls})
		hostiles = append(hostiles, hostile)
		inputs = append(inputs, [2]interface{}{m, src})
	}
	outs := compareWithModelAlt(env, res, cases)
	for i, o := range outs {
		if !strings.HasPrefix(o, "ORDER-DEPENDENT") {
			continue
		}
		if hostiles[i] {
			res.count("order-dependent-outside-quantifier(cyclic/computed names)")
			continue
		}
		// acyclic, brace-safe definitions whose expansion depends on the iteration order: show it on the code
		m := inputs[i][0].(map[string]string)
		src := inputs[i][1].(string)
		seen := map[string]bool{}
		for k := 0; k < 60 && len(seen) < 2; k++ {
			cp := map[string]string{}
			for a, b := range m {
				cp[a] = b
			}
			seen[parser.VerifExpandDefinitions(src, cp)] = true
		}
		if len(seen) > 1 {
			f := Failure{Kind: "C07", Shape: "c07_expansion_order_dependent", Input: map[string]interface{}{"definitions": m, "source": src}, Detail: "expandDefinitions gives different results for different map iteration orders"}
			res.addFailure(f)
			f.Kind = "C03"
			res.addFailure(f)
		}
	}
}

var suffixKeys = []string{"@", "~", "a", "b", "c", "xa", "ing", "s", "\"\"", "é", "ab", "\\b", "ub", ">", "<", "e"}

func genPairMap(r *Rng) (map[string]string, []string) {
	n := r.Range(1, 4)
	m := map[string]string{}
	keys := []string{}
	for len(keys) < n {
		k := r.Pick(suffixKeys)
		if _, ok := m[k]; ok {
			continue
		}
		keys = append(keys, k)
		m[k] = r.Pick(suffixKeys)
	}
	return m, keys
}

func suiteReplaceSuffixes(env *Env, res *Result) {
	res.Rule = "word-list contents (entries ending in pair keys, comments, ##! lines, blanks, CRLF, missing final newline) x nil or 1..4 replacement pairs (values that are other pairs' keys, the empty marker): replaceSuffixes (Go map order per entry) vs. the set of results of the Gallina model over all orders; non-trivial = some entry is rewritten"
	r := NewRng(env.Seed + 14)
	n := env.N(1200, 30000)
	var cases []CorrCase
	rsInputs := map[int][2]interface{}{}
	for i := 0; i < n; i++ {
		var sb strings.Builder
		lines := r.Range(0, 6)
		for j := 0; j < lines; j++ {
			switch r.Intn(8) {
			case 0:
				sb.WriteString(r.Pick([]string{"##! comment a", "##!> assemble", "##!<", "", " ", "\t", "  # a", "##!=>", "##!=< x", "##!=> x", "##!^ pre", "##!$ post>"}))
			default:
				e := r.Pick([]string{"x", "foo", "cmd", "w", "ya", "zb", "time", "ls", "user@", "grub", "xa"}) + r.Pick(append([]string{"", ""}, suffixKeys...))
				if r.Chance(1, 6) {
					e += r.Pick(suffixKeys) // the key twice, or a key right after another one
				}
				sb.WriteString(e)
			}
			if r.Chance(1, 10) {
				sb.WriteString("\r")
			}
			if j < lines-1 || r.Chance(5, 6) {
				sb.WriteString("\n")
			}
		}
		content := sb.String()
		if r.Chance(1, 6) {
			out, _ := parser.VerifReplaceSuffixes(content, nil)
			cases = append(cases, CorrCase{Fields: []string{"replace_suffixes", "nil", hx(content)}, Impl: "OK\t" + hx(out), Human: "replaceSuffixes nil " + strconv.Quote(content)})
			continue
		}
		m, keys := genPairMap(r)
		if len(keys) > 1 {
			// the Go map is ranged over anew for every entry: several pairs are compared on one-line contents
			content = strings.SplitN(content, "\n", 2)[0] + "\n"
		}
		out, _ := parser.VerifReplaceSuffixes(content, m)
		cls := ""
		if out != content {
			cls = "rewrite"
		}
		sort.Strings(keys)
		cases = append(cases, CorrCase{Fields: []string{"replace_suffixes", smapArg(m, keys), hx(content)}, Impl: "OK\t" + hx(out), Human: fmt.Sprintf("replaceSuffixes %q %q", m, content), Class: cls})
		rsInputs[len(cases)-1] = [2]interface{}{m, content}
	}
	outs := compareWithModelAlt(env, res, cases)
	// C06 directly on the code, for a single pair (no order involved): an entry that ends in the key
	// gets exactly that ending replaced (deleted for the empty marker), everything else is untouched
	for i := range cases {
		in, ok := rsInputs[i]
		if !ok {
			continue
		}
		m := in[0].(map[string]string)
		content := in[1].(string)
		if len(m) != 1 || strings.Contains(content, "\r") {
			continue
		}
		var key, val string
		for k, v := range m {
			key, val = k, v
		}
		var want strings.Builder
		for _, l := range strings.Split(strings.TrimSuffix(content, "\n"), "\n") {
			if content == "" {
				break
			}
			isSkip := strings.HasPrefix(l, "##!") || strings.TrimLeft(l, " \t\n\f\r") == ""
			if !isSkip && strings.HasSuffix(l, key) {
				l = l[:len(l)-len(key)]
				if val != "\"\"" {
					l += val
				}
			}
			want.WriteString(l + "\n")
		}
		got, _ := parser.VerifReplaceSuffixes(content, m)
		if got != want.String() {
			res.addFailure(Failure{Kind: "C06", Shape: "c06_suffix_rewrite_wrong", Input: map[string]interface{}{"pairs": m, "content": content}, Detail: fmt.Sprintf("got %q, the property asks for %q", got, want.String())})
		}
	}
	for i, o := range outs {
		if !strings.HasPrefix(o, "ORDER-DEPENDENT") {
			// the faithful model gives ONE result for every iteration order: the code must not give two
			if in, ok := rsInputs[i]; ok && len(in[0].(map[string]string)) >= 2 {
				m := in[0].(map[string]string)
				content := in[1].(string)
				seen := map[string]bool{}
				for k := 0; k < 40 && len(seen) < 2; k++ {
					o2, _ := parser.VerifReplaceSuffixes(content, m)
					seen[o2] = true
				}
				if len(seen) > 1 {
					var got []string
					for k := range seen {
						got = append(got, k)
					}
					sort.Strings(got)
					res.addFailure(Failure{Kind: "C03", Shape: "c03_suffix_rewrite_nondeterministic", Input: map[string]interface{}{"pairs": m, "content": content}, Detail: fmt.Sprintf("non-interfering pairs (the model gives one result for every iteration order) but repeated calls of replaceSuffixes give %q", got)})
				}
			}
			continue
		}
		in, ok := rsInputs[i]
		if !ok {
			continue
		}
		m := in[0].(map[string]string)
		content := in[1].(string)
		seen := map[string]bool{}
		for k := 0; k < 60 && len(seen) < 2; k++ {
			o2, _ := parser.VerifReplaceSuffixes(content, m)
			seen[o2] = true
		}
		if len(seen) > 1 {
			f := Failure{Kind: "C06", Shape: "c06_chained_suffix_pairs", Input: map[string]interface{}{"pairs": m, "content": content}, Detail: "replaceSuffixes gives different results for different map iteration orders (a replacement ends in another pair's key, or two keys are suffixes of the entry)"}
			res.addFailure(f)
			f.Kind = "C03"
			f.Shape = "c03_chained_suffix_pairs"
			res.addFailure(f)
		}
	}
}
