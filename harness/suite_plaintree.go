package main

import (
	"os"
	"strconv"
	"strings"
)

// plain_tree: the plain-reading MACHINE of the C01 refinement theorem (Model/PlainReading.v,
// instantiated with syntax trees in Model/PlainTree.v) reads the buffer the real parser hands to
// the assembler; the harness reads the generated program as a tree (structure, not text).  Both
// must arrive at the same tree - or both at "undefined" / "nothing".

func init() { register("plain_tree", suitePlainTree) }

type ptEntry struct {
	seq bool
	s   string
}

type ptCtx struct {
	p     *Prog
	defs  map[string]string
	stash map[string]*string
	undef bool
	evs   [2]string // trimmed evasion pattern: unix, windows
}

func ptAlt(es []ptEntry) string {
	parts := make([]string, len(es))
	for i, e := range es {
		parts[i] = e.s
	}
	return "A" + strconv.Itoa(len(es)) + "(" + strings.Join(parts, ",") + ")"
}

func ptCat(o *string, x string) *string {
	if o == nil {
		return &x
	}
	s := "K(" + *o + "," + x + ")"
	return &s
}

// block: nil = the block describes nothing
func (c *ptCtx) block(items []*Item) *string {
	var pending []ptEntry
	var out *string
	flush := func() {
		switch len(pending) {
		case 0:
		case 1:
			if !pending[0].seq {
				c.undef = true
			}
			out = ptCat(out, ptAlt(pending))
		default:
			out = ptCat(out, ptAlt(pending))
		}
		pending = nil
	}
	for _, it := range items {
		switch it.Kind {
		case "entry":
			t := strings.TrimLeft(substDefs(it.Text, c.defs), " \t")
			pending = append(pending, ptEntry{seq: !needsGroup(t), s: "L" + hx(t)})
		case "assemble":
			if sub := c.block(it.Kids); sub != nil {
				pending = append(pending, ptEntry{seq: true, s: *sub})
			}
		case "cmdline":
			idx := 0
			if it.CmdType == "windows" {
				idx = 1
			}
			var words []ptEntry
			for _, k := range it.Kids {
				switch k.Kind {
				case "entry":
					t := strings.TrimLeft(substDefs(k.Text, c.defs), " \t")
					if t != "" {
						words = append(words, ptEntry{s: "W" + hx(c.evs[idx]) + ":" + hx(t)})
					}
				case "define", "comment", "blank":
				default:
					c.undef = true // nested blocks and markers inside cmdline: outside the compared fragment
				}
			}
			if len(words) == 0 {
				c.undef = true
			} else {
				pending = append(pending, ptEntry{seq: false, s: ptAlt(words)})
			}
		case "concat":
			flush()
		case "store":
			flush()
			c.stash[it.Text] = out
			out = nil
		case "append":
			flush()
			v, ok := c.stash[it.Text]
			if !ok {
				c.undef = true
			} else if v != nil {
				out = ptCat(out, *v)
			}
		case "include", "raw":
			c.undef = true
		}
	}
	switch {
	case out == nil && len(pending) == 0:
		return nil
	case len(pending) == 0:
		return out
	default:
		return ptCat(out, ptAlt(pending))
	}
}

func hasIncludeOrRaw(items []*Item) bool {
	for _, it := range items {
		if it.Kind == "include" || it.Kind == "raw" || hasIncludeOrRaw(it.Kids) {
			return true
		}
	}
	return false
}

func suitePlainTree(env *Env, res *Result) {
	res.Rule = "generated programs without include lines (entries with and without top-level alternation, nested assemble and cmdline blocks, ##!=> / ##!=< name / ##!=> name, definitions, prefixes, suffixes, clean and messy layout): the buffer the REAL parser hands over (hook VerifParse) is read by the plain-reading machine of the refinement theorem (Model/PlainReading.v over syntax trees) and the program tree is read structurally by the harness; the two trees (or 'undefined' / 'nothing') must be equal; non-trivial = a tree with at least one concatenation or nested block"
	r := NewRng(env.Seed + 4242)
	n := env.N(200, 6000)
	var cases []CorrCase
	for i := 0; i < n; i++ {
		rr := r.Fork()
		p := genProg(rr, []string{"", "cmdline", "defs"}[rr.Intn(3)])
		p.normalise()
		if len(p.Files) > 0 || hasIncludeOrRaw(p.Body) {
			res.count("skipped:include")
			continue
		}
		o := &renderOpts{r: rr.Fork(), messy: rr.Chance(1, 3)}
		text := p.Render(o)
		tree := p.Tree("942100", text, o)
		root := mkScratch(env, "pt")
		writeTree(root, tree)
		buf, ok := parseWithRoot(root, text)
		_ = os.RemoveAll(root)
		if !ok {
			res.count("skipped:parser-panic")
			continue
		}
		defs := map[string]string{}
		collectDefs(p.Body, defs)
		cfg := p.EffectiveCfg()
		c := &ptCtx{p: p, defs: defs, stash: map[string]*string{}, evs: [2]string{strings.TrimSpace(cfg[0]), strings.TrimSpace(cfg[1])}}
		top := c.block(p.Body)
		impl := "NOTHING"
		switch {
		case c.undef:
			impl = "UNDEF"
		case top != nil:
			impl = *top
		}
		var nonseq []string
		seen := map[string]bool{}
		for _, l := range strings.Split(buf, "\n") {
			if l != "" && !seen[l] && needsGroup(l) {
				seen[l] = true
				nonseq = append(nonseq, hx(l))
			}
		}
		ns := "."
		if len(nonseq) > 0 {
			ns = strings.Join(nonseq, ",")
		}
		cls := ""
		if strings.Contains(impl, "K(") || strings.Count(impl, "A") > 1 {
			cls = "structured"
		}
		if impl == "UNDEF" {
			cls = "undefined"
		}
		cases = append(cases, CorrCase{Fields: []string{"plain_tree", hx(cfg[0]), hx(cfg[1]), hx(cfg[2]), hx(cfg[3]), hx(cfg[4]), hx(cfg[5]), ns, hx(buf)},
			Impl: impl, Human: strconv.Quote(text), Class: cls})
	}
	compareWithModel(env, res, cases)
}
