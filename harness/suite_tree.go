package main

import (
	"fmt"
	"os"
	"path/filepath"
	"sort"
	"strconv"
	"strings"
)

// Whole-tree suites: every command on generated CRS trees with decoys, recursive
// snapshots before and after (C15), --all against single invocations in every order
// (C08), fault injection (C16), and the tree-level model Model/Cli.v.

func init() {
	register("tree_frame", suiteTreeFrame)
	register("tree_all", suiteTreeAll)
	register("tree_faults", suiteTreeFaults)
	register("compare_history", suiteCompareHistory)
}

type crsTarget struct {
	ID    string
	K     int
	File  string // file name below regex-assembly (may be in a sub directory)
	Arg   string
	Valid bool
}

type crsTree struct {
	files       Tree // relative to the scratch dir: "root/..." and "outside/..."
	targets     []crsTarget
	rules       *genRulesFile
	cfg         [6]string
	incName     string
	testIDs     []string
	strictTests map[string]string // strict test file path -> rule id
}

var simpleBodies = []string{"newa\nnewb\n", "select \n", "##!+ i\nunion select \nunion all \n", "a+b$\n", "foo\nfob\n", "##!+ i\nfoo\nfob\n", "##!> assemble\n  a\n  ##!=>\n  b\n##!<\n", "^anchored$\n", "x{2}\ny\n",
	"##!> include words\nextra\n", "##!> cmdline unix\n  ls\n  cat@\n##!<\n", "##!=< st\nq\n##!=> st\nr\n"}

func genCRSTree(r *Rng) *crsTree {
	t := &crsTree{files: Tree{}}
	base := 942100
	t.rules = genRulesFileFor(r, "942", base)
	t.files["root/rules/"+t.rules.Name] = t.rules.Bytes()
	t.files["root/rules/REQUEST-901-INITIALIZATION.conf"] = "# OWASP CRS ver.4.0.0\nSecAction \"id:901001,phase:1,setvar:tx.crs_setup_version=400\"\n"
	t.files["root/rules/unrelated.data"] = "942 data id:942100\n"
	t.files["root/rules/notes.conf.bak"] = "# OWASP CRS ver.4.0.0\n"
	t.files["root/crs-setup.conf.example"] = "# OWASP CRS ver.4.0.0\n# Copyright (c) 2021-2024 CRS project. All rights reserved.\nSecComponentSignature \"OWASP_CRS/4.0.0\"\n"
	t.files["root/README.md"] = "# OWASP CRS ver.4.0.0\n"
	t.files["root/regex-assembly/include/words.ra"] = "ls\ncat\n  time\n"
	t.files["root/regex-assembly/exclude/skip.ra"] = "cat\n"
	t.files["root/regex-assembly/notes.txt"] = "not an assembly file\n  indented\n"
	t.files["root/regex-assembly/1234567.ra"] = "  seven\ndigits\n"
	t.files["root/regex-assembly/include/notes.txt"] = "  not formatted\n"
	t.incName = "words"
	if r.Chance(1, 2) {
		t.cfg = [6]string{"[\\x5c'\\\"]*", "[\"\\^]*", "(?:\\s|<|>).*", "[\\s,;]", "[^\\s]", "[0-9]"}
		t.files["root/regex-assembly/toolchain.yaml"] = renderConfig(t.cfg)
	}
	// assembly files for some @rx rules of the file
	for _, rule := range t.rules.Rules {
		if len(rule.ID) != 6 {
			continue
		}
		for k, sr := range rule.Chain {
			if sr.Operator != "@rx" && sr.Operator != "!@rx" {
				continue
			}
			if !r.Chance(2, 3) {
				continue
			}
			name := rule.ID
			if k > 0 {
				name += "-chain" + strconv.Itoa(k)
			}
			dir := ""
			if r.Chance(1, 8) {
				dir = "sub/"
			}
			t.files["root/regex-assembly/"+dir+name+".ra"] = r.Pick(simpleBodies)
			valid := !commentMentionsBefore(t.rules, rule) && !idPrefixBefore(t.rules, rule)
			t.targets = append(t.targets, crsTarget{ID: rule.ID, K: k, File: dir + name + ".ra", Arg: name, Valid: valid && dir == ""})
		}
	}
	if r.Chance(1, 6) {
		t.files["root/regex-assembly/942100.ra.bak"] = "backup\n"
	}
	if r.Chance(1, 2) {
		// a file that is already formatted and is the LAST one format --all visits: the verdict of
		// --all must not be that of the last file only
		t.files["root/regex-assembly/include/zzz-formatted.ra"] = stdHeader + "\nabc\n"
	}
	if r.Chance(1, 4) {
		// a backup copy of the rules file that also matches the rule-prefix glob and sorts first: update
		// and compare must refuse (two candidates), not pick one
		t.files["root/rules/REQUEST-942-A-BACKUP.bak"] = t.rules.Bytes()
		for i := range t.targets {
			t.targets[i].Valid = false
		}
	}
	if r.Chance(1, 3) {
		// an include file whose name merely ENDS in the id of a rule: it is no assembly file of that rule
		for _, rule := range t.rules.Rules {
			if len(rule.ID) == 6 && len(rule.Chain) > 0 && (rule.Chain[0].Operator == "@rx" || rule.Chain[0].Operator == "!@rx") {
				t.files["root/regex-assembly/include/keywords-"+rule.ID+".ra"] = "keywordone\nkeywordtwo\n"
				break
			}
		}
	}
	if r.Chance(1, 3) {
		// decoys named like an assembly file but WITHOUT the extension: --all must not take them
		for _, rule := range t.rules.Rules {
			if len(rule.ID) == 6 && len(rule.Chain) > 0 && (rule.Chain[0].Operator == "@rx" || rule.Chain[0].Operator == "!@rx") {
				t.files["root/regex-assembly/"+rule.ID] = "intruder\n"
				if len(rule.Chain) > 1 {
					t.files["root/regex-assembly/"+rule.ID+"-chain1"] = "stowaway\n"
				}
				break
			}
		}
	}
	// tests
	td := "root/tests/regression/tests/REQUEST-942-APPLICATION-ATTACK-SQLI/"
	// one tree in three: an earlier file with titles, a later one with both fields per test (what a
	// counter that survives from file to file would get wrong)
	history := r.Chance(1, 3)
	nTests := r.Range(1, 3)
	if history && nTests < 2 {
		nTests = 2
	}
	for i := 0; i < nTests; i++ {
		id := strconv.Itoa(base + i*10)
		y, strict := genYaml(r)
		if history {
			if i == 0 {
				y, strict = genYamlMode(r, 1+r.Intn(2))
			} else {
				y, strict = genYamlMode(r, 2)
			}
		}
		ext := r.Pick([]string{".yaml", ".yaml", ".yml"})
		t.files[td+id+ext] = y
		t.testIDs = append(t.testIDs, id)
		if strict {
			if t.strictTests == nil {
				t.strictTests = map[string]string{}
			}
			t.strictTests[td+id+ext] = id
		}
	}
	t.files[td+"942970.txt"] = "- test_id: 7\n- test_id: 9\n" // the only file for "renumber-tests 942970": not a test file
	t.files[td+"README.md"] = "- test_id: 7\n"
	t.files[td+"942990.yaml.orig"] = "- test_id: 7\n"
	t.files["root/tests/regression/README.yaml"] = "- test_id: 7\n"
	t.files["outside/rules/REQUEST-942-OUTSIDE.conf"] = t.rules.Bytes()
	t.files["outside/crs-setup.conf.example"] = "# OWASP CRS ver.4.0.0\n"
	t.files["outside/942100.ra"] = "  outside\n"
	return t
}

// files below root in filepath.WalkDir order, as the model's tree argument
func treeArg(files Tree) (string, []string) {
	var paths []string
	for p := range files {
		if strings.HasPrefix(p, "root/") && !strings.HasSuffix(p, "/") {
			paths = append(paths, strings.TrimPrefix(p, "root/"))
		}
	}
	sort.Slice(paths, func(i, j int) bool {
		a, b := strings.Split(paths[i], "/"), strings.Split(paths[j], "/")
		for k := 0; k < len(a) && k < len(b); k++ {
			if a[k] != b[k] {
				return a[k] < b[k]
			}
		}
		return len(a) < len(b)
	})
	parts := make([]string, len(paths))
	for i, p := range paths {
		comps := strings.Split(p, "/")
		for k := range comps {
			comps[k] = hx(comps[k])
		}
		parts[i] = strings.Join(comps, "/") + "=" + hx(files["root/"+p])
	}
	if len(parts) == 0 {
		return ".", paths
	}
	return strings.Join(parts, ";"), paths
}

func readTree(dir string) Tree {
	out := Tree{}
	_ = filepath.WalkDir(dir, func(p string, d os.DirEntry, err error) error {
		if err != nil || d.IsDir() {
			return nil
		}
		rel, _ := filepath.Rel(dir, p)
		b, _ := os.ReadFile(p)
		out[rel] = string(b)
		return nil
	})
	return out
}

type treeCmd struct {
	name    string
	args    []string
	inspect bool
	model   string // model command, "" = none
	a1, a2  string
	target  func(rel string) bool // may the command modify this file (relative to the scratch dir)?
}

func underRoot(rel, sub string) bool { return strings.HasPrefix(rel, "root/"+sub) }

func treeCommands(t *crsTree, r *Rng) []treeCmd {
	isRA := func(rel string) bool { return underRoot(rel, "regex-assembly/") && strings.HasSuffix(rel, ".ra") }
	isRules := func(rel string) bool {
		// THE rules file of the addressed rule: the generated one, not a backup copy beside it
		return underRoot(rel, "rules/") && filepath.Base(rel) == t.rules.Name
	}
	isTest := func(rel string) bool {
		b := filepath.Base(rel)
		if !underRoot(rel, "tests/regression/tests/") {
			return false
		}
		stem := strings.TrimSuffix(strings.TrimSuffix(b, ".yaml"), ".yml")
		if len(stem) != 6 || stem == b {
			return false
		}
		_, err := strconv.Atoi(stem)
		return err == nil
	}
	isConf := func(rel string) bool {
		return strings.HasPrefix(rel, "root/") && (strings.HasSuffix(rel, ".conf") || strings.HasSuffix(rel, ".example"))
	}
	none := func(string) bool { return false }
	cmds := []treeCmd{
		{name: "compare --all", args: []string{"regex", "compare", "--all"}, inspect: true, target: none},
		{name: "compare --all -o github", args: []string{"-o", "github", "regex", "compare", "--all"}, inspect: true, target: none},
		{name: "format --all --check", args: []string{"regex", "format", "--all", "--check"}, inspect: true, target: none, model: "format_check_all"},
		{name: "renumber-tests --all --check", args: []string{"util", "renumber-tests", "--all", "--check"}, inspect: true, target: none, model: "renumber_check_all"},
		{name: "renumber-tests --all --check -o github", args: []string{"-o", "github", "util", "renumber-tests", "--all", "--check"}, inspect: true, target: none},
		{name: "version", args: []string{"version"}, inspect: true, target: none},
		{name: "completion bash", args: []string{"completion", "bash"}, inspect: true, target: none},
		{name: "update --all", args: []string{"regex", "update", "--all"}, target: isRules, model: "update_all"},
		{name: "format --all", args: []string{"regex", "format", "--all"}, target: isRA, model: "format_all"},
		{name: "format --all -o github", args: []string{"-o", "github", "regex", "format", "--all"}, target: isRA, model: "format_all"},
		{name: "renumber-tests --all", args: []string{"util", "renumber-tests", "--all"}, target: isTest, model: "renumber_all"},
		{name: "renumber-tests --all -o github", args: []string{"-o", "github", "util", "renumber-tests", "--all"}, target: isTest, model: "renumber_all"},
		{name: "update-copyright", args: []string{"chore", "update-copyright", "-v", "4.5.0", "-y", "2031"}, target: isConf, model: "copyright", a1: "4.5.0", a2: "2031"},
		// the version the headers of the tree already show, another year: every marker is still set
		{name: "update-copyright same version", args: []string{"chore", "update-copyright", "-v", "4.0.0", "-y", "2033"}, target: isConf, model: "copyright", a1: "4.0.0", a2: "2033"},
		{name: "format include", args: []string{"regex", "format", t.incName}, target: isRA, model: "format_one", a1: t.incName},
		{name: "format include --check", args: []string{"regex", "format", t.incName, "--check"}, inspect: true, target: none},
		{name: "format notes.txt", args: []string{"regex", "format", "notes.txt"}, target: isRA, model: "format_one", a1: "notes.txt"},
	}
	for _, tg := range t.targets {
		if strings.Contains(tg.File, "/") {
			continue
		}
		cmds = append(cmds,
			treeCmd{name: "generate " + tg.Arg, args: []string{"regex", "generate", tg.Arg}, inspect: true, target: none},
			treeCmd{name: "compare " + tg.Arg, args: []string{"regex", "compare", tg.Arg}, inspect: true, target: none},
			treeCmd{name: "update " + tg.Arg, args: []string{"regex", "update", tg.Arg}, target: isRules, model: "update_one", a1: tg.Arg},
			treeCmd{name: "format " + tg.Arg, args: []string{"regex", "format", tg.Arg}, target: isRA, model: "format_one", a1: tg.Arg},
			treeCmd{name: "format --check " + tg.Arg, args: []string{"regex", "format", tg.Arg, "--check"}, inspect: true, target: none})
		break
	}
	cmds = append(cmds, treeCmd{name: "renumber-tests 942970 (decoy .txt only)", args: []string{"util", "renumber-tests", "942970"}, target: isTest})
	for _, id := range t.testIDs {
		cmds = append(cmds,
			treeCmd{name: "renumber-tests " + id, args: []string{"util", "renumber-tests", id}, target: isTest},
			treeCmd{name: "renumber-tests --check " + id, args: []string{"util", "renumber-tests", id, "--check"}, inspect: true, target: none})
		break
	}
	return cmds
}

type treeRun struct {
	t      *crsTree
	cmd    treeCmd
	dmode  string
	res    CLIResult
	after  Tree
	before Tree
}

func execTreeCmd(env *Env, files Tree, cmd treeCmd, dmode string) (CLIResult, Tree) {
	dir := mkScratch(env, "tree")
	defer os.RemoveAll(dir)
	writeTree(dir, files)
	root := filepath.Join(dir, "root")
	var res CLIResult
	switch dmode {
	case "d-root":
		res = runCLI(env, dir, "", append([]string{"-d", root}, cmd.args...)...)
	case "d-sub":
		res = runCLI(env, dir, "", append([]string{"-d", filepath.Join(root, "rules")}, cmd.args...)...)
	case "d-rel":
		res = runCLI(env, dir, "", append([]string{"-d", "root/regex-assembly/include"}, cmd.args...)...)
	case "d-file":
		// the start path leads through a regular file (stat fails with ENOTDIR, not ENOENT): the root is still the nearest ancestor
		res = runCLI(env, dir, "", append([]string{"-d", filepath.Join(root, "regex-assembly", "notes.txt")}, cmd.args...)...)
	case "d-marker-file":
		// a regular FILE named regex-assembly in a sub-directory: that directory is the nearest ancestor with such an
		// entry, so IT is the resolved root (whatever the command then makes of it) - nothing of the enclosing tree may be touched
		_ = os.MkdirAll(filepath.Join(root, "tests"), 0o755)
		marker := filepath.Join(root, "tests", "regex-assembly")
		_ = os.WriteFile(marker, []byte("not a directory\n"), 0o644)
		res = runCLI(env, dir, "", append([]string{"-d", filepath.Join(root, "tests")}, cmd.args...)...)
		_ = os.Remove(marker)
	case "d-missing":
		res = runCLI(env, dir, "", append([]string{"-d", filepath.Join(root, "rules", "nosuchdir", "deeper")}, cmd.args...)...)
	default: // cwd
		res = runCLI(env, root, "", cmd.args...)
	}
	return res, readTree(dir)
}

func suiteTreeFrame(env *Env, res *Result) {
	res.Rule = "generated CRS trees (rules file in CRS layout, 0..n assembly files incl. chained and nested-directory ones, include/exclude files, toolchain.yaml present or absent, test files, setup example; decoys: other extensions, 7-digit and .bak names, non-.ra files in include/, README files, a sibling tree outside the root) x every command and flag combination (single target, --all, --check, -o github) x root given as -d ROOT, -d ROOT/sub, relative -d, a -d path through a regular file, a -d path that does not exist, or the working directory; recursive snapshot (path, bytes) of the whole scratch directory before/after: inspecting commands change nothing, rewriting commands change only their targets, nothing is created or deleted; for the rewriting commands the changed files and the exit status are compared with Model/Cli.v; non-trivial = a rewriting command that changes a file"
	r := NewRng(env.Seed + 1500)
	n := env.N(12, 400)
	var runs []*treeRun
	for i := 0; i < n; i++ {
		t := genCRSTree(r)
		for _, c := range treeCommands(t, r) {
			dmode := r.Pick([]string{"d-root", "d-root", "d-sub", "d-rel", "cwd", "d-file", "d-missing", "d-marker-file"})
			runs = append(runs, &treeRun{t: t, cmd: c, dmode: dmode})
		}
	}
	parallelFor(len(runs), func(i int) {
		x := runs[i]
		x.res, x.after = execTreeCmd(env, x.t.files, x.cmd, x.dmode)
	})
	var caseRun []*treeRun
	var cases []CorrCase
	for _, x := range runs {
		before := x.t.files
		res.count("cmd:" + x.cmd.name[:minInt(len(x.cmd.name), 24)])
		res.count("root:" + x.dmode)
		res.count("exit:" + exitClass(x.res))
		input := map[string]interface{}{"command": strings.Join(x.cmd.args, " "), "root_mode": x.dmode, "tree": before}
		if cl := exitClass(x.res); cl == "crash" || cl == "hang" {
			res.addFailure(Failure{Kind: "C19", Shape: "command_" + cl, Input: input, Detail: clip(x.res.Stderr, 300)})
		}
		if x.dmode == "d-marker-file" {
			// the resolved root is ROOT/tests: every file of the enclosing tree is outside it
			for p, c := range x.after {
				if old, ok := before[p]; !ok || old != c {
					res.addFailure(Failure{Kind: "C15", Shape: "c15_write_outside_resolved_root", Input: input, Detail: p + " changed although the nearest directory with a regex-assembly entry is root/tests"})
				}
			}
			continue
		}
		var changed []string
		for p, c := range x.after {
			old, ok := before[p]
			if !ok {
				res.addFailure(Failure{Kind: "C15", Shape: "c15_file_created", Input: input, Detail: p})
				continue
			}
			if old != c {
				changed = append(changed, p)
				if x.cmd.inspect {
					res.addFailure(Failure{Kind: "C15", Shape: "c15_inspecting_command_writes", Input: input, Detail: p})
				} else if !x.cmd.target(p) {
					shape := "c15_write_outside_targets"
					if strings.HasPrefix(x.cmd.name, "format ") && !strings.HasSuffix(p, ".ra") && strings.HasPrefix(p, "root/regex-assembly/include/") {
						shape = "c15_format_argument_not_ra"
					}
					if strings.HasPrefix(x.cmd.name, "renumber") && underRoot(p, "tests/regression/tests/") && !strings.Contains(filepath.Base(p), ".") {
						shape = "c15_renumber_name_without_extension"
					}
					res.addFailure(Failure{Kind: "C15", Shape: shape, Input: input, Detail: p})
				}
			}
		}
		for p := range before {
			if _, ok := x.after[p]; !ok && !strings.HasSuffix(p, "/") {
				res.addFailure(Failure{Kind: "C15", Shape: "c15_file_deleted", Input: input, Detail: p})
			}
		}
		// C14 on the files the command leaves behind: every marker of every target shows V and Y
		if strings.HasPrefix(x.cmd.name, "update-copyright") && x.res.Exit == 0 {
			for p, c := range x.after {
				if !strings.HasPrefix(p, "root/") || !(strings.HasSuffix(p, ".conf") || strings.HasSuffix(p, ".example")) {
					continue
				}
				if ok, line := markersShow(c, x.cmd.a1, x.cmd.a2); !ok {
					res.addFailure(Failure{Kind: "C14", Shape: "c14_marker_not_updated_after_command", Input: input, Detail: fmt.Sprintf("%s: %q", p, line)})
				}
			}
		}
		// C08 / C18: an include file is not the assembly file of the rule whose id its name ends in
		if strings.Contains(x.cmd.name, "--all") && strings.HasPrefix(x.cmd.name, "update") {
			for p, c := range x.after {
				if strings.HasPrefix(p, "root/rules/") && strings.Contains(c, "keywordone") {
					for _, kind := range []string{"C08", "C18"} {
						res.addFailure(Failure{Kind: kind, Shape: strings.ToLower(kind) + "_all_takes_include_file_for_a_rule", Input: input, Detail: p + " now holds the regex of regex-assembly/include/keywords-NNNNNN.ra"})
					}
				}
			}
		}
		// C18: --all takes its files by the same grammar as the argument form: NNNNNN[-chainK].ra only
		if strings.Contains(x.cmd.name, "--all") && strings.HasPrefix(x.cmd.name, "update") {
			for p, c := range x.after {
				if strings.HasPrefix(p, "root/rules/") && (strings.Contains(c, "intruder") || strings.Contains(c, "stowaway")) {
					res.addFailure(Failure{Kind: "C18", Shape: "c18_all_takes_file_without_extension", Input: input, Detail: p + " now holds the regex of an assembly file that has no .ra extension"})
				}
			}
		}
		if strings.Contains(x.cmd.name, "--all") && strings.HasPrefix(x.cmd.name, "compare") {
			for p := range before {
				if strings.HasPrefix(p, "root/regex-assembly/") && !strings.Contains(p[len("root/regex-assembly/"):], ".") && !strings.HasSuffix(p, "/") {
					id := p[len("root/regex-assembly/"):]
					if len(id) >= 6 && before["root/regex-assembly/"+id+".ra"] == "" && strings.Contains(x.res.Stdout, id[:6]) && !hasAssemblyFor(before, id[:6]) {
						res.addFailure(Failure{Kind: "C18", Shape: "c18_all_takes_file_without_extension", Input: input, Detail: "compare --all reports rule " + id[:6] + " although only " + p + " (no extension) exists"})
					}
				}
			}
		}
		// C13 on the files a successful rewriting run leaves behind (every file of --all is numbered from 1)
		if strings.HasPrefix(x.cmd.name, "renumber-tests") && !x.cmd.inspect && x.res.Exit == 0 {
			for p, id := range x.t.strictTests {
				if x.cmd.name != "renumber-tests --all" && x.cmd.name != "renumber-tests --all -o github" && !strings.HasSuffix(x.cmd.name, " "+id) {
					continue
				}
				in, out := before[p], x.after[p]
				checkRenumberPropertyF(func(shape, detail string) {
					if shape == "renumber_not_idempotent" {
						return
					}
					res.addFailure(Failure{Kind: "C13", Shape: shape, Input: map[string]interface{}{"command": strings.Join(x.cmd.args, " "), "file": p, "tree": before}, Detail: detail})
				}, id, in, out, out)
			}
		}
		if x.cmd.model != "" {
			targ, order := treeArg(before)
			var ch []string
			for _, p := range order {
				if x.after["root/"+p] != before["root/"+p] {
					comps := strings.Split(p, "/")
					for k := range comps {
						comps[k] = hx(comps[k])
					}
					ch = append(ch, strings.Join(comps, "/")+"="+hx(x.after["root/"+p]))
				}
			}
			st := "SUCCESS"
			if x.res.Exit != 0 {
				st = "FAIL"
			}
			chs := "."
			if len(ch) > 0 {
				chs = strings.Join(ch, ";")
			}
			cls := ""
			if len(ch) > 0 {
				cls = x.cmd.model
			}
			cfg := x.t.cfg
			cases = append(cases, CorrCase{Fields: []string{"cli", x.cmd.model, hx(cfg[0]), hx(cfg[1]), hx(cfg[2]), hx(cfg[3]), hx(cfg[4]), hx(cfg[5]), hx(x.cmd.a1), hx(x.cmd.a2), targ},
				Impl: st + "\t" + chs, Human: x.cmd.name + " [" + x.dmode + "] on tree with " + strconv.Itoa(len(order)) + " files; rules file " + x.t.rules.Name, Class: cls})
			caseRun = append(caseRun, x)
		}
	}
	modelOuts := compareWithModelAlt(env, res, cases)
	// C18: a run that disagrees with the model although the root was not given as -d ROOT is repeated
	// with -d ROOT on a fresh copy of the same tree: the way the root is given must not change the result
	for i, x := range caseRun {
		if modelOuts == nil || i >= len(modelOuts) || x.dmode == "d-root" {
			continue
		}
		if modelOuts[i] == cases[i].Impl || (strings.HasPrefix(modelOuts[i], "ORDER-DEPENDENT\t") && inAlternatives(modelOuts[i], cases[i].Impl)) {
			continue
		}
		r2, after2 := execTreeCmd(env, x.t.files, x.cmd, "d-root")
		same := (r2.Exit == 0) == (x.res.Exit == 0)
		for p, c := range x.after {
			if after2[p] != c {
				same = false
			}
		}
		if !same {
			res.addFailure(Failure{Kind: "C18", Shape: "c18_result_depends_on_how_the_root_is_given", Input: map[string]interface{}{"command": strings.Join(x.cmd.args, " "), "root_mode": x.dmode, "tree": x.t.files},
				Detail: fmt.Sprintf("root given as %s: exit %d; the same command on the same tree with -d ROOT: exit %d", x.dmode, x.res.Exit, r2.Exit)})
		}
	}

	// --check agrees with the rewrite (C09 for format, C13 for renumber-tests): per tree, the check
	// run must fail exactly when the corresponding rewriting run changes a file, and must not write
	byTree := map[*crsTree]map[string]*treeRun{}
	for _, x := range runs {
		if x.dmode == "d-marker-file" {
			continue // resolved root is ROOT/tests: the run says nothing about the files of the tree
		}
		if byTree[x.t] == nil {
			byTree[x.t] = map[string]*treeRun{}
		}
		byTree[x.t][x.cmd.name] = x
	}
	changedBy := func(x *treeRun) []string {
		var ch []string
		for p, c := range x.after {
			if x.t.files[p] != c {
				ch = append(ch, p)
			}
		}
		sort.Strings(ch)
		return ch
	}
	for t, m := range byTree {
		pairs := []struct{ prop, write, check, shape string }{
			{"C13", "renumber-tests --all", "renumber-tests --all --check", "c13_check_all"},
			{"C13", "renumber-tests --all", "renumber-tests --all --check -o github", "c13_check_all_github"},
			{"C13", "renumber-tests --all -o github", "renumber-tests --all --check", "c13_all_github"},
			{"C16", "format --all", "format --all --check", "c16_format_check_all"},
		}
		for _, pr := range pairs {
			w, c := m[pr.write], m[pr.check]
			if w == nil || c == nil {
				continue
			}
			input := map[string]interface{}{"tree": t.files, "rewrite_command": strings.Join(w.cmd.args, " "), "check_command": strings.Join(c.cmd.args, " ")}
			wch, cch := changedBy(w), changedBy(c)
			if len(cch) > 0 {
				res.addFailure(Failure{Kind: pr.prop, Shape: pr.shape + "_check_writes", Input: input, Detail: fmt.Sprintf("%v", cch)})
			}
			if (c.res.Exit != 0) != (len(wch) > 0) {
				res.addFailure(Failure{Kind: pr.prop, Shape: pr.shape + "_verdict_disagrees_with_rewrite", Input: input,
					Detail: fmt.Sprintf("check exit %d, rewrite changes %v (rewrite exit %d)", c.res.Exit, wch, w.res.Exit)})
				if strings.HasPrefix(pr.write, "format") {
					// the same observation for C08: the verdict of --all is not that of the files one by one
					res.addFailure(Failure{Kind: "C08", Shape: "c08_format_all_check_status_differs_from_files", Input: input,
						Detail: fmt.Sprintf("format --all --check exits %d although formatting changes %v", c.res.Exit, wch)})
				}
			}
			if w.res.Exit != 0 {
				res.addFailure(Failure{Kind: pr.prop, Shape: pr.shape + "_rewrite_fails", Input: input, Detail: fmt.Sprintf("exit %d: %s", w.res.Exit, clip(w.res.Stderr, 200))})
			}
			// the two rewriting variants (text / github output) must leave the same bytes
			if w2 := m["renumber-tests --all"]; w2 != nil && w2 != w && strings.HasPrefix(pr.write, "renumber") {
				if fmt.Sprint(changedBy(w2)) != fmt.Sprint(wch) {
					res.addFailure(Failure{Kind: pr.prop, Shape: pr.shape + "_output_mode_changes_result", Input: input, Detail: fmt.Sprintf("text: %v github: %v", changedBy(w2), wch)})
				}
			}
		}
	}
}

func minInt(a, b int) int {
	if a < b {
		return a
	}
	return b
}

// ---------- C08 ----------

func permutationsOf(n int, max int, r *Rng) [][]int {
	var out [][]int
	var rec func(cur []int, used []bool)
	rec = func(cur []int, used []bool) {
		if len(out) >= max {
			return
		}
		if len(cur) == n {
			out = append(out, append([]int{}, cur...))
			return
		}
		for i := 0; i < n; i++ {
			if !used[i] {
				used[i] = true
				rec(append(cur, i), used)
				used[i] = false
			}
		}
	}
	rec(nil, make([]bool, n))
	return out
}

func suiteTreeAll(env *Env, res *Result) {
	res.Rule = "CRS trees with 1..4 assembly files addressing rules of one rules file (same stored-expression and definition names in several files, chain offsets, include-only files) : `update --all`, `format --all`, `compare --all` on one copy vs. every order (<= 6) of single invocations on other copies; whole-tree byte comparison, multiset of per-rule stdout lines and exit status for compare; only trees on which every single invocation succeeds are compared (a failing run ends the process); non-trivial = at least two assembly files"
	r := NewRng(env.Seed + 800)
	n := env.N(14, 300)
	shared := []string{"##!> define d [0-9]+\nfoo{{d}}\n##!=< st\nq\n##!=> st\n", "##!> define d [a-z]\nbar{{d}}\n##!=< st\nzz\n##!=> st\nr\n", "##!+ i\nabc\nabd\n", "##!^ pre\n##!$ post\nmid\n", "##!> assemble\n  a\n  ##!=< st\n##!<\n##!=> st\n"}
	type job struct {
		t       *crsTree
		singles []crsTarget
	}
	var jobs []*job
	for i := 0; i < n; i++ {
		t := genCRSTree(r)
		var ok []crsTarget
		for _, tg := range t.targets {
			if tg.Valid && !strings.Contains(tg.File, "/") {
				// give the files shared names for stored expressions and definitions
				t.files["root/regex-assembly/"+tg.File] = r.Pick(shared)
				ok = append(ok, tg)
			} else {
				delete(t.files, "root/regex-assembly/"+tg.File)
			}
		}
		delete(t.files, "root/regex-assembly/1234567.ra") // not addressed by update/compare, formatted by format
		if len(ok) == 0 {
			continue
		}
		if len(ok) >= 2 && r.Chance(1, 3) {
			// two files whose line lists differ only in where a line break stands in place of a blank:
			// nothing one file leaves behind in the process may reach the other
			t.files["root/regex-assembly/"+ok[0].File] = "drop table\ninsert into\n"
			t.files["root/regex-assembly/"+ok[1].File] = "drop\ntable\ninsert\ninto\n"
		}
		if len(ok) > 4 {
			// the files of the targets that are not run singly must not stay for --all either
			for _, tg := range ok[4:] {
				delete(t.files, "root/regex-assembly/"+tg.File)
			}
			ok = ok[:4]
		}
		jobs = append(jobs, &job{t: t, singles: ok})
	}
	type outcome struct {
		kind string
		fail *Failure
		skip bool
	}
	results := make([][]outcome, len(jobs))
	parallelFor(len(jobs), func(ji int) {
		j := jobs[ji]
		input := map[string]interface{}{"tree": j.t.files}
		var outs []outcome
		for _, verb := range []string{"update", "format", "compare"} {
			allRes, allTree := execTreeCmd(env, j.t.files, treeCmd{args: []string{"regex", verb, "--all"}}, "d-root")
			if verb != "compare" && allRes.Exit != 0 {
				outs = append(outs, outcome{kind: verb, skip: true})
				continue
			}
			perms := permutationsOf(len(j.singles), 6, nil)
			for _, perm := range perms {
				dir := mkScratch(env, "all")
				writeTree(dir, j.t.files)
				root := filepath.Join(dir, "root")
				var lines []string
				failed := false
				for _, k := range perm {
					rr := runCLI(env, dir, "", "-d", root, "regex", verb, j.singles[k].Arg)
					if verb != "compare" && rr.Exit != 0 {
						failed = true
					}
					for _, l := range strings.Split(rr.Stdout, "\n") {
						if strings.HasPrefix(l, "Regex of ") {
							lines = append(lines, l)
						}
					}
				}
				if verb == "format" {
					// format --all also formats the include files: format them singly as well
					for p := range j.t.files {
						if strings.HasPrefix(p, "root/regex-assembly/include/") && strings.HasSuffix(p, ".ra") {
							runCLI(env, dir, "", "-d", root, "regex", "format", strings.TrimSuffix(filepath.Base(p), ".ra"))
						}
					}
				}
				seqTree := readTree(dir)
				_ = os.RemoveAll(dir)
				if failed {
					outs = append(outs, outcome{kind: verb, skip: true})
					break
				}
				if verb == "compare" {
					var allLines []string
					for _, l := range strings.Split(allRes.Stdout, "\n") {
						if strings.HasPrefix(l, "Regex of ") {
							allLines = append(allLines, l)
						}
					}
					sort.Strings(allLines)
					sort.Strings(lines)
					if strings.Join(allLines, "\n") != strings.Join(lines, "\n") {
						in := map[string]interface{}{"tree": j.t.files, "order": perm}
						outs = append(outs, outcome{kind: verb, fail: &Failure{Kind: "C08", Shape: "c08_compare_all_differs_from_singles", Input: in, Detail: fmt.Sprintf("--all: %q singles: %q", allLines, lines)}})
					} else {
						outs = append(outs, outcome{kind: verb})
					}
					continue
				}
				diff := ""
				for p, c := range allTree {
					if verb == "format" && strings.HasPrefix(p, "root/regex-assembly/") && !strings.HasPrefix(p, "root/regex-assembly/include/") && !containsTarget(j.singles, p) {
						continue // nested/decoy .ra files that --all formats and no single invocation of this job addresses
					}
					if seqTree[p] != c {
						diff = p
						break
					}
				}
				if diff != "" {
					in := map[string]interface{}{"tree": j.t.files, "order": perm}
					outs = append(outs, outcome{kind: verb, fail: &Failure{Kind: "C08", Shape: "c08_" + verb + "_all_differs_from_singles", Input: in, Detail: "file " + diff + ":\n--all:\n" + clip(allTree[diff], 300) + "\nsingles:\n" + clip(seqTree[diff], 300)}})
				} else {
					outs = append(outs, outcome{kind: verb})
				}
			}
		}
		_ = input
		results[ji] = outs
	})
	for ji, outs := range results {
		for _, o := range outs {
			res.Evaluations++
			if o.skip {
				res.count("skipped(single invocation fails):" + o.kind)
				continue
			}
			res.count("compared:" + o.kind)
			if len(jobs[ji].singles) > 1 {
				res.DistinctNontrivial++
			}
			if o.fail != nil {
				res.addFailure(*o.fail)
			}
		}
		res.count(fmt.Sprintf("assembly-files:%d", len(jobs[ji].singles)))
	}
}

func containsTarget(ts []crsTarget, p string) bool {
	for _, t := range ts {
		if p == "root/regex-assembly/"+t.File {
			return true
		}
	}
	return false
}

// ---------- C16 ----------

type faultCase struct {
	name   string
	files  Tree
	args   []string
	stdin  string
	shape  string
	expect string // "fail" (must fail loudly)
	// for --all runs that legitimately write earlier files before failing (known finding
	// C16-update-all-partial): the rule with this id must keep its line whatever else happens
	mustKeep string
}

// is there a proper assembly file (NNNNNN.ra or NNNNNN-chainK.ra) for the rule id?
func hasAssemblyFor(files Tree, id string) bool {
	for p := range files {
		if strings.HasPrefix(p, "root/regex-assembly/") && strings.HasSuffix(p, ".ra") && strings.HasPrefix(p[strings.LastIndex(p, "/")+1:], id) {
			return true
		}
	}
	return false
}

// number of lines containing SecRule after the first line that contains id:<id> in the rules file
func secRuleLinesAfterID(files Tree, arg string) int {
	if len(arg) < 6 {
		return 0
	}
	id := arg[:6]
	for p, c := range files {
		if !strings.HasPrefix(p, "root/rules/") || !strings.HasSuffix(p, ".conf") {
			continue
		}
		lines := strings.Split(c, "\n")
		for i, l := range lines {
			if strings.Contains(l, "id:"+id) {
				n := 0
				for _, m := range lines[i+1:] {
					if strings.Contains(m, "SecRule") {
						n++
					}
				}
				return n
			}
		}
	}
	return 0
}

func suiteTreeFaults(env *Env, res *Result) {
	res.Rule = "otherwise valid CRS trees with ONE injected fault per case - missing include file, malformed entry, unknown processor, bad cmdline type, unbalanced block markers (too many / too few), unknown stored name, store without name, unsupported flag, odd replacement list, flags in an include, rule id not in the rules file, chain offset beyond the chain, rules file missing, two rules files for the prefix, invalid version, invalid rule argument - at top level, in a block, in an include, and in the first/middle/last file of an --all run; observed on the binary: exit status, stdout (no regex), whole-tree snapshot (no target modified); non-trivial = every case"
	r := NewRng(env.Seed + 1600)
	n := env.N(10, 200)
	faultLines := []struct{ name, line string }{
		{"missing_include", "##!> include nosuchfile"},
		{"malformed_entry", "a(b"},
		{"malformed_entry_class", "[a-"},
		{"unknown_processor", "##!> frobnicate\nx\n##!<"},
		{"bad_cmdline_type", "##!> cmdline linux\nx\n##!<"},
		{"too_many_end_markers", "x\n##!<"},
		{"too_few_end_markers", "##!> assemble\nx"},
		{"unknown_stored_name", "##!=> nosuchname"},
		{"store_without_name", "x\n##!=<"},
		{"unsupported_flag", "##!+ x"},
		{"odd_replacement_list", "##!> include words -- a"},
		{"flags_in_include", "##!> include withflags"},
		{"missing_exclude_file", "##!> include-except words nosuchfile"},
		// the faulty exclude file is reached when nothing is left to exclude
		{"missing_exclude_file_after_all_excluded", "##!> include-except words allwords nosuchfile"},
		{"missing_exclude_file_of_empty_include", "##!> include-except onlycomments nosuchfile"},
		{"missing_exclude_file_first_of_two", "##!> include-except words nosuchfile allwords"},
	}
	var cases []*faultCase
	for i := 0; i < n; i++ {
		t := genCRSTree(r)
		var valid []crsTarget
		for _, tg := range t.targets {
			if tg.Valid && !strings.Contains(tg.File, "/") {
				valid = append(valid, tg)
				t.files["root/regex-assembly/"+tg.File] = "good\nentries\n"
			} else {
				delete(t.files, "root/regex-assembly/"+tg.File)
			}
		}
		if len(valid) == 0 {
			continue
		}
		t.files["root/regex-assembly/include/withflags.ra"] = "##!+ i\nabc\n"
		t.files["root/regex-assembly/exclude/allwords.ra"] = "ls\ncat\ntime\n  time\n"
		t.files["root/regex-assembly/include/onlycomments.ra"] = "##! nothing here\n\n"
		clone := func() Tree {
			c := Tree{}
			for k, v := range t.files {
				c[k] = v
			}
			return c
		}
		for _, fl := range faultLines {
			// where: top level, inside a block, inside an include
			where := r.Pick([]string{"top", "block", "include"})
			body := ""
			switch where {
			case "top":
				body = "good\n" + fl.line + "\nmore\n"
			case "block":
				body = "good\n##!> assemble\n" + fl.line + "\n##!<\nmore\n"
				if strings.Contains(fl.name, "end_markers") || fl.name == "unknown_processor" {
					body = "good\n" + fl.line + "\nmore\n"
				}
			case "include":
				body = "good\n##!> include faulty\nmore\n"
			}
			for pos, tg := range valid {
				if pos > 0 && !r.Chance(1, 2) {
					continue
				}
				f := clone()
				if where == "include" {
					f["root/regex-assembly/include/faulty.ra"] = fl.line + "\n"
				}
				f["root/regex-assembly/"+tg.File] = body
				posName := []string{"first", "middle", "last"}[minInt(pos, 2)]
				if pos == len(valid)-1 && pos > 0 {
					posName = "last"
				}
				cases = append(cases,
					&faultCase{name: fl.name + "@" + where + "/generate", files: f, args: []string{"regex", "generate", tg.Arg}, shape: "c16_" + fl.name},
					&faultCase{name: fl.name + "@" + where + "/update", files: f, args: []string{"regex", "update", tg.Arg}, shape: "c16_" + fl.name},
					&faultCase{name: fl.name + "@" + where + "/compare", files: f, args: []string{"regex", "compare", tg.Arg}, shape: "c16_" + fl.name},
					&faultCase{name: fl.name + "@" + where + "/update--all(" + posName + ")", files: f, args: []string{"regex", "update", "--all"}, shape: "c16_" + fl.name + "_update_all"})
			}
		}
		tg := valid[0]
		// a name that only ANOTHER (lexically earlier) assembly file stores: each file has its own stash
		if len(valid) >= 2 {
			f := clone()
			a, b := valid[0], valid[len(valid)-1]
			if a.File > b.File {
				a, b = b, a
			}
			f["root/regex-assembly/"+a.File] = "ab\ncd\n##!=< shared-part\nkeep\n"
			f["root/regex-assembly/"+b.File] = "gh\n##!=> shared-part\n"
			cases = append(cases,
				&faultCase{name: "stored_name_of_other_file/update--all", files: f, args: []string{"regex", "update", "--all"}, shape: "c16_stored_name_of_other_file_update_all", mustKeep: b.ID},
				&faultCase{name: "stored_name_of_other_file/compare--all", files: f, args: []string{"-o", "github", "regex", "compare", "--all"}, shape: "c16_stored_name_of_other_file"},
				&faultCase{name: "stored_name_of_other_file/update", files: f, args: []string{"regex", "update", b.Arg}, shape: "c16_stored_name_of_other_file"})
		}
		// chain offsets beyond uint8 in FILE NAMES met by an --all walk
		for _, k := range []string{"256", "257", "300", "18446744073709551616"} {
			f := clone()
			f["root/regex-assembly/"+valid[0].ID+"-chain"+k+".ra"] = "wrapped\n"
			cases = append(cases,
				&faultCase{name: "chain_offset_overflow_in_file_name/update--all", files: f, args: []string{"regex", "update", "--all"}, shape: "c16_chain_offset_overflow_update_all", mustKeep: valid[0].ID},
				&faultCase{name: "chain_offset_overflow_in_file_name/compare--all", files: f, args: []string{"regex", "compare", "--all"}, shape: "c16_chain_offset_overflow"})
		}
		// rule / chain / rules-file faults
		f := clone()
		f["root/regex-assembly/942990.ra"] = "x\n"
		cases = append(cases, &faultCase{name: "rule_id_not_in_rules_file/update", files: f, args: []string{"regex", "update", "942990"}, shape: "c16_rule_not_found"},
			&faultCase{name: "rule_id_not_in_rules_file/compare", files: f, args: []string{"regex", "compare", "942990"}, shape: "c16_rule_not_found"})
		f = clone()
		beyond := tg.Arg
		if !strings.Contains(beyond, "-chain") {
			beyond = tg.ID + "-chain9"
			f["root/regex-assembly/"+beyond+".ra"] = "x\n"
			cases = append(cases, &faultCase{name: "chain_offset_beyond_chain/update", files: f, args: []string{"regex", "update", beyond}, shape: "c16_chain_offset_beyond_chain"},
				&faultCase{name: "chain_offset_beyond_chain/compare", files: f, args: []string{"regex", "compare", beyond}, shape: "c16_chain_offset_beyond_chain"})
		}
		f = clone()
		delete(f, "root/rules/"+t.rules.Name)
		f["root/rules/"] = ""
		cases = append(cases, &faultCase{name: "rules_file_missing/update", files: f, args: []string{"regex", "update", tg.Arg}, shape: "c16_rules_file_missing"},
			&faultCase{name: "rules_file_missing/compare", files: f, args: []string{"regex", "compare", tg.Arg}, shape: "c16_rules_file_missing_compare"},
			&faultCase{name: "rules_file_missing/compare--all", files: f, args: []string{"-o", "github", "regex", "compare", "--all"}, shape: "c16_rules_file_missing_compare"})
		f = clone()
		f["root/rules/REQUEST-942-SECOND.conf"] = t.rules.Bytes()
		cases = append(cases, &faultCase{name: "rules_file_ambiguous/update", files: f, args: []string{"regex", "update", tg.Arg}, shape: "c16_rules_file_ambiguous"},
			&faultCase{name: "rules_file_ambiguous/compare", files: f, args: []string{"regex", "compare", tg.Arg}, shape: "c16_rules_file_ambiguous_compare"})
		for _, bad := range []string{"94210", "9421000", "942100-chain256", "942100-chain", "x942100", "942100.raa"} {
			cases = append(cases, &faultCase{name: "invalid_rule_argument/update", files: clone(), args: []string{"regex", "update", bad}, shape: "c16_invalid_rule_argument"},
				&faultCase{name: "invalid_rule_argument/generate", files: clone(), args: []string{"regex", "generate", bad}, shape: "c16_invalid_rule_argument"})
		}
		for _, bad := range []string{"", "not-a-version", "4..1", "v", "1.2.3.4.5"} {
			cases = append(cases, &faultCase{name: "invalid_version/update-copyright", files: clone(), args: []string{"chore", "update-copyright", "-v", bad}, shape: "c16_invalid_version"})
		}
		cases = append(cases, &faultCase{name: "missing_assembly_file/generate", files: clone(), args: []string{"regex", "generate", "942980"}, shape: "c16_missing_assembly_file"},
			&faultCase{name: "missing_file/format", files: clone(), args: []string{"regex", "format", "nosuchinclude"}, shape: "c16_missing_file_format"},
			&faultCase{name: "missing_test_file/renumber", files: clone(), args: []string{"util", "renumber-tests", "942980"}, shape: "c16_missing_test_file"})
	}
	type fr struct {
		res   CLIResult
		after Tree
	}
	out := make([]fr, len(cases))
	parallelFor(len(cases), func(i int) {
		c := cases[i]
		r2, after := execTreeCmd(env, c.files, treeCmd{args: c.args}, "d-root")
		out[i] = fr{r2, after}
	})
	seen := map[string]bool{}
	for i, c := range cases {
		res.Evaluations++
		res.count("fault:" + strings.SplitN(c.name, "@", 2)[0])
		k := caseKey(append([]string{c.name}, c.args...))
		if !seen[k] {
			seen[k] = true
			res.DistinctNontrivial++
		}
		o := out[i]
		input := map[string]interface{}{"fault": c.name, "command": strings.Join(c.args, " "), "tree": c.files}
		cl := exitClass(o.res)
		if cl == "crash" || cl == "hang" {
			res.addFailure(Failure{Kind: "C19", Shape: "command_" + cl, Input: input, Detail: clip(o.res.Stderr, 300)})
		}
		var changed []string
		for p, v := range o.after {
			if c.files[p] != v {
				changed = append(changed, p)
			}
		}
		sort.Strings(changed)
		if o.res.Exit == 0 {
			shape := c.shape + "_exit_zero"
			if c.name == "chain_offset_beyond_chain/update" && len(c.args) == 3 && secRuleLinesAfterID(c.files, c.args[2]) >= 9 {
				// the recorded defect C11-chain-beyond seen from C16: the offset is counted in SecRule
				// lines after the id, across rule boundaries, so it lands in a later rule
				shape = "c16_chain_offset_lands_in_later_rule"
			}
			res.addFailure(Failure{Kind: "C16", Shape: shape, Input: input, Detail: fmt.Sprintf("exit 0; stdout %q; changed %v", clip(o.res.Stdout, 200), changed)})
			if strings.Contains(c.name, "stored_name_of_other_file") {
				// the same observation is a C08 violation: --all did for this file what the file alone does not
				res.addFailure(Failure{Kind: "C08", Shape: "c08_state_of_one_file_reaches_another", Input: input, Detail: fmt.Sprintf("exit 0; changed %v", changed)})
			}
			continue
		}
		if c.mustKeep != "" {
			// the faulty file's own rule must be untouched, even if earlier files were written
			for _, p := range changed {
				if ruleLineChanged(c.files[p], o.after[p], c.mustKeep) {
					res.addFailure(Failure{Kind: "C16", Shape: c.shape + "_faulty_rule_rewritten", Input: input, Detail: fmt.Sprintf("exit %d, rule %s rewritten in %s", o.res.Exit, c.mustKeep, p)})
				}
			}
		}
		if len(changed) > 0 {
			res.addFailure(Failure{Kind: "C16", Shape: c.shape + "_files_modified", Input: input, Detail: fmt.Sprintf("exit %d but modified %v", o.res.Exit, changed)})
		}
		if c.args[1] == "generate" && strings.TrimSpace(o.res.Stdout) != "" {
			res.addFailure(Failure{Kind: "C16", Shape: c.shape + "_regex_printed", Input: input, Detail: clip(o.res.Stdout, 200)})
		}
	}
}

// ---------- C12: compare after update, in --all mode ----------

func suiteCompareHistory(env *Env, res *Result) {
	res.Rule = "CRS trees with 2..4 addressed rules: `update --all`, then `compare --all` (text and -o github) must report every rule unchanged and exit 0; then one byte of ONE stored operand is changed (first, middle or last rule in walk order): `compare --all -o github` must fail, text mode must report exactly that rule as changed, `compare RULE` must fail for that rule and succeed for the others; non-trivial = every tree"
	r := NewRng(env.Seed + 1200)
	n := env.N(12, 300)
	type job struct {
		t    *crsTree
		tgts []crsTarget
		fail []Failure
		skip bool
	}
	var jobs []*job
	for len(jobs) < n {
		t := genCRSTree(r)
		var ok []crsTarget
		for _, tg := range t.targets {
			if tg.Valid && !strings.Contains(tg.File, "/") {
				t.files["root/regex-assembly/"+tg.File] = r.Pick([]string{"abc\nabd\n", "foo\n", "x+y\n", "##!+ i\nq\nr\n"})
				ok = append(ok, tg)
			} else {
				delete(t.files, "root/regex-assembly/"+tg.File)
			}
		}
		if len(ok) < 2 {
			continue
		}
		jobs = append(jobs, &job{t: t, tgts: ok})
	}
	parallelFor(len(jobs), func(ji int) {
		j := jobs[ji]
		dir := mkScratch(env, "cmp")
		defer os.RemoveAll(dir)
		writeTree(dir, j.t.files)
		root := filepath.Join(dir, "root")
		input := map[string]interface{}{"tree": j.t.files}
		up := runCLI(env, dir, "", "-d", root, "regex", "update", "--all")
		if up.Exit != 0 {
			j.skip = true
			return
		}
		for _, mode := range [][]string{{}, {"-o", "github"}} {
			c := runCLI(env, dir, "", append(append([]string{"-d", root}, mode...), "regex", "compare", "--all")...)
			if c.Exit != 0 || strings.Contains(c.Stdout, "has changed") {
				j.fail = append(j.fail, Failure{Kind: "C12", Shape: "c12_compare_all_after_update_all_reports_change", Input: input, Detail: fmt.Sprintf("mode %v exit %d stdout %s", mode, c.Exit, clip(c.Stdout, 300))})
			}
		}
		// make one rule stale: which one in walk order
		sort.Slice(j.tgts, func(a, b int) bool { return j.tgts[a].File < j.tgts[b].File })
		for _, which := range []int{0, len(j.tgts) / 2, len(j.tgts) - 1} {
			tg := j.tgts[which]
			rf := filepath.Join(root, "rules", j.t.rules.Name)
			orig, _ := os.ReadFile(rf)
			// read the stored operand through generate and flip its first byte in the rules file
			g := runCLI(env, dir, "", "-d", root, "regex", "generate", tg.Arg)
			if g.Exit != 0 || g.Stdout == "" || strings.Count(string(orig), g.Stdout) == 0 {
				continue
			}
			// the addressed rule's line: the one compare reads; change it via update of a scratch assembly
			stale := strings.Replace(string(orig), "\"@rx "+g.Stdout+"\"", "\"@rx Z"+g.Stdout+"\"", 1)
			if stale == string(orig) {
				continue
			}
			_ = os.WriteFile(rf, []byte(stale), 0o644)
			one := runCLI(env, dir, "", "-d", root, "regex", "compare", tg.Arg)
			if one.Exit == 0 {
				// the replaced occurrence was another rule's line with the same operand: find out which
				_ = os.WriteFile(rf, orig, 0o644)
				continue
			}
			in := map[string]interface{}{"tree": j.t.files, "stale_rule": tg.Arg, "position_in_walk": which, "rules_file_after_edit": stale}
			gh := runCLI(env, dir, "", "-d", root, "-o", "github", "regex", "compare", "--all")
			if gh.Exit == 0 || !strings.Contains(gh.Stdout, "::error::") {
				j.fail = append(j.fail, Failure{Kind: "C12", Shape: "c12_compare_all_github_misses_stale_rule", Input: in, Detail: fmt.Sprintf("exit %d stdout %s", gh.Exit, clip(gh.Stdout, 300))})
			}
			tx := runCLI(env, dir, "", "-d", root, "regex", "compare", "--all")
			if !strings.Contains(tx.Stdout, "Regex of "+tg.ID+" has changed") {
				j.fail = append(j.fail, Failure{Kind: "C12", Shape: "c12_compare_all_text_misses_stale_rule", Input: in, Detail: clip(tx.Stdout, 300)})
			}
			_ = os.WriteFile(rf, orig, 0o644)
		}
	})
	for _, j := range jobs {
		res.Evaluations++
		if j.skip {
			res.count("skipped(update --all fails)")
			continue
		}
		res.DistinctNontrivial++
		res.count(fmt.Sprintf("rules:%d", len(j.tgts)))
		for _, f := range j.fail {
			res.addFailure(f)
		}
	}
}

// did the SecRule line above "id:<id>" change between two versions of a rules file?
func ruleLineChanged(before, after, id string) bool {
	find := func(text string) string {
		lines := strings.Split(text, "\n")
		for i, l := range lines {
			if strings.Contains(l, "id:"+id) && i > 0 {
				return lines[i-1]
			}
		}
		return ""
	}
	return find(before) != find(after)
}
