package main

import (
	"bufio"
	"fmt"
	"os"
	"path/filepath"
	"strconv"
	"strings"

	"github.com/coreruleset/crs-toolchain/v2/cmd"
)

func init() {
	register("rule_id", suiteRuleId)
	register("find_root", suiteFindRoot)
	register("scan", suiteScan)
}

func genRuleArg(r *Rng) (string, string) {
	digits := func(n int) string {
		b := make([]byte, n)
		for i := range b {
			b[i] = byte('0' + r.Intn(10))
		}
		return string(b)
	}
	var sb strings.Builder
	class := "grammar"
	switch r.Intn(12) {
	case 0:
		sb.WriteString(digits(5))
		class = "len5"
	case 1:
		sb.WriteString(digits(7))
		class = "len7"
	default:
		sb.WriteString(digits(6))
	}
	if r.Chance(2, 3) {
		sb.WriteString(r.Pick([]string{"-chain", "-chain", "-chain", "-chain", "-Chain", "chain", "-chai", "--chain", "-chain-"}))
		switch r.Intn(10) {
		case 0:
			sb.WriteString("")
		case 1:
			sb.WriteString(strconv.Itoa(r.Range(250, 260)))
		case 2:
			sb.WriteString(r.Pick([]string{"256", "255", "0255", "00000000000255", "0256", "300", "65535", "65536", "4294967295", "4294967296",
				"18446744073709551615", "18446744073709551616", "18446744073709551871", "99999999999999999999999", "512", "257", "0", "00", "1"}))
		case 3:
			sb.WriteString(strconv.Itoa(r.Range(0, 300)) + r.Pick([]string{"a", " ", "-", ".", "_1", "+1"}))
		case 4:
			sb.WriteString(r.Pick([]string{"-1", "+1", "1_0", "0x10", "1e2", "١٢"}))
		default:
			sb.WriteString(strconv.Itoa(r.Range(0, 300)))
		}
	}
	sb.WriteString(r.Pick([]string{"", "", "", ".ra", ".ra", ".ra", ".r", ".raa", ".ra.ra", ".RA", ".conf", ".ra\n", "\n", " ", ".ra "}))
	s := sb.String()
	if r.Chance(1, 4) {
		s = r.Mutate(s, "0123456789-chain.ra \n\x00x", 2)
		class = "mutated"
	}
	return s, class
}

func suiteRuleId(env *Env, res *Result) {
	res.Rule = "argument strings sampled from the grammar NNNNNN[-chainK][.ra] with boundary K values and 25% byte-level mutants; non-trivial = accepted by the implementation or within one edit of the grammar; distinct by case hash"
	r := NewRng(env.Seed)
	n := env.N(3000, 60000)
	var cases []CorrCase
	for _, c := range loadCorpus(env, "rule_id") {
		cases = append(cases, ruleIdCase(unhx(c[2]), "corpus"))
	}
	for i := 0; i < n; i++ {
		s, class := genRuleArg(r)
		cases = append(cases, ruleIdCase(s, class))
	}
	compareWithModel(env, res, cases)
	// property oracle on the implementation itself (C18 statement)
	for _, c := range cases {
		s := unhx(c.Fields[2])
		checkRuleIdProperty(res, s, c.Impl)
	}
}

func ruleIdCase(s string, class string) CorrCase {
	id, file, k, err := cmd.VerifParseRuleId(s)
	impl := "ERR"
	if err == nil {
		impl = strings.Join([]string{"OK", hx(id), hx(file), strconv.Itoa(int(k))}, "\t")
		class = "accepted/" + class
	}
	return CorrCase{Fields: []string{"rule_id", "8", hx(s)}, Impl: impl, Human: strconv.Quote(s), Class: class}
}

// independent reading of the C18 statement for one argument
func specRuleId(s string) (ok bool, id, file string, k int) {
	base := strings.TrimSuffix(s, ".ra")
	if len(base) < 6 {
		return false, "", "", 0
	}
	id = base[:6]
	for _, c := range id {
		if c < '0' || c > '9' {
			return false, "", "", 0
		}
	}
	rest := base[6:]
	if rest != "" {
		if !strings.HasPrefix(rest, "-chain") {
			return false, "", "", 0
		}
		ds := rest[6:]
		if ds == "" {
			return false, "", "", 0
		}
		v := 0
		for _, c := range ds {
			if c < '0' || c > '9' {
				return false, "", "", 0
			}
			if v <= 1000 {
				v = v*10 + int(c-'0')
			}
		}
		if v > 255 {
			return false, "", "", 0
		}
		k = v
	}
	return true, id, base + ".ra", k
}

func checkRuleIdProperty(res *Result, s string, impl string) {
	ok, id, file, k := specRuleId(s)
	want := "ERR"
	if ok {
		want = strings.Join([]string{"OK", hx(id), hx(file), strconv.Itoa(k)}, "\t")
	}
	if want != impl {
		res.addFailure(Failure{Kind: "rule-argument-resolution", Shape: "rule_id_mismatch", Input: s,
			Detail: fmt.Sprintf("statement demands %q, implementation gives %q", want, impl)})
	}
}

// ---------- findRootDirectory ----------

func suiteFindRoot(env *Env, res *Result) {
	res.Rule = "directory trees of depth 0..5 under a scratch directory with 0..3 regex-assembly entries (directories or files) on or beside the path; start directory at any depth; non-trivial = at least one regex-assembly entry exists somewhere; distinct by case hash"
	r := NewRng(env.Seed)
	n := env.N(300, 3000)
	base, err := os.MkdirTemp(env.Work, "root")
	if err != nil {
		panic(err)
	}
	defer os.RemoveAll(base)
	baseComps := strings.Split(strings.Trim(base, "/"), "/")
	var cases []CorrCase
	names := []string{"a", "b", "rules", "regex-assembly", "x y", "util"}
	for i := 0; i < n; i++ {
		root := filepath.Join(base, fmt.Sprintf("t%d", i))
		depth := r.Range(0, 5)
		comps := []string{}
		for d := 0; d < depth; d++ {
			comps = append(comps, names[r.Intn(len(names))])
		}
		start := filepath.Join(append([]string{root}, comps...)...)
		_ = os.MkdirAll(start, 0o755)
		// place regex-assembly entries
		var existing [][]string
		nra := r.Intn(4)
		for j := 0; j < nra; j++ {
			d := r.Range(0, depth)
			dirComps := append([]string{}, comps[:d]...)
			if r.Chance(1, 4) {
				dirComps = append(dirComps, "side")
			}
			dir := filepath.Join(append([]string{root}, dirComps...)...)
			_ = os.MkdirAll(dir, 0o755)
			p := filepath.Join(dir, "regex-assembly")
			if r.Chance(1, 4) {
				if _, err := os.Stat(p); err != nil {
					_ = os.WriteFile(p, []byte("x"), 0o644)
				}
			} else {
				_ = os.MkdirAll(p, 0o755)
			}
		}
		// enumerate what exists (every path named regex-assembly under root, plus dirs named so on the path)
		_ = filepath.Walk(root, func(p string, info os.FileInfo, err error) error {
			if err == nil && info.Name() == "regex-assembly" {
				existing = append(existing, strings.Split(strings.Trim(p, "/"), "/"))
			}
			return nil
		})
		startComps := strings.Split(strings.Trim(start, "/"), "/")
		got, ferr := cmd.VerifFindRootDirectory(start)
		impl := "ERR"
		if ferr == nil {
			impl = "OK\t" + hxList(strings.Split(strings.Trim(got, "/"), "/"))
		}
		ex := make([]string, len(existing))
		for k, e := range existing {
			ex[k] = hxList(e)
		}
		exArg := "."
		if len(ex) > 0 {
			exArg = strings.Join(ex, ";")
		}
		class := ""
		if len(existing) > 0 {
			class = fmt.Sprintf("ra%d/depth%d", len(existing), depth)
		}
		cases = append(cases, CorrCase{Fields: []string{"find_root", exArg, hxList(startComps)}, Impl: impl,
			Human: fmt.Sprintf("start=%s existing=%v", strings.TrimPrefix(start, base), trimAll(existing, len(baseComps))), Class: class})
		// property oracle: nearest ancestor-or-self (below "/") that has regex-assembly
		want := "ERR"
		for d := len(startComps); d >= 1; d-- {
			if _, err := os.Stat("/" + strings.Join(startComps[:d], "/") + "/regex-assembly"); err == nil {
				want = "OK\t" + hxList(startComps[:d])
				break
			}
		}
		if want != impl {
			res.addFailure(Failure{Kind: "root-resolution", Shape: "find_root_mismatch", Input: start,
				Detail: fmt.Sprintf("nearest ancestor rule gives %q, implementation %q", want, impl)})
		}
	}
	compareWithModel(env, res, cases)
}

func trimAll(ps [][]string, n int) []string {
	out := []string{}
	for _, p := range ps {
		if len(p) > n {
			out = append(out, strings.Join(p[n:], "/"))
		}
	}
	return out
}

// ---------- bufio.Scanner model ----------

func goScan(b []byte) ([]string, bool) {
	sc := bufio.NewScanner(strings.NewReader(string(b)))
	sc.Split(bufio.ScanLines)
	var ls []string
	for sc.Scan() {
		ls = append(ls, sc.Text())
	}
	return ls, sc.Err() != nil
}

func genScanText(r *Rng, long bool) []byte {
	var b []byte
	nl := r.Range(0, 6)
	longAt := -1
	if long {
		longAt = r.Intn(nl + 1)
	}
	for i := 0; i <= nl; i++ {
		n := r.Range(0, 12)
		if i == longAt {
			switch r.Intn(4) {
			case 0:
				n = r.Range(65530, 65540)
			case 1:
				n = 65535 + r.Intn(3)
			case 2:
				n = r.Range(60000, 140000)
			default:
				n = r.Range(4090, 4100)
			}
		}
		for j := 0; j < n; j++ {
			b = append(b, "ab \t\rxyz"[r.Intn(8)])
		}
		if r.Chance(1, 4) {
			b = append(b, '\r')
		}
		if i < nl || r.Chance(1, 2) {
			b = append(b, '\n')
		}
	}
	return b
}

func suiteScan(env *Env, res *Result) {
	res.Rule = "byte texts of 0..7 lines (CR, CRLF, missing final newline, empty lines); every third text has one line of 4 KiB / 65530..65540 / up to 140000 bytes at a random position; compared with Go's bufio.Scanner+ScanLines; non-trivial = contains a line >= 4090 bytes or a CR; distinct by case hash"
	r := NewRng(env.Seed)
	n := env.N(400, 4000)
	var cases []CorrCase
	for i := 0; i < n; i++ {
		long := i%3 == 0
		b := genScanText(r, long)
		ls, e := goScan(b)
		impl := "OK"
		if e {
			impl = "TOOLONG"
		}
		impl += "\t" + hxList(ls)
		class := ""
		if long {
			class = "long"
			if e {
				class = "toolong"
			}
		} else if strings.Contains(string(b), "\r") {
			class = "cr"
		}
		cases = append(cases, CorrCase{Fields: []string{"scan", "65536", hx(string(b))}, Impl: impl,
			Human: fmt.Sprintf("%d bytes, %d lines delivered, err=%v", len(b), len(ls), e), Class: class})
	}
	compareWithModel(env, res, cases)
}
