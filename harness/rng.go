package main

// SplitMix64: every random choice of a run derives from one state seeded by
// VERIF_SEED, so that a disagreement replays exactly.
type Rng struct{ s uint64 }

func NewRng(seed uint64) *Rng { return &Rng{s: seed*0x9E3779B97F4A7C15 + 0x1234567} }

func (r *Rng) Next() uint64 {
	r.s += 0x9E3779B97F4A7C15
	z := r.s
	z = (z ^ (z >> 30)) * 0xBF58476D1CE4E5B9
	z = (z ^ (z >> 27)) * 0x94D049BB133111EB
	return z ^ (z >> 31)
}

// Intn returns a value in [0,n).
func (r *Rng) Intn(n int) int {
	if n <= 0 {
		return 0
	}
	return int(r.Next() % uint64(n))
}

// Range returns a value in [lo,hi].
func (r *Rng) Range(lo, hi int) int { return lo + r.Intn(hi-lo+1) }

func (r *Rng) Chance(num, den int) bool { return r.Intn(den) < num }

func (r *Rng) Pick(xs []string) string { return xs[r.Intn(len(xs))] }

func (r *Rng) Fork() *Rng { return NewRng(r.Next()) }

// Mutate applies a few byte-level edits drawn from alphabet.
func (r *Rng) Mutate(s string, alphabet string, maxEdits int) string {
	b := []byte(s)
	n := r.Intn(maxEdits + 1)
	for i := 0; i < n; i++ {
		switch r.Intn(3) {
		case 0: // insert
			p := r.Intn(len(b) + 1)
			c := alphabet[r.Intn(len(alphabet))]
			b = append(b[:p], append([]byte{c}, b[p:]...)...)
		case 1: // delete
			if len(b) > 0 {
				p := r.Intn(len(b))
				b = append(b[:p], b[p+1:]...)
			}
		case 2: // replace
			if len(b) > 0 {
				b[r.Intn(len(b))] = alphabet[r.Intn(len(alphabet))]
			}
		}
	}
	return string(b)
}
