package main

import (
	"fmt"
	"os"
	"path/filepath"
	"strings"

	"github.com/coreruleset/crs-toolchain/v2/chore"
	"github.com/coreruleset/crs-toolchain/v2/util"
)

func init() {
	register("long_lines", suiteLongLines)
}

func longLen(r *Rng, tier string) int {
	switch r.Intn(6) {
	case 0:
		return r.Range(65530, 65540)
	case 1:
		return 65535 + r.Intn(3)
	case 2:
		return r.Range(1, 5000)
	case 3:
		return r.Range(60000, 70000)
	case 4:
		if tier == "thorough" || r.Chance(1, 3) {
			return (1 << 20) + r.Intn(3) - 1 // around 1 MiB, the top of the property's range
		}
		return r.Range(100000, 300000)
	default:
		return r.Range(65536, 140000)
	}
}

// placeLong puts the long line first, in the middle or last among short lines
func placeLong(r *Rng, short []string, long string) ([]string, int) {
	if r.Chance(1, 6) {
		return []string{long}, 0 // the long line is the whole input
	}
	pos := r.Intn(3)
	var lines []string
	idx := 0
	switch pos {
	case 0:
		lines = append([]string{long}, short...)
	case 1:
		m := len(short) / 2
		lines = append(append(append([]string{}, short[:m]...), long), short[m:]...)
		idx = m
	default:
		lines = append(append([]string{}, short...), long)
		idx = len(short)
	}
	return lines, idx
}

func suiteLongLines(env *Env, res *Result) {
	res.Rule = "inputs of the line-oriented commands with one line of 1 B .. 1 MiB (dense around 65536 and at 1 MiB) placed first / in the middle / last, with and without final newline: processYaml, updateRules (function level, compared with the model incl. its scanner limit), format, generate, generate through include / include-except / suffix replacement (CLI); oracle: the command fails loudly or every line after the long one is still accounted for; non-trivial = the long line is >= 65530 bytes; distinct by case hash"
	r := NewRng(env.Seed)
	n := env.N(40, 300)
	var corr []CorrCase
	fail := func(site string, length int, detail string, input interface{}) {
		res.addFailure(Failure{Kind: "C17", Shape: "silent_truncation_" + site, Input: input, Detail: fmt.Sprintf("line of %d bytes: %s", length, detail)})
	}
	// ---- function level: renumber, copyright ----
	for i := 0; i < n; i++ {
		L := longLen(r, env.Tier)
		final := r.Chance(3, 4)
		class := ""
		if L >= 65530 {
			class = "long"
		}
		{
			long := "    desc: \"" + strings.Repeat("x", L) + "\""
			lines, idx := placeLong(r, []string{"tests:", "  - test_id: 5", "    desc: a", "  - test_id: 9", "    marker_after: yes"}, long[:maxInt(1, min(len(long), L))])
			text := strings.Join(lines, "\n")
			if final {
				text += "\n"
			}
			out, err := util.VerifProcessYaml("920100", []byte(text))
			impl := "ERR"
			if err == nil {
				impl = "OK\t" + hx(string(out))
			}
			corr = append(corr, CorrCase{Fields: []string{"renumber", "gen", hx("920100"), hx(text)}, Impl: impl,
				Human: fmt.Sprintf("renumber: %d lines, line %d has %d bytes, final newline %v", len(lines), idx, len(lines[idx]), final), Class: class})
			if err == nil {
				outLines := strings.Split(strings.TrimSuffix(string(out), "\n"), "\n")
				if len(outLines) != len(lines) || !strings.Contains(string(out), lines[len(lines)-1][:1]) {
					fail("renumber", len(lines[idx]), fmt.Sprintf("%d lines in, %d lines out, exit ok", len(lines), len(outLines)), map[string]interface{}{"site": "renumber", "long_line_index": idx, "length": len(lines[idx]), "final_newline": final})
				}
			}
		}
		{
			long := "# " + strings.Repeat("y", L)
			lines, idx := placeLong(r, []string{"# OWASP CRS ver.4.0.0", "SecAction \\", "    ver:'OWASP_CRS/4.0.0',\\", "# last line"}, long[:maxInt(1, min(len(long), L))])
			text := strings.Join(lines, "\n")
			if final {
				text += "\n"
			}
			out, err := chore.VerifUpdateRules("4.1.0", "2025", []byte(text))
			impl := "ERR"
			if err == nil {
				impl = "OK\t" + hx(string(out))
			}
			corr = append(corr, CorrCase{Fields: []string{"copyright", "gen", hx("4.1.0"), hx("2025"), hx(text)}, Impl: impl,
				Human: fmt.Sprintf("copyright: %d lines, line %d has %d bytes, final newline %v", len(lines), idx, len(lines[idx]), final), Class: class})
			if err == nil {
				outLines := strings.Split(strings.TrimSuffix(string(out), "\n"), "\n")
				if len(outLines) != len(lines) {
					fail("update_copyright", len(lines[idx]), fmt.Sprintf("%d lines in, %d lines out, no error", len(lines), len(outLines)), map[string]interface{}{"site": "update_copyright", "long_line_index": idx, "length": len(lines[idx]), "final_newline": final})
				}
			}
		}
	}
	// ---- CLI level: format, generate (direct, include, include-except, suffix replacement) ----
	type cliCase struct {
		site    string
		tree    Tree
		args    []string
		must    []string // tokens that must be accounted for when the command succeeds
		mustNot []string // tokens that must NOT be in the result (entries an exclude file lists)
		file    string
		L       int
		idx     int
		final   bool
		text    string
	}
	var cc []cliCase
	for i := 0; i < n; i++ {
		L := longLen(r, env.Tier)
		final := r.Chance(3, 4)
		long := strings.Repeat("q", L)
		short := []string{"alpha", "bravo", "charlie", "delta"}
		lines, idx := placeLong(r, short, long)
		text := strings.Join(lines, "\n")
		if final {
			text += "\n"
		}
		if len(lines) == 1 {
			short = nil // the long line is the whole input
		}
		long50 := long
		if len(long50) > 50 {
			long50 = long50[:50]
		}
		short = append(append([]string{}, short...), long50) // the long line itself must be accounted for as well
		switch i % 6 {
		case 5:
			// the long line stands in an EXCLUDE file: every entry the file lists, before and after the long
			// line, must still be excluded
			var listed []string
			for _, l := range lines {
				if len(l) < 100 {
					listed = append(listed, l)
				}
			}
			cc = append(cc, cliCase{site: "exclude_file", tree: Tree{"regex-assembly/942100.ra": "zulu\n##!> include-except words big\n", "regex-assembly/include/words.ra": "alpha\nbravo\ncharlie\ndelta\nyankee\n", "regex-assembly/exclude/big.ra": text},
				args: []string{"regex", "generate", "942100"}, must: []string{"zulu", "yankee"}, mustNot: listed, L: L, idx: idx, final: final})
		case 0:
			cc = append(cc, cliCase{site: "format", tree: Tree{"regex-assembly/942100.ra": text}, args: []string{"regex", "format", "942100"}, must: short, file: "regex-assembly/942100.ra", L: L, idx: idx, final: final, text: text})
		case 1:
			cc = append(cc, cliCase{site: "generate", tree: Tree{"regex-assembly/942100.ra": text}, args: []string{"regex", "generate", "942100"}, must: short, L: L, idx: idx, final: final})
		case 2:
			cc = append(cc, cliCase{site: "include", tree: Tree{"regex-assembly/942100.ra": "zulu\n##!> include big\n", "regex-assembly/include/big.ra": text}, args: []string{"regex", "generate", "942100"}, must: append([]string{"zulu"}, short...), L: L, idx: idx, final: final})
		case 3:
			cc = append(cc, cliCase{site: "include_except", tree: Tree{"regex-assembly/942100.ra": "zulu\n##!> include-except big ex\n", "regex-assembly/include/big.ra": text, "regex-assembly/exclude/ex.ra": "nothing\n"}, args: []string{"regex", "generate", "942100"}, must: append([]string{"zulu"}, short...), L: L, idx: idx, final: final})
		default:
			cc = append(cc, cliCase{site: "suffix_replacement", tree: Tree{"regex-assembly/942100.ra": "zulu\n##!> include big -- @ x\n", "regex-assembly/include/big.ra": text}, args: []string{"regex", "generate", "942100"}, must: append([]string{"zulu"}, short...), L: L, idx: idx, final: final})
		}
	}
	base := mkScratch(env, "long")
	defer os.RemoveAll(base)
	type obs struct {
		r     CLIResult
		after string
	}
	out := make([]obs, len(cc))
	parallelFor(len(cc), func(i int) {
		root := filepath.Join(base, fmt.Sprintf("t%d", i))
		t := Tree{"regex-assembly/include/": "", "regex-assembly/exclude/": "", "rules/": ""}
		for k, v := range cc[i].tree {
			t[k] = v
		}
		writeTree(root, t)
		args := append([]string{"-d", root}, cc[i].args...)
		out[i].r = runCLI(env, root, "", args...)
		if cc[i].file != "" {
			out[i].after = readFile(filepath.Join(root, cc[i].file))
		}
		_ = os.RemoveAll(root)
	})
	for i, c := range cc {
		o := out[i]
		res.Evaluations++
		res.count("site:" + c.site)
		if c.L >= 65530 {
			res.DistinctNontrivial++
		}
		in := map[string]interface{}{"site": c.site, "long_line_index": c.idx, "length": c.L, "final_newline": c.final}
		if c.site == "format" {
			impl := "ERR"
			if exitClass(o.r) == "ok" {
				impl = "OK\t" + hx(o.after)
			}
			class := ""
			if c.L >= 65530 {
				class = "long"
			}
			corr = append(corr, CorrCase{Fields: []string{"format_bytes", hx(c.text)}, Impl: impl, Human: fmt.Sprintf("format: line %d has %d bytes", c.idx, c.L), Class: class})
		}
		if exitClass(o.r) != "ok" {
			res.count("loud:" + c.site)
			continue
		}
		hay := o.r.Stdout
		if c.site == "format" {
			hay = o.after
		}
		for _, tok := range c.mustNot {
			if strings.Contains(hay, tok) {
				fail(c.site, c.L, fmt.Sprintf("exit 0 but the excluded entry %q is in the result %q", tok, clip(hay, 200)), in)
				break
			}
		}
		for _, tok := range c.must {
			if !strings.Contains(hay, tok) && !accountedFor(hay, tok) {
				fail(c.site, c.L, fmt.Sprintf("exit 0 but %q is missing from the result (%d bytes)", tok, len(hay)), in)
				break
			}
		}
	}
	compareWithModelAlt(env, res, corr)
}

// the optimiser may factor common prefixes; the tokens used here start with distinct letters,
// so a token is accounted for when its first two letters still appear together
func accountedFor(hay string, tok string) bool {
	if len(tok) < 2 {
		return strings.Contains(hay, tok)
	}
	if strings.Trim(tok, "q") == "" {
		return strings.Contains(hay, "qq") || strings.Contains(hay, "q{") // the optimiser may print a run as q{n}
	}
	return strings.Contains(hay, tok[:2]) || strings.Contains(hay, tok[1:])
}

func maxInt(a, b int) int {
	if a > b {
		return a
	}
	return b
}
