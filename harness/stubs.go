package main

func childMain(args []string) {}
