package main

func joinSrvMain()            {}
func childMain(args []string) {}
