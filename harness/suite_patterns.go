package main

import (
	"regexp"
	"strconv"
	"strings"

	"github.com/coreruleset/crs-toolchain/v2/regex"
)

func init() {
	register("patterns", suitePatterns)
}

var patternTable = []struct {
	name string
	re   *regexp.Regexp
}{
	{"include", regex.IncludeRegex},
	{"include_except", regex.IncludeExceptRegex},
	{"definition", regex.DefinitionRegex},
	{"comment", regex.CommentRegex},
	{"flags", regex.FlagsRegex},
	{"prefix", regex.PrefixRegex},
	{"suffix", regex.SuffixRegex},
	{"block_start", regex.ProcessorBlockStartRegex},
	{"block_end", regex.ProcessorEndRegex},
	{"processor_start", regex.ProcessorStartRegex},
	{"assemble_input", regex.AssembleInputRegex},
	{"assemble_output", regex.AssembleOutputRegex},
}

func suitePatterns(env *Env, res *Result) {
	res.Rule = "lines built from directive fragments (every directive kind, comments, entries, blanks, odd fragments, 8% byte mutants, leading/trailing white space incl. \\f \\r \\v, non-ASCII and invalid UTF-8) x the 12 directive patterns of regex/definitions.go: Go FindStringSubmatch vs. the hand-written Gallina matcher; non-trivial = the Go pattern matches; distinct by case hash"
	r := NewRng(env.Seed)
	n := env.N(1500, 30000)
	var cases []CorrCase
	for i := 0; i < n; i++ {
		line, _ := genDirectiveLine(r)
		for _, p := range patternTable {
			m := p.re.FindStringSubmatch(line)
			impl := "NOMATCH"
			class := ""
			if m != nil {
				impl = "MATCH"
				for _, g := range m[1:] {
					impl += "\t" + hx(g)
				}
				class = p.name
			}
			cases = append(cases, CorrCase{Fields: []string{"pat", p.name, hx(line)}, Impl: impl, Human: p.name + " " + strconv.Quote(line), Class: class})
		}
	}
	_ = strings.Join
	compareWithModel(env, res, cases)
}
