package main

import (
	"errors"
	"fmt"
	"regexp/syntax"
	"strings"
	"unicode"
)

// Conversion of Go's regexp/syntax trees (the parser of the engine the property is
// about) into the prefix form of coq/Regex/Re.v read by the extracted equivalence
// checker:  e v b z | c K lo hi ... | k A B | a A B | s A

var errUnsupported = errors.New("construct outside the modelled regex fragment")

func syntaxParse(text string, foldCase, dotNL bool) (*syntax.Regexp, error) {
	fl := syntax.Perl
	if foldCase {
		fl |= syntax.FoldCase
	}
	if dotNL {
		fl |= syntax.DotNL
	}
	return syntax.Parse(text, fl)
}

const maxRune = 0x10FFFF

func clsRX(pairs []rune) string {
	var sb strings.Builder
	fmt.Fprintf(&sb, "c %d", len(pairs)/2)
	for _, p := range pairs {
		fmt.Fprintf(&sb, " %d", p)
	}
	return sb.String()
}

func catRX(a, b string) string {
	if a == "e" {
		return b
	}
	if b == "e" {
		return a
	}
	return "k " + a + " " + b
}

func altRX(xs []string) string {
	if len(xs) == 0 {
		return "v"
	}
	out := xs[len(xs)-1]
	for i := len(xs) - 2; i >= 0; i-- {
		out = "a " + xs[i] + " " + out
	}
	return out
}

func catAllRX(xs []string) string {
	out := "e"
	for i := len(xs) - 1; i >= 0; i-- {
		out = catRX(xs[i], out)
	}
	return out
}

func foldOrbit(r rune) []rune {
	out := []rune{r, r}
	for f := unicode.SimpleFold(r); f != r; f = unicode.SimpleFold(f) {
		out = append(out, f, f)
	}
	return out
}

func toRX(re *syntax.Regexp, budget *int) (string, error) {
	*budget--
	if *budget < 0 {
		return "", errUnsupported
	}
	switch re.Op {
	case syntax.OpNoMatch:
		return "v", nil
	case syntax.OpEmptyMatch:
		return "e", nil
	case syntax.OpLiteral:
		parts := make([]string, 0, len(re.Rune))
		for _, r := range re.Rune {
			if re.Flags&syntax.FoldCase != 0 {
				parts = append(parts, clsRX(foldOrbit(r)))
			} else {
				parts = append(parts, clsRX([]rune{r, r}))
			}
		}
		return catAllRX(parts), nil
	case syntax.OpCharClass:
		return clsRX(re.Rune), nil
	case syntax.OpAnyCharNotNL:
		return clsRX([]rune{0, 9, 11, maxRune}), nil
	case syntax.OpAnyChar:
		return clsRX([]rune{0, maxRune}), nil
	case syntax.OpBeginText:
		return "b", nil
	case syntax.OpEndText:
		return "z", nil
	case syntax.OpBeginLine, syntax.OpEndLine, syntax.OpWordBoundary, syntax.OpNoWordBoundary:
		return "", errUnsupported
	case syntax.OpCapture:
		return toRX(re.Sub[0], budget)
	case syntax.OpStar:
		s, err := toRX(re.Sub[0], budget)
		return "s " + s, err
	case syntax.OpPlus:
		s, err := toRX(re.Sub[0], budget)
		return catRX(s, "s "+s), err
	case syntax.OpQuest:
		s, err := toRX(re.Sub[0], budget)
		return "a " + s + " e", err
	case syntax.OpRepeat:
		s, err := toRX(re.Sub[0], budget)
		if err != nil {
			return "", err
		}
		if re.Min > 6 || re.Max > 6 {
			return "", errUnsupported
		}
		*budget -= (re.Min + 6) * len(s) / 8
		parts := []string{}
		for i := 0; i < re.Min; i++ {
			parts = append(parts, s)
		}
		if re.Max == -1 {
			parts = append(parts, "s "+s)
		} else {
			// (s(s(s)?)?)?
			opt := "e"
			for i := re.Min; i < re.Max; i++ {
				opt = "a " + catRX(s, opt) + " e"
			}
			parts = append(parts, opt)
		}
		return catAllRX(parts), nil
	case syntax.OpConcat:
		parts := []string{}
		for _, sub := range re.Sub {
			s, err := toRX(sub, budget)
			if err != nil {
				return "", err
			}
			parts = append(parts, s)
		}
		return catAllRX(parts), nil
	case syntax.OpAlternate:
		parts := []string{}
		for _, sub := range re.Sub {
			s, err := toRX(sub, budget)
			if err != nil {
				return "", err
			}
			parts = append(parts, s)
		}
		return altRX(parts), nil
	}
	return "", errUnsupported
}

// textToRX parses regex text with Go's parser (Perl flags, plus i/s) and converts it.
func textToRX(text string, foldCase, dotNL bool) (string, error) {
	re, err := syntaxParse(text, foldCase, dotNL)
	if err != nil {
		return "", err
	}
	b := 4000
	return toRX(re, &b)
}

// ---------- entry generator ----------

var entryWords = []string{"foo", "fob", "bar", "baz", "ab", "abc", "abd", "x", "xy", "time", "get", "post", "server", "a", "b"}
var entryAtoms = []string{"a", "b", "c", "x", "y", "z", "0", "9", "_", "-", "/", ":", "=", "%", "#", "!", "<", ">", ",", ";", "&", "'", "~", "@", " ",
	"\\.", "\\(", "\\)", "\\[", "\\|", "\\*", "\\+", "\\?", "\\$", "\\^", "\\{", "\\\\", "\"", "\\\"", "\\/", "\\-",
	"[a-c]", "[^a]", "[^\\n]", "[\\s\\S]", "[abx]", "[0-9]", "[a-z0-9_]", "[ -/]", "[\\s -/]", "[\\x00\\s]", "[\\x01-\\x08\\s]", "[\"']", "[\\\\]", "[^\"\\\\]", "[\\w.-]",
	"(\\(?i)", "(?:a\\(?s)", "\\(?i:x", "\\d", "\\s", "\\w", "\\S", "\\D", "\\W", ".", "\\x41", "\\x{e9}", "\\x0b", "\\n", "\\t", "\\r", "é", "\\x5c", "\\x22",
	// texts in which one final pass sees what an earlier one wrote: an escaped backslash in front of the characters of the space class, of a quote, of a flag group
	"\\\\t\\n\\f\\r ", "\\\\s", "\\\\\"", "\\\\(?:a)", "[\\t\\n\\f\\r ]", "\\\\[\\s]", "\\x5c\\t\\n\\f\\r x"}
var entryQuants = []string{"", "", "", "", "*", "+", "?", "{2}", "{1,3}", "{0,2}", "*?", "+?", "{2,}"}

func genSeq(r *Rng, depth int, lower bool) string {
	var sb strings.Builder
	n := r.Range(1, 4)
	for i := 0; i < n; i++ {
		switch r.Intn(10) {
		case 0, 1, 2:
			sb.WriteString(r.Pick(entryWords))
		case 3:
			if depth > 0 {
				sb.WriteString("(?:" + genAlt(r, depth-1, lower) + ")" + r.Pick(entryQuants))
				continue
			}
			sb.WriteString(r.Pick(entryWords))
		case 4:
			if depth > 0 && r.Chance(1, 3) {
				sb.WriteString("(" + genAlt(r, depth-1, lower) + ")" + r.Pick(entryQuants))
				continue
			}
			sb.WriteString(r.Pick(entryAtoms) + r.Pick(entryQuants))
		default:
			sb.WriteString(r.Pick(entryAtoms) + r.Pick(entryQuants))
		}
	}
	return sb.String()
}

func genAlt(r *Rng, depth int, lower bool) string {
	n := 1
	if r.Chance(1, 3) {
		n = r.Range(2, 3)
	}
	parts := make([]string, n)
	for i := range parts {
		parts[i] = genSeq(r, depth, lower)
	}
	return strings.Join(parts, "|")
}

// genEntryText: one RE2-parsable entry (no inline flag group, no word boundary), not
// starting with white space, '#' or a quote character that cmdline treats specially
func genEntryText(r *Rng) string {
	for i := 0; i < 50; i++ {
		var t string
		switch r.Intn(12) {
		case 0:
			t = "^" + genAlt(r, 1, false)
		case 1:
			t = genAlt(r, 1, false) + "$"
		default:
			t = genAlt(r, 2, false)
		}
		if t == "" || strings.HasPrefix(t, " ") || strings.HasPrefix(t, "#") || strings.HasSuffix(t, " ") {
			continue
		}
		if _, err := syntaxParse(t, false, false); err != nil {
			continue
		}
		if r.Chance(1, 14) {
			// a trailing blank is part of the expression: nothing between the parser and the rules
			// file may trim it (stdin vs file, update, compare, format)
			t += r.Pick([]string{" ", "\t", "  "})
		}
		return t
	}
	return "abc"
}

// hasTopLevelAlt: does the parsed entry have an alternation at the top level
// (textually: a '|' outside every group and class)
func hasTopLevelAlt(t string) bool {
	depth := 0
	inClass := false
	for i := 0; i < len(t); i++ {
		c := t[i]
		if c == '\\' {
			i++
			continue
		}
		if inClass {
			if c == ']' {
				inClass = false
			}
			continue
		}
		switch c {
		case '[':
			inClass = true
			if i+1 < len(t) && t[i+1] == '^' {
				i++
			}
			if i+1 < len(t) && t[i+1] == ']' {
				i++
			}
		case '(':
			depth++
		case ')':
			depth--
		case '|':
			if depth == 0 {
				return true
			}
		}
	}
	return false
}
