module verifharness

go 1.23.0

require (
	github.com/Masterminds/semver/v3 v3.3.1
	github.com/coreruleset/crs-toolchain/v2 v2.0.0
	github.com/itchyny/rassemble-go v0.1.2
	github.com/rs/zerolog v1.34.0
)

require (
	code.gitea.io/sdk/gitea v0.20.0 // indirect
	dario.cat/mergo v1.0.1 // indirect
	github.com/42wim/httpsig v1.2.1 // indirect
	github.com/creativeprojects/go-selfupdate v1.4.1 // indirect
	github.com/go-fed/httpsig v1.1.0 // indirect
	github.com/google/go-github/v30 v30.1.0 // indirect
	github.com/google/go-querystring v1.1.0 // indirect
	github.com/hashicorp/go-cleanhttp v0.5.2 // indirect
	github.com/hashicorp/go-retryablehttp v0.7.7 // indirect
	github.com/hashicorp/go-version v1.7.0 // indirect
	github.com/mattn/go-colorable v0.1.13 // indirect
	github.com/mattn/go-isatty v0.0.20 // indirect
	github.com/spf13/cobra v1.9.1 // indirect
	github.com/spf13/pflag v1.0.6 // indirect
	github.com/ulikunitz/xz v0.5.12 // indirect
	github.com/xanzy/go-gitlab v0.115.0 // indirect
	golang.org/x/crypto v0.35.0 // indirect
	golang.org/x/oauth2 v0.27.0 // indirect
	golang.org/x/sys v0.30.0 // indirect
	golang.org/x/time v0.9.0 // indirect
	gopkg.in/yaml.v3 v3.0.1 // indirect
)

replace github.com/coreruleset/crs-toolchain/v2 => /repo
