package main

import (
	"fmt"
	"regexp"
	"strconv"
	"strings"

	"github.com/coreruleset/crs-toolchain/v2/util"
)

func init() {
	register("renumber", suiteRenumber)
}

var yamlOther = []string{"---", "meta:", "  author: \"x\"", "  enabled: true", "  name: 920100.yaml", "tests:", "    desc: \"plain\"",
	"    stages:", "      - input:", "          uri: \"/get?x=test\"", "        output:", "          log:", "            expect_ids: [920100]",
	"# comment", "    data: |  ", "      payload with trailing blanks \t", "    desc: 'caf\xc3\xa9 \xff'", "  x: a:b", "    test_idx: 3", "    mytest_title : 4", "  - test_id", "    test_title"}

func genKeyLine(r *Rng, key string, strict bool) string {
	indent := r.Pick([]string{"  - ", "    ", "  -   ", "", "\t", "- "})
	val := r.Pick([]string{"1", "2", "7", "12", "920100-3", "\"pine apple\"", "x", "0", "99", "bapedibupi", "-1", "3 # c", ""})
	sep := r.Pick([]string{" ", " ", " ", "  ", "\t", " \t "})
	if !strict {
		switch r.Intn(8) {
		case 0:
			sep = "" // no white space: not a key line for the pattern
		case 1:
			sep = "\v"
		case 2:
			sep = "\f"
		case 3:
			val += " test_id: 5"
		case 4:
			indent = "    desc: \"about " + indent
		case 5:
			val += " test_title: 9"
		}
	}
	return indent + key + ":" + sep + val
}

// genYaml returns the text and whether it stays inside the property's quantifier
// (other lines contain no key; key lines are plain `key: value`)
func genYaml(r *Rng) (string, bool) {
	return genYamlMode(r, r.Intn(4))
}

// mode: 0 ids only, 1 titles only, 2 both per test, 3 random mix
func genYamlMode(r *Rng, mode int) (string, bool) {
	var lines []string
	strict := r.Chance(2, 3)
	n := r.Range(0, 14)
	for i := 0; i < n; i++ {
		switch {
		case r.Chance(1, 3):
			switch mode {
			case 0:
				lines = append(lines, genKeyLine(r, "test_id", strict))
			case 1:
				lines = append(lines, genKeyLine(r, "test_title", strict))
			case 2:
				if r.Chance(1, 2) {
					lines = append(lines, genKeyLine(r, "test_title", strict), genKeyLine(r, "test_id", strict))
				} else {
					lines = append(lines, genKeyLine(r, "test_id", strict), genKeyLine(r, "test_title", strict))
				}
			default:
				lines = append(lines, genKeyLine(r, r.Pick([]string{"test_id", "test_title"}), strict))
			}
		case r.Chance(1, 8):
			lines = append(lines, r.Pick([]string{"", "", " ", "\t", "  \t "}))
		case !strict && r.Chance(1, 10):
			lines = append(lines, r.Pick([]string{"\v", "\f", " \v\f"}))
		default:
			lines = append(lines, r.Pick(yamlOther))
		}
	}
	nl := "\n"
	if r.Chance(1, 5) {
		nl = "\r\n"
	}
	text := strings.Join(lines, nl)
	switch r.Intn(6) {
	case 0: // no final newline
	case 1:
		text += nl + nl + " " + nl
	case 2:
		text += nl + "   "
	default:
		if len(lines) > 0 || r.Chance(1, 2) {
			text += nl
		}
	}
	if !strict && r.Chance(1, 10) {
		text = r.Mutate(text, "test_id: \n\r\t-", 2)
	}
	return text, strict
}

var specKeyRe = regexp.MustCompile(`^(\s*(?:-\s+)?)(test_id|test_title):[ \t]+(.*)$`)

func isBlankASCII(s string) bool {
	return strings.Trim(s, " \t\n\v\f\r") == ""
}

// checkRenumberProperty evaluates the C13 statement on the implementation's output.
func checkRenumberProperty(res *Result, ruleId string, in string, out string, again string) {
	checkRenumberPropertyF(func(shape, detail string) {
		res.addFailure(Failure{Kind: "renumber", Shape: shape, Input: map[string]string{"rule": ruleId, "contents": in}, Detail: detail})
	}, ruleId, in, out, again)
}

// what the code's single running index (known finding C13-mixed-fields) makes of the key lines of
// ONE file, counters starting at zero: the only deviation from the statement the finding covers
func sharedIndexLines(ruleId string, inLines []string) []string {
	out := make([]string, len(inLines))
	index, ids, titles := 0, 0, 0
	for i, l := range inLines {
		out[i] = l
		m := specKeyRe.FindStringSubmatch(l)
		if m == nil {
			continue
		}
		if m[2] == "test_id" {
			ids++
			if ids > index {
				index++
			}
			out[i] = m[1] + "test_id: " + strconv.Itoa(index)
		} else {
			titles++
			if titles > index {
				index++
			}
			out[i] = m[1] + "test_title: " + ruleId + "-" + strconv.Itoa(index)
		}
	}
	return out
}

func checkRenumberPropertyF(fail func(shape, detail string), ruleId string, in string, out string, again string) {
	if again != out {
		fail("renumber_not_idempotent", fmt.Sprintf("second application changes the bytes: %q -> %q", clip(out, 300), clip(again, 300)))
	}
	// input lines as the statement sees them
	inLines := strings.Split(in, "\n")
	if len(inLines) > 0 && inLines[len(inLines)-1] == "" {
		inLines = inLines[:len(inLines)-1]
	}
	for i := range inLines {
		inLines[i] = strings.TrimSuffix(inLines[i], "\r")
	}
	for len(inLines) > 0 && isBlankASCII(inLines[len(inLines)-1]) {
		inLines = inLines[:len(inLines)-1]
	}
	if len(inLines) == 0 {
		if out != "\n" && out != "" {
			fail("renumber_blank_input", fmt.Sprintf("blank input gives %q", out))
		} else if out == "" && in != "" {
			fail("blank_only_input_no_final_newline", "white-space-only file is rewritten to the empty file (no final newline)")
		}
		return
	}
	if !strings.HasSuffix(out, "\n") || strings.HasSuffix(out, "\n\n") {
		fail("renumber_final_newline", fmt.Sprintf("output does not end with exactly one newline: %q", clip(out, 200)))
		return
	}
	outLines := strings.Split(strings.TrimSuffix(out, "\n"), "\n")
	if len(outLines) != len(inLines) {
		fail("renumber_line_count", fmt.Sprintf("%d lines in, %d lines out", len(inLines), len(outLines)))
		return
	}
	ids, titles := 0, 0
	mixedDiverged := false
	for i, l := range inLines {
		m := specKeyRe.FindStringSubmatch(l)
		if m == nil {
			if outLines[i] != l {
				fail("renumber_other_line_changed", fmt.Sprintf("line %d %q became %q", i+1, l, outLines[i]))
				return
			}
			continue
		}
		var want string
		if m[2] == "test_id" {
			ids++
			want = m[1] + "test_id: " + strconv.Itoa(ids)
		} else {
			titles++
			want = m[1] + "test_title: " + ruleId + "-" + strconv.Itoa(titles)
		}
		if ids != titles && ids > 0 && titles > 0 {
			mixedDiverged = true
		}
		if outLines[i] != want {
			shape := "renumber_wrong_number"
			if ids > 0 && titles > 0 && outLines[i] == sharedIndexLines(ruleId, inLines)[i] {
				shape = "mixed_fields_shared_index"
			}
			_ = mixedDiverged
			fail(shape, fmt.Sprintf("line %d %q became %q, statement demands %q", i+1, l, outLines[i], want))
			return
		}
	}
}

func suiteRenumber(env *Env, res *Result) {
	res.Rule = "YAML-like test files of 0..14 lines: test_id / test_title key lines (ids only, titles only, both per test, random mix), other lines, blank and white-space-only lines, LF/CRLF, 0..3 trailing blank lines, missing final newline; one third 'loose' files add key look-alikes (no space, \\v, \\f, key text inside other lines, byte mutations); non-trivial = contains at least one key line; distinct by case hash"
	r := NewRng(env.Seed)
	n := env.N(1500, 40000)
	var cases []CorrCase
	type gen struct {
		text   string
		strict bool
	}
	var gens []gen
	for _, c := range loadCorpus(env, "renumber") {
		gens = append(gens, gen{unhx(c[3]), false})
	}
	for i := 0; i < n; i++ {
		t, s := genYaml(r)
		gens = append(gens, gen{t, s})
	}
	// lines longer than a default scanner's buffer: nothing may be dropped (C13 "touches nothing else")
	for _, L := range []int{65535, 65536, 70000} {
		long := "    data: " + strings.Repeat("x", L)
		gens = append(gens, gen{"- test_id: 7\n" + long + "\n- test_id: 9\n  desc: after\n", true},
			gen{"- test_title: 920100-4\n" + long + "\n- test_title: x\n", true})
	}
	for _, g := range gens {
		ruleId := "920100"
		out, err := util.VerifProcessYaml(ruleId, []byte(g.text))
		impl := "ERR"
		if err == nil {
			impl = "OK\t" + hx(string(out))
		}
		class := ""
		if strings.Contains(g.text, "test_id:") || strings.Contains(g.text, "test_title:") {
			class = "keys"
			if !g.strict {
				class = "keys/loose"
			}
		}
		cases = append(cases, CorrCase{Fields: []string{"renumber", "gen", hx(ruleId), hx(g.text)}, Impl: impl, Human: strconv.Quote(clip(g.text, 400)), Class: class})
		if err == nil && g.strict {
			again, _ := util.VerifProcessYaml(ruleId, out)
			checkRenumberProperty(res, ruleId, g.text, string(out), string(again))
		}
	}
	compareWithModel(env, res, cases)
}
