package main

import (
	"fmt"
	"os"
	"path/filepath"
	"regexp"
	"strconv"
	"strings"

	"github.com/coreruleset/crs-toolchain/v2/cmd"
)

func init() {
	register("process_line", suiteProcessLine)
	register("format_file", suiteFormatFile)
}

func suiteProcessLine(env *Env, res *Result) {
	res.Rule = "lines from the directive-fragment generator x indent 0..3: processLine(line, indent) of cmd/regex_format.go vs. Model/Format.v process_line; non-trivial = the line is rewritten or the indent changes; distinct by case hash"
	r := NewRng(env.Seed)
	n := env.N(4000, 80000)
	var cases []CorrCase
	for i := 0; i < n; i++ {
		line, kind := genDirectiveLine(r)
		if r.Chance(1, 2) {
			line = strings.TrimLeft(line, " \t")
		}
		indent := r.Intn(4)
		out, next, err := cmd.VerifProcessLine([]byte(line), indent)
		impl := ""
		if err != nil {
			impl = "ERR\t" + strconv.Itoa(next)
		} else {
			impl = "OK\t" + hx(string(out)) + "\t" + strconv.Itoa(next)
		}
		class := ""
		if err != nil || string(out) != line || next != indent {
			class = kind
		}
		cases = append(cases, CorrCase{Fields: []string{"process_line", hx(line), strconv.Itoa(indent)}, Impl: impl,
			Human: fmt.Sprintf("%q indent=%d", line, indent), Class: class})
	}
	compareWithModel(env, res, cases)
}

const stdHeader = "##! Please refer to the documentation at\n##! https://coreruleset.org/docs/development/regex_assembly/.\n"

func genRaFile(r *Rng) string {
	var lines []string
	n := r.Range(0, 14)
	if r.Chance(1, 10) {
		n = 0
	}
	depth := 0
	for i := 0; i < n; i++ {
		switch {
		case r.Chance(1, 6):
			lines = append(lines, strings.Repeat(r.Pick([]string{"  ", " ", "\t", ""}), depth)+"##!> "+r.Pick([]string{"assemble", "cmdline unix", "cmdline windows"}))
			depth++
		case depth > 0 && r.Chance(1, 4):
			depth--
			lines = append(lines, strings.Repeat("  ", depth)+"##!<")
		default:
			l, _ := genDirectiveLine(r)
			if r.Chance(2, 3) && strings.HasPrefix(strings.TrimLeft(l, " \t"), "##!+") {
				l = "##!+ " + r.Pick([]string{"i", "s", "is"})
			}
			lines = append(lines, l)
		}
	}
	for depth > 0 && r.Chance(3, 4) {
		depth--
		lines = append(lines, "##!<")
	}
	nl := "\n"
	if r.Chance(1, 8) {
		nl = "\r\n"
	}
	text := strings.Join(lines, nl)
	if len(lines) > 0 {
		switch r.Intn(6) {
		case 0:
		case 1:
			text += nl + nl
		case 2:
			text += nl + " " + nl
		default:
			text += nl
		}
	} else if r.Chance(1, 2) {
		text = r.Pick([]string{"\n", "\n\n", " \n", "  ", "\t\n\n"})
	}
	switch r.Intn(8) {
	case 0:
		text = stdHeader + "\n" + text
	case 1:
		text = stdHeader + text
	case 2:
		text = strings.Replace(stdHeader, "\n", nl, -1) + nl + text
	}
	return text
}

func stripWS(s string) string {
	return strings.Map(func(c rune) rune {
		switch c {
		case ' ', '\t', '\r', '\f', '\v', '\n':
			return -1
		}
		return c
	}, s)
}

// canonicalLayout: an independent reading of the C09 statement.
func canonicalLayout(out string) (bool, string) {
	if !strings.HasPrefix(out, stdHeader) {
		return false, "does not start with the standard header"
	}
	if !strings.HasSuffix(out, "\n") {
		return false, "no final newline"
	}
	if strings.HasSuffix(out, "\n\n") {
		return false, "trailing empty line"
	}
	body := strings.TrimPrefix(out, stdHeader)
	if body != "" && !strings.HasPrefix(body, "\n") {
		return false, "header is not followed by a blank line"
	}
	lines := strings.Split(strings.TrimSuffix(out, "\n"), "\n")
	depth := 0
	for i, l := range lines {
		if l == "" {
			continue
		}
		t := strings.TrimLeft(l, " \t")
		if t == "" {
			return false, fmt.Sprintf("line %d is white space only", i+1)
		}
		ind := len(l) - len(t)
		want := depth * 2
		switch {
		case (strings.HasPrefix(t, "##!+") || strings.HasPrefix(t, "##!^") || strings.HasPrefix(t, "##!$")) && strings.Trim(t[4:], " \t\f\r\n") != "":
			want = 0
		case strings.HasPrefix(t, "##!<"):
			if depth > 0 {
				depth--
			}
			want = depth * 2
		}
		if ind != want || strings.ContainsAny(l[:ind], "\t") {
			return false, fmt.Sprintf("line %d %q indented %d, want %d", i+1, l, ind, want)
		}
		if strings.HasPrefix(t, "##!> assemble") || strings.HasPrefix(t, "##!> cmdline") {
			depth++
		}
	}
	return true, ""
}

func suiteFormatFile(env *Env, res *Result) {
	res.Rule = "byte contents of .ra files: 0..14 lines from the directive-fragment generator with (mostly balanced) assemble/cmdline blocks, random indentation, LF/CRLF, 0..2 trailing blank lines, missing final newline, empty and white-space-only files, files that already carry the header (with and without its blank line); each run through the CLI: format --check, format, format --check, format, format (x3), and generate before/after; non-trivial = the formatter changes the bytes; distinct by case hash"
	r := NewRng(env.Seed)
	n := env.N(500, 6000)
	texts := make([]string, 0, n)
	for _, c := range loadCorpus(env, "format_file") {
		texts = append(texts, unhx(c[1]))
	}
	for i := 0; i < n; i++ {
		texts = append(texts, genRaFile(r))
	}
	base := mkScratch(env, "fmt")
	defer os.RemoveAll(base)
	type obs struct {
		check0, check1 CLIResult
		f1, f2, f3     string
		e1             CLIResult
		gen0, gen1     CLIResult
	}
	results := make([]obs, len(texts))
	parallelFor(len(texts), func(i int) {
		root := filepath.Join(base, fmt.Sprintf("t%d", i))
		file := filepath.Join(root, "regex-assembly", "942100.ra")
		writeTree(root, Tree{"regex-assembly/942100.ra": texts[i],
			"regex-assembly/include/inc.ra": "alpha\nbeta\n", "regex-assembly/include/x.ra": "xa\nyb\n", "regex-assembly/include/foo.ra": "foo1\nfoo2\n",
			"regex-assembly/exclude/ex.ra": "beta\n", "rules/": ""})
		var o obs
		o.gen0 = runCLI(env, root, "", "-d", root, "regex", "generate", "942100")
		o.check0 = runCLI(env, root, "", "-d", root, "regex", "format", "--check", "942100")
		if readFile(file) != texts[i] {
			o.check0.Stderr += "\nCHECK-WROTE"
		}
		o.e1 = runCLI(env, root, "", "-d", root, "regex", "format", "942100")
		o.f1 = readFile(file)
		o.check1 = runCLI(env, root, "", "-d", root, "regex", "format", "--check", "942100")
		o.gen1 = runCLI(env, root, "", "-d", root, "regex", "generate", "942100")
		runCLI(env, root, "", "-d", root, "regex", "format", "942100")
		o.f2 = readFile(file)
		runCLI(env, root, "", "-d", root, "regex", "format", "942100")
		o.f3 = readFile(file)
		results[i] = o
		_ = os.RemoveAll(root)
	})
	var cases []CorrCase
	for i, text := range texts {
		o := results[i]
		input := map[string]string{"contents": text}
		impl := exitClass(o.e1)
		if impl == "ok" {
			impl = "OK\t" + hx(o.f1)
		} else if o.f1 != text {
			impl = "FAIL-BUT-WROTE\t" + hx(o.f1)
		} else {
			impl = "ERR"
		}
		class := ""
		if o.f1 != text {
			class = "changed"
		}
		cases = append(cases, CorrCase{Fields: []string{"format_bytes", hx(text)}, Impl: impl, Human: strconv.Quote(clip(text, 400)), Class: class})
		if exitClass(o.e1) != "ok" {
			res.count("format:" + exitClass(o.e1))
			continue
		}
		// ---- C09 oracles ----
		blankOnly := stripWS(strings.ReplaceAll(o.f1, stdHeader, "")) == ""
		crless := strings.ReplaceAll(text, "\r", "")
		headerNoBlank := strings.HasPrefix(crless, stdHeader) && !strings.HasPrefix(crless, stdHeader+"\n") && !blankOnly
		if o.f2 != o.f1 || o.f3 != o.f2 {
			shape := "format_not_idempotent"
			if blankOnly {
				shape = "format_not_idempotent_blank_or_header_only"
			}
			res.addFailure(Failure{Kind: "C09", Shape: shape, Input: input,
				Detail: fmt.Sprintf("format once %q, twice %q, thrice %q", clip(o.f1, 300), clip(o.f2, 300), clip(o.f3, 300))})
		}
		if ok, why := canonicalLayout(o.f1); !ok {
			shape := "format_not_canonical"
			if blankOnly {
				shape = "format_not_canonical_blank_or_header_only"
			}
			if strings.Contains(why, "indented") && unbalancedEnd(text) {
				shape = "format_not_canonical_unbalanced_end"
			}
			if headerNoBlank && strings.Count(o.f1, strings.SplitN(stdHeader, "\n", 2)[0]) >= 2 {
				shape = "format_header_duplicated" // the known finding: the header is there twice
			}
			res.addFailure(Failure{Kind: "C09", Shape: shape, Input: input, Detail: why + ": " + strconv.Quote(clip(o.f1, 400))})
		}
		lint := strings.Contains(o.check0.Stderr, "uppercase letters") || strings.Contains(o.check1.Stderr, "uppercase letters")
		if strings.Contains(o.check0.Stderr, "CHECK-WROTE") {
			res.addFailure(Failure{Kind: "C09", Shape: "format_check_wrote", Input: input, Detail: "format --check modified the file"})
		}
		if !lint && o.check0.Exit <= 1 && o.check1.Exit <= 1 {
			wouldChange := o.f1 != text
			if (o.check0.Exit != 0) != wouldChange {
				res.addFailure(Failure{Kind: "C09", Shape: "format_check_disagrees", Input: input,
					Detail: fmt.Sprintf("--check exit %d but format changes the file: %v", o.check0.Exit, wouldChange)})
			}
			if (o.check1.Exit != 0) != (o.f2 != o.f1) {
				shape := "format_check_disagrees_after"
				if blankOnly {
					shape = "format_not_idempotent_blank_or_header_only"
				}
				res.addFailure(Failure{Kind: "C09", Shape: shape, Input: input,
					Detail: fmt.Sprintf("after format, --check exit %d but a second format changes the file: %v", o.check1.Exit, o.f2 != o.f1)})
			}
		}
		// ---- C10 oracles ----
		checkFormatMeaning(res, text, o.f1, o.gen0, o.gen1, headerNoBlank)
	}
	compareWithModelAlt(env, res, cases)
}

func unbalancedEnd(text string) bool {
	depth := 0
	for _, l := range strings.Split(text, "\n") {
		t := strings.TrimLeft(strings.TrimSuffix(l, "\r"), " \t")
		if strings.HasPrefix(t, "##!<") {
			if depth == 0 {
				return true
			}
			depth--
		} else if strings.HasPrefix(t, "##!>") {
			rest := strings.TrimLeft(t[4:], " \t\f\r")
			if strings.HasPrefix(rest, "assemble") || strings.HasPrefix(rest, "cmdline") {
				depth++
			}
		}
	}
	return false
}

// C10: white space only; generate identical before and after
func checkFormatMeaning(res *Result, before string, after string, gen0 CLIResult, gen1 CLIResult, headerNoBlank bool) {
	input := map[string]string{"contents": before}
	norm := func(t string) []string {
		ls := strings.Split(t, "\n")
		out := []string{}
		for _, l := range ls {
			out = append(out, stripWS(l))
		}
		for len(out) > 0 && out[len(out)-1] == "" {
			out = out[:len(out)-1]
		}
		return out
	}
	b := norm(before)
	a := norm(after)
	hdr := norm(stdHeader)
	hasHeader := func(x []string) bool { return len(x) >= 2 && x[0] == hdr[0] && x[1] == hdr[1] }
	if hasHeader(a) && !hasHeader(b) {
		a = a[2:]
		if len(a) > 0 && a[0] == "" {
			a = a[1:]
		}
	} else if hasHeader(a) && hasHeader(b) {
		// the blank line after the header may have been added
		if len(a) > 2 && a[2] == "" && !(len(b) > 2 && b[2] == "") {
			a = append(a[:2:2], a[3:]...)
		}
	}
	same := len(a) == len(b)
	first := -1
	if same {
		for i := range a {
			if a[i] != b[i] {
				same = false
				first = i
				break
			}
		}
	}
	if !same {
		shape := "format_changes_text"
		if headerNoBlank {
			shape = "format_header_duplicated"
		}
		// the recorded deviations (C10-formatter-drops-text) explain the difference only if applying
		// exactly them to the input gives the output; anything else (e.g. lines lost) is a new violation
		explained := knownFormatDeviations(before, hasHeader(b))
		sameAsKnown := len(explained) == len(a)
		if sameAsKnown {
			for i := range a {
				if a[i] != explained[i] {
					sameAsKnown = false
					break
				}
			}
		}
		if stripWS(strings.ReplaceAll(strings.ReplaceAll(before, "\r", ""), stdHeader, "")) == "" {
			shape = "format_blank_or_header_only_text"
		}
		detail := fmt.Sprintf("%d lines before, %d after", len(b), len(a))
		if first < 0 && unbalancedEnd(before) {
			shape = "format_blanks_unbalanced_end"
		}
		if first >= 0 {
			detail = fmt.Sprintf("line %d: %q became %q", first+1, b[first], a[first])
			switch {
			case strings.HasPrefix(b[first], "##!>include") && strings.HasSuffix(b[first], "--") && strings.TrimRight(b[first], "-") == strings.TrimRight(a[first], "-") && len(a[first]) == len(b[first])-2:
				shape = "format_drops_empty_pair_separator"
			case strings.HasPrefix(b[first], "##!<"):
				shape = "format_blanks_unbalanced_end"
			case strings.Contains(b[first], "##!>include") && !strings.HasPrefix(b[first], "##!>include"):
				shape = "format_include_unanchored"
			case strings.HasPrefix(b[first], "##!>assemble") || strings.HasPrefix(b[first], "##!>cmdline"):
				shape = "format_blockstart_drops_rest"
			}
		}
		if !sameAsKnown && (shape == "format_blanks_unbalanced_end" || shape == "format_blockstart_drops_rest" || shape == "format_drops_empty_pair_separator") {
			if headerNoBlank {
				shape = "format_header_duplicated" // the duplicated header shifts every line
			} else {
				shape = "format_changes_text"
				detail += " (not explained by the recorded deviations)"
			}
		}
		res.addFailure(Failure{Kind: "C10", Shape: shape, Input: input, Detail: detail})
	}
	g0, g1 := exitClass(gen0), exitClass(gen1)
	if g0 != g1 || (g0 == "ok" && gen0.Stdout != gen1.Stdout) {
		shape := "format_changes_generate"
		if !same {
			shape = "format_changes_generate_with_text_change"
		} else if kBlockStartGlued.MatchString(before) {
			// the recorded deviation C10-blockstart-word-split: `##!>assembleX` is re-printed
			// `##!> assemble X` - white space only, but inside a word
			shape = "format_splits_block_start_word"
		}
		res.addFailure(Failure{Kind: "C10", Shape: shape, Input: input,
			Detail: fmt.Sprintf("generate before: %s %q, after: %s %q", g0, clip(gen0.Stdout, 200), g1, clip(gen1.Stdout, 200))})
	}
}

var kBlockStartGlued = regexp.MustCompile(`(?m)^[ \t]*##!>\s*(?:assemble|cmdline)[^\s]`)

var (
	kBlockStart = regexp.MustCompile(`^##!>\s*(assemble|cmdline)\s*(\S+)?`)
	kBlockEnd   = regexp.MustCompile(`^##!<`)
	kInclude    = regexp.MustCompile(`^##!>\s*include\s+(\S+)(?:\s*--\s*(.*?))?\s*$`)
	kIncludeEx  = regexp.MustCompile(`^##!>\s*include-except\s+(\S+)\s*(.*?)(?:\s*--\s*(.*?))?\s*$`)
)

// the white-space-stripped line sequence the RECORDED deviations of the formatter produce from the
// input: text after a block start is dropped, an end marker without open block becomes an empty
// line, a "--" that is followed by no pairs is dropped; everything else is kept
func knownFormatDeviations(before string, hadHeader bool) []string {
	var out []string
	depth := 0
	for _, l := range strings.Split(before, "\n") {
		t := strings.TrimLeft(strings.TrimSuffix(l, "\r"), " \t")
		switch {
		case kBlockStart.MatchString(t):
			m := kBlockStart.FindStringSubmatch(t)
			x := "##!> " + m[1]
			if m[2] != "" {
				x += " " + m[2]
			}
			out = append(out, stripWS(x))
			depth++
		case kBlockEnd.MatchString(t):
			if depth == 0 {
				out = append(out, "")
			} else {
				depth--
				out = append(out, stripWS(t))
			}
		case kInclude.MatchString(t):
			m := kInclude.FindStringSubmatch(t)
			x := "##!> include " + m[1]
			if m[2] != "" {
				x += " -- " + m[2]
			}
			out = append(out, stripWS(x))
		case kIncludeEx.MatchString(t):
			m := kIncludeEx.FindStringSubmatch(t)
			x := "##!> include-except " + m[1] + " " + m[2]
			if m[3] != "" {
				x += " -- " + m[3]
			}
			out = append(out, stripWS(x))
		default:
			out = append(out, stripWS(l))
		}
	}
	for len(out) > 0 && out[len(out)-1] == "" {
		out = out[:len(out)-1]
	}
	return out
}
