package main

import (
	"fmt"
	"strconv"
	"strings"

	"github.com/coreruleset/crs-toolchain/v2/chore"
	"github.com/coreruleset/crs-toolchain/v2/cmd"
)

func init() {
	register("copyright", suiteCopyright)
}

var crsVersionsSimple = []string{"4.0.0", "4.1.0", "3.3.5", "4.10.2", "10.0.1", "4.0.0-rc1", "4.1.0-rc2", "4.2.0-dev", "4.0.1-rc-1"}
var crsVersionsOther = []string{"v4.1.0", "4.1.0-RC1", "4.1.0-rc.1", "4.1.0+b1", "4.1", "v4.2.0-rc1", "4.0.0-Beta", "4", "4.1.0-rc1+build.5", "4.1.0-0a"}

func genVersionText(r *Rng) string {
	if r.Chance(3, 4) {
		return r.Pick(crsVersionsSimple)
	}
	return r.Pick(crsVersionsOther)
}

func genConfLine(r *Rng) string {
	v := genVersionText(r)
	y := strconv.Itoa(r.Range(2019, 2031))
	switch r.Intn(16) {
	case 0:
		return "# OWASP ModSecurity Core Rule Set ver." + v
	case 1:
		return "# OWASP CRS ver." + v
	case 2:
		return "# Copyright (c) 2021-" + y + " Core Rule Set project. All rights reserved."
	case 3:
		return "# Copyright (c) 2021-" + y + " CRS project. All rights reserved."
	case 4:
		return "    ver:'OWASP_CRS/" + v + "',\\"
	case 5:
		return "SecComponentSignature \"OWASP_CRS/" + v + "\""
	case 6:
		return "    setvar:tx.crs_setup_version=" + strings.Join(strings.FieldsFunc(v, func(c rune) bool { return c < '0' || c > '9' }), "") + "\""
	case 7:
		return "SecRule REQUEST_URI \"@rx foo\" \"id:942100, ver:'OWASP_CRS/" + v + "', ver:'OWASP_CRS/" + genVersionText(r) + "'\""
	case 8:
		return r.Pick([]string{"# OWASP CRS ver.", "# OWASP CRS ver", " # OWASP CRS ver.4.0.0", "# Copyright (c) 2021-20245 CRS project. All rights reserved.",
			"# Copyright (c) 2021-2024 CRS project. All rights reserved. ", "# Copyright (c) 2021-2024 CRS projectX All rights reservedY", "ver:'OWASP_CRS/4.0'", "ver:'OWASP_CRS/4.0.'",
			"ver:'OWASP_CRS/4.0.0-'", "ver:'OWASP_CRS/4.0.0--x-'", " SecComponentSignature \"OWASP_CRS/4.0.0\"", "setvar:tx.crs_setup_version=", "setvar:txXcrs_setup_version=400",
			"setvar:tx.crs_setup_version=400 setvar:tx.crs_setup_version=4", "# Copyright (c) 2021-2024 Core Rule Set project. All rights reserved.x"})
	case 9:
		return ""
	case 10:
		return "# Copyright (c) 2006-2020 Trustwave and contributors. All rights reserved."
	case 11:
		return "SecRule &TX:crs_setup_version \"@eq 0\" \\"
	default:
		return r.Pick([]string{"#", "# ---", "SecAction \\", "    \"id:900990,\\", "    phase:1,\\", "    pass,\\", "    t:none,\\", "    nolog,\\", "  caf\xc3\xa9 \xff", "\t"})
	}
}

func genConf(r *Rng) string {
	n := r.Range(0, 12)
	lines := make([]string, n)
	for i := range lines {
		lines[i] = genConfLine(r)
		if r.Chance(1, 12) {
			lines[i] = r.Mutate(lines[i], "0123456789.-' vc", 1)
		}
	}
	nl := "\n"
	if r.Chance(1, 6) {
		nl = "\r\n"
	}
	t := strings.Join(lines, nl)
	if n > 0 && r.Chance(4, 5) {
		t += nl
	}
	return t
}

func updateRulesImpl(v, y, text string) (string, bool) {
	out, err := chore.VerifUpdateRules(v, y, []byte(text))
	return string(out), err == nil
}

// marker occurrences as the statement reads them (independent recogniser):
// the version text extends to the closing quote / end of line
func markersShow(out string, v string, y string) (bool, string) {
	short := ""
	for _, c := range v {
		if c >= '0' && c <= '9' {
			short += string(c)
		}
	}
	for _, l := range strings.Split(out, "\n") {
		for _, p := range []string{"# OWASP ModSecurity Core Rule Set ver.", "# OWASP CRS ver."} {
			if strings.HasPrefix(l, p) && len(l) > len(p) && l[len(p):] != v {
				return false, l
			}
		}
		rest := l
		for {
			i := strings.Index(rest, "ver:'OWASP_CRS/")
			if i < 0 {
				break
			}
			rest = rest[i+len("ver:'OWASP_CRS/"):]
			j := strings.IndexAny(rest, "'")
			if j < 0 {
				j = len(rest)
			}
			if j > 0 && rest[0] >= '0' && rest[0] <= '9' || j > 0 && rest[0] == 'v' {
				if rest[:j] != v {
					return false, l
				}
			}
		}
		if strings.HasPrefix(l, "SecComponentSignature \"OWASP_CRS/") {
			r2 := l[len("SecComponentSignature \"OWASP_CRS/"):]
			j := strings.IndexAny(r2, "\"")
			if j < 0 {
				j = len(r2)
			}
			if j > 0 && (r2[0] >= '0' && r2[0] <= '9' || r2[0] == 'v') && r2[:j] != v {
				return false, l
			}
		}
	}
	_ = short
	_ = y
	return true, ""
}

func suiteCopyright(env *Env, res *Result) {
	res.Rule = "rules/setup-like files of 0..12 lines drawn from the five marker kinds (with versions of every accepted form), near-miss marker lines, ordinary rule text, non-ASCII bytes, LF/CRLF, with/without final newline; versions: 75% simple (x.y.z[-lower]), 25% other accepted forms; histories of 1..3 invocations; non-trivial = contains at least one marker line; distinct by case hash"
	r := NewRng(env.Seed)
	n := env.N(1500, 40000)
	var cases []CorrCase
	for i := 0; i < n; i++ {
		text := genConf(r)
		v := genVersionText(r)
		y := strconv.Itoa(r.Range(2022, 2099))
		out, ok := updateRulesImpl(v, y, text)
		impl := "ERR"
		if ok {
			impl = "OK\t" + hx(out)
		}
		class := ""
		if strings.Contains(text, "OWASP") || strings.Contains(text, "Copyright (c) 2021") || strings.Contains(text, "crs_setup_version=") {
			class = "markers"
		}
		cases = append(cases, CorrCase{Fields: []string{"copyright", "gen", hx(v), hx(y), hx(text)}, Impl: impl,
			Human: fmt.Sprintf("v=%s y=%s %s", v, y, strconv.Quote(clip(text, 300))), Class: class})
		if !ok || cmd.VerifValidateSemver(v) != nil {
			continue
		}
		// property oracle: histories.  The starting file carries versions written by
		// "earlier runs"; the last invocation alone must decide the result.
		v1 := genVersionText(r)
		y1 := strconv.Itoa(r.Range(2022, 2099))
		if cmd.VerifValidateSemver(v1) != nil {
			continue
		}
		mid, _ := updateRulesImpl(v1, y1, text)
		seq, _ := updateRulesImpl(v, y, mid)
		twice, _ := updateRulesImpl(v, y, out)
		input := map[string]string{"contents": text, "v1": v1, "y1": y1, "v": v, "y": y}
		shapeOf := func(base string) string {
			if !isSimpleVersion(v) || !isSimpleVersion(v1) || !fileVersionsSimple(text) {
				return base + "_nonsimple_version"
			}
			return base
		}
		if twice != out {
			res.addFailure(Failure{Kind: "copyright", Shape: shapeOf("copyright_not_idempotent"), Input: input,
				Detail: fmt.Sprintf("repeating -v %s -y %s changes the file: %q -> %q", v, y, clip(out, 300), clip(twice, 300))})
		} else if seq != out {
			res.addFailure(Failure{Kind: "copyright", Shape: shapeOf("copyright_history_dependent"), Input: input,
				Detail: fmt.Sprintf("after an earlier run with -v %s the result differs: %q vs %q", v1, clip(seq, 300), clip(out, 300))})
		}
		if ok2, line := markersShow(seq, v, y); !ok2 {
			res.addFailure(Failure{Kind: "copyright", Shape: shapeOf("copyright_marker_not_updated"), Input: input,
				Detail: fmt.Sprintf("marker line does not show %s: %q", v, line)})
		}
	}
	compareWithModel(env, res, cases)
}

func isSimpleVersion(v string) bool {
	// \d+\.\d+\.\d+(-[a-z0-9-]+)?
	i := 0
	num := func() bool {
		j := i
		for i < len(v) && v[i] >= '0' && v[i] <= '9' {
			i++
		}
		return i > j
	}
	if !num() || i >= len(v) || v[i] != '.' {
		return false
	}
	i++
	if !num() || i >= len(v) || v[i] != '.' {
		return false
	}
	i++
	if !num() {
		return false
	}
	if i == len(v) {
		return true
	}
	if v[i] != '-' || i+1 == len(v) {
		return false
	}
	for _, c := range v[i+1:] {
		if !(c >= 'a' && c <= 'z' || c >= '0' && c <= '9' || c == '-') {
			return false
		}
	}
	return true
}

// every version text already in the file is simple (the file was written by simple versions)
func fileVersionsSimple(text string) bool {
	for _, v := range crsVersionsOther {
		if strings.Contains(text, v) {
			return false
		}
	}
	for _, l := range strings.Split(text, "\n") {
		for _, m := range []string{"ver:'OWASP_CRS/", "SecComponentSignature \"OWASP_CRS/"} {
			rest := l
			for {
				i := strings.Index(rest, m)
				if i < 0 {
					break
				}
				rest = rest[i+len(m):]
				j := strings.IndexAny(rest, "'\"")
				if j < 0 {
					j = len(rest)
				}
				if !isSimpleVersion(rest[:j]) {
					return false
				}
			}
		}
	}
	return true
}
