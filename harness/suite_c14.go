package main

import (
	"fmt"
	"strconv"
	"strings"

	"github.com/coreruleset/crs-toolchain/v2/chore"
	"github.com/coreruleset/crs-toolchain/v2/cmd"
)

func init() {
	register("copyright", suiteCopyright)
}

var crsVersionsSimple = []string{"4.0.0", "4.1.0", "3.3.5", "4.10.2", "10.0.1", "4.0.0-rc1", "4.1.0-rc2", "4.2.0-dev", "4.0.1-rc-1"}
var crsVersionsOther = []string{"v4.1.0", "4.1.0-RC1", "4.1.0-rc.1", "4.1.0+b1", "4.1", "v4.2.0-rc1", "4.0.0-Beta", "4", "4.1.0-rc1+build.5", "4.1.0-0a"}

func genVersionText(r *Rng) string {
	if r.Chance(3, 4) {
		return r.Pick(crsVersionsSimple)
	}
	return r.Pick(crsVersionsOther)
}

func genConfLine(r *Rng) string {
	v := genVersionText(r)
	y := strconv.Itoa(r.Range(2019, 2031))
	switch r.Intn(16) {
	case 0:
		return "# OWASP ModSecurity Core Rule Set ver." + v
	case 1:
		return "# OWASP CRS ver." + v
	case 2:
		return "# Copyright (c) 2021-" + y + " Core Rule Set project. All rights reserved."
	case 3:
		return "# Copyright (c) 2021-" + y + " CRS project. All rights reserved."
	case 4:
		return "    ver:'OWASP_CRS/" + v + "',\\"
	case 5:
		return "SecComponentSignature \"OWASP_CRS/" + v + "\""
	case 6:
		return "    setvar:tx.crs_setup_version=" + strings.Join(strings.FieldsFunc(v, func(c rune) bool { return c < '0' || c > '9' }), "") + "\""
	case 7:
		return "SecRule REQUEST_URI \"@rx foo\" \"id:942100, ver:'OWASP_CRS/" + v + "', ver:'OWASP_CRS/" + genVersionText(r) + "'\""
	case 8:
		return r.Pick([]string{"# OWASP CRS ver.", "# OWASP CRS ver", " # OWASP CRS ver.4.0.0", "# Copyright (c) 2021-20245 CRS project. All rights reserved.",
			"# Copyright (c) 2021-2024 CRS project. All rights reserved. ", "# Copyright (c) 2021-2024 CRS projectX All rights reservedY", "ver:'OWASP_CRS/4.0'", "ver:'OWASP_CRS/4.0.'",
			"ver:'OWASP_CRS/4.0.0-'", "ver:'OWASP_CRS/4.0.0--x-'", " SecComponentSignature \"OWASP_CRS/4.0.0\"", "setvar:tx.crs_setup_version=", "setvar:txXcrs_setup_version=400",
			"setvar:tx.crs_setup_version=400 setvar:tx.crs_setup_version=4", "# Copyright (c) 2021-2024 Core Rule Set project. All rights reserved.x"})
	case 9:
		if r.Chance(1, 2) {
			return "SecAction \"id:900990,phase:1,pass,nolog,ver:'OWASP_CRS/" + v + "',setvar:tx.crs_setup_version=" + strings.Join(strings.FieldsFunc(v, func(c rune) bool { return c < '0' || c > '9' }), "") + "\""
		}
		return ""
	case 10:
		return "# Copyright (c) 2006-2020 Trustwave and contributors. All rights reserved."
	case 11:
		return "SecRule &TX:crs_setup_version \"@eq 0\" \\"
	default:
		return r.Pick([]string{"#", "# ---", "SecAction \\", "    \"id:900990,\\", "    phase:1,\\", "    pass,\\", "    t:none,\\", "    nolog,\\", "  caf\xc3\xa9 \xff", "\t"})
	}
}

func genConf(r *Rng) string {
	n := r.Range(0, 12)
	lines := make([]string, n)
	for i := range lines {
		lines[i] = genConfLine(r)
		if r.Chance(1, 12) {
			lines[i] = r.Mutate(lines[i], "0123456789.-' vc", 1)
		}
	}
	nl := "\n"
	if r.Chance(1, 6) {
		nl = "\r\n"
	}
	t := strings.Join(lines, nl)
	if n > 0 && r.Chance(4, 5) {
		t += nl
	}
	return t
}

func updateRulesImpl(v, y, text string) (string, bool) {
	out, err := chore.VerifUpdateRules(v, y, []byte(text))
	return string(out), err == nil
}

// marker occurrences as the statement reads them (independent recogniser):
// the version text extends to the closing quote / end of line
func markersShow(out string, v string, y string) (bool, string) {
	short := ""
	for _, c := range v {
		if c >= '0' && c <= '9' {
			short += string(c)
		}
	}
	for _, l := range strings.Split(out, "\n") {
		for _, p := range []string{"# OWASP ModSecurity Core Rule Set ver.", "# OWASP CRS ver."} {
			if strings.HasPrefix(l, p) && len(l) > len(p) && l[len(p):] != v {
				return false, l
			}
		}
		rest := l
		for {
			i := strings.Index(rest, "ver:'OWASP_CRS/")
			if i < 0 {
				break
			}
			rest = rest[i+len("ver:'OWASP_CRS/"):]
			j := strings.IndexAny(rest, "'")
			if j < 0 {
				j = len(rest)
			}
			if j > 0 && rest[0] >= '0' && rest[0] <= '9' || j > 0 && rest[0] == 'v' {
				if rest[:j] != v {
					return false, "[value:" + rest[:j] + "] " + l
				}
			}
		}
		if strings.HasPrefix(l, "SecComponentSignature \"OWASP_CRS/") {
			r2 := l[len("SecComponentSignature \"OWASP_CRS/"):]
			j := strings.IndexAny(r2, "\"")
			if j < 0 {
				j = len(r2)
			}
			if j > 0 && (r2[0] >= '0' && r2[0] <= '9' || r2[0] == 'v') && r2[:j] != v {
				return false, "[value:" + r2[:j] + "] " + l
			}
		}
	}
	for _, l := range strings.Split(out, "\n") {
		if i := strings.Index(l, "setvar:tx.crs_setup_version="); i >= 0 {
			d := l[i+len("setvar:tx.crs_setup_version="):]
			j := 0
			for j < len(d) && d[j] >= '0' && d[j] <= '9' {
				j++
			}
			if j > 0 && d[:j] != short {
				return false, "[short version] " + l
			}
		}
		for _, p := range []string{"# Copyright (c) 2021-"} {
			if strings.HasPrefix(l, p) && (strings.HasSuffix(l, " Core Rule Set project. All rights reserved.") || strings.HasSuffix(l, " CRS project. All rights reserved.")) {
				yr := l[len(p):]
				if len(yr) >= 5 && yr[4] == ' ' && allDigits(yr[:4]) && yr[:4] != y {
					return false, "[year] " + l
				}
			}
		}
	}
	return true, ""
}

func allDigits(s string) bool {
	for _, c := range s {
		if c < '0' || c > '9' {
			return false
		}
	}
	return s != ""
}

// which marker kinds do the lines that differ between two results carry?
// known finding C14-version-forms is about the ver:'OWASP_CRS/..' and SecComponentSignature
// markers only (their read-side patterns are narrower than the accepted versions)
func onlyNarrowMarkers(a, b string) bool {
	la, lb := strings.Split(a, "\n"), strings.Split(b, "\n")
	if len(la) != len(lb) {
		return false
	}
	for i := range la {
		if la[i] == lb[i] {
			continue
		}
		if strings.HasPrefix(la[i], "# OWASP") || strings.HasPrefix(la[i], "# Copyright") {
			return false
		}
		if !strings.Contains(la[i], "ver:'OWASP_CRS/") && !strings.HasPrefix(la[i], "SecComponentSignature") {
			return false
		}
		// a line that also carries the short version: only the narrow marker may differ
		if i1, i2 := strings.Index(la[i], "crs_setup_version="), strings.Index(lb[i], "crs_setup_version="); i1 >= 0 && i2 >= 0 {
			if digitsAt(la[i][i1:]) != digitsAt(lb[i][i2:]) {
				return false
			}
		}
	}
	return true
}

func digitsAt(s string) string {
	i := strings.Index(s, "=")
	out := ""
	for _, c := range s[i+1:] {
		if c < '0' || c > '9' {
			break
		}
		out += string(c)
	}
	return out
}

func suiteCopyright(env *Env, res *Result) {
	res.Rule = "rules/setup-like files of 0..12 lines drawn from the five marker kinds (with versions of every accepted form), near-miss marker lines, ordinary rule text, non-ASCII bytes, LF/CRLF, with/without final newline; versions: 75% simple (x.y.z[-lower]), 25% other accepted forms; histories of 1..3 invocations; non-trivial = contains at least one marker line; distinct by case hash"
	r := NewRng(env.Seed)
	n := env.N(1500, 40000)
	var cases []CorrCase
	var pending []pendingFailure
	for i := 0; i < n; i++ {
		text := genConf(r)
		if i < 3 {
			// a rule line of 64 KiB or more between marker lines: every line behind it must still be there
			L := []int{65535, 65536, 70000}[i]
			long := "SecRule ARGS \"@pm " + strings.Repeat("word ", L/5) + "\" \\"
			text = "# OWASP CRS ver.4.0.0\n" + long + "\n    \"id:942100,ver:'OWASP_CRS/4.0.0'\"\n" + text + "SecComponentSignature \"OWASP_CRS/4.0.0\"\n"
		}
		v := genVersionText(r)
		y := strconv.Itoa(r.Range(2022, 2099))
		out, ok := updateRulesImpl(v, y, text)
		if ok && text != "" && strings.Count(out, "\n") < strings.Count(text, "\n") {
			res.addFailure(Failure{Kind: "copyright", Shape: "copyright_lines_lost", Input: map[string]string{"contents": clip(text, 400), "v": v, "y": y, "length": strconv.Itoa(len(text))},
				Detail: fmt.Sprintf("the file has %d line breaks, the rewritten file %d: text that carries no marker was dropped", strings.Count(text, "\n"), strings.Count(out, "\n"))})
		}
		impl := "ERR"
		if ok {
			impl = "OK\t" + hx(out)
		}
		class := ""
		if strings.Contains(text, "OWASP") || strings.Contains(text, "Copyright (c) 2021") || strings.Contains(text, "crs_setup_version=") {
			class = "markers"
		}
		cases = append(cases, CorrCase{Fields: []string{"copyright", "gen", hx(v), hx(y), hx(text)}, Impl: impl,
			Human: fmt.Sprintf("v=%s y=%s %s", v, y, strconv.Quote(clip(text, 300))), Class: class})
		if !ok || cmd.VerifValidateSemver(v) != nil {
			continue
		}
		// property oracle: histories.  The starting file carries versions written by
		// "earlier runs"; the last invocation alone must decide the result.
		v1 := genVersionText(r)
		y1 := strconv.Itoa(r.Range(2022, 2099))
		if cmd.VerifValidateSemver(v1) != nil {
			continue
		}
		mid, _ := updateRulesImpl(v1, y1, text)
		seq, _ := updateRulesImpl(v, y, mid)
		twice, _ := updateRulesImpl(v, y, out)
		input := map[string]string{"contents": text, "v1": v1, "y1": y1, "v": v, "y": y}
		nonsimple := !isSimpleVersion(v) || !isSimpleVersion(v1) || !fileVersionsSimple(text)
		shapeOf := func(base string, a, b string) string {
			if nonsimple && onlyNarrowMarkers(a, b) {
				return base + "_nonsimple_version"
			}
			return base
		}
		mainIdx := len(cases) - 1
		if twice != out {
			cases = append(cases, CorrCase{Fields: []string{"copyright", "gen", hx(v), hx(y), hx(out)}, Impl: "OK\t" + hx(twice), Human: "second application"})
			pending = append(pending, pendingFailure{f: Failure{Kind: "copyright", Shape: shapeOf("copyright_not_idempotent", out, twice), Input: input,
				Detail: fmt.Sprintf("repeating -v %s -y %s changes the file: %q -> %q", v, y, clip(out, 300), clip(twice, 300))}, idx: []int{mainIdx, len(cases) - 1}})
		} else if seq != out {
			cases = append(cases, CorrCase{Fields: []string{"copyright", "gen", hx(v1), hx(y1), hx(text)}, Impl: "OK\t" + hx(mid), Human: "history step 1"},
				CorrCase{Fields: []string{"copyright", "gen", hx(v), hx(y), hx(mid)}, Impl: "OK\t" + hx(seq), Human: "history step 2"})
			pending = append(pending, pendingFailure{f: Failure{Kind: "copyright", Shape: shapeOf("copyright_history_dependent", seq, out), Input: input,
				Detail: fmt.Sprintf("after an earlier run with -v %s the result differs: %q vs %q", v1, clip(seq, 300), clip(out, 300))}, idx: []int{mainIdx, len(cases) - 2, len(cases) - 1}})
		}
		if ok2, line := markersShow(seq, v, y); !ok2 {
			shape := "copyright_marker_not_updated"
			if nonsimple && !strings.HasPrefix(line, "[short") && !strings.HasPrefix(line, "[year") && !strings.HasPrefix(line, "# OWASP") {
				shape += "_nonsimple_version"
			}
			// the recorded finding is a property of the faithful model: it explains the failure only
			// if the code did, in both invocations, exactly what the model does (decided below)
			cases = append(cases, CorrCase{Fields: []string{"copyright", "gen", hx(v1), hx(y1), hx(text)}, Impl: "OK\t" + hx(mid), Human: "history step 1"},
				CorrCase{Fields: []string{"copyright", "gen", hx(v), hx(y), hx(mid)}, Impl: "OK\t" + hx(seq), Human: "history step 2"})
			pending = append(pending, pendingFailure{f: Failure{Kind: "copyright", Shape: shape, Input: input,
				Detail: fmt.Sprintf("marker line does not show %s / %s: %q", v, y, line)}, idx: []int{len(cases) - 2, len(cases) - 1}})
		}
	}
	outs := compareWithModel(env, res, cases)
	for _, pf := range pending {
		f := pf.f
		if strings.HasSuffix(f.Shape, "_nonsimple_version") && outs != nil {
			for _, k := range pf.idx {
				if outs[k] != cases[k].Impl {
					f.Shape = strings.TrimSuffix(f.Shape, "_nonsimple_version") // not what the unchanged code does
					break
				}
			}
		}
		res.addFailure(f)
	}
}

type pendingFailure struct {
	f   Failure
	idx []int
}

func isSimpleVersion(v string) bool {
	// \d+\.\d+\.\d+(-[a-z0-9-]+)?
	i := 0
	num := func() bool {
		j := i
		for i < len(v) && v[i] >= '0' && v[i] <= '9' {
			i++
		}
		return i > j
	}
	if !num() || i >= len(v) || v[i] != '.' {
		return false
	}
	i++
	if !num() || i >= len(v) || v[i] != '.' {
		return false
	}
	i++
	if !num() {
		return false
	}
	if i == len(v) {
		return true
	}
	if v[i] != '-' || i+1 == len(v) {
		return false
	}
	for _, c := range v[i+1:] {
		if !(c >= 'a' && c <= 'z' || c >= '0' && c <= '9' || c == '-') {
			return false
		}
	}
	return true
}

// every version text already in the file is simple (the file was written by simple versions)
func fileVersionsSimple(text string) bool {
	for _, v := range crsVersionsOther {
		if strings.Contains(text, v) {
			return false
		}
	}
	for _, l := range strings.Split(text, "\n") {
		for _, m := range []string{"ver:'OWASP_CRS/", "SecComponentSignature \"OWASP_CRS/"} {
			rest := l
			for {
				i := strings.Index(rest, m)
				if i < 0 {
					break
				}
				rest = rest[i+len(m):]
				j := strings.IndexAny(rest, "'\"")
				if j < 0 {
					j = len(rest)
				}
				if !isSimpleVersion(rest[:j]) {
					return false
				}
			}
		}
	}
	return true
}
