package main

import (
	"fmt"
	"os"
	"sort"
	"strconv"
	"strings"

	rcontext "github.com/coreruleset/crs-toolchain/v2/context"
	"github.com/coreruleset/crs-toolchain/v2/regex/parser"
	"github.com/coreruleset/crs-toolchain/v2/regex/processors"
)

// Metamorphic suites on the real binary: a program and the program in which the
// harness has done the work by hand (inlined an include, removed the exclusions,
// rewritten the suffixes, expanded the definitions) must generate the same regex.

func init() {
	register("c05_inline", suiteC05Inline)
	register("c06_except", suiteC06Except)
	register("c07_defs", suiteC07Defs)
}

type metaCase struct {
	kind       string
	tree       Tree   // include/exclude files + config
	a, b       string // the two program texts
	resA       CLIResult
	resB       CLIResult
	input      map[string]interface{}
	expectA    string // "" | "fail": A must fail
	fsArg      string
	cfg        [6]string
	orderFail  string
	runsDiffer string
}

// parseWithRoot runs the real parser (compile mode) with include/exclude files below root
func parseWithRoot(root string, input string) (out string, ok bool) {
	defer func() {
		if p := recover(); p != nil {
			ok = false
		}
	}()
	ctx := processors.NewContext(rcontext.New(root, "toolchain.yaml"))
	r := parser.VerifParse(ctx, input)
	return r.Out, true
}

func runMeta(env *Env, res *Result, cases []*metaCase, prop string, shapeOf func(*metaCase) string) {
	parallelFor(len(cases), func(i int) {
		c := cases[i]
		root := mkScratch(env, "meta")
		writeTree(root, c.tree)
		c.resA = runCLI(env, root, c.a, "-d", root, "regex", "generate", "-")
		if c.expectA == "" {
			c.resB = runCLI(env, root, c.b, "-d", root, "regex", "generate", "-")
		}
		_ = os.RemoveAll(root)
	})
	var corr []CorrCase
	var eq [][]string
	var eqIdx []int
	for i, c := range cases {
		res.count("kind:" + c.kind)
		cls := ""
		if exitClass(c.resA) == "ok" && c.resA.Stdout != "" {
			cls = c.kind
		}
		corr = append(corr, CorrCase{Fields: []string{"generate", hx(c.cfg[0]), hx(c.cfg[1]), hx(c.cfg[2]), hx(c.cfg[3]), hx(c.cfg[4]), hx(c.cfg[5]), c.fsArg, hx(c.a)}, Impl: implClass(c.resA), Human: c.kind + " " + strconv.Quote(c.a), Class: cls})
		if cl := exitClass(c.resA); cl == "crash" || cl == "hang" {
			res.addFailure(Failure{Kind: "C19", Shape: "generate_" + cl, Input: c.input, Detail: clip(c.resA.Stderr, 300)})
			continue
		}
		if c.expectA == "fail" {
			if c.resA.Exit == 0 {
				res.addFailure(Failure{Kind: prop, Shape: shapeOf(c) + "_not_rejected", Input: c.input, Detail: "exit 0, stdout " + clip(c.resA.Stdout, 200)})
			}
			continue
		}
		ca, cb := exitClass(c.resA), exitClass(c.resB)
		if ca != cb {
			res.addFailure(Failure{Kind: prop, Shape: shapeOf(c) + "_exit_differs", Input: c.input, Detail: fmt.Sprintf("program: %s %q; by hand: %s %q", ca, clip(c.resA.Stderr, 200), cb, clip(c.resB.Stderr, 200))})
			continue
		}
		if ca != "ok" {
			res.count("both-fail")
			continue
		}
		if c.resA.Stdout == c.resB.Stdout {
			res.count("bytes-equal")
			continue
		}
		// different text: the property is about the language
		ra, e1 := textToRX(c.resA.Stdout, false, false)
		rb, e2 := textToRX(c.resB.Stdout, false, false)
		if c.resA.Stdout == "" || c.resB.Stdout == "" {
			res.addFailure(Failure{Kind: prop, Shape: shapeOf(c) + "_empty_vs_nonempty", Input: c.input, Detail: fmt.Sprintf("%q vs %q", clip(c.resA.Stdout, 200), clip(c.resB.Stdout, 200))})
			continue
		}
		if e1 != nil || e2 != nil {
			res.count("text-differs-unsupported-construct")
			continue
		}
		eq = append(eq, []string{"equiv", "11", eqFuel(env), ra, rb})
		eqIdx = append(eqIdx, i)
	}
	compareWithModelAlt(env, res, corr)
	if len(eq) > 0 {
		outs, err := runDriverParallel(env, eq, 14)
		if err != nil {
			res.MismatchCount++
			res.Mismatches = append(res.Mismatches, Mismatch{Human: "equivalence driver", Model: err.Error()})
			return
		}
		for k, v := range outs {
			c := cases[eqIdx[k]]
			switch {
			case strings.HasPrefix(v, "HOLDS"):
				res.count("text-differs-language-equal")
			case v == "FUEL":
				res.count("text-differs-no-verdict")
			case strings.HasPrefix(v, "DIFFERS"):
				w, _ := wordOfVerdict(v)
				confirmed := false
				detail := ""
				for _, ctx := range [][2]bool{{true, true}, {true, false}, {false, true}, {false, false}} {
					x, e1 := matchExact(c.resA.Stdout, w, ctx[0], ctx[1])
					y, e2 := matchExact(c.resB.Stdout, w, ctx[0], ctx[1])
					if e1 == nil && e2 == nil && x != y {
						confirmed = true
						detail = fmt.Sprintf("subject %q: program's regex %q matches %v, by-hand regex %q matches %v", w, clip(c.resA.Stdout, 150), x, clip(c.resB.Stdout, 150), y)
						break
					}
				}
				if confirmed {
					in := map[string]interface{}{}
					for k2, v2 := range c.input {
						in[k2] = v2
					}
					in["witness"] = w
					res.addFailure(Failure{Kind: prop, Shape: shapeOf(c), Input: in, Detail: detail})
				} else {
					res.MismatchCount++
					if len(res.Mismatches) < 12 {
						res.Mismatches = append(res.Mismatches, Mismatch{Human: "checker difference not confirmed by Go's engine", Impl: c.resA.Stdout, Model: c.resB.Stdout + " " + v})
					}
				}
			}
		}
	}
}

func fsArgOf(tree Tree) string {
	names := []string{}
	for p := range tree {
		if strings.HasSuffix(p, ".ra") && (strings.HasPrefix(p, "regex-assembly/include/") || strings.HasPrefix(p, "regex-assembly/exclude/")) {
			names = append(names, p)
		}
	}
	sort.Strings(names)
	parts := []string{}
	for _, p := range names {
		d := "i"
		rel := strings.TrimPrefix(p, "regex-assembly/include/")
		if strings.HasPrefix(p, "regex-assembly/exclude/") {
			d = "e"
			rel = strings.TrimPrefix(p, "regex-assembly/exclude/")
		}
		parts = append(parts, d+":"+hx(rel)+":"+hx(tree[p]))
	}
	if len(parts) == 0 {
		return "."
	}
	return strings.Join(parts, ";")
}

// ---------- C05 ----------

// own parse of an include file: its entries after comment/blank removal and its OWN definitions
func ownBuffer(text string) (entries []string, prefixes, suffixes []string, hasFlags bool) {
	defs := map[string]string{}
	var raw []string
	for _, l := range strings.Split(strings.ReplaceAll(text, "\r\n", "\n"), "\n") {
		t := strings.TrimLeft(l, " \t")
		switch {
		case strings.TrimSpace(t) == "":
		case strings.HasPrefix(t, "##!> define "):
			f := strings.Fields(t)
			if len(f) == 4 {
				if _, ok := defs[f[2]]; !ok {
					defs[f[2]] = f[3]
				}
			}
		case strings.HasPrefix(t, "##!^"):
			prefixes = append(prefixes, strings.TrimSpace(t[4:]))
		case strings.HasPrefix(t, "##!$"):
			suffixes = append(suffixes, strings.TrimSpace(t[4:]))
		case strings.HasPrefix(t, "##!+"):
			hasFlags = true
		case strings.HasPrefix(t, "##!") && !strings.HasPrefix(t, "##!>") && !strings.HasPrefix(t, "##!<") && !strings.HasPrefix(t, "##!="):
		default:
			raw = append(raw, t)
		}
	}
	for _, e := range raw {
		entries = append(entries, substDefs(e, defs))
	}
	return
}

func suiteC05Inline(env *Env, res *Result) {
	res.Rule = "including programs x include files (word lists, regex lists, with comments/blank lines/indentation, with own prefixes and/or suffixes, with own definitions, found in include/ or exclude/, named with or without .ra, with a flags line) x positions (top level, assemble block, cmdline block): `generate` of the including program vs. `generate` of the program in which the harness typed the file's lines in place; bytes, and where the text differs the verified equivalence checker; flags in an include must be rejected. Every program also runs through the Gallina model"
	r := NewRng(env.Seed + 505)
	n := env.N(120, 4000)
	var cases []*metaCase
	for i := 0; i < n; i++ {
		wl := r.Chance(1, 2)
		var lines []string
		ne := r.Range(1, 5)
		for j := 0; j < ne; j++ {
			if wl {
				lines = append(lines, r.Pick([]string{"ls", "cat", "time", "apt-get", "nc.traditional", "a b", "ps", "id@", "sh~"}))
			} else {
				lines = append(lines, genEntryText(r))
			}
			if r.Chance(1, 5) {
				lines = append(lines, r.Pick([]string{"##! comment", "", "  ", "\t##! x"}))
			}
		}
		kind := "plain"
		var pfx, sfx string
		// an include file that writes prefixes/suffixes but no entry of its own (all commented out)
		noEntries := !wl && r.Chance(1, 7)
		if noEntries {
			lines = []string{"##! was: " + r.Pick([]string{"alpha", "a|b"}), r.Pick([]string{"", "  ", "##! x"})}
		}
		if !wl && (r.Chance(1, 3) || noEntries) {
			pfx = simpleAffix(r, false)
			lines = append([]string{"##!^ " + pfx}, lines...)
			kind = "affix"
		}
		if !wl && r.Chance(1, 3) {
			sfx = simpleAffix(r, false)
			lines = append(lines, "##!$ "+sfx)
			kind = "affix"
		}
		if noEntries {
			kind += "+no-entries"
		}
		if !noEntries && r.Chance(1, 4) {
			lines = append([]string{"##!> define incdef " + r.Pick([]string{"[0-9]+", "q", "(?:u|v)"})}, lines...)
			lines = append(lines, "z{{incdef}}")
			kind += "+owndef"
		}
		flagsCase := r.Chance(1, 12)
		if flagsCase {
			lines = append(lines, "##!+ i")
			kind = "flags"
		}
		for j := range lines {
			if r.Chance(1, 5) {
				lines[j] = r.Pick([]string{"  ", "\t", "    "}) + lines[j]
			}
		}
		ftext := strings.Join(lines, "\n") + "\n"
		dir := "include"
		if r.Chance(1, 4) {
			dir = "exclude"
			kind += "+excludedir"
		}
		base := "lib"
		if r.Chance(1, 4) {
			base = "lib-8.x" // a dot in the name that is not the .ra extension
			kind += "+dotted-name"
		}
		tree := Tree{"regex-assembly/include/": "", "regex-assembly/exclude/": "", "regex-assembly/" + dir + "/" + base + ".ra": ftext}
		if dir == "include" && r.Chance(1, 3) {
			// a file of the same name in exclude/ : the include directory is searched first and wins
			tree["regex-assembly/exclude/"+base+".ra"] = r.Pick([]string{"shadow\ndecoy\n", "##!^ wrong\nshadow\n", "\n"})
			kind += "+same-name-in-exclude"
		}
		ref := base
		if r.Chance(1, 3) {
			ref = base + ".ra"
		}
		entries, pf, sf, _ := ownBuffer(ftext)
		// by hand
		var inl []string
		if len(pf) == 0 && len(sf) == 0 {
			inl = entries
		} else {
			inl = append(inl, "##!> assemble")
			for _, p := range pf {
				inl = append(inl, p, "##!=>")
			}
			inl = append(inl, entries...)
			if len(sf) > 0 {
				inl = append(inl, "##!=>")
			}
			for _, s := range sf {
				inl = append(inl, s, "##!=>")
			}
			inl = append(inl, "##!<")
		}
		// the position
		pos := r.Intn(3)
		if !wl && pos == 2 {
			pos = 1
		}
		if kind != "plain" && strings.HasPrefix(kind, "affix") && pos == 2 {
			pos = 0
		}
		before := []string{r.Pick([]string{"foo", "ba[rz]", "x+y"})}
		after := []string{r.Pick([]string{"qux", "end$", "\\d+z"})}
		if strings.Contains(kind, "owndef") {
			// definitions made in F must not leak: the includer references the name without defining it
			// (stays literal text), or defines the same name itself with another value
			switch r.Intn(4) {
			case 0:
				before = append(before, "lit{{incdef}}")
				kind += "+undefined-ref-in-includer"
			case 1:
				before = append([]string{"##!> define incdef OWN"}, before...)
				before = append(before, "mine{{incdef}}")
				kind += "+same-name-defined-before"
			case 2:
				after = append(after, "mine{{incdef}}", "##!> define incdef OWN")
				kind += "+same-name-defined-after"
			}
		}
		if r.Chance(1, 3) {
			before = nil
		}
		if r.Chance(1, 3) {
			after = nil
		}
		build := func(mid []string) string {
			var ls []string
			switch pos {
			case 0:
				ls = append(append(append(ls, before...), mid...), after...)
			case 1:
				ls = append(ls, before...)
				ls = append(ls, "##!> assemble")
				ls = append(ls, "inner")
				ls = append(ls, mid...)
				ls = append(ls, "##!=>")
				ls = append(ls, "tail")
				ls = append(ls, "##!<")
				ls = append(ls, after...)
			case 2:
				ls = append(ls, before...)
				ls = append(ls, "##!> cmdline unix", "w@")
				ls = append(ls, mid...)
				ls = append(ls, "##!<")
				ls = append(ls, after...)
			}
			return strings.Join(ls, "\n") + "\n"
		}
		a := build([]string{"##!> include " + ref})
		b := build(inl)
		if wl && kind == "plain" && r.Chance(1, 4) {
			// the same file twice in one program: first with a suffix replacement, then plain
			var first []string
			for _, e := range inl {
				if strings.HasSuffix(e, "@") {
					first = append(first, strings.TrimSuffix(e, "@")+"[\\s<>]")
				} else {
					first = append(first, e)
				}
			}
			a = build([]string{"##!> include " + ref + " -- @ [\\s<>]", "between", "##!> include " + ref})
			b = build(append(append(first, "between"), inl...))
			kind += "+twice"
		}
		kind += []string{"@top", "@assemble", "@cmdline"}[pos]
		c := &metaCase{kind: kind, tree: tree, a: a, b: b, fsArg: fsArgOf(tree),
			input: map[string]interface{}{"program": a, "by_hand": b, "include_file": dir + "/lib.ra", "include_text": ftext}}
		if flagsCase {
			c.expectA = "fail"
		}
		cases = append(cases, c)
	}
	runMeta(env, res, cases, "C05", func(c *metaCase) string {
		if strings.HasPrefix(c.kind, "flags") {
			return "c05_flags_in_include"
		}
		return "c05_include_differs_from_inline"
	})
}

// ---------- C06 ----------

func suiteC06Except(env *Env, res *Result) {
	res.Rule = "word-list include files (duplicates, blank lines, comments, own definitions) x 0..3 exclude files (overlapping, disjoint, empty, larger than F, using F's definitions) x non-interfering suffix-replacement pair lists (incl. the empty marker) on include and include-except: `generate` of the program vs. `generate` of the program in which the harness did the set difference and the suffix rewrite by hand; bytes, else the verified equivalence checker. Every program also runs through the Gallina model"
	r := NewRng(env.Seed + 606)
	n := env.N(120, 4000)
	words := []string{"ls", "cat", "time", "apt-get", "ps", "nc", "curl@", "wget@", "sh~", "bash~", "dd", "id@", "x{{d}}", "y{{d}}z", "cmd ", "sel\t", "cmd"}
	var cases []*metaCase
	for i := 0; i < n; i++ {
		withDef := r.Chance(1, 4)
		// one case in five: two include files that define the same name differently go through the
		// same exclude files, and the exclusion that matters is written with that name
		wantTwo := r.Chance(1, 5)
		if wantTwo {
			withDef = true
		}
		// one case in six: the name is defined by the INCLUDING file only; the include file and an exclude file
		// both write the reference, which stays literal text in both until the includer expands what is left
		outerDef := !withDef && r.Chance(1, 6)
		var flines []string
		if withDef {
			flines = append(flines, "##!> define d "+r.Pick([]string{"[0-9]", "q", "v+"}))
		}
		nf := r.Range(1, 7)
		for j := 0; j < nf; j++ {
			w := r.Pick(words)
			if strings.Contains(w, "{{d}}") && !withDef && !outerDef {
				w = "plain"
			}
			flines = append(flines, w)
			if r.Chance(1, 6) {
				flines = append(flines, r.Pick([]string{"", "##! c", "  "}))
			}
		}
		if wantTwo {
			flines = append(flines, "x{{d}}")
		}
		if r.Chance(1, 4) && len(flines) > 0 {
			// a repeated line with further lines behind it (the position of a repeated line is that of
			// its LAST occurrence; the lines behind it must still come after it)
			flines = append(flines, flines[len(flines)-1], "zeta", "eta")
			if r.Chance(1, 2) {
				flines = append(flines, flines[0], "theta")
			}
		}
		// one case in six: two exclude files define the same name differently and both use it; the
		// definitions map is shared, the first exclude file LISTED defines the name for all
		conflict := !withDef && !outerDef && r.Chance(1, 6)
		if conflict {
			flines = append(flines, "lsa", "lsb", "lsc")
		}
		if outerDef {
			flines = append(flines, "x{{d}}", "stays")
		}
		ftext := strings.Join(flines, "\n") + "\n"
		tree := Tree{"regex-assembly/include/": "", "regex-assembly/exclude/": "", "regex-assembly/include/f.ra": ftext}
		nx := r.Range(0, 3)
		if wantTwo && nx == 0 {
			nx = 1
		}
		if conflict {
			nx = r.Range(2, 4)
		}
		if outerDef && nx == 0 {
			nx = 1
		}
		var xnames []string
		var xentries [][]string
		fEntries, _, _, _ := ownBuffer(ftext)
		for k := 0; k < nx; k++ {
			var xl []string
			m := r.Range(0, 5)
			for j := 0; j < m; j++ {
				if len(fEntries) > 0 && r.Chance(1, 2) {
					// an entry of F, as F writes it (before F's definition expansion half of the time)
					src := flines[r.Intn(len(flines))]
					if strings.HasPrefix(src, "##!") || strings.TrimSpace(src) == "" {
						src = "other"
					}
					xl = append(xl, src)
				} else {
					xl = append(xl, r.Pick(append(append([]string{}, words[:11]...), "cmd ", "sel\t", "cmd")))
				}
			}
			if wantTwo && k == 0 {
				xl = append(xl, "x{{d}}")
			}
			if conflict {
				xl = append([]string{"##!> define e " + string(rune('a'+k%3))}, append(xl, "ls{{e}}")...)
			}
			if outerDef && k == 0 {
				xl = append(xl, "x{{d}}")
			}
			name := fmt.Sprintf("x%d", k)
			dir := r.Pick([]string{"exclude", "exclude", "include"})
			tree["regex-assembly/"+dir+"/"+name+".ra"] = strings.Join(xl, "\n") + "\n"
			xnames = append(xnames, name)
			xentries = append(xentries, xl)
		}
		// definitions of F are visible to the exclude files
		fdefs := map[string]string{}
		for _, l := range flines {
			if strings.HasPrefix(l, "##!> define ") {
				f := strings.Fields(l)
				fdefs[f[2]] = f[3]
			}
		}
		if conflict {
			fdefs["e"] = "a"
		}
		excluded := map[string]bool{}
		for _, xl := range xentries {
			for _, e := range xl {
				if strings.HasPrefix(e, "##!> define ") {
					continue
				}
				excluded[substDefs(e, fdefs)] = true
			}
		}
		// pairs: non-interfering (keys @ and ~ never produce each other)
		var pairs []string
		pm := map[string]string{}
		if r.Chance(2, 3) {
			pairs = append(pairs, "@", r.Pick([]string{"\"\"", "[\\s<>]", "x", "\"x\"", "'='"}))
			pm["@"] = pairs[1]
			if r.Chance(1, 2) {
				pairs = append(pairs, "~", r.Pick([]string{"\"\"", "[^\\s]", "y"}))
				pm["~"] = pairs[3]
			}
		}
		useExcept := nx > 0 || r.Chance(1, 2)
		var directive string
		if useExcept {
			directive = "##!> include-except f " + strings.Join(xnames, " ")
			if nx == 0 {
				directive = "##!> include f"
				useExcept = false
			}
		} else {
			directive = "##!> include f"
		}
		if len(pairs) > 0 {
			directive += " -- " + strings.Join(pairs, " ")
		}
		// by hand
		byHand := func(fEntries []string, excluded map[string]bool) []string {
			var hand []string
			seenLater := func(idx int) bool {
				for j := idx + 1; j < len(fEntries); j++ {
					if fEntries[j] == fEntries[idx] {
						return true
					}
				}
				return false
			}
			for idx, e := range fEntries {
				if useExcept {
					if excluded[e] {
						continue
					}
					if seenLater(idx) {
						continue // a duplicate contributes once (alternation)
					}
				}
				for k, v := range pm {
					if strings.HasSuffix(e, k) {
						e = strings.TrimSuffix(e, k)
						if v != "\"\"" {
							e += v
						}
						break
					}
				}
				hand = append(hand, e)
			}
			return hand
		}
		hand := byHand(fEntries, excluded)
		mid := []string{directive}
		twoUnits := false
		if useExcept && wantTwo {
			// a second include file that gives the SAME name another value, filtered through the
			// SAME exclude files: the exclude files must be read anew with its definitions
			twoUnits = true
			gval := r.Pick([]string{"[a-f]", "r", "w*"})
			glines := []string{"##!> define d " + gval, "x{{d}}"}
			ng := r.Range(1, 6)
			for j := 0; j < ng; j++ {
				glines = append(glines, r.Pick(words))
			}
			gtext := strings.Join(glines, "\n") + "\n"
			tree["regex-assembly/include/g.ra"] = gtext
			gEntries, _, _, _ := ownBuffer(gtext)
			gdefs := map[string]string{"d": gval}
			excludedG := map[string]bool{}
			for _, xl := range xentries {
				for _, e := range xl {
					excludedG[substDefs(e, gdefs)] = true
				}
			}
			mid = append(mid, strings.Replace(directive, "include-except f ", "include-except g ", 1))
			hand = append(hand, byHand(gEntries, excludedG)...)
		}
		pos := r.Intn(2)
		build := func(mid []string) string {
			var ls []string
			if outerDef {
				ls = append(ls, "##!> define d [0-9]")
			}
			if pos == 0 {
				ls = append(ls, "keep")
				ls = append(ls, mid...)
			} else {
				ls = append(ls, "keep", "##!> cmdline unix")
				ls = append(ls, mid...)
				ls = append(ls, "##!<")
			}
			return strings.Join(ls, "\n") + "\n"
		}
		kind := "include"
		if useExcept {
			kind = fmt.Sprintf("include-except/%d", nx)
		}
		if len(pairs) > 0 {
			kind += "+pairs"
		}
		if withDef {
			kind += "+defs"
		}
		if twoUnits {
			kind += "+second-file-same-excludes"
		}
		c := &metaCase{kind: kind, tree: tree, a: build(mid), b: build(hand), fsArg: fsArgOf(tree)}
		c.input = map[string]interface{}{"program": c.a, "by_hand": c.b, "files": tree}
		cases = append(cases, c)
	}
	// the order of the surviving entries, observed on the parser itself (the alternation hides it):
	// whatever the iteration order of the line map, the result must be a subsequence of F's entries
	parallelFor(len(cases), func(i int) {
		c := cases[i]
		if !strings.Contains(c.kind, "include-except") || strings.Contains(c.kind, "pairs") || strings.Contains(c.kind, "second-file") {
			return
		}
		root := mkScratch(env, "c06p")
		defer os.RemoveAll(root)
		writeTree(root, c.tree)
		fEntries, _, _, _ := ownBuffer(c.tree["regex-assembly/include/f.ra"])
		directive := ""
		for _, l := range strings.Split(c.a, "\n") {
			if strings.HasPrefix(l, "##!> include-except") {
				directive = l
			}
		}
		firstOut := ""
		for k := 0; k < 12; k++ {
			out, ok := parseWithRoot(root, directive+"\n")
			if !ok {
				return
			}
			if k == 0 {
				firstOut = out
			} else if out != firstOut && c.runsDiffer == "" {
				c.runsDiffer = fmt.Sprintf("two executions of the parser on the same directive give %q and %q", firstOut, out)
			}
			got := strings.Split(strings.TrimSuffix(out, "\n"), "\n")
			if out == "" {
				got = nil
			}
			j := 0
			for _, g := range got {
				for j < len(fEntries) && fEntries[j] != g {
					j++
				}
				if j == len(fEntries) {
					c.orderFail = fmt.Sprintf("parser output %q is not a subsequence of F's entries %q", got, fEntries)
					return
				}
				j++
			}
		}
	})
	for _, c := range cases {
		if c.orderFail != "" {
			res.addFailure(Failure{Kind: "C06", Shape: "c06_order_not_preserved", Input: c.input, Detail: c.orderFail})
		}
		if c.runsDiffer != "" {
			res.addFailure(Failure{Kind: "C03", Shape: "include_except_runs_differ", Input: c.input, Detail: c.runsDiffer})
		}
	}
	runMeta(env, res, cases, "C06", func(c *metaCase) string { return "c06_differs_from_by_hand" })
}

// ---------- C07 ----------

func suiteC07Defs(env *Env, res *Result) {
	res.Rule = "programs with 1..4 definitions (acyclic chains, values with metacharacters and quantifier braces, undefined references, references in entries, prefix and suffix lines and in blocks) x permutations and placements of the definition lines: `generate` of the program vs. of every permuted program vs. of the program in which the harness expanded the references itself and deleted the definition lines; bytes must be equal. Every program also runs through the Gallina model"
	r := NewRng(env.Seed + 707)
	n := env.N(100, 3000)
	var cases []*metaCase
	for i := 0; i < n; i++ {
		nd := r.Range(1, 4)
		permN := append([]string{}, defNames...)
		for a := len(permN) - 1; a > 0; a-- {
			b := r.Intn(a + 1)
			permN[a], permN[b] = permN[b], permN[a]
		}
		names := permN[:nd] // any order: the chain must not depend on how the names sort
		vals := map[string]string{}
		for j, nm := range names {
			v := r.Pick([]string{"[a-z]+", "\\d{1,3}", "(?:p|q)", "w", "x{2}", "\\.", "[^\"]", "a|b", "x{{nope}}y", "{{nope}}"})
			if j+1 < nd && r.Chance(1, 2) {
				v = r.Pick([]string{"a", "", "(?:"}) + "{{" + names[j+1+r.Intn(nd-j-1)] + "}}" + r.Pick([]string{"", "b", "?"})
				if strings.HasPrefix(v, "(?:") {
					v += ")"
				}
			}
			vals[nm] = v
		}
		var body []string
		ne := r.Range(1, 5)
		onlyAffixes := r.Chance(1, 8) // a file that writes no text of its own: definitions, prefix/suffix lines, nothing else
		if onlyAffixes {
			ne = 0
		}
		for j := 0; j < ne; j++ {
			e := r.Pick([]string{"foo", "x", "", "a+", "(?:b|c)"}) + "{{" + r.Pick(names) + "}}" + r.Pick([]string{"", "bar", "{2}", "z?", "{{undefined}}", "{{" + r.Pick(names) + "}}"})
			body = append(body, e)
			if r.Chance(1, 5) {
				body = append(body, "##!=>")
			}
			if r.Chance(1, 6) {
				body = append(body, "##!> assemble", "in{{"+r.Pick(names)+"}}", "side", "##!<")
			}
		}
		if r.Chance(1, 4) || onlyAffixes {
			body = append([]string{"##!^ " + r.Pick([]string{"pre", "", ""}) + "{{" + names[0] + "}}"}, body...)
		}
		if r.Chance(1, 4) || (onlyAffixes && r.Chance(1, 2)) {
			body = append([]string{"##!$ {{" + names[0] + "}}" + r.Pick([]string{"post", "", ""})}, body...)
		}
		// fully expanded values
		full := map[string]string{}
		for _, nm := range names {
			full[nm] = substDefs(vals[nm], vals)
		}
		var hand []string
		for _, l := range body {
			hand = append(hand, substDefs(l, full))
		}
		place := func(order []int) string {
			ls := append([]string{}, body...)
			for _, k := range order {
				d := "##!> define " + names[k] + " " + vals[names[k]]
				pos := r.Intn(len(ls) + 1)
				// never inside... anywhere is allowed by the property (also inside blocks)
				ls = append(ls[:pos], append([]string{d}, ls[pos:]...)...)
			}
			return strings.Join(ls, "\n") + "\n"
		}
		idx := make([]int, nd)
		for k := range idx {
			idx[k] = k
		}
		base := place(idx)
		tree := Tree{"regex-assembly/include/": "", "regex-assembly/exclude/": ""}
		// by-hand expansion
		c := &metaCase{kind: fmt.Sprintf("expanded-by-hand/%d", nd), tree: tree, a: base, b: strings.Join(hand, "\n") + "\n", fsArg: "."}
		c.input = map[string]interface{}{"program": c.a, "by_hand": c.b}
		cases = append(cases, c)
		// permutations of the definition lines
		for k := 0; k < 2; k++ {
			perm := append([]int{}, idx...)
			for a := len(perm) - 1; a > 0; a-- {
				b := r.Intn(a + 1)
				perm[a], perm[b] = perm[b], perm[a]
			}
			pc := &metaCase{kind: fmt.Sprintf("permuted/%d", nd), tree: tree, a: base, b: place(perm), fsArg: "."}
			pc.input = map[string]interface{}{"program": pc.a, "permuted": pc.b}
			cases = append(cases, pc)
		}
	}
	runMeta(env, res, cases, "C07", func(c *metaCase) string {
		if strings.HasPrefix(c.kind, "permuted") {
			return "c07_depends_on_definition_order"
		}
		return "c07_differs_from_textual_substitution"
	})
}
