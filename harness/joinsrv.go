package main

import (
	"bufio"
	"fmt"
	"os"

	"github.com/itchyny/rassemble-go"
)

// joinSrvMain serves rassemble.Join (the same module version /repo's go.mod pins) to the
// extracted model: one request per line (hex,hex,... ; "." = empty list), one answer per line.
func joinSrvMain() {
	in := bufio.NewScanner(os.Stdin)
	in.Buffer(make([]byte, 1<<20), 1<<30)
	out := bufio.NewWriter(os.Stdout)
	for in.Scan() {
		lines := unhxList(in.Text())
		if lines == nil {
			lines = []string{}
		}
		r, err := safeJoin(lines)
		if err != nil {
			fmt.Fprintln(out, "ERR")
		} else {
			fmt.Fprintln(out, "OK\t"+hx(r))
		}
		out.Flush()
	}
}

func safeJoin(lines []string) (res string, err error) {
	defer func() {
		if p := recover(); p != nil {
			err = fmt.Errorf("panic in Join: %v", p)
		}
	}()
	return rassemble.Join(lines)
}
