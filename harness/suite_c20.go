package main

import (
	"archive/tar"
	"bytes"
	"compress/gzip"
	"crypto/sha256"
	"encoding/hex"
	"fmt"
	"os"
	"os/exec"
	"path/filepath"
	"sort"
	"strconv"
	"strings"
	"time"

	"github.com/Masterminds/semver/v3"
)

func init() {
	register("self_update", suiteSelfUpdate)
}

type suCase struct {
	running  string // version the binary was built with ("" = default development version)
	rels     []*ghRelease
	listFail bool
	desc     []string
	// observed
	res      CLIResult
	before   string
	after    string
	requests []string
}

func tarGz(name string, payload []byte) []byte {
	var buf bytes.Buffer
	gz := gzip.NewWriter(&buf)
	tw := tar.NewWriter(gz)
	_ = tw.WriteHeader(&tar.Header{Name: name, Mode: 0o755, Size: int64(len(payload))})
	_, _ = tw.Write(payload)
	_ = tw.Close()
	_ = gz.Close()
	return buf.Bytes()
}

func sha(b []byte) string {
	h := sha256.Sum256(b)
	return hex.EncodeToString(h[:])
}

var suTags = []string{"v2.4.0", "v2.5.0", "v2.5.1", "v3.0.0", "v3.1.0-rc1", "v10.0.0", "nightly", "2.5.0", "v2.5.0+build7"}

func genCatalogue(r *Rng, c *suCase) {
	n := r.Range(0, 4)
	used := map[string]bool{}
	var nextID int64 = 100
	for i := 0; i < n; i++ {
		tag := r.Pick(suTags)
		if used[tag] {
			continue
		}
		used[tag] = true
		rel := &ghRelease{Tag: tag}
		if r.Chance(1, 8) {
			rel.Draft = true
		}
		if strings.Contains(tag, "-rc") || r.Chance(1, 10) {
			rel.Prerelease = true
		}
		ver := strings.TrimPrefix(tag, "v")
		payload := []byte("#!/bin/sh\necho payload-" + tag + "-" + strconv.Itoa(r.Intn(1000)) + "\n")
		kind := r.Intn(10)
		var asset *ghAsset
		switch {
		case kind < 4:
			asset = &ghAsset{Name: "crs-toolchain_" + ver + "_linux_amd64.tar.gz", Bytes: tarGz("crs-toolchain", payload)}
		case kind < 6:
			asset = &ghAsset{Name: "crs-toolchain_" + ver + "_linux_amd64", Bytes: payload}
		case kind < 7:
			asset = &ghAsset{Name: "crs-toolchain_" + ver + "_linux_amd64.tar.gz", Bytes: []byte("this is not an archive")}
			c.desc = append(c.desc, tag+":corrupt-archive")
		case kind < 8:
			asset = &ghAsset{Name: "crs-toolchain_" + ver + "_linux_amd64.tar.gz", Bytes: tarGz("crs-toolchain", payload), Fail: true}
			c.desc = append(c.desc, tag+":asset-download-fails")
		default:
			c.desc = append(c.desc, tag+":other-platform-only")
		}
		other := &ghAsset{Name: "crs-toolchain_" + ver + "_darwin_arm64.tar.gz", Bytes: tarGz("crs-toolchain", []byte("darwin"))}
		nextID++
		other.ID = nextID
		rel.Assets = append(rel.Assets, other)
		if asset != nil {
			nextID++
			asset.ID = nextID
			rel.Assets = append(rel.Assets, asset)
		}
		// checksum file
		sumKind := r.Intn(10)
		var lines []string
		lines = append(lines, sha(other.Bytes)+"  "+other.Name)
		nextID++
		sums := &ghAsset{ID: nextID, Name: "crs-toolchain-checksums.txt"}
		switch {
		case sumKind < 5:
			if asset != nil {
				lines = append(lines, sha(asset.Bytes)+"  "+asset.Name)
			}
			c.desc = append(c.desc, tag+":checksum-ok")
		case sumKind < 7:
			if asset != nil {
				lines = append(lines, strings.Repeat("0", 64)+"  "+asset.Name)
			}
			c.desc = append(c.desc, tag+":checksum-mismatch")
		case sumKind < 8:
			c.desc = append(c.desc, tag+":checksum-other-file-only")
		case sumKind < 9:
			sums = nil
			c.desc = append(c.desc, tag+":checksum-file-missing")
		default:
			if asset != nil {
				lines = append(lines, sha(asset.Bytes)+"  "+asset.Name)
			}
			sums.Fail = true
			c.desc = append(c.desc, tag+":checksum-download-fails")
		}
		if sums != nil {
			sums.Bytes = []byte(strings.Join(lines, "\n") + "\n")
			rel.Assets = append(rel.Assets, sums)
		}
		c.rels = append(c.rels, rel)
	}
	if r.Chance(1, 12) {
		c.listFail = true
		c.desc = append(c.desc, "listing-fails")
	}
}

// what the property allows: returns (mayInstall, the bytes that may be installed)
func suExpected(c *suCase, runningVersion string) (bool, *ghAsset) {
	if c.listFail {
		return false, nil
	}
	cur, curErr := semver.NewVersion(runningVersion)
	var best *ghRelease
	var bestV *semver.Version
	for _, rel := range c.rels {
		if rel.Draft || rel.Prerelease {
			continue
		}
		v, err := semver.NewVersion(strings.TrimPrefix(rel.Tag, "v"))
		if err != nil {
			continue
		}
		has := false
		for _, a := range rel.Assets {
			if strings.Contains(a.Name, "linux_amd64") {
				has = true
			}
		}
		if !has {
			continue
		}
		if best == nil || v.GreaterThan(bestV) {
			best, bestV = rel, v
		}
	}
	if best == nil {
		return false, nil
	}
	if curErr == nil && !bestV.GreaterThan(cur) {
		return false, nil
	}
	var asset, sums *ghAsset
	for _, a := range best.Assets {
		if strings.Contains(a.Name, "linux_amd64") && asset == nil {
			asset = a
		}
		if a.Name == "crs-toolchain-checksums.txt" {
			sums = a
		}
	}
	if asset == nil || asset.Fail || sums == nil || sums.Fail {
		return false, nil
	}
	ok := false
	for _, l := range strings.Split(string(sums.Bytes), "\n") {
		f := strings.Fields(l)
		if len(f) == 2 && f[1] == asset.Name && f[0] == sha(asset.Bytes) {
			ok = true
		}
	}
	if !ok {
		return false, nil
	}
	return true, asset
}

func payloadOf(a *ghAsset) (string, bool) {
	if strings.HasSuffix(a.Name, ".tar.gz") {
		gz, err := gzip.NewReader(bytes.NewReader(a.Bytes))
		if err != nil {
			return "", false
		}
		tr := tar.NewReader(gz)
		for {
			h, err := tr.Next()
			if err != nil {
				return "", false
			}
			if filepath.Base(h.Name) == "crs-toolchain" {
				var b bytes.Buffer
				_, _ = b.ReadFrom(tr)
				return b.String(), true
			}
		}
	}
	return string(a.Bytes), true
}

func buildVersioned(env *Env, version string) (string, error) {
	out := filepath.Join(env.Work, "crs-toolchain-"+strings.ReplaceAll(version, "/", "_"))
	cmd := exec.Command("go", "build", "-tags", "verif", "-ldflags", "-X main.version="+version, "-o", out, ".")
	cmd.Dir = "/repo"
	cmd.Env = append(os.Environ(), "GOFLAGS=-mod=mod", "GOPROXY=off", "GOSUMDB=off", "GOTOOLCHAIN=local")
	b, err := cmd.CombinedOutput()
	if err != nil {
		return "", fmt.Errorf("%v: %s", err, b)
	}
	return out, nil
}

func suiteSelfUpdate(env *Env, res *Result) {
	res.Rule = "release catalogues served by a local TLS-intercepting stand-in for api.github.com / github.com (0..4 releases with versions below/equal/above the running one, v-prefixed and plain tags, build metadata, pre-releases, drafts, non-semver tags; asset for this platform as raw binary or tar.gz, corrupt archive, failing download, other platforms only; checksum file matching / mismatching / other file only / missing / failing download; failing release listing) x the unmodified binary built from /repo with five running versions (development default, v2.5.0, 9.9.9, pre-releases v2.6.0-rc.1 and v99.0.0-rc.1); observed: sha256 of the executable copy before and after `self-update`, exit status, requests made; compared with the property directly and with Model/SelfUpdate.v; non-trivial = a release for this platform exists"
	r := NewRng(env.Seed + 2000)
	n := env.N(40, 1500)
	versions := []string{"", "v2.5.0", "9.9.9", "v2.6.0-rc.1", "v99.0.0-rc.1"}
	bins := map[string]string{"": env.Bin}
	for _, v := range versions[1:] {
		b, err := buildVersioned(env, v)
		if err != nil {
			res.MismatchCount++
			res.Mismatches = append(res.Mismatches, Mismatch{Human: "cannot build the binary with version " + v, Model: err.Error()})
			return
		}
		bins[v] = b
	}
	cases := make([]*suCase, n)
	for i := range cases {
		c := &suCase{running: versions[r.Intn(len(versions))]}
		genCatalogue(r, c)
		cases[i] = c
	}
	parallelFor(n, func(i int) {
		c := cases[i]
		dir := mkScratch(env, "su")
		defer os.RemoveAll(dir)
		exe := filepath.Join(dir, "crs-toolchain")
		b, _ := os.ReadFile(bins[c.running])
		_ = os.WriteFile(exe, b, 0o755)
		c.before = sha(b)
		gh, err := newFakeGitHub()
		if err != nil {
			c.res = CLIResult{Exit: -1, Stderr: err.Error()}
			return
		}
		defer gh.Close()
		gh.set(c.rels, c.listFail)
		ca := filepath.Join(dir, "ca.pem")
		_ = gh.writeCA(ca)
		var so, se bytes.Buffer
		code := 0
		for attempt := 0; attempt < 8; attempt++ {
			so.Reset()
			se.Reset()
			cmd := exec.Command(exe, "self-update")
			cmd.Dir = dir
			cmd.Env = []string{"HOME=" + dir, "PATH=/usr/bin:/bin", "HTTPS_PROXY=http://" + gh.Addr(), "https_proxy=http://" + gh.Addr(), "SSL_CERT_FILE=" + ca, "SSL_CERT_DIR=/nonexistent", "NO_PROXY=", "no_proxy="}
			cmd.Stdout, cmd.Stderr = &so, &se
			err = runWithTimeout(cmd, 30)
			code = 0
			if err != nil {
				if ee, ok := err.(*exec.ExitError); ok {
					code = ee.ExitCode()
				} else if strings.Contains(err.Error(), "text file busy") {
					// the freshly written copy is still open for writing in a forked child of this
					// (multi-threaded) harness: the binary never ran, try again
					time.Sleep(50 * time.Millisecond)
					continue
				} else {
					code = -2
					se.WriteString("harness: " + err.Error())
				}
			}
			break
		}
		c.res = CLIResult{Exit: code, Stdout: so.String(), Stderr: se.String()}
		ab, _ := os.ReadFile(exe)
		c.after = sha(ab)
		gh.mu.Lock()
		c.requests = append([]string{}, gh.requests...)
		gh.mu.Unlock()
		// record which payload (if any) was installed
		if c.after != c.before {
			c.after = "CHANGED:" + string(ab)
		}
	})
	var corr []CorrCase
	for _, c := range cases {
		res.Evaluations++
		runningVersion := c.running
		if runningVersion == "" {
			runningVersion = "v0.0.0-dev"
		}
		for _, d := range c.desc {
			res.count(strings.SplitN(d, ":", 2)[len(strings.SplitN(d, ":", 2))-1])
		}
		res.count("running:" + runningVersion)
		mayInstall, allowedAsset := suExpected(c, runningVersion)
		installed := strings.HasPrefix(c.after, "CHANGED:")
		input := map[string]interface{}{"running_version": runningVersion, "catalogue": c.desc, "releases": relSummary(c.rels), "requests": c.requests}
		if len(c.rels) > 0 {
			res.DistinctNontrivial++
		}
		if installed {
			res.count("outcome:installed")
			payload := strings.TrimPrefix(c.after, "CHANGED:")
			if !mayInstall {
				shape := "c20_installed_although_not_allowed"
				if unverifiedInstall(c, payload) {
					shape = "c20_installed_without_checksum_verification"
				}
				res.addFailure(Failure{Kind: "C20", Shape: shape, Input: input, Detail: fmt.Sprintf("executable replaced (exit %d); log: %s", c.res.Exit, clip(c.res.Stderr, 300))})
			} else {
				// must be the payload of the allowed asset
				want, _ := payloadOf(allowedAsset)
				if payload != want {
					res.addFailure(Failure{Kind: "C20", Shape: "c20_wrong_bytes_installed", Input: input, Detail: clip(payload, 100)})
				}
			}
		} else {
			res.count("outcome:untouched")
			if mayInstall {
				// allowed but not done is acceptable only as a reported failure (corrupt archive) - the property does not force an update
				if c.res.Exit == 0 && !strings.Contains(c.res.Stderr, "latest version") {
					res.count("allowed-but-not-installed-exit0")
				}
			} else if c.res.Exit == 0 && !suUpToDate(c, runningVersion) {
				res.addFailure(Failure{Kind: "C20", Shape: "c20_failure_not_reported", Input: input, Detail: "executable untouched, exit 0, log: " + clip(c.res.Stderr, 300)})
			}
		}
		if c.res.Exit == -2 {
			res.count("harness-could-not-run-the-binary(skipped)")
			continue
		}
		corr = append(corr, suModelCase(c, runningVersion, installed))
	}
	compareWithModel(env, res, corr)
}

func relSummary(rels []*ghRelease) []string {
	var out []string
	for _, r := range rels {
		s := r.Tag
		if r.Draft {
			s += " draft"
		}
		if r.Prerelease {
			s += " prerelease"
		}
		for _, a := range r.Assets {
			s += " " + a.Name
		}
		out = append(out, s)
	}
	return out
}

// the installed payload belongs to an asset whose checksum was not (or could not be) verified
func unverifiedInstall(c *suCase, payload string) bool {
	for _, rel := range c.rels {
		for _, a := range rel.Assets {
			if p, ok := payloadOf(a); ok && p == payload && strings.Contains(a.Name, "linux_amd64") {
				return true
			}
		}
	}
	return false
}

// no newer release for this platform: exit 0 without a change is correct
func suUpToDate(c *suCase, runningVersion string) bool {
	if c.listFail {
		return false
	}
	cur, err := semver.NewVersion(runningVersion)
	if err != nil {
		return false
	}
	var bestV *semver.Version
	var best *ghRelease
	for _, rel := range c.rels {
		if rel.Draft || rel.Prerelease {
			continue
		}
		v, err := semver.NewVersion(strings.TrimPrefix(rel.Tag, "v"))
		if err != nil {
			continue
		}
		has := false
		for _, a := range rel.Assets {
			if strings.Contains(a.Name, "linux_amd64") {
				has = true
			}
		}
		if has && (bestV == nil || v.GreaterThan(bestV)) {
			bestV, best = v, rel
		}
	}
	if best == nil {
		return false
	}
	hasSums := false
	for _, a := range best.Assets {
		if a.Name == "crs-toolchain-checksums.txt" {
			hasSums = true
		}
	}
	return hasSums && !bestV.GreaterThan(cur)
}

// encoding for the model: versions become ranks in semver order (the library's order is an oracle)
func suModelCase(c *suCase, runningVersion string, installed bool) CorrCase {
	type vv struct {
		s string
		v *semver.Version
	}
	var all []vv
	add := func(s string) {
		if v, err := semver.NewVersion(s); err == nil {
			all = append(all, vv{s, v})
		}
	}
	add(runningVersion)
	for _, rel := range c.rels {
		add(strings.TrimPrefix(rel.Tag, "v"))
	}
	sort.SliceStable(all, func(i, j int) bool { return all[i].v.LessThan(all[j].v) })
	rank := func(s string) string {
		v, err := semver.NewVersion(s)
		if err != nil {
			return "-"
		}
		k := 1
		for i := range all {
			if i > 0 && all[i].v.GreaterThan(all[i-1].v) {
				k++
			}
			if all[i].v.Equal(v) {
				return strconv.Itoa(k)
			}
		}
		return "-"
	}
	var rels, hashes, payloads []string
	for _, rel := range c.rels {
		f := []string{rank(strings.TrimPrefix(rel.Tag, "v")), "0", "0", "-", "-", "-"}
		if !strings.HasPrefix(rel.Tag, "v") && f[0] != "-" {
			// reVersion finds the version inside the tag: plain tags work as well
		}
		if rel.Draft {
			f[1] = "1"
		}
		if rel.Prerelease {
			f[2] = "1"
		}
		for _, a := range rel.Assets {
			if strings.Contains(a.Name, "linux_amd64") && f[3] == "-" {
				f[3] = hx(a.Name)
				if a.Fail {
					f[4] = "FAIL"
				} else {
					f[4] = hx(string(a.Bytes))
					hashes = append(hashes, hx(string(a.Bytes))+"="+hx(sha(a.Bytes)))
					if p, ok := payloadOf(a); ok {
						payloads = append(payloads, hx(string(a.Bytes))+"="+hx(p))
					}
				}
			}
			if a.Name == "crs-toolchain-checksums.txt" {
				if a.Fail {
					f[5] = "FAIL"
				} else {
					f[5] = hx(string(a.Bytes))
				}
			}
		}
		rels = append(rels, strings.Join(f, "|"))
	}
	relArg := "."
	if len(rels) > 0 {
		relArg = strings.Join(rels, ";")
	}
	if c.listFail {
		relArg = "LISTFAIL"
	}
	join := func(l []string) string {
		if len(l) == 0 {
			return "."
		}
		return strings.Join(l, ",")
	}
	impl := "UNTOUCHED"
	if installed {
		impl = "INSTALLED\t" + hx(strings.TrimPrefix(c.after, "CHANGED:"))
	}
	cls := ""
	if len(c.rels) > 0 {
		cls = "catalogue"
	}
	return CorrCase{Fields: []string{"self_update", rank(runningVersion), relArg, join(hashes), join(payloads)}, Impl: impl,
		Human: "running " + runningVersion + " catalogue " + strings.Join(c.desc, " ") + " tags " + strings.Join(relSummary(c.rels), " ; ") + fmt.Sprintf(" [exit %d; requests %v; log %s]", c.res.Exit, c.requests, clip(c.res.Stderr, 400)), Class: cls}
}
