package main

import "strings"

// Generators for regex-assembly lines and files.  Lines are built from
// directive fragments so that near misses of every directive pattern (where a
// changed anchor, quantifier or class shows) are the majority.

var wsFrags = []string{"", "", " ", " ", "  ", "\t", " \t", "\f", "\r", "\v"}
var wsFragsPlain = []string{"", " ", " ", "  ", "\t"}
var nameFrags = []string{"x", "foo", "inc-1", "unix_cmds", "a.ra", "sub/dir", "Name9", "é", "a--b", "--", "-", "{{x}}", "id", "_"}
var valueFrags = []string{"abc", "[a-z]+", "\\d{1,3}", "(?:a|b)", "x y", "\"q\"", "\\\\", "a|b", ".*", "^a$", "{{foo}}", "é\xff", "@", "~", "a  b", "--", "is", "i", "s", "si", "x", "im"}
var entryFrags = []string{"abc", "abd", "a+b", "foo|bar", "[0-9]+x", "(?:x|y)z", "\\bword\\b", "^start", "end$", "a.b", "\\x41", "\"quoted\"",
	"back\\\\slash", "\\s+x", "[\\s\\S]", "[^a]", "é", "tab\there", "a{2,3}", "x?", "(a)(b)", "\\(?i:x", "@", "cmd@", "cmd~", "c\\@", "'literal", "a b", "time", "nc.traditional", "a-b"}

func genWs(r *Rng) string      { return r.Pick(wsFrags) }
func genWsPlain(r *Rng) string { return r.Pick(wsFragsPlain) }

func genPairs(r *Rng) string {
	n := r.Range(0, 5)
	parts := []string{}
	for i := 0; i < n; i++ {
		parts = append(parts, r.Pick([]string{"@", "~", "\"\"", "a", "b", "c", "xa", "--", "é", "x.y"}))
	}
	return strings.Join(parts, r.Pick([]string{" ", " ", "  ", "\t"}))
}

// genDirectiveLine produces one line that is (close to) a directive, comment or entry.
func genDirectiveLine(r *Rng) (string, string) {
	lead := ""
	if r.Chance(1, 3) {
		lead = r.Pick([]string{" ", "  ", "\t", "    ", " \t ", "\f", "\r"})
	}
	var body, kind string
	switch r.Intn(20) {
	case 0, 1:
		kind = "include"
		body = "##!>" + genWs(r) + "include" + r.Pick([]string{" ", " ", "  ", "\t", ""}) + r.Pick(nameFrags)
		if r.Chance(1, 2) {
			body += genWs(r) + "--" + genWs(r) + genPairs(r)
		}
		if r.Chance(1, 6) {
			body += " " + r.Pick(nameFrags)
		}
	case 2, 3:
		kind = "include-except"
		body = "##!>" + genWs(r) + "include-except" + r.Pick([]string{" ", " ", "  ", "\t", ""}) + r.Pick(nameFrags)
		for i := r.Intn(3); i > 0; i-- {
			body += r.Pick([]string{" ", "  ", "\t"}) + r.Pick(nameFrags)
		}
		if r.Chance(1, 2) {
			body += genWs(r) + "--" + genWs(r) + genPairs(r)
		}
	case 4, 5:
		kind = "define"
		body = "##!>" + genWs(r) + "define" + r.Pick([]string{" ", " ", "  ", "\t", ""}) + r.Pick(nameFrags) + r.Pick([]string{" ", " ", "  ", "\t", ""}) + r.Pick(valueFrags)
		if r.Chance(1, 6) {
			body += " extra"
		}
	case 6:
		kind = "comment"
		body = "##!" + r.Pick([]string{"", " ", " note", " ##!> include inc", " old: ##!> define x v", " ##!> define a-b_9 [0-9]", "x", "! bang", " ^ $ +", "\t", "é", "#", " ##!+ i", "-", " +s", " + i", " ^x", " $y", " >assemble", " <", " =>", "\t+s"}) + r.Pick([]string{"", " text", " ##!> assemble"})
	case 7:
		kind = "flags"
		body = "##!+" + genWs(r) + r.Pick([]string{"i", "s", "is", "si", "i s", "", "x", "im", "I", "ii"})
	case 8:
		kind = "prefix"
		body = "##!^" + genWs(r) + r.Pick(valueFrags)
	case 9:
		kind = "suffix"
		body = "##!$" + genWs(r) + r.Pick(valueFrags)
	case 10, 11:
		kind = "blockstart"
		body = "##!>" + genWs(r) + r.Pick([]string{"assemble", "cmdline", "cmdline", "assemblex", "cmd", "Assemble"}) + genWs(r) + r.Pick([]string{"", "", "unix", "windows", "linux", "unix # why", "unix windows", "UNIX", "unix\t"})
	case 12:
		kind = "blockend"
		body = "##!<" + r.Pick([]string{"", "", " ", " end", "<", "x"})
	case 13:
		kind = "marker"
		body = r.Pick([]string{"##!=>", "##!=<", "##!=> ", "##!=< "}) + genWs(r) + r.Pick([]string{"", "", "name", "a b", "x-1"})
	case 14:
		kind = "blank"
		body = r.Pick([]string{"", " ", "\t", "  \t", "\v", "\f"})
		lead = ""
	case 15:
		kind = "odd"
		body = r.Pick([]string{"##!", "##", "#", "##!>", "##!> ", "##!>include", "##!> includex", "##!> include", "##!> define", "##!> define x", "##!+", "##!^", "##!$",
			"##! ##!> include a -- b", "##!^ ##!> include inc", "x ##!> include inc", "##!> include a -- ", "##!> include a --", "##!> include a -- b c d -- e f",
			"##!> include-except a", "##!> include-except a -- x y", "##!> include-except a b--c d", "##!> define a-b_9 v", "##!> define é v", "##!> unknown thing", "##!> cmdline"})
	default:
		kind = "entry"
		body = r.Pick(entryFrags)
		if r.Chance(1, 4) {
			body += r.Pick(entryFrags)
		}
	}
	trail := ""
	if r.Chance(1, 4) {
		trail = r.Pick([]string{" ", "  ", "\t", "\r", " \f"})
	}
	line := lead + body + trail
	if r.Chance(1, 12) {
		line = r.Mutate(line, "#!> -^$+<=aie\t ", 2)
		kind += "/mut"
	}
	line = strings.ReplaceAll(line, "\n", "")
	return line, kind
}
