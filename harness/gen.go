package main

// Translator: reads the Go sources of /repo (go/parser, no type checking) and
// writes the generated part of the Coq model:
//   Gen/Patterns.v  the source text of every package-level regexp (regex/definitions.go, parser.spaceRegex)
//   Gen/Lits.v      for every function of the modelled files, its string literals in source order
//   Gen/Consts.v    constants the models use (standard header, ParseUint bit size, bufio.MaxScanTokenSize)
// With --pin-dir it (re)writes the pin lemmas coq/Tie/*.v from the current
// sources; those are committed, and every run re-proves them against the
// regenerated Gen files (reflexivity), so that a changed pattern or literal
// breaks a proof obligation of exactly the properties that rely on it.

import (
	"bufio"
	"flag"
	"fmt"
	"go/ast"
	"go/parser"
	"go/token"
	"os"
	"path/filepath"
	"sort"
	"strconv"
	"strings"
)

// file -> functions whose literals are generated and pinned ("*" = all)
var modelledFuncs = map[string][]string{
	"regex/definitions.go":                   {"*"},
	"regex/utils.go":                         {"*"},
	"utils/utils.go":                         {"*"},
	"regex/parser/parser.go":                 {"*"},
	"regex/parser/include_except_builder.go": {"*"},
	"regex/operators/assembler.go":           {"*"},
	"regex/operators/operators.go":           {"*"},
	"regex/processors/assemble.go":           {"*"},
	"regex/processors/cmdline.go":            {"*"},
	"cmd/regex.go":                           {"parseRuleId"},
	"cmd/regex_format.go":                    {"createFormatCommand", "processAll", "processFile", "processLine", "formatEndOfFile", "checkStandardHeader", "findUpperCaseCharacterClassOnIgnoreCaseFlag", "findUppercaseNonEscaped"},
	"cmd/regex_update.go":                    {"createUpdateCommand", "performUpdate", "runAssemble", "processRule", "updateRegex"},
	"cmd/regex_compare.go":                   {"createCompareCommand", "performCompare", "processRegexForCompare", "readCurrentRegex"},
	"cmd/regex_generate.go":                  {"createGenerateCommand"},
	"cmd/flag_types.go":                      {"findRootDirectory", "workingDirectory_Set"},
	"cmd/util_renumber_tests.go":             {"createRenumberTestsCommand", "parseFilePath"},
	"cmd/chore_update_copyright.go":          {"createChoreUpdateCopyrightCommand", "validateSemver"},
	"util/renumber_tests.go":                 {"*"},
	"chore/update_copyright.go":              {"*"},
	"context/context.go":                     {"*"},
	"configuration/configuration.go":         {"*"},
	"internal/updater/updater.go":            {"*"},
	"cmd/self_update.go":                     {"createSelfUpdateCommand"},
}

var modelledFiles = func() []string {
	out := []string{}
	for f := range modelledFuncs {
		out = append(out, f)
	}
	sort.Strings(out)
	return out
}()

func funcModelled(rel string, fname string) bool {
	for _, f := range modelledFuncs[rel] {
		if f == "*" || f == fname {
			return true
		}
	}
	return false
}

// calls whose string arguments are messages, not logic
var messageCalls = map[string]bool{"Msg": true, "Msgf": true, "Str": true, "Errorf": true, "New": true, "Println": true, "Printf": true,
	"Print": true, "PrintErrf": true, "Fprintf": true, "Fprintln": true, "BoolP": true, "StringVarP": true, "VarP": true, "Lookup": true, "GetBool": true}
var messageKeys = map[string]bool{"Use": true, "Short": true, "Long": true}

func coqStr(s string) string {
	if len(s) == 0 {
		return "[]"
	}
	parts := make([]string, len(s))
	for i := 0; i < len(s); i++ {
		parts[i] = strconv.Itoa(int(s[i]))
	}
	return "[" + strings.Join(parts, "; ") + "]"
}

func coqComment(s string) string {
	s = strings.ReplaceAll(s, "(*", "( *")
	s = strings.ReplaceAll(s, "*)", "* )")
	s = strings.ReplaceAll(s, "\"", "'")
	s = strings.ReplaceAll(s, "\n", "\\n")
	return s
}

func sanitize(s string) string {
	var b strings.Builder
	for _, c := range s {
		if (c >= 'a' && c <= 'z') || (c >= 'A' && c <= 'Z') || (c >= '0' && c <= '9') {
			b.WriteRune(c)
		} else {
			b.WriteRune('_')
		}
	}
	return b.String()
}

type genDef struct {
	Name    string // Coq identifier
	Module  string // Patterns | Lits | Consts
	Type    string // "str" | "list str" | "N"
	Value   string // Coq term
	Comment string
}

func litValue(l *ast.BasicLit) (string, bool) {
	switch l.Kind {
	case token.STRING:
		v, err := strconv.Unquote(l.Value)
		if err != nil {
			return "", false
		}
		return v, true
	}
	return "", false
}

// literals of a function body in source order: string literals as they are,
// character and integer literals as "#<source text>"; arguments of logging /
// error-message / flag-registration calls and help texts are skipped
func collectLits(n ast.Node) []string {
	var out []string
	ast.Inspect(n, func(x ast.Node) bool {
		switch v := x.(type) {
		case *ast.CallExpr:
			if sel, ok := v.Fun.(*ast.SelectorExpr); ok && messageCalls[sel.Sel.Name] {
				// still descend into the receiver chain, not the arguments
				ast.Inspect(sel.X, func(y ast.Node) bool {
					if c, ok := y.(*ast.CallExpr); ok {
						if s2, ok := c.Fun.(*ast.SelectorExpr); ok && messageCalls[s2.Sel.Name] {
							return true
						}
					}
					return true
				})
				return false
			}
		case *ast.KeyValueExpr:
			if id, ok := v.Key.(*ast.Ident); ok && messageKeys[id.Name] {
				return false
			}
		case *ast.BasicLit:
			switch v.Kind {
			case token.STRING:
				if s, ok := litValue(v); ok {
					out = append(out, s)
				}
			case token.CHAR, token.INT:
				out = append(out, "#"+v.Value)
			}
		}
		return true
	})
	return out
}

func isMustCompile(call *ast.CallExpr) bool {
	sel, ok := call.Fun.(*ast.SelectorExpr)
	if !ok {
		return false
	}
	id, ok := sel.X.(*ast.Ident)
	return ok && id.Name == "regexp" && sel.Sel.Name == "MustCompile"
}

func genCollect(repo string) ([]genDef, error) {
	var defs []genDef
	fset := token.NewFileSet()
	for _, rel := range modelledFiles {
		path := filepath.Join(repo, rel)
		f, err := parser.ParseFile(fset, path, nil, 0)
		if err != nil {
			return nil, fmt.Errorf("%s: %v", rel, err)
		}
		base := sanitize(strings.TrimSuffix(rel, ".go"))
		for _, d := range f.Decls {
			switch d := d.(type) {
			case *ast.GenDecl:
				for _, sp := range d.Specs {
					vs, ok := sp.(*ast.ValueSpec)
					if !ok {
						continue
					}
					for i, name := range vs.Names {
						if i >= len(vs.Values) {
							continue
						}
						switch v := vs.Values[i].(type) {
						case *ast.CallExpr:
							if isMustCompile(v) && len(v.Args) == 1 {
								if l, ok := v.Args[0].(*ast.BasicLit); ok {
									if s, ok := litValue(l); ok {
										defs = append(defs, genDef{Name: name.Name + "_src", Module: "Patterns", Type: "str", Value: coqStr(s), Comment: rel + ": " + s})
									}
								}
							}
						case *ast.BasicLit:
							if s, ok := litValue(v); ok {
								defs = append(defs, genDef{Name: "const_" + base + "_" + name.Name, Module: "Lits", Type: "str", Value: coqStr(s), Comment: rel + " " + name.Name + " = " + s})
							}
						}
					}
				}
			case *ast.FuncDecl:
				if d.Body == nil {
					continue
				}
				fname := d.Name.Name
				if d.Name.Name == "init" {
					continue
				}
				if d.Recv != nil && len(d.Recv.List) > 0 {
					t := d.Recv.List[0].Type
					if st, ok := t.(*ast.StarExpr); ok {
						t = st.X
					}
					if id, ok := t.(*ast.Ident); ok {
						fname = id.Name + "_" + fname
					}
				}
				if !funcModelled(rel, fname) {
					continue
				}
				lits := collectLits(d.Body)
				parts := make([]string, len(lits))
				for i, s := range lits {
					parts[i] = coqStr(s)
				}
				val := "[" + strings.Join(parts, ";\n    ") + "]"
				defs = append(defs, genDef{Name: "lits_" + base + "_" + sanitize(fname), Module: "Lits", Type: "list str", Value: val,
					Comment: rel + " func " + fname + ": " + strings.Join(lits, " | ")})
				// special constants read from call sites
				if rel == "cmd/regex.go" && fname == "parseRuleId" {
					ast.Inspect(d.Body, func(x ast.Node) bool {
						if c, ok := x.(*ast.CallExpr); ok {
							if sel, ok := c.Fun.(*ast.SelectorExpr); ok && sel.Sel.Name == "ParseUint" && len(c.Args) == 3 {
								if l, ok := c.Args[2].(*ast.BasicLit); ok && l.Kind == token.INT {
									defs = append(defs, genDef{Name: "parse_uint_bits", Module: "Consts", Type: "N", Value: l.Value, Comment: "bit size passed to strconv.ParseUint in cmd/regex.go parseRuleId"})
								}
								if l, ok := c.Args[1].(*ast.BasicLit); ok && l.Kind == token.INT {
									defs = append(defs, genDef{Name: "parse_uint_base", Module: "Consts", Type: "N", Value: l.Value, Comment: "base passed to strconv.ParseUint in cmd/regex.go parseRuleId"})
								}
							}
						}
						return true
					})
				}
			}
		}
		// constants
		if rel == "cmd/regex_format.go" {
			for _, d := range f.Decls {
				gd, ok := d.(*ast.GenDecl)
				if !ok || gd.Tok != token.CONST {
					continue
				}
				for _, sp := range gd.Specs {
					vs := sp.(*ast.ValueSpec)
					for i, name := range vs.Names {
						if name.Name == "regexAssemblyStandardHeader" && i < len(vs.Values) {
							if l, ok := vs.Values[i].(*ast.BasicLit); ok {
								if s, ok := litValue(l); ok {
									defs = append(defs, genDef{Name: "standard_header", Module: "Consts", Type: "str", Value: coqStr(s), Comment: "cmd/regex_format.go regexAssemblyStandardHeader"})
								}
							}
						}
					}
				}
			}
		}
	}
	defs = append(defs, scanLimitDefs(repo, fset)...)
	defs = append(defs, selfUpdateDef(repo, fset)...)
	defs = append(defs, callOrderDef(repo, fset)...)
	defs = append(defs, genDef{Name: "max_scan_token_size", Module: "Consts", Type: "N", Value: strconv.Itoa(bufio.MaxScanTokenSize), Comment: "bufio.MaxScanTokenSize of the Go toolchain that builds /repo"})
	return defs, nil
}

func writeIfChanged(path string, content string) error {
	old, err := os.ReadFile(path)
	if err == nil && string(old) == content {
		return nil
	}
	return os.WriteFile(path, []byte(content), 0o644)
}

func genMain(args []string) {
	fs := flag.NewFlagSet("gen", flag.ExitOnError)
	repo := fs.String("repo", "/repo", "repository root")
	out := fs.String("out", "", "output directory for Gen/*.v")
	pinDir := fs.String("pin-dir", "", "write pin lemmas (coq/Tie) from the current sources")
	_ = fs.Parse(args)
	defs, err := genCollect(*repo)
	if err != nil {
		fmt.Fprintln(os.Stderr, "gen:", err)
		os.Exit(1)
	}
	// names the models, pins and the extraction refer to (recorded at pin time): a definition the
	// translator can no longer find in the sources is emitted with a default value, so that the
	// development still builds and the broken pin - not a failed build - reports the change
	expectedPath := ""
	if *pinDir != "" {
		expectedPath = filepath.Join(*pinDir, "expected.txt")
	} else if *out != "" {
		expectedPath = filepath.Join(*out, "..", "Tie", "expected.txt")
	}
	if *pinDir == "" && expectedPath != "" {
		if b, err := os.ReadFile(expectedPath); err == nil {
			have := map[string]bool{}
			for _, d := range defs {
				have[d.Module+"."+d.Name] = true
			}
			for _, line := range strings.Split(strings.TrimSpace(string(b)), "\n") {
				f := strings.Split(line, "\t")
				if len(f) != 3 || have[f[0]+"."+f[1]] {
					continue
				}
				val := "[]"
				if f[2] == "N" {
					val = "0"
				}
				if f[2] == "bool" {
					val = "false"
				}
				defs = append(defs, genDef{Name: f[1], Module: f[0], Type: f[2], Value: val, Comment: "NOT FOUND in the sources any more (default value)"})
			}
		}
	}
	mods := map[string]*strings.Builder{}
	for _, m := range []string{"Patterns", "Lits", "Consts"} {
		b := &strings.Builder{}
		b.WriteString("(* GENERATED by harness gen from the Go sources of /repo on every run. Do not edit. *)\n")
		b.WriteString("From Verif Require Import Base.Str.\nOpen Scope N_scope.\n\n")
		mods[m] = b
	}
	for _, d := range defs {
		b := mods[d.Module]
		fmt.Fprintf(b, "(* %s *)\nDefinition %s : %s :=\n  %s.\n\n", coqComment(d.Comment), d.Name, d.Type, d.Value)
	}
	if *out != "" {
		_ = os.MkdirAll(*out, 0o755)
		for m, b := range mods {
			if err := writeIfChanged(filepath.Join(*out, m+".v"), b.String()); err != nil {
				fmt.Fprintln(os.Stderr, "gen:", err)
				os.Exit(1)
			}
		}
	}
	if *pinDir != "" {
		_ = os.MkdirAll(*pinDir, 0o755)
		old, _ := filepath.Glob(filepath.Join(*pinDir, "Pin_*.v"))
		keep := map[string]bool{}
		for _, d := range defs {
			name := "Pin_" + d.Name
			var b strings.Builder
			b.WriteString("(* Pin of a generated definition: written by `vh gen --pin-dir` from the sources at the\n   time the models and proofs were written; re-proved by reflexivity against the\n   regenerated Gen/*.v on every run. *)\n")
			fmt.Fprintf(&b, "From Verif Require Import Base.Str Gen.%s.\nOpen Scope N_scope.\n\n", d.Module)
			fmt.Fprintf(&b, "(* %s *)\nLemma pinned : Gen.%s.%s =\n  %s.\nProof. reflexivity. Qed.\n", coqComment(d.Comment), d.Module, d.Name, d.Value)
			p := filepath.Join(*pinDir, name+".v")
			keep[p] = true
			if err := writeIfChanged(p, b.String()); err != nil {
				fmt.Fprintln(os.Stderr, "gen:", err)
				os.Exit(1)
			}
		}
		for _, p := range old {
			if !keep[p] {
				_ = os.Remove(p)
			}
		}
		var eb strings.Builder
		for _, d := range defs {
			fmt.Fprintf(&eb, "%s\t%s\t%s\n", d.Module, d.Name, d.Type)
		}
		_ = writeIfChanged(expectedPath, eb.String())
	}
	names := []string{}
	for _, d := range defs {
		names = append(names, d.Module+"."+d.Name)
	}
	sort.Strings(names)
	fmt.Println(strings.Join(names, "\n"))
}

// ---- scanner limits per call site ----

var scanSites = []struct{ file, fn, name string }{
	{"regex/parser/parser.go", "Parse", "parser_parse"},
	{"regex/operators/assembler.go", "assemble", "assembler_assemble"},
	{"cmd/regex_format.go", "processFile", "format_process_file"},
	{"util/renumber_tests.go", "processYaml", "renumber_process_yaml"},
	{"chore/update_copyright.go", "updateRules", "copyright_update_rules"},
	{"regex/parser/include_except_builder.go", "replaceSuffixes", "replace_suffixes"},
	{"regex/parser/include_except_builder.go", "removeExclusions", "remove_exclusions"},
	{"regex/parser/include_except_builder.go", "buildinclusionLineMap", "build_inclusion_line_map"},
}

// limit configured by a Buffer(_, max) call inside fn (0 = none)
func bufferLimit(fn *ast.FuncDecl) string {
	limit := ""
	ast.Inspect(fn.Body, func(x ast.Node) bool {
		c, ok := x.(*ast.CallExpr)
		if !ok {
			return true
		}
		sel, ok := c.Fun.(*ast.SelectorExpr)
		if !ok || sel.Sel.Name != "Buffer" || len(c.Args) != 2 {
			return true
		}
		switch a := c.Args[1].(type) {
		case *ast.BasicLit:
			limit = a.Value
		case *ast.SelectorExpr:
			if id, ok := a.X.(*ast.Ident); ok && id.Name == "math" {
				switch a.Sel.Name {
				case "MaxInt", "MaxInt64":
					limit = "9223372036854775807"
				case "MaxInt32":
					limit = "2147483647"
				}
			}
			if id, ok := a.X.(*ast.Ident); ok && id.Name == "bufio" && a.Sel.Name == "MaxScanTokenSize" {
				limit = strconv.Itoa(bufio.MaxScanTokenSize)
			}
		}
		return true
	})
	return limit
}

func findFunc(f *ast.File, name string) *ast.FuncDecl {
	for _, d := range f.Decls {
		if fd, ok := d.(*ast.FuncDecl); ok && fd.Name.Name == name && fd.Body != nil {
			return fd
		}
	}
	return nil
}

// scanLimitDefs: for every line-reading site, the maximum line length its scanner
// delivers: bufio.MaxScanTokenSize for a plain bufio.NewScanner, the helper's
// configured maximum for utils.NewLineScanner.
// callOrderDef: the methods Operator.complete calls on its receiver, in source order: the
// order of the final textual passes is what the model's final_passes composes
func callOrderDef(repo string, fset *token.FileSet) []genDef {
	names := []string{}
	f, err := parser.ParseFile(fset, filepath.Join(repo, "regex/operators/assembler.go"), nil, 0)
	if err == nil {
		for _, d := range f.Decls {
			fd, ok := d.(*ast.FuncDecl)
			if !ok || fd.Body == nil || fd.Name.Name != "complete" || fd.Recv == nil || len(fd.Recv.List) == 0 || len(fd.Recv.List[0].Names) == 0 {
				continue
			}
			recv := fd.Recv.List[0].Names[0].Name
			ast.Inspect(fd.Body, func(n ast.Node) bool {
				if call, ok := n.(*ast.CallExpr); ok {
					if sel, ok := call.Fun.(*ast.SelectorExpr); ok {
						if id, ok := sel.X.(*ast.Ident); ok && id.Name == recv {
							names = append(names, sel.Sel.Name)
						}
					}
				}
				return true
			})
		}
	}
	parts := make([]string, len(names))
	for i, s := range names {
		parts[i] = coqStr(s)
	}
	return []genDef{{Name: "calls_regex_operators_assembler_Operator_complete", Module: "Consts", Type: "list str",
		Value: "[" + strings.Join(parts, ";\n    ") + "]", Comment: "regex/operators/assembler.go func Operator.complete, calls on the receiver in order: " + strings.Join(names, " ")}}
}

// selfUpdateDef: does internal/updater.Updater install through a configured updater value
// (method call x.UpdateTo, runs the validator) or through the package-level selfupdate.UpdateTo?
func selfUpdateDef(repo string, fset *token.FileSet) []genDef {
	val := "false"
	comment := "internal/updater/updater.go Updater: no UpdateTo call found"
	f, err := parser.ParseFile(fset, filepath.Join(repo, "internal/updater/updater.go"), nil, 0)
	if err == nil {
		if fn := findFunc(f, "Updater"); fn != nil {
			ast.Inspect(fn, func(n ast.Node) bool {
				call, ok := n.(*ast.CallExpr)
				if !ok {
					return true
				}
				sel, ok := call.Fun.(*ast.SelectorExpr)
				if !ok || sel.Sel.Name != "UpdateTo" {
					return true
				}
				if id, ok := sel.X.(*ast.Ident); ok && id.Name == "selfupdate" {
					val = "false"
					comment = "internal/updater/updater.go Updater: package-level selfupdate.UpdateTo (no validator)"
				} else {
					val = "true"
					comment = "internal/updater/updater.go Updater: UpdateTo on the configured updater (validator runs)"
				}
				return true
			})
		}
	}
	return []genDef{{Name: "self_update_validates", Module: "Consts", Type: "bool", Value: val, Comment: comment}}
}

func scanLimitDefs(repo string, fset *token.FileSet) []genDef {
	def := strconv.Itoa(bufio.MaxScanTokenSize)
	helper := def
	if f, err := parser.ParseFile(fset, filepath.Join(repo, "utils/utils.go"), nil, 0); err == nil {
		if fd := findFunc(f, "NewLineScanner"); fd != nil {
			if l := bufferLimit(fd); l != "" {
				helper = l
			}
		}
	}
	var out []genDef
	for _, s := range scanSites {
		limit := def
		how := "bufio.NewScanner (default limit)"
		if f, err := parser.ParseFile(fset, filepath.Join(repo, s.file), nil, 0); err == nil {
			if fd := findFunc(f, s.fn); fd != nil {
				usesHelper, usesPlain := false, false
				ast.Inspect(fd.Body, func(x ast.Node) bool {
					if c, ok := x.(*ast.CallExpr); ok {
						if sel, ok := c.Fun.(*ast.SelectorExpr); ok {
							if id, ok := sel.X.(*ast.Ident); ok {
								if id.Name == "utils" && sel.Sel.Name == "NewLineScanner" {
									usesHelper = true
								}
								if id.Name == "bufio" && sel.Sel.Name == "NewScanner" {
									usesPlain = true
								}
							}
						}
					}
					return true
				})
				if usesPlain {
					if l := bufferLimit(fd); l != "" {
						limit = l
						how = "bufio.NewScanner with Buffer"
					}
				} else if usesHelper {
					limit = helper
					how = "utils.NewLineScanner"
				}
			}
		}
		out = append(out, genDef{Name: "scan_limit_" + s.name, Module: "Consts", Type: "N", Value: limit, Comment: s.file + " " + s.fn + ": " + how})
	}
	return out
}
